(* Proofs/Distances.v — lemmas about the model of preflibtools/properties/distances.py (C20). *)
From Coq Require Import List Arith NArith ZArith Bool Lia Permutation ZifyBool.
From PrefVerif Require Import Lib.Val Model.Distances.
Import ListNotations.

(* ------------------------------------------------------------------------------------------ *)
(** * Finite sums over lists *)

Definition b2n (b : bool) : nat := if b then 1 else 0.
Definition sum_over {T} (l : list T) (f : T -> nat) : nat := list_sum (map f l).

Lemma sum_over_nil {T} (f : T -> nat) : sum_over [] f = 0.
Proof. reflexivity. Qed.

Lemma sum_over_cons {T} (f : T -> nat) x l : sum_over (x :: l) f = f x + sum_over l f.
Proof. reflexivity. Qed.

Lemma sum_over_app {T} (f : T -> nat) l m : sum_over (l ++ m) f = sum_over l f + sum_over m f.
Proof. unfold sum_over. rewrite map_app, list_sum_app. reflexivity. Qed.

Lemma sum_over_perm {T} (f : T -> nat) l m : Permutation l m -> sum_over l f = sum_over m f.
Proof.
  intros H. induction H; rewrite ?sum_over_cons in *; lia.
Qed.

Lemma sum_over_ext_in {T} (f g : T -> nat) l :
  (forall x, In x l -> f x = g x) -> sum_over l f = sum_over l g.
Proof. intros H. unfold sum_over. f_equal. apply map_ext_in. exact H. Qed.

Lemma sum_over_le_in {T} (f g : T -> nat) l :
  (forall x, In x l -> f x <= g x) -> sum_over l f <= sum_over l g.
Proof.
  induction l as [|x l IH]; intros H; [apply le_n|].
  rewrite !sum_over_cons. pose proof (H x (or_introl eq_refl)) as Hx.
  assert (sum_over l f <= sum_over l g) by (apply IH; intros y Hy; apply H; right; exact Hy).
  lia.
Qed.

Lemma sum_over_add {T} (f g : T -> nat) l :
  sum_over l (fun x => f x + g x) = sum_over l f + sum_over l g.
Proof. induction l as [|x l IH]; [reflexivity|]. rewrite !sum_over_cons, IH. lia. Qed.

Lemma sum_over_const0 {T} (l : list T) : sum_over l (fun _ => 0) = 0.
Proof. induction l as [|x l IH]; [reflexivity|]. rewrite sum_over_cons, IH. reflexivity. Qed.

Lemma sum_over_swap {T U} (f : T -> U -> nat) l m :
  sum_over l (fun a => sum_over m (fun b => f a b)) = sum_over m (fun b => sum_over l (fun a => f a b)).
Proof.
  induction l as [|x l IH].
  - cbn [sum_over map list_sum]. symmetry. apply sum_over_const0.
  - rewrite sum_over_cons, IH. rewrite <- sum_over_add. apply sum_over_ext_in.
    intros b _. rewrite sum_over_cons. reflexivity.
Qed.

Lemma sum_over_zero {T} (f : T -> nat) l : sum_over l f = 0 <-> (forall x, In x l -> f x = 0).
Proof.
  induction l as [|x l IH].
  - split; [intros _ y []|reflexivity].
  - rewrite sum_over_cons. split.
    + intros H y [<-|Hy]; [lia|]. apply IH; [lia|exact Hy].
    + intros H. rewrite (H x (or_introl eq_refl)). apply IH. intros y Hy. apply H. right. exact Hy.
Qed.

Lemma sum_over_map {T U} (g : T -> U) (f : U -> nat) l : sum_over (map g l) f = sum_over l (fun x => f (g x)).
Proof. unfold sum_over. rewrite map_map. reflexivity. Qed.

Lemma length_filter_sum {T} (p : T -> bool) l : length (filter p l) = sum_over l (fun x => b2n (p x)).
Proof.
  induction l as [|x l IH]; [reflexivity|].
  rewrite sum_over_cons. cbn [filter]. destruct (p x); cbn [length b2n]; rewrite IH; reflexivity.
Qed.

Lemma length_filter_list_prod {T U} (p : T * U -> bool) l m :
  length (filter p (list_prod l m)) = sum_over l (fun a => sum_over m (fun b => b2n (p (a, b)))).
Proof.
  induction l as [|x l IH]; [reflexivity|].
  cbn [list_prod]. rewrite filter_app, app_length, IH, sum_over_cons. f_equal.
  rewrite length_filter_sum, sum_over_map. reflexivity.
Qed.

Lemma filter_In_pos {T} (p : T -> bool) l y : In y l -> p y = true -> 1 <= length (filter p l).
Proof.
  intros Hy Hp. assert (H : In y (filter p l)) by (apply filter_In; split; assumption).
  destruct (filter p l); [destruct H|cbn; lia].
Qed.

(* ------------------------------------------------------------------------------------------ *)
(** * [index] / [idx]: position of the first occurrence *)

Lemma idx_nil x : idx [] x = 0.
Proof. reflexivity. Qed.

Lemma idx_cons x y ys : idx (y :: ys) x = if N.eqb x y then 0 else S (idx ys x).
Proof.
  unfold idx. cbn [index]. destruct (N.eqb x y); [reflexivity|].
  destruct (index x ys); reflexivity.
Qed.

Lemma idx_head x xs : idx (x :: xs) x = 0.
Proof. rewrite idx_cons, N.eqb_refl. reflexivity. Qed.

Lemma idx_tail x y ys : x <> y -> idx (y :: ys) x = S (idx ys x).
Proof. intros H. rewrite idx_cons. destruct (N.eqb_spec x y); [contradiction|reflexivity]. Qed.

Lemma idx_le l x : idx l x <= length l.
Proof.
  induction l as [|y ys IH]; [apply le_n|].
  rewrite idx_cons. destruct (N.eqb x y); cbn [length]; lia.
Qed.

Lemma idx_lt_iff l x : idx l x < length l <-> In x l.
Proof.
  induction l as [|y ys IH].
  - cbn. split; [lia|intros []].
  - rewrite idx_cons. destruct (N.eqb_spec x y) as [->|Hne]; cbn [length In].
    + split; [auto|lia].
    + rewrite <- Nat.succ_lt_mono, IH. split; [auto|]. intros [H|H]; [congruence|exact H].
Qed.

Lemma idx_notin l x : ~ In x l -> idx l x = length l.
Proof. intros H. pose proof (idx_le l x). rewrite <- idx_lt_iff in H. lia. Qed.

Lemma nth_idx l x d : In x l -> nth (idx l x) l d = x.
Proof.
  induction l as [|y ys IH]; [intros []|].
  intros H. rewrite idx_cons. destruct (N.eqb_spec x y) as [->|Hne]; [reflexivity|].
  cbn [nth]. apply IH. destruct H as [H|H]; [congruence|exact H].
Qed.

Lemma idx_nth l i d : NoDup l -> i < length l -> idx l (nth i l d) = i.
Proof.
  intros Hnd. revert i. induction Hnd as [|y ys Hy Hnd IH]; intros i Hi; [cbn in Hi; lia|].
  destruct i as [|i]; cbn [nth]; [apply idx_head|].
  cbn [length] in Hi. rewrite idx_tail; [rewrite IH by lia; reflexivity|].
  intros <-. apply Hy, nth_In. lia.
Qed.

Lemma idx_inj l x y : In x l -> idx l x = idx l y -> x = y.
Proof.
  intros Hx E. assert (Hy : In y l) by (apply idx_lt_iff; rewrite <- E; apply idx_lt_iff; exact Hx).
  rewrite <- (nth_idx l x 0%N Hx), <- (nth_idx l y 0%N Hy), E. reflexivity.
Qed.

Lemma map_idx_seq l : NoDup l -> map (idx l) l = seq 0 (length l).
Proof.
  induction 1 as [|x xs Hx Hnd IH]; [reflexivity|].
  cbn [map length seq]. rewrite idx_head. f_equal.
  rewrite <- seq_shift, <- IH, map_map. apply map_ext_in.
  intros y Hy. apply idx_tail. intros ->. contradiction.
Qed.

Lemma sum_over_idx l (g : nat -> nat) :
  NoDup l -> sum_over l (fun x => g (idx l x)) = sum_over (seq 0 (length l)) g.
Proof. intros H. rewrite <- (map_idx_seq l H), sum_over_map. reflexivity. Qed.

Lemma index_None_iff x l : index x l = None <-> ~ In x l.
Proof.
  induction l as [|y ys IH]; [cbn; tauto|].
  cbn [index In]. destruct (N.eqb_spec x y) as [->|Hne].
  - split; [discriminate|]. intros H. exfalso. apply H. left. reflexivity.
  - destruct (index x ys); cbn [option_map].
    + split; [discriminate|]. intros H. exfalso. destruct IH as [_ IH].
      assert (E : @Some nat n = None) by (apply IH; intros Hin; apply H; right; exact Hin). discriminate.
    + split; [|reflexivity]. intros _ [H|H]; [congruence|]. apply IH in H; [exact H|reflexivity].
Qed.

Lemma all_in_iff o1 o2 : all_in o1 o2 = true <-> incl o1 o2.
Proof.
  unfold all_in. rewrite forallb_forall. unfold incl. split; intros H x Hx; specialize (H x Hx).
  - destruct (index x o2) eqn:E; [|discriminate].
    destruct (in_dec N.eq_dec x o2) as [Hin|Hnin]; [exact Hin|].
    apply index_None_iff in Hnin. congruence.
  - destruct (index x o2) eqn:E; [reflexivity|]. apply index_None_iff in E. contradiction.
Qed.

Lemma all_in_perm o1 o2 : Permutation o1 o2 -> all_in o1 o2 = true.
Proof. intros H. apply all_in_iff. intros x Hx. eapply Permutation_in; eassumption. Qed.

(* ------------------------------------------------------------------------------------------ *)
(** * Kendall tau *)

(* (a,b) is a discordant ordered pair: a before b in o1 and b before a in o2 *)
Definition disc (o1 o2 : list N) (a b : N) : bool :=
  (idx o1 a <? idx o1 b) && (idx o2 b <? idx o2 a).

(* independent counting definition: the number of ordered pairs (a,b) of alternatives of o1
   with a before b in o1 and b before a in o2 *)
Definition discordant_pairs (o1 o2 : list N) : nat :=
  length (filter (fun ab => (idx o1 (fst ab) <? idx o1 (snd ab)) && (idx o2 (snd ab) <? idx o2 (fst ab)))
                 (list_prod o1 o1)).

Definition K (U o1 o2 : list N) : nat :=
  sum_over U (fun a => sum_over U (fun b => b2n (disc o1 o2 a b))).

Lemma discordant_pairs_K o1 o2 : discordant_pairs o1 o2 = K o1 o1 o2.
Proof. unfold discordant_pairs, K. rewrite length_filter_list_prod. reflexivity. Qed.

Lemma disc_head_l x xs o2 b : b <> x -> disc (x :: xs) o2 x b = (idx o2 b <? idx o2 x).
Proof. intros H. unfold disc. rewrite idx_head, idx_tail by exact H. reflexivity. Qed.

Lemma disc_head_r x xs o2 a : disc (x :: xs) o2 a x = false.
Proof. unfold disc. rewrite idx_head. reflexivity. Qed.

Lemma disc_tail x xs o2 a b : a <> x -> b <> x -> disc (x :: xs) o2 a b = disc xs o2 a b.
Proof. intros Ha Hb. unfold disc. rewrite !idx_tail by assumption. reflexivity. Qed.

Lemma K_cons x xs o2 : ~ In x xs ->
  K (x :: xs) (x :: xs) o2 = length (filter (fun y => idx o2 y <? idx o2 x) xs) + K xs xs o2.
Proof.
  intros Hx. unfold K. rewrite sum_over_cons. f_equal.
  - rewrite sum_over_cons, disc_head_r. cbn [b2n plus]. rewrite length_filter_sum.
    apply sum_over_ext_in. intros b Hb. rewrite disc_head_l; [reflexivity|].
    intros ->. contradiction.
  - apply sum_over_ext_in. intros a Ha. rewrite sum_over_cons, disc_head_r. cbn [b2n plus].
    apply sum_over_ext_in. intros b Hb. rewrite disc_tail; [reflexivity| |]; intros ->; contradiction.
Qed.

Lemma kt_count_K o1 o2 : NoDup o1 -> kt_count o2 o1 = K o1 o1 o2.
Proof.
  induction 1 as [|x xs Hx Hnd IH]; [reflexivity|].
  rewrite K_cons by exact Hx. cbn [kt_count]. rewrite IH. reflexivity.
Qed.

Lemma K_perm U V o1 o2 : Permutation U V -> K U o1 o2 = K V o1 o2.
Proof.
  intros H. unfold K. rewrite (sum_over_perm _ U V H).
  apply sum_over_ext_in. intros a _. apply sum_over_perm. exact H.
Qed.

Lemma K_swap U o1 o2 : K U o2 o1 = K U o1 o2.
Proof.
  unfold K. rewrite sum_over_swap. apply sum_over_ext_in. intros a _.
  apply sum_over_ext_in. intros b _. unfold disc. rewrite andb_comm. reflexivity.
Qed.

Lemma kt_count_sym o1 o2 : NoDup o1 -> Permutation o1 o2 -> kt_count o2 o1 = kt_count o1 o2.
Proof.
  intros Hnd Hp. assert (Hnd2 : NoDup o2) by (eapply Permutation_NoDup; eassumption).
  rewrite !kt_count_K by assumption.
  rewrite (K_perm o2 o1) by (symmetry; exact Hp). symmetry. apply K_swap.
Qed.

Lemma disc_triangle o1 o2 o3 a b : In a o2 ->
  b2n (disc o1 o3 a b) <= b2n (disc o1 o2 a b) + b2n (disc o2 o3 a b).
Proof.
  intros Ha. unfold disc.
  destruct (Nat.eq_dec (idx o2 a) (idx o2 b)) as [E|NE].
  - apply idx_inj in E; [|exact Ha]. subst b. rewrite Nat.ltb_irrefl. cbn. lia.
  - destruct (Nat.ltb_spec (idx o1 a) (idx o1 b)); destruct (Nat.ltb_spec (idx o3 b) (idx o3 a));
      destruct (Nat.ltb_spec (idx o2 b) (idx o2 a)); destruct (Nat.ltb_spec (idx o2 a) (idx o2 b));
      cbn; lia.
Qed.

Lemma K_triangle U o1 o2 o3 : incl U o2 -> K U o1 o3 <= K U o1 o2 + K U o2 o3.
Proof.
  intros Hin.
  assert (E : K U o1 o2 + K U o2 o3 =
              sum_over U (fun a => sum_over U (fun b => b2n (disc o1 o2 a b) + b2n (disc o2 o3 a b)))).
  { unfold K. rewrite <- sum_over_add. apply sum_over_ext_in. intros a _.
    rewrite <- sum_over_add. reflexivity. }
  rewrite E. unfold K. apply sum_over_le_in. intros a Ha. apply sum_over_le_in. intros b _.
  apply disc_triangle. apply Hin. exact Ha.
Qed.

Lemma kt_count_triangle a b c : NoDup a -> Permutation a b -> Permutation b c ->
  kt_count c a <= kt_count b a + kt_count c b.
Proof.
  intros Hnd Hab Hbc. assert (Hndb : NoDup b) by (eapply Permutation_NoDup; eassumption).
  rewrite !kt_count_K by assumption.
  rewrite (K_perm b a) by (symmetry; exact Hab).
  apply K_triangle. intros x Hx. eapply Permutation_in; eassumption.
Qed.

Lemma filter_false {T} (l : list T) : filter (fun _ => false) l = [].
Proof. induction l as [|x l IH]; [reflexivity|exact IH]. Qed.

Lemma kt_count_tail x ys xs : ~ In x xs -> kt_count (x :: ys) xs = kt_count ys xs.
Proof.
  induction xs as [|z zs IH]; intros Hx; [reflexivity|].
  cbn [kt_count]. rewrite IH by (intros H; apply Hx; right; exact H). f_equal. f_equal.
  apply filter_ext_in. intros y Hy.
  rewrite !idx_tail; [reflexivity| |].
  - intros ->. apply Hx. left. reflexivity.
  - intros ->. apply Hx. right. exact Hy.
Qed.

Lemma kt_count_refl o : NoDup o -> kt_count o o = 0.
Proof.
  induction 1 as [|x xs Hx Hnd IH]; [reflexivity|].
  cbn [kt_count]. rewrite kt_count_tail by exact Hx. rewrite IH.
  rewrite (filter_ext _ (fun _ => false)), filter_false; [reflexivity|].
  intros y. rewrite idx_head. reflexivity.
Qed.

Lemma kt_count_zero o1 : forall o2, NoDup o1 -> Permutation o1 o2 -> kt_count o2 o1 = 0 -> o1 = o2.
Proof.
  induction o1 as [|x xs IH]; intros o2 Hnd Hp Hz.
  - apply Permutation_nil in Hp. subst. reflexivity.
  - destruct o2 as [|y ys]; [symmetry in Hp; apply Permutation_nil in Hp; discriminate|].
    inversion Hnd as [|x' xs' Hx Hnd']; subst.
    cbn [kt_count] in Hz.
    destruct (N.eq_dec x y) as [->|Hne].
    + f_equal. apply IH; [exact Hnd'|eapply Permutation_cons_inv; exact Hp|].
      rewrite kt_count_tail in Hz by exact Hx. lia.
    + exfalso.
      assert (Hy : In y xs).
      { assert (H : In y (x :: xs)) by (eapply Permutation_in; [symmetry; exact Hp|left; reflexivity]).
        destruct H as [H|H]; [congruence|exact H]. }
      assert (Hp1 : (idx (y :: ys) y <? idx (y :: ys) x) = true)
        by (rewrite idx_head, idx_tail by exact Hne; reflexivity).
      pose proof (filter_In_pos (fun z => idx (y :: ys) z <? idx (y :: ys) x) xs y Hy Hp1) as Hpos. lia.
Qed.

Lemma kendall_tau_ok o1 o2 : length o1 = length o2 -> incl o1 o2 -> kendall_tau o1 o2 = Ok (kt_count o2 o1).
Proof.
  intros Hl Hin. unfold kendall_tau.
  rewrite (proj2 (Nat.eqb_eq _ _) Hl). cbn [negb].
  rewrite (proj2 (all_in_iff _ _) Hin). cbn [negb]. rewrite andb_false_r. reflexivity.
Qed.

Lemma kendall_tau_perm o1 o2 : Permutation o1 o2 -> kendall_tau o1 o2 = Ok (kt_count o2 o1).
Proof.
  intros Hp. apply kendall_tau_ok; [apply Permutation_length; exact Hp|].
  intros x Hx. eapply Permutation_in; eassumption.
Qed.

Lemma kt_spec o1 o2 : NoDup o1 -> Permutation o1 o2 -> kendall_tau o1 o2 = Ok (discordant_pairs o1 o2).
Proof.
  intros Hnd Hp. rewrite kendall_tau_perm by exact Hp.
  rewrite kt_count_K by exact Hnd. rewrite discordant_pairs_K. reflexivity.
Qed.

Lemma kt_zero_iff o1 o2 : NoDup o1 -> Permutation o1 o2 -> (kendall_tau o1 o2 = Ok 0 <-> o1 = o2).
Proof.
  intros Hnd Hp. rewrite kendall_tau_perm by exact Hp. split.
  - intros H. apply kt_count_zero; [exact Hnd|exact Hp|]. congruence.
  - intros <-. rewrite kt_count_refl by exact Hnd. reflexivity.
Qed.

Lemma kt_sym o1 o2 : NoDup o1 -> Permutation o1 o2 -> kendall_tau o1 o2 = kendall_tau o2 o1.
Proof.
  intros Hnd Hp. rewrite kendall_tau_perm by exact Hp.
  rewrite kendall_tau_perm by (symmetry; exact Hp).
  rewrite kt_count_sym by assumption. reflexivity.
Qed.

Lemma kt_triangle a b c : NoDup a -> Permutation a b -> Permutation b c ->
  exists dab dbc dac, kendall_tau a b = Ok dab /\ kendall_tau b c = Ok dbc /\ kendall_tau a c = Ok dac /\
                      dac <= dab + dbc.
Proof.
  intros Hnd Hab Hbc.
  exists (kt_count b a), (kt_count c b), (kt_count c a).
  repeat split; try (apply kendall_tau_perm; assumption).
  - apply kendall_tau_perm. eapply Permutation_trans; eassumption.
  - apply kt_count_triangle; assumption.
Qed.

Lemma kt_triangle_get a b c : NoDup a -> Permutation a b -> Permutation b c ->
  get 0 (kendall_tau a c) <= get 0 (kendall_tau a b) + get 0 (kendall_tau b c).
Proof.
  intros Hnd Hab Hbc. destruct (kt_triangle a b c Hnd Hab Hbc) as (x & y & z & -> & -> & -> & H). exact H.
Qed.

Lemma kt_length_mismatch o1 o2 : length o1 <> length o2 -> kendall_tau o1 o2 = Err ValueErr.
Proof.
  intros H. unfold kendall_tau.
  destruct (Nat.eqb_spec (length o1) (length o2)); [contradiction|reflexivity].
Qed.

(* ------------------------------------------------------------------------------------------ *)
(** * Spearman footrule *)

Lemma absdiff_sym a b : absdiff a b = absdiff b a.
Proof. unfold absdiff. lia. Qed.

Lemma absdiff_zero a b : absdiff a b = 0 <-> a = b.
Proof. unfold absdiff. lia. Qed.

(* absdiff is |a - b| *)
Lemma absdiff_spec a b : Z.of_nat (absdiff a b) = Z.abs (Z.of_nat a - Z.of_nat b).
Proof. unfold absdiff. lia. Qed.

Lemma footrule_from_sum o2 xs : NoDup xs -> forall j,
  footrule_from o2 j xs = sum_over xs (fun x => absdiff (j + idx xs x) (idx o2 x)).
Proof.
  induction 1 as [|x xs Hx Hnd IH]; intros j; [reflexivity|].
  cbn [footrule_from]. rewrite sum_over_cons, idx_head, Nat.add_0_r, IH. f_equal.
  apply sum_over_ext_in. intros y Hy. rewrite (idx_tail y x) by (intros ->; contradiction).
  f_equal. lia.
Qed.

(* the footrule numerator is  sum over alternatives x of |pos1 x - pos2 x| *)
Lemma footrule_num_sum o1 o2 : NoDup o1 ->
  footrule_num o1 o2 = sum_over o1 (fun x => absdiff (idx o1 x) (idx o2 x)).
Proof. intros H. unfold footrule_num. rewrite footrule_from_sum by exact H. reflexivity. Qed.

Lemma footrule_num_sym o1 o2 : NoDup o1 -> Permutation o1 o2 -> footrule_num o1 o2 = footrule_num o2 o1.
Proof.
  intros Hnd Hp. assert (Hnd2 : NoDup o2) by (eapply Permutation_NoDup; eassumption).
  rewrite !footrule_num_sum by assumption. rewrite (sum_over_perm _ o1 o2 Hp).
  apply sum_over_ext_in. intros x _. apply absdiff_sym.
Qed.

Lemma footrule_num_refl o : NoDup o -> footrule_num o o = 0.
Proof.
  intros H. rewrite footrule_num_sum by exact H. apply sum_over_zero. intros x _.
  apply absdiff_zero. reflexivity.
Qed.

Lemma same_idx_eq o1 o2 : NoDup o1 -> Permutation o1 o2 ->
  (forall x, In x o1 -> idx o1 x = idx o2 x) -> o1 = o2.
Proof.
  intros Hnd Hp H. apply (nth_ext o1 o2 0%N 0%N); [apply Permutation_length; exact Hp|].
  intros i Hi.
  assert (Hin : In (nth i o1 0%N) o1) by (apply nth_In; exact Hi).
  pose proof (H _ Hin) as E. rewrite idx_nth in E by assumption.
  rewrite E at 2. symmetry. apply nth_idx. eapply Permutation_in; eassumption.
Qed.

Lemma footrule_num_zero o1 o2 : NoDup o1 -> Permutation o1 o2 -> footrule_num o1 o2 = 0 -> o1 = o2.
Proof.
  intros Hnd Hp Hz. rewrite footrule_num_sum in Hz by exact Hnd.
  apply same_idx_eq; [exact Hnd|exact Hp|].
  intros x Hx. apply absdiff_zero. revert x Hx. apply sum_over_zero. exact Hz.
Qed.

(* the bound: |a - b| is at most the sum of the distances of a and b to the centre (n-1)/2;
   everything is doubled to stay in the integers: |2a+1-n| + |2b+1-n| >= 2|a-b| *)
Definition T (n : nat) : nat := sum_over (seq 0 n) (fun i => absdiff (2 * i + 1) n).

Lemma absdiff_centre a b n : absdiff a b + absdiff a b <= absdiff (2 * a + 1) n + absdiff (2 * b + 1) n.
Proof. unfold absdiff. lia. Qed.

Lemma T_SS n : T (S (S n)) = T n + 2 * n + 2.
Proof.
  unfold T. change (seq 0 (S (S n))) with (0 :: seq 1 (S n)).
  rewrite sum_over_cons, seq_S, sum_over_app, <- seq_shift, sum_over_map.
  rewrite sum_over_cons, sum_over_nil.
  rewrite (sum_over_ext_in (fun x => absdiff (2 * S x + 1) (S (S n))) (fun i => absdiff (2 * i + 1) n)).
  - unfold absdiff. lia.
  - intros i _. unfold absdiff. lia.
Qed.

Lemma T_bound n : 2 * T n <= n * n /\ 2 * T (S n) <= S n * S n.
Proof.
  induction n as [|n [A B]].
  - split; vm_compute; lia.
  - split; [exact B|]. rewrite T_SS. lia.
Qed.

Lemma T_le_half n : T n <= (n * n) / 2.
Proof. apply Nat.div_le_lower_bound; [lia|]. apply T_bound. Qed.

Lemma footrule_num_le_T o1 o2 : NoDup o1 -> Permutation o1 o2 -> footrule_num o1 o2 <= T (length o1).
Proof.
  intros Hnd Hp. assert (Hnd2 : NoDup o2) by (eapply Permutation_NoDup; eassumption).
  rewrite footrule_num_sum by exact Hnd.
  set (n := length o1). set (g := fun i => absdiff (2 * i + 1) n).
  assert (H2 : sum_over o1 (fun x => absdiff (idx o1 x) (idx o2 x) + absdiff (idx o1 x) (idx o2 x))
               <= sum_over o1 (fun x => g (idx o1 x) + g (idx o2 x))).
  { apply sum_over_le_in. intros x _. apply absdiff_centre. }
  rewrite !sum_over_add in H2.
  rewrite (sum_over_perm (fun x => g (idx o2 x)) o1 o2 Hp) in H2.
  rewrite !sum_over_idx in H2 by assumption.
  rewrite <- (Permutation_length Hp) in H2. fold n in H2.
  change (sum_over (seq 0 n) g) with (T n) in H2. lia.
Qed.

Lemma footrule_bound o1 o2 : NoDup o1 -> Permutation o1 o2 ->
  footrule_num o1 o2 <= (length o1 * length o1) / 2.
Proof.
  intros Hnd Hp. eapply Nat.le_trans; [apply footrule_num_le_T; assumption|apply T_le_half].
Qed.

(* the bound is attained by the reversed ranking, so floor(n^2/2) is the right normaliser *)
Lemma footrule_den_pos o : 2 <= length o -> 0 < footrule_den o.
Proof.
  intros H. unfold footrule_den. apply Nat.div_str_pos. split; [lia|]. nia.
Qed.

Lemma spearman_footrule_perm o1 o2 : Permutation o1 o2 ->
  spearman_footrule o1 o2 = Ok (footrule_num o1 o2, footrule_den o1).
Proof.
  intros Hp. unfold spearman_footrule.
  rewrite (proj2 (Nat.eqb_eq _ _) (Permutation_length Hp)). cbn [negb].
  rewrite all_in_perm by exact Hp. reflexivity.
Qed.

Lemma footrule_den_perm o1 o2 : Permutation o1 o2 -> footrule_den o1 = footrule_den o2.
Proof. intros Hp. unfold footrule_den. rewrite (Permutation_length Hp). reflexivity. Qed.

Lemma footrule_sym o1 o2 : NoDup o1 -> Permutation o1 o2 -> spearman_footrule o1 o2 = spearman_footrule o2 o1.
Proof.
  intros Hnd Hp. rewrite spearman_footrule_perm by exact Hp.
  rewrite spearman_footrule_perm by (symmetry; exact Hp).
  rewrite footrule_num_sym by assumption. rewrite (footrule_den_perm o1 o2 Hp). reflexivity.
Qed.

Lemma footrule_zero_iff o1 o2 : NoDup o1 -> Permutation o1 o2 ->
  (exists den, spearman_footrule o1 o2 = Ok (0, den)) <-> o1 = o2.
Proof.
  intros Hnd Hp. rewrite spearman_footrule_perm by exact Hp. split.
  - intros [den H]. apply footrule_num_zero; [exact Hnd|exact Hp|]. congruence.
  - intros <-. exists (footrule_den o1). rewrite footrule_num_refl by exact Hnd. reflexivity.
Qed.

Lemma footrule_range o1 o2 : NoDup o1 -> Permutation o1 o2 -> 2 <= length o1 ->
  exists num den, spearman_footrule o1 o2 = Ok (num, den) /\ 0 < den /\ num <= den.
Proof.
  intros Hnd Hp Hl. exists (footrule_num o1 o2), (footrule_den o1).
  split; [apply spearman_footrule_perm; exact Hp|].
  split; [apply footrule_den_pos; exact Hl|]. apply footrule_bound; assumption.
Qed.

Lemma footrule_length_mismatch o1 o2 : length o1 <> length o2 -> spearman_footrule o1 o2 = Err ValueErr.
Proof.
  intros H. unfold spearman_footrule.
  destruct (Nat.eqb_spec (length o1) (length o2)); [contradiction|reflexivity].
Qed.

(* ------------------------------------------------------------------------------------------ *)
(** * Sertel *)

Lemma first_diff_sym o1 : forall o2, first_diff o1 o2 = first_diff o2 o1.
Proof.
  induction o1 as [|x xs IH]; intros [|y ys]; try reflexivity.
  cbn [first_diff]. rewrite (N.eqb_sym y x), IH. reflexivity.
Qed.

Lemma first_diff_refl o : first_diff o o = None.
Proof. induction o as [|x xs IH]; [reflexivity|]. cbn [first_diff]. rewrite N.eqb_refl, IH. reflexivity. Qed.

Lemma first_diff_None o1 : forall o2, length o1 = length o2 -> first_diff o1 o2 = None -> o1 = o2.
Proof.
  induction o1 as [|x xs IH]; intros [|y ys] Hl H; try discriminate; [reflexivity|].
  cbn [first_diff] in H. destruct (N.eqb_spec x y) as [->|Hne]; [|discriminate].
  f_equal. apply IH; [cbn in Hl; lia|]. destruct (first_diff xs ys); [discriminate|reflexivity].
Qed.

(* meaning of [first_diff]: the two lists agree before position j and differ at j *)
Lemma first_diff_Some o1 : forall o2 j, first_diff o1 o2 = Some j ->
  j < length o1 /\ j < length o2 /\ firstn j o1 = firstn j o2 /\ nth j o1 0%N <> nth j o2 0%N.
Proof.
  induction o1 as [|x xs IH]; intros [|y ys] j H; try discriminate.
  cbn [first_diff] in H. destruct (N.eqb_spec x y) as [->|Hne].
  - destruct (first_diff xs ys) as [j'|] eqn:E; [|discriminate].
    injection H as <-. destruct (IH ys j' E) as (A & B & C & Dn).
    cbn [length firstn nth]. split; [lia|]. split; [lia|]. split; [f_equal; exact C|exact Dn].
  - injection H as <-. cbn [length firstn nth]. split; [lia|]. split; [lia|]. split; [reflexivity|exact Hne].
Qed.

Lemma first_diff_last o1 : forall o2 j, first_diff o1 o2 = Some j -> S j = length o1 ->
  ~ Permutation o1 o2.
Proof.
  induction o1 as [|x xs IH]; intros [|y ys] j H Hl Hp; try discriminate.
  cbn [first_diff] in H. destruct (N.eqb_spec x y) as [->|Hne].
  - destruct (first_diff xs ys) as [j'|] eqn:E; [|discriminate].
    injection H as <-. apply (IH ys j' E); [cbn in Hl; lia|].
    eapply Permutation_cons_inv; exact Hp.
  - injection H as <-. destruct xs; [|discriminate].
    pose proof (Permutation_length Hp) as Hlen. destruct ys; [|discriminate].
    apply Permutation_length_1 in Hp. contradiction.
Qed.

Lemma sertel_j_sym o1 o2 : length o1 = length o2 -> sertel_j o1 o2 = sertel_j o2 o1.
Proof. intros Hl. unfold sertel_j. rewrite (first_diff_sym o1 o2), Hl. reflexivity. Qed.

(* the subtraction len - 1 - j of the code never goes below 0 *)
Lemma sertel_j_le o1 o2 : sertel_j o1 o2 <= length o1 - 1.
Proof.
  unfold sertel_j. destruct (first_diff o1 o2) as [j|] eqn:E; [|apply le_n].
  apply first_diff_Some in E. lia.
Qed.

Lemma sertel_ok o1 o2 : length o1 = length o2 ->
  sertel o1 o2 = Ok (length o1 - 1 - sertel_j o1 o2, length o1 - 1).
Proof. intros Hl. unfold sertel. rewrite (proj2 (Nat.eqb_eq _ _) Hl). reflexivity. Qed.

Lemma sertel_length_mismatch o1 o2 : length o1 <> length o2 -> sertel o1 o2 = Err ValueErr.
Proof.
  intros H. unfold sertel.
  destruct (Nat.eqb_spec (length o1) (length o2)); [contradiction|reflexivity].
Qed.

(* holds for all pairs of lists, also of different length *)
Lemma sertel_sym o1 o2 : sertel o1 o2 = sertel o2 o1.
Proof.
  destruct (Nat.eq_dec (length o1) (length o2)) as [Hl|Hl].
  - rewrite (sertel_ok o1 o2 Hl), (sertel_ok o2 o1 (eq_sym Hl)).
    rewrite (sertel_j_sym o1 o2 Hl), Hl. reflexivity.
  - rewrite sertel_length_mismatch by exact Hl.
    rewrite sertel_length_mismatch by (intros E; apply Hl; symmetry; exact E). reflexivity.
Qed.

Lemma sertel_zero_iff o1 o2 : Permutation o1 o2 ->
  ((exists den, sertel o1 o2 = Ok (0, den)) <-> o1 = o2).
Proof.
  intros Hp. pose proof (Permutation_length Hp) as Hl. rewrite (sertel_ok o1 o2 Hl). split.
  - intros [den H]. injection H as Hz _. unfold sertel_j in Hz.
    destruct (first_diff o1 o2) as [j|] eqn:E.
    + exfalso. pose proof (first_diff_Some _ _ _ E) as (A & _).
      apply (first_diff_last o1 o2 j E); [lia|exact Hp].
    + apply first_diff_None; assumption.
  - intros <-. exists (length o1 - 1). unfold sertel_j. rewrite first_diff_refl, Nat.sub_diag. reflexivity.
Qed.

Lemma sertel_range o1 o2 : length o1 = length o2 -> 2 <= length o1 ->
  exists num den, sertel o1 o2 = Ok (num, den) /\ 0 < den /\ num <= den.
Proof.
  intros Hl H2. exists (length o1 - 1 - sertel_j o1 o2), (length o1 - 1).
  split; [apply sertel_ok; exact Hl|]. lia.
Qed.

(* ------------------------------------------------------------------------------------------ *)
(** * distance_matrix and expand_profile *)

Lemma nth_map_lt {X Y} (f : X -> Y) l i d d' : i < length l -> nth i (map f l) d' = f (nth i l d).
Proof.
  intros H. rewrite (nth_indep _ d' (f d)) by (rewrite map_length; exact H). apply map_nth.
Qed.

Lemma nth_combine_seq {X} (l : list X) i d : i < length l ->
  nth i (combine (seq 0 (length l)) l) (0, d) = (i, nth i l d).
Proof.
  intros H. rewrite combine_nth by apply seq_length. rewrite seq_nth by exact H. reflexivity.
Qed.

Lemma combine_seq_length {X} (l : list X) : length (combine (seq 0 (length l)) l) = length l.
Proof. rewrite combine_length, seq_length. apply Nat.min_id. Qed.

Section DM.
  Context {T D : Type} (zero : D) (d : T -> T -> D).

  Lemma dm_length profile : length (distance_matrix zero d profile) = length profile.
  Proof. unfold distance_matrix. rewrite map_length. apply combine_seq_length. Qed.

  Lemma dm_row profile i dflt : i < length profile ->
    nth i (distance_matrix zero d profile) [] =
    map (fun jq => if i =? fst jq then zero else d (nth i profile dflt) (snd jq))
        (combine (seq 0 (length profile)) profile).
  Proof.
    intros Hi. unfold distance_matrix.
    rewrite (nth_map_lt _ _ i (0, dflt)) by (rewrite combine_seq_length; exact Hi).
    rewrite nth_combine_seq by exact Hi. reflexivity.
  Qed.

  Lemma dm_row_length profile i : i < length profile ->
    length (nth i (distance_matrix zero d profile) []) = length profile.
  Proof.
    intros Hi. destruct profile as [|t0 ts]; [cbn in Hi; lia|].
    rewrite (dm_row _ i t0 Hi), map_length. apply combine_seq_length.
  Qed.

  Lemma dm_entry profile i j dflt : i < length profile -> j < length profile ->
    nth j (nth i (distance_matrix zero d profile) []) zero =
    if i =? j then zero else d (nth i profile dflt) (nth j profile dflt).
  Proof.
    intros Hi Hj. rewrite (dm_row _ i dflt Hi).
    rewrite (nth_map_lt _ _ j (0, dflt)) by (rewrite combine_seq_length; exact Hj).
    rewrite nth_combine_seq by exact Hj. reflexivity.
  Qed.

  Lemma dm_sym profile i j :
    (forall a b, In a profile -> In b profile -> d a b = d b a) ->
    i < length profile -> j < length profile ->
    nth j (nth i (distance_matrix zero d profile) []) zero =
    nth i (nth j (distance_matrix zero d profile) []) zero.
  Proof.
    intros Hd Hi Hj. destruct profile as [|t0 ts] eqn:Ep; [cbn in Hi; lia|]. rewrite <- Ep in *.
    rewrite (dm_entry _ i j t0 Hi Hj), (dm_entry _ j i t0 Hj Hi), (Nat.eqb_sym j i).
    destruct (i =? j); [reflexivity|]. apply Hd; apply nth_In; assumption.
  Qed.

  Lemma dm_spec profile :
    length (distance_matrix zero d profile) = length profile /\
    (forall i, i < length profile -> length (nth i (distance_matrix zero d profile) []) = length profile) /\
    (forall i, i < length profile -> nth i (nth i (distance_matrix zero d profile) []) zero = zero) /\
    (forall i j dflt, i < length profile -> j < length profile -> i <> j ->
       nth j (nth i (distance_matrix zero d profile) []) zero = d (nth i profile dflt) (nth j profile dflt)) /\
    ((forall a b, In a profile -> In b profile -> d a b = d b a) ->
     forall i j, i < length profile -> j < length profile ->
       nth j (nth i (distance_matrix zero d profile) []) zero =
       nth i (nth j (distance_matrix zero d profile) []) zero).
  Proof.
    split; [apply dm_length|]. split; [apply dm_row_length|]. split; [|split].
    - intros i Hi. destruct profile as [|t0 ts] eqn:Ep; [cbn in Hi; lia|]. rewrite <- Ep in *.
      rewrite (dm_entry _ i i t0 Hi Hi), Nat.eqb_refl. reflexivity.
    - intros i j dflt Hi Hj Hne. rewrite (dm_entry _ i j dflt Hi Hj).
      destruct (Nat.eqb_spec i j); [contradiction|reflexivity].
    - intros Hd i j. apply dm_sym. exact Hd.
  Qed.
End DM.

Section Expand.
  Context {T : Type} (dec : forall x y : T, {x = y} + {x <> y}).

  Lemma expand_cons (o : T) k (p : list (T * N)) :
    expand_profile ((o, k) :: p) = repeat o (N.to_nat k) ++ expand_profile p.
  Proof. reflexivity. Qed.

  Lemma expand_length (p : list (T * N)) :
    length (expand_profile p) = list_sum (map (fun om => N.to_nat (snd om)) p).
  Proof.
    induction p as [|[o k] p IH]; [reflexivity|].
    rewrite expand_cons, app_length, repeat_length, IH. reflexivity.
  Qed.

  Lemma expand_In (p : list (T * N)) o :
    In o (expand_profile p) <-> exists k, In (o, k) p /\ (0 < k)%N.
  Proof.
    induction p as [|[o' k'] p IH].
    - cbn. split; [intros []|intros (k & [] & _)].
    - rewrite expand_cons, in_app_iff, IH. split.
      + intros [H|(k & Hk & Hpos)].
        * pose proof (repeat_spec _ _ _ H) as ->. exists k'. split; [left; reflexivity|].
          destruct (N.to_nat k') eqn:E; [destruct H|lia].
        * exists k. split; [right; exact Hk|exact Hpos].
      + intros (k & [Hk|Hk] & Hpos).
        * injection Hk as -> ->. left. destruct (N.to_nat k) eqn:E; [lia|]. left. reflexivity.
        * right. exists k. split; assumption.
  Qed.

  Lemma expand_count_notin (p : list (T * N)) o :
    ~ In o (map fst p) -> count_occ dec (expand_profile p) o = 0.
  Proof.
    induction p as [|[o' k'] p IH]; intros H; [reflexivity|].
    rewrite expand_cons, count_occ_app. cbn [map fst In] in H.
    rewrite count_occ_repeat_neq by (intros ->; apply H; left; reflexivity).
    apply IH. intros Hin. apply H. right. exact Hin.
  Qed.

  (* each order occurs in the full profile exactly as many times as its multiplicity *)
  Lemma expand_count (p : list (T * N)) o k :
    NoDup (map fst p) -> In (o, k) p -> count_occ dec (expand_profile p) o = N.to_nat k.
  Proof.
    induction p as [|[o' k'] p IH]; intros Hnd Hin; [destruct Hin|].
    cbn [map fst] in Hnd. inversion Hnd as [|? ? Hn Hnd']; subst.
    rewrite expand_cons, count_occ_app. destruct Hin as [E|Hin].
    - injection E as -> ->. rewrite count_occ_repeat_eq by reflexivity.
      rewrite expand_count_notin by exact Hn. lia.
    - assert (o <> o') by (intros ->; apply Hn; apply (in_map fst _ _ Hin)).
      rewrite count_occ_repeat_neq by assumption. apply IH; assumption.
  Qed.
End Expand.

(* ------------------------------------------------------------------------------------------ *)
(** * What [idx o a < idx o b] means: a occurs before b in o *)

Lemma idx_app_in l m x : In x l -> idx (l ++ m) x = idx l x.
Proof.
  induction l as [|y ys IH]; [intros []|]. intros H.
  rewrite <- app_comm_cons, !idx_cons. destruct (N.eqb_spec x y) as [->|Hne]; [reflexivity|].
  f_equal. apply IH. destruct H as [H|H]; [congruence|exact H].
Qed.

Lemma idx_app_notin l m x : ~ In x l -> idx (l ++ m) x = length l + idx m x.
Proof.
  induction l as [|y ys IH]; intros H; [reflexivity|].
  rewrite <- app_comm_cons, idx_tail by (intros ->; apply H; left; reflexivity).
  rewrite IH by (intros Hin; apply H; right; exact Hin). reflexivity.
Qed.

Lemma idx_before_iff o a b : NoDup o ->
  ((In a o /\ In b o /\ idx o a < idx o b) <-> exists l1 l2 l3, o = l1 ++ a :: l2 ++ b :: l3).
Proof.
  intros Hnd. split.
  - intros (Ha & Hb & Hlt).
    destruct (in_split a o Ha) as (l1 & r & ->).
    pose proof (NoDup_remove_2 _ _ _ Hnd) as Hna.
    assert (Hna1 : ~ In a l1) by (intros H; apply Hna, in_or_app; left; exact H).
    rewrite (idx_app_notin l1 (a :: r) a Hna1), idx_head in Hlt.
    apply in_app_or in Hb. destruct Hb as [Hb|Hb].
    + exfalso. rewrite (idx_app_in l1 (a :: r) b Hb) in Hlt.
      apply idx_lt_iff in Hb. lia.
    + destruct Hb as [Hb|Hb]; [subst b; rewrite (idx_app_notin l1 (a :: r) a Hna1), idx_head in Hlt; lia|].
      destruct (in_split b r Hb) as (l2 & l3 & ->). exists l1, l2, l3. reflexivity.
  - intros (l1 & l2 & l3 & ->).
    split; [apply in_or_app; right; left; reflexivity|].
    split; [apply in_or_app; right; right; apply in_or_app; right; left; reflexivity|].
    pose proof (NoDup_remove_2 _ _ _ Hnd) as Hna.
    assert (Hna1 : ~ In a l1) by (intros H; apply Hna, in_or_app; left; exact H).
    rewrite (idx_app_notin l1 _ a Hna1), idx_head.
    assert (E : l1 ++ a :: l2 ++ b :: l3 = (l1 ++ a :: l2) ++ b :: l3)
      by (rewrite <- app_assoc; reflexivity).
    rewrite E in Hnd |- *. pose proof (NoDup_remove_2 _ _ _ Hnd) as Hnb.
    assert (Hnb1 : ~ In b (l1 ++ a :: l2)) by (intros H; apply Hnb, in_or_app; left; exact H).
    rewrite (idx_app_notin _ _ b Hnb1), idx_head, app_length. cbn [length]. lia.
Qed.

(* ------------------------------------------------------------------------------------------ *)
(** * distance_matrix on an instance of strict complete orders *)

Definition strict_complete (alts : list N) (p : list (list N * N)) : Prop :=
  NoDup alts /\ Forall (fun om => Permutation alts (fst om)) p.

Lemma strict_complete_row alts p o : strict_complete alts p -> In o (expand_profile p) ->
  NoDup o /\ Permutation alts o.
Proof.
  intros [Hnd Hall] Hin. apply expand_In in Hin. destruct Hin as (k & Hk & _).
  rewrite Forall_forall in Hall. pose proof (Hall _ Hk) as Hp. cbn [fst] in Hp.
  split; [eapply Permutation_NoDup; eassumption|exact Hp].
Qed.

Lemma strict_complete_pair alts p a b : strict_complete alts p ->
  In a (expand_profile p) -> In b (expand_profile p) -> NoDup a /\ Permutation a b.
Proof.
  intros Hs Ha Hb. destruct (strict_complete_row _ _ _ Hs Ha) as [Hnd Hpa].
  destruct (strict_complete_row _ _ _ Hs Hb) as [_ Hpb].
  split; [exact Hnd|]. eapply Permutation_trans; [symmetry; exact Hpa|exact Hpb].
Qed.

Definition entry {D} (zero : D) (M : list (list D)) (i j : nat) : D := nth j (nth i M []) zero.

Lemma dm_instance alts p : strict_complete alts p ->
  let prof := expand_profile p in
  let n := list_sum (map (fun om => N.to_nat (snd om)) p) in
  let Mk := distance_matrix (Ok 0) kendall_tau prof in
  let Mf := distance_matrix (Ok (0, 1)) spearman_footrule prof in
  let Ms := distance_matrix (Ok (0, 1)) sertel prof in
  length prof = n /\
  length Mk = n /\ length Mf = n /\ length Ms = n /\
  forall i j, i < n -> j < n ->
    length (nth i Mk []) = n /\ length (nth i Mf []) = n /\ length (nth i Ms []) = n /\
    entry (Ok 0) Mk i j = entry (Ok 0) Mk j i /\
    entry (Ok (0, 1)) Mf i j = entry (Ok (0, 1)) Mf j i /\
    entry (Ok (0, 1)) Ms i j = entry (Ok (0, 1)) Ms j i /\
    entry (Ok 0) Mk i i = Ok 0 /\ entry (Ok (0, 1)) Mf i i = Ok (0, 1) /\ entry (Ok (0, 1)) Ms i i = Ok (0, 1) /\
    (i <> j ->
      entry (Ok 0) Mk i j = Ok (discordant_pairs (nth i prof []) (nth j prof [])) /\
      entry (Ok (0, 1)) Mf i j = spearman_footrule (nth i prof []) (nth j prof []) /\
      entry (Ok (0, 1)) Ms i j = sertel (nth i prof []) (nth j prof [])).
Proof.
  intros Hs prof n Mk Mf Ms.
  assert (Hn : length prof = n) by apply expand_length.
  split; [exact Hn|]. unfold Mk, Mf, Ms. rewrite !dm_length.
  split; [exact Hn|]. split; [exact Hn|]. split; [exact Hn|].
  intros i j Hi Hj. rewrite <- Hn in Hi, Hj. unfold entry.
  rewrite !dm_row_length by exact Hi.
  split; [exact Hn|]. split; [exact Hn|]. split; [exact Hn|].
  split; [|split; [|split]].
  - apply dm_sym; [|exact Hi|exact Hj]. intros a b Ha Hb.
    destruct (strict_complete_pair _ _ _ _ Hs Ha Hb). apply kt_sym; assumption.
  - apply dm_sym; [|exact Hi|exact Hj]. intros a b Ha Hb.
    destruct (strict_complete_pair _ _ _ _ Hs Ha Hb). apply footrule_sym; assumption.
  - apply dm_sym; [|exact Hi|exact Hj]. intros a b _ _. apply sertel_sym.
  - rewrite !(dm_entry _ _ prof i i [] Hi Hi), Nat.eqb_refl.
    split; [reflexivity|]. split; [reflexivity|]. split; [reflexivity|].
    intros Hne. rewrite !(dm_entry _ _ prof i j [] Hi Hj).
    destruct (Nat.eqb_spec i j); [contradiction|].
    split; [|split; reflexivity].
    assert (Ha : In (nth i prof []) prof) by (apply nth_In; exact Hi).
    assert (Hb : In (nth j prof []) prof) by (apply nth_In; exact Hj).
    destruct (strict_complete_pair _ _ _ _ Hs Ha Hb). apply kt_spec; assumption.
Qed.

(* ------------------------------------------------------------------------------------------ *)
(** * A boolean check of the hypotheses, used by the non-vacuity examples *)

Fixpoint nodupb (l : list N) : bool :=
  match l with
  | [] => true
  | x :: xs => negb (existsb (N.eqb x) xs) && nodupb xs
  end.

Lemma nodupb_sound l : nodupb l = true -> NoDup l.
Proof.
  induction l as [|x xs IH]; intros H; [constructor|].
  cbn [nodupb] in H. apply andb_true_iff in H. destruct H as [H1 H2].
  constructor; [|apply IH; exact H2].
  intros Hin. apply negb_true_iff in H1.
  assert (E : existsb (N.eqb x) xs = true)
    by (apply existsb_exists; exists x; split; [exact Hin|apply N.eqb_refl]).
  congruence.
Qed.

Definition rankings_ok (o1 o2 : list N) : bool :=
  nodupb o1 && (length o2 <=? length o1) && all_in o1 o2.

Lemma rankings_ok_sound o1 o2 : rankings_ok o1 o2 = true -> NoDup o1 /\ Permutation o1 o2.
Proof.
  unfold rankings_ok. intros H. apply andb_true_iff in H. destruct H as [H H3].
  apply andb_true_iff in H. destruct H as [H1 H2].
  apply nodupb_sound in H1. split; [exact H1|].
  apply NoDup_Permutation_bis; [exact H1|apply Nat.leb_le; exact H2|apply all_in_iff; exact H3].
Qed.

(* ------------------------------------------------------------------------------------------ *)
(** * The footrule bound is attained by the reversed ranking *)

Lemma T_half n : T n = (n * n) / 2 /\ T (S n) = (S n * S n) / 2.
Proof.
  induction n as [|n [A B]].
  - split; vm_compute; reflexivity.
  - split; [exact B|]. rewrite T_SS, A.
    replace (S (S n) * S (S n)) with (n * n + (2 * n + 2) * 2) by lia.
    rewrite Nat.div_add by lia. lia.
Qed.

Lemma idx_rev o x : NoDup o -> In x o -> idx (rev o) x = length o - 1 - idx o x.
Proof.
  intros Hnd Hx. pose proof (proj2 (idx_lt_iff o x) Hx) as Hi.
  set (i := idx o x) in *. set (n := length o) in *.
  assert (E : x = nth (n - S i) (rev o) 0%N).
  { rewrite rev_nth by (fold n; lia). fold n.
    replace (n - S (n - S i)) with i by lia. symmetry. apply nth_idx. exact Hx. }
  rewrite E at 1. rewrite idx_nth; [lia|apply NoDup_rev; exact Hnd|rewrite rev_length; fold n; lia].
Qed.

Lemma footrule_bound_tight o : NoDup o -> footrule_num o (rev o) = (length o * length o) / 2.
Proof.
  intros Hnd. rewrite footrule_num_sum by exact Hnd.
  rewrite <- (proj1 (T_half (length o))). unfold T. rewrite <- sum_over_idx by exact Hnd.
  apply sum_over_ext_in. intros x Hx. rewrite idx_rev by assumption.
  pose proof (proj2 (idx_lt_iff o x) Hx). unfold absdiff. lia.
Qed.
