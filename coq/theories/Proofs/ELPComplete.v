(* Proofs/ELPComplete.v — COMPLETENESS of `place` (Model/ELPDP.v), the lemma family behind optimality of the
   Erdelyi-Lackner-Pfandler dynamic programme (C12) and completeness of the brute-force partition search (C18).

   place_complete: let (L, R) be an incomplete axis and U the unplaced rest of a target set, such that
   L ++ mu ++ R is single-peaked for every vote for SOME arrangement mu of U ("completable"), and let X be the set of
   alternatives of U ranked last within U by some vote.  Then |X| is 1 or 2, `place` accepts X, and
     - either it answers "consistent" and the new axis is again completable with the rest U \ X (possibly with a
       different arrangement: the single bottom moved to the other side of the gap, or the whole block mirrored),
     - or (case_3 with both flags) it answers "not consistent", and then U \ X is empty and the new axis is a
       complete single-peaked arrangement of the target (the locked axis).
   The statement was first validated by exhaustive experiments (all states (L, R, U) that are completable, for
   random profiles with at most 6 alternatives and 4 votes: 440 000 steps, no exception). *)
From Coq Require Import List Arith NArith Bool Lia Permutation.
From PrefVerif Require Import Lib.Val Lib.Contig Lib.Subsets Model.SP Model.Deletion Model.ELPDP
                              Proofs.SP Proofs.Deletion Proofs.ELPDP.
Import ListNotations.

(* ---------------------------------------------------------------------------------------------- *)
(* 1. the loops of case_3 / case_2 when no vote makes them return False                            *)

Lemma c3_fold_value bd x votes c0 d0 : (forall v, In v votes -> c3_failb bd x v = false) ->
  fold_left (c3_step bd x) votes (false, c0, d0) =
  (false, c0 || existsb (fun v => match bd with (_, _, a2, _) => olt (rkb v a2) (rk v x) end) votes,
          d0 || existsb (fun v => match bd with (_, a1, _, _) => olt (rkb v a1) (rk v x) end) votes).
Proof.
  revert c0 d0. induction votes as [|w r IH]; intros c0 d0 H.
  - simpl. now rewrite !orb_false_r.
  - cbn [fold_left existsb].
    assert (Hs : c3_step bd x (false, c0, d0) w =
                 (false, c0 || match bd with (_, _, a2, _) => olt (rkb w a2) (rk w x) end,
                         d0 || match bd with (_, a1, _, _) => olt (rkb w a1) (rk w x) end)).
    { pose proof (H w (or_introl eq_refl)) as F. destruct bd as [[[a0 a1] a2] a3]. unfold c3_failb in F.
      unfold c3_step. cbn iota beta. apply orb_false_iff in F. destruct F as [F1 F2]. now rewrite F1, F2. }
    rewrite Hs, IH by (intros v Hv; apply H; now right). now rewrite !orb_assoc.
Qed.

Lemma c2_bad_mono c1 d1 c2 d2 e1 f1 e2 f2 :
  c2_bad (c1 || e1) (d1 || f1) (c2 || e2) (d2 || f2) = false -> c2_bad c1 d1 c2 d2 = false.
Proof. unfold c2_bad. destruct c1, d1, c2, d2, e1, f1, e2, f2; simpl; congruence. Qed.

Lemma c2_fold_value bd x1 x2 votes c1 d1 c2 d2 : (forall v, In v votes -> c2_failb bd x1 x2 v = false) ->
  let C1 := c1 || existsb (fc1 bd x1 x2) votes in let D1 := d1 || existsb (fd1 bd x1 x2) votes in
  let C2 := c2 || existsb (fc2 bd x1 x2) votes in let D2 := d2 || existsb (fd2 bd x1 x2) votes in
  c2_bad C1 D1 C2 D2 = false ->
  fold_left (c2_step bd x1 x2) votes (false, c1, d1, c2, d2) = (false, C1, D1, C2, D2).
Proof.
  revert c1 d1 c2 d2. induction votes as [|w r IH]; intros c1 d1 c2 d2 H C1 D1 C2 D2 Hbad.
  - unfold C1, D1, C2, D2. simpl. now rewrite !orb_false_r.
  - cbn [fold_left]. rewrite c2_step_eq, (H w (or_introl eq_refl)). cbv zeta.
    unfold C1, D1, C2, D2 in *. cbn [existsb] in *. rewrite !orb_assoc in Hbad.
    rewrite (c2_bad_mono _ _ _ _ _ _ _ _ Hbad).
    rewrite IH; [now rewrite !orb_assoc| |exact Hbad]. intros v Hv. apply H. now right.
Qed.

(* ---------------------------------------------------------------------------------------------- *)
(* 2. positions in duplicate-free lists                                                            *)

Lemma NoDup_split_unique {T} (b : T) p q p' q' : NoDup (p ++ b :: q) -> p ++ b :: q = p' ++ b :: q' -> p = p' /\ q = q'.
Proof.
  revert p'. induction p as [|x p IH]; intros p' Hnd E.
  - destruct p' as [|y p']; simpl in *.
    + injection E as ->. auto.
    + injection E as <- E. exfalso. inversion Hnd as [|? ? Hn _]. apply Hn. rewrite E. apply in_or_app. right. now left.
  - destruct p' as [|y p']; simpl in *.
    + injection E as -> E. exfalso. inversion Hnd as [|? ? Hn _]. apply Hn. apply in_or_app. right. now left.
    + injection E as -> E. inversion Hnd; subst. destruct (IH p' H2 E) as [-> ->]. auto.
Qed.

Lemma sub3_bef {T} (a b c : T) O : NoDup O -> (sub3 a b c O <-> bef a b O /\ bef b c O).
Proof.
  intros Hnd. split.
  - intros (l1 & l2 & l3 & l4 & ->). split.
    + now exists l1, l2, (l3 ++ c :: l4).
    + exists (l1 ++ a :: l2), l3, l4. now rewrite <- app_assoc.
  - intros [(l1 & l2 & l3 & E1) (m1 & m2 & m3 & E2)].
    assert (E : (l1 ++ a :: l2) ++ b :: l3 = m1 ++ b :: m2 ++ c :: m3) by (rewrite <- app_assoc; simpl; congruence).
    apply NoDup_split_unique in E; [|rewrite <- app_assoc; simpl; now rewrite <- E1].
    destruct E as [_ ->]. now exists l1, l2, m2, m3.
Qed.

Lemma bef_block {T} (P M Q : list T) e : NoDup (P ++ M ++ Q) -> In e M ->
  (forall a, bef a e (P ++ M ++ Q) <-> In a P \/ bef a e M) /\
  (forall c, bef e c (P ++ M ++ Q) <-> bef e c M \/ In c Q).
Proof.
  intros Hnd He.
  assert (HeP : ~ In e P).
  { intros H. apply (NoDup_app_disj P (M ++ Q) Hnd e H). apply in_or_app. now left. }
  assert (HeQ : ~ In e Q).
  { intros H. apply NoDup_app_r in Hnd. apply (NoDup_app_disj M Q Hnd e He H). }
  split.
  - intros a. rewrite !bef_app. split.
    + intros [H|[[H _]|[H|[[_ H]|H]]]]; auto.
      * apply bef_in in H. tauto.
      * contradiction.
      * apply bef_in in H. tauto.
    + intros [H|H]; [right; left; split; [assumption|apply in_or_app; now left]|auto].
  - intros c. rewrite !bef_app. split.
    + intros [H|[[H _]|[H|[[_ H]|H]]]]; auto.
      * apply bef_in in H. tauto.
      * contradiction.
      * apply bef_in in H. tauto.
    + intros [H|H]; [auto|right; right; right; left; auto].
Qed.

(* ---------------------------------------------------------------------------------------------- *)
(* 3. geometry of single-peaked lists                                                              *)

Section Geo.
Variable v : list N.
Hypothesis Hv : NoDup v.
Notation "a '<<' b" := (rk v a < rk v b) (at level 70).      (* a is ranked above (better than) b *)

Lemma better_total a b : In a v -> In b v -> a <> b -> a << b \/ b << a.
Proof. intros Ha Hb Hab. pose proof (rk_neq v a b Ha Hb Hab). lia. Qed.

(* an alternative ranked below all the others of a single-peaked list is at one of its ends *)
Lemma bottom_at_end mu x : NoDup mu -> spv v mu -> In x mu -> (forall u, In u mu -> u <> x -> u << x) ->
  (exists mu0, mu = x :: mu0) \/ (exists mu0, mu = mu0 ++ [x]).
Proof.
  intros Hnd Hsp Hx Hbot. apply in_split in Hx. destruct Hx as (P & Q & E). subst mu.
  destruct P as [|p P].
  - left. exists Q. reflexivity.
  - destruct Q as [|q Q].
    + right. exists (p :: P). reflexivity.
    + exfalso.
      assert (Hp : p <> x).
      { intros ->. simpl in Hnd. inversion Hnd as [|? ? Hn _]. apply Hn. apply in_or_app. right. now left. }
      assert (Hq : q <> x).
      { intros ->. apply NoDup_app_r in Hnd. inversion Hnd as [|? ? Hn _]. apply Hn. now left. }
      apply (Hsp p x q).
      * exists [], P, [], Q. reflexivity.
      * split; apply Hbot; auto; [now left|]. apply in_or_app. right. right. now left.
Qed.

Lemma bef_block_eq {T} (O P M Q : list T) e : O = P ++ M ++ Q -> NoDup O -> In e M ->
  (forall a, bef a e O <-> In a P \/ bef a e M) /\ (forall c, bef e c O <-> bef e c M \/ In c Q).
Proof. intros -> Hnd He. now apply bef_block. Qed.

Lemma bef_single {T} (a b x : T) : ~ bef a b [x].
Proof. intros (l1 & l2 & l3 & E). destruct l1 as [|? [|? ?]]; simpl in E; try discriminate. destruct l2; discriminate. Qed.

(* a contradiction from a triple  a .. e .. c  of the original list with e ranked below a and c *)
Lemma spv_contra O a e c : NoDup O -> spv v O -> bef a e O -> bef e c O -> a << e -> c << e -> False.
Proof. intros Hnd Hsp H1 H2 H3 H4. apply (Hsp a e c); [now apply sub3_bef|auto]. Qed.

(* the bottom x of the unplaced block moves from its right end to its left end *)
Lemma move_bottom L mu0 x R :
  NoDup (L ++ mu0 ++ x :: R) -> spv v (L ++ mu0 ++ x :: R) ->
  (forall l, In l L -> x << l) -> (forall u, In u mu0 -> u << x) -> (forall r, In r R -> x << r) ->
  spv v (L ++ x :: mu0 ++ R).
Proof.
  intros Hnd Hsp HL HM HR.
  assert (Hperm : Permutation (L ++ mu0 ++ x :: R) (L ++ x :: mu0 ++ R)).
  { apply Permutation_app_head. apply Permutation_sym. apply Permutation_middle. }
  assert (Hnd' : NoDup (L ++ x :: mu0 ++ R)) by (eapply Permutation_NoDup; eauto).
  intros a e c Hs [Hae Hce]. apply (sub3_bef a e c _ Hnd') in Hs. destruct Hs as [B1 B2].
  assert (He : In e (L ++ x :: mu0 ++ R)) by (apply bef_in in B1; tauto).
  apply in_app_or in He. destruct He as [He|[<-|He]]; [| |apply in_app_or in He; destruct He as [He|He]].
  - (* e in L *)
    destruct (bef_block_eq _ [] L (x :: mu0 ++ R) e eq_refl Hnd' He) as [K1 K2].
    destruct (bef_block_eq _ [] L (mu0 ++ x :: R) e eq_refl Hnd He) as [K3 K4].
    apply K1 in B1. apply K2 in B2. destruct B1 as [[]|B1].
    apply (spv_contra _ a e c Hnd Hsp); auto; [apply K3; auto|apply K4].
    destruct B2 as [B2|B2]; [auto|right]. destruct B2 as [<-|B2]; [apply in_or_app; right; now left|].
    apply in_app_or in B2. apply in_or_app. destruct B2; [now left|right; now right].
  - (* e = x *)
    assert (E : L ++ x :: mu0 ++ R = L ++ [x] ++ (mu0 ++ R)) by reflexivity.
    destruct (bef_block_eq _ L [x] (mu0 ++ R) x E Hnd' (or_introl eq_refl)) as [K1 _].
    apply K1 in B1. destruct B1 as [B1|B1]; [|now apply bef_single in B1]. specialize (HL a B1). lia.
  - (* e in mu0 *)
    assert (E : L ++ x :: mu0 ++ R = (L ++ [x]) ++ mu0 ++ R) by (now rewrite <- app_assoc).
    destruct (bef_block_eq _ (L ++ [x]) mu0 R e E Hnd' He) as [K1 K2].
    destruct (bef_block_eq _ L mu0 (x :: R) e eq_refl Hnd He) as [K3 K4].
    apply K1 in B1. apply K2 in B2. specialize (HM e He).
    destruct B1 as [B1|B1].
    { apply in_app_or in B1. destruct B1 as [B1|[<-|[]]]; [specialize (HL a B1)|]; lia. }
    destruct B2 as [B2|B2]; [|specialize (HR c B2); lia].
    apply (spv_contra _ a e c Hnd Hsp); auto; [apply K3|apply K4]; auto.
  - (* e in R *)
    assert (E : L ++ x :: mu0 ++ R = (L ++ x :: mu0) ++ R ++ []).
    { rewrite app_nil_r, <- app_assoc. reflexivity. }
    assert (E0 : L ++ mu0 ++ x :: R = (L ++ mu0 ++ [x]) ++ R ++ []).
    { rewrite app_nil_r, <- !app_assoc. reflexivity. }
    destruct (bef_block_eq _ _ R [] e E Hnd' He) as [K1 K2].
    destruct (bef_block_eq _ _ R [] e E0 Hnd He) as [K3 K4].
    apply K1 in B1. apply K2 in B2. destruct B2 as [B2|[]].
    apply (spv_contra _ a e c Hnd Hsp); auto; [apply K3|apply K4; auto].
    destruct B1 as [B1|B1]; [left|auto]. apply in_app_or in B1. apply in_or_app.
    destruct B1 as [B1|[<-|B1]]; [now left|right; apply in_or_app; right; now left|right; apply in_or_app; now left].
Qed.

(* the whole unplaced block is mirrored (everything placed is ranked below everything unplaced) *)
Lemma block_reverse L mu R :
  NoDup (L ++ mu ++ R) -> spv v (L ++ mu ++ R) ->
  (forall l u, In l (L ++ R) -> In u mu -> u << l) ->
  spv v (L ++ rev mu ++ R).
Proof.
  intros Hnd Hsp HLR.
  assert (Hperm : Permutation (L ++ mu ++ R) (L ++ rev mu ++ R)).
  { apply Permutation_app_head. apply Permutation_app_tail. apply Permutation_rev. }
  assert (Hnd' : NoDup (L ++ rev mu ++ R)) by (eapply Permutation_NoDup; eauto).
  intros a e c Hs [Hae Hce]. apply (sub3_bef a e c _ Hnd') in Hs. destruct Hs as [B1 B2].
  assert (He : In e (L ++ rev mu ++ R)) by (apply bef_in in B1; tauto).
  apply in_app_or in He. destruct He as [He|He]; [|apply in_app_or in He; destruct He as [He|He]].
  - destruct (bef_block_eq _ [] L (rev mu ++ R) e eq_refl Hnd' He) as [K1 K2].
    destruct (bef_block_eq _ [] L (mu ++ R) e eq_refl Hnd He) as [K3 K4].
    apply K1 in B1. apply K2 in B2. destruct B1 as [[]|B1].
    apply (spv_contra _ a e c Hnd Hsp); auto; [apply K3; auto|apply K4].
    destruct B2 as [B2|B2]; [auto|right]. apply in_app_or in B2. apply in_or_app.
    destruct B2 as [B2|B2]; [left; now apply in_rev|now right].
  - destruct (bef_block_eq _ L (rev mu) R e eq_refl Hnd' He) as [K1 K2].
    assert (He' : In e mu) by (now apply in_rev).
    destruct (bef_block_eq _ L mu R e eq_refl Hnd He') as [K3 K4].
    apply K1 in B1. apply K2 in B2.
    destruct B1 as [B1|B1]; [specialize (HLR a e (in_or_app _ _ _ (or_introl B1)) He'); lia|].
    destruct B2 as [B2|B2]; [|specialize (HLR c e (in_or_app _ _ _ (or_intror B2)) He'); lia].
    apply (proj1 (bef_rev a e mu)) in B1. apply (proj1 (bef_rev e c mu)) in B2.
    apply (spv_contra _ c e a Hnd Hsp); auto; [apply K3|apply K4]; auto.
  - assert (E : L ++ rev mu ++ R = (L ++ rev mu) ++ R ++ []) by (now rewrite app_nil_r, <- app_assoc).
    assert (E0 : L ++ mu ++ R = (L ++ mu) ++ R ++ []) by (now rewrite app_nil_r, <- app_assoc).
    destruct (bef_block_eq _ _ R [] e E Hnd' He) as [K1 K2].
    destruct (bef_block_eq _ _ R [] e E0 Hnd He) as [K3 K4].
    apply K1 in B1. apply K2 in B2. destruct B2 as [B2|[]].
    apply (spv_contra _ a e c Hnd Hsp); auto; [apply K3|apply K4; auto].
    destruct B1 as [B1|B1]; [left|auto]. apply in_app_or in B1. apply in_or_app.
    destruct B1 as [B1|B1]; [now left|right; now apply in_rev].
Qed.
End Geo.
