(* Proofs/OrdState.v — the invariant of incrementally built ordinal instances (C02) and its
   consequences, for the mirror model Model/OrdState.v. *)
From Coq Require Import String List Arith NArith Bool Lia Permutation.
From PrefVerif Require Import Lib.Val Lib.Dec Lib.PyStr Model.OrdState.
Import ListNotations.

(* ------------------------------------------------------------------------------------------ *)
(** * Equality tests *)

Lemma list_eqb_spec {T} (e : T -> T -> bool) :
  (forall x y, e x y = true <-> x = y) -> forall a b, list_eqb e a b = true <-> a = b.
Proof.
  intros He a. induction a as [|x a IH]; intros [|y b]; simpl; split; intro H;
    try reflexivity; try discriminate.
  - apply andb_true_iff in H. destruct H as [H1 H2]. apply He in H1. apply IH in H2. now subst.
  - injection H as -> ->. apply andb_true_iff. split; [now apply He | now apply IH].
Qed.

Lemma class_eqb_eq a b : class_eqb a b = true <-> a = b.
Proof. apply list_eqb_spec. intros x y. apply N.eqb_eq. Qed.

Lemma order_eqb_eq a b : order_eqb a b = true <-> a = b.
Proof. apply list_eqb_spec. apply class_eqb_eq. Qed.

Lemma order_eqb_refl a : order_eqb a a = true.
Proof. now apply order_eqb_eq. Qed.

Lemma order_eqb_neq a b : a <> b -> order_eqb a b = false.
Proof. intro H. destruct (order_eqb a b) eqn:E; [apply order_eqb_eq in E; contradiction | reflexivity]. Qed.

Lemma order_eqb_sym a b : order_eqb a b = order_eqb b a.
Proof.
  destruct (order_eqb b a) eqn:E.
  - apply order_eqb_eq in E. subst. apply order_eqb_refl.
  - apply order_eqb_neq. intros ->. rewrite order_eqb_refl in E. discriminate.
Qed.

Definition order_eq_dec (a b : order) : {a = b} + {a <> b}.
Proof. apply list_eq_dec. apply list_eq_dec. apply N.eq_dec. Defined.

Lemma in_orders_iff os o : in_orders os o = true <-> In o os.
Proof.
  unfold in_orders. rewrite existsb_exists. split.
  - intros [x [Hx E]]. apply order_eqb_eq in E. now subst.
  - intro H. exists o. split; [assumption | apply order_eqb_refl].
Qed.

Lemma NoDup_snoc {T} (l : list T) x : NoDup l -> ~ In x l -> NoDup (l ++ [x]).
Proof.
  intros H1 H2. apply (Permutation_NoDup (Permutation_cons_append l x)). now constructor.
Qed.

(* ------------------------------------------------------------------------------------------ *)
(** * Counting *)

Definition cnt (ms : list order) (o : order) : N := N.of_nat (count_occ order_eq_dec ms o).
Definition cnt_opt (ms : list order) (o : order) : option N :=
  if (cnt ms o =? 0)%N then None else Some (cnt ms o).

Lemma cnt_app ms l o : cnt (ms ++ l) o = (cnt ms o + cnt l o)%N.
Proof. unfold cnt. rewrite count_occ_app. lia. Qed.

Lemma cnt_repeat o n o' : cnt (repeat o n) o' = if order_eqb o o' then N.of_nat n else 0%N.
Proof.
  unfold cnt. destruct (order_eqb o o') eqn:E.
  - apply order_eqb_eq in E. subst. now rewrite count_occ_repeat_eq.
  - rewrite count_occ_repeat_neq; [reflexivity|]. intros ->. rewrite order_eqb_refl in E. discriminate.
Qed.

Lemma cnt_pos_iff ms o : (cnt ms o <> 0)%N <-> In o ms.
Proof. unfold cnt. rewrite (count_occ_In order_eq_dec). lia. Qed.

Lemma cnt_perm ms ms' o : Permutation ms ms' -> cnt ms o = cnt ms' o.
Proof. intro H. unfold cnt. f_equal. now apply (Permutation_count_occ order_eq_dec). Qed.

(* ------------------------------------------------------------------------------------------ *)
(** * The multiplicity dictionary *)

Lemma lookup_none_iff m o : lookup m o = None <-> ~ In o (map fst m).
Proof.
  induction m as [|[o' k] m IH]; simpl.
  - tauto.
  - destruct (order_eqb o' o) eqn:E.
    + apply order_eqb_eq in E. subst. split; [discriminate | intro H; exfalso; apply H; now left].
    + rewrite IH. split.
      * intros H [H1|H1]; [subst; rewrite order_eqb_refl in E; discriminate | contradiction].
      * intros H H1. apply H. now right.
Qed.

Lemma lookup_incr m o k o' :
  lookup (incr m o k) o' =
  if order_eqb o o' then option_map (fun c => (c + k)%N) (lookup m o') else lookup m o'.
Proof.
  induction m as [|[x c] m IH]; simpl.
  - now destruct (order_eqb o o').
  - destruct (order_eqb x o) eqn:E1; simpl.
    + apply order_eqb_eq in E1. subst x.
      destruct (order_eqb o o') eqn:E2; simpl; reflexivity.
    + destruct (order_eqb x o') eqn:E2.
      * destruct (order_eqb o o') eqn:E3; [|reflexivity].
        apply order_eqb_eq in E2, E3. subst. rewrite order_eqb_refl in E1. discriminate.
      * apply IH.
Qed.

Lemma keys_incr m o k : map fst (incr m o k) = map fst m.
Proof.
  induction m as [|[x c] m IH]; simpl; [reflexivity|].
  destruct (order_eqb x o); simpl; [reflexivity | now rewrite IH].
Qed.

Lemma lookup_assign m o k o' :
  lookup (assign m o k) o' = if order_eqb o o' then Some k else lookup m o'.
Proof.
  induction m as [|[x c] m IH]; simpl.
  - reflexivity.
  - destruct (order_eqb x o) eqn:E1; simpl.
    + apply order_eqb_eq in E1. subst x. now destruct (order_eqb o o').
    + destruct (order_eqb x o') eqn:E2.
      * destruct (order_eqb o o') eqn:E3; [|reflexivity].
        apply order_eqb_eq in E2, E3. subst. rewrite order_eqb_refl in E1. discriminate.
      * apply IH.
Qed.

Lemma assign_absent m o k : lookup m o = None -> assign m o k = m ++ [(o, k)].
Proof.
  induction m as [|[x c] m IH]; simpl; [reflexivity|].
  destruct (order_eqb x o); [discriminate|]. intro H. now rewrite IH.
Qed.

(** the table of the multiset [ms]: duplicate-free keys, [os] lists the keys in the same order,
    and looking an order up gives its number of occurrences in [ms] (absent iff zero). *)
Definition tbl (os : list order) (m : list (order * N)) (ms : list order) : Prop :=
  NoDup (map fst m) /\ os = map fst m /\ forall o, lookup m o = cnt_opt ms o.

Lemma tbl_nil : tbl [] [] [].
Proof. split; [constructor|]. split; [reflexivity|]. intro o. reflexivity. Qed.

Lemma tbl_in os m ms o : tbl os m ms -> (In o os <-> In o ms).
Proof.
  intros (_ & -> & H). rewrite <- (cnt_pos_iff ms o). specialize (H o). unfold cnt_opt in H.
  destruct (N.eqb_spec (cnt ms o) 0) as [E|E].
  - apply lookup_none_iff in H. tauto.
  - split; [intros _; assumption|]. intros _.
    destruct (in_dec order_eq_dec o (map fst m)) as [|nin]; [assumption|].
    apply lookup_none_iff in nin. congruence.
Qed.

Lemma tbl_mget os m ms o : tbl os m ms -> mget m o = cnt ms o.
Proof.
  intros (_ & _ & H). unfold mget. rewrite H. unfold cnt_opt.
  destruct (N.eqb_spec (cnt ms o) 0); congruence.
Qed.

Lemma tbl_has_key os m ms o : tbl os m ms -> has_key m o = in_orders os o.
Proof.
  intros (Hn & -> & H). unfold has_key.
  destruct (lookup m o) eqn:E.
  - symmetry. apply in_orders_iff.
    destruct (in_dec order_eq_dec o (map fst m)) as [|nin]; [assumption|].
    apply lookup_none_iff in nin. congruence.
  - apply lookup_none_iff in E. destruct (in_orders (map fst m) o) eqn:E2; [|reflexivity].
    apply in_orders_iff in E2. contradiction.
Qed.

(** adding [k >= 1] copies of [o]: the two branches of every entry point *)
Lemma tbl_add os m ms o k :
  tbl os m ms -> (1 <= k)%N ->
  tbl (if has_key m o then os else os ++ [o])
      (if has_key m o then incr m o k else assign m o k)
      (ms ++ repeat o (N.to_nat k)).
Proof.
  intros (Hn & -> & H) Hk. unfold has_key. destruct (lookup m o) as [c|] eqn:E.
  - assert (Hc : cnt ms o = c /\ c <> 0%N).
    { rewrite H in E. unfold cnt_opt in E. destruct (N.eqb_spec (cnt ms o) 0); [discriminate|].
      injection E as E. split; congruence. }
    destruct Hc as [Hc Hc0].
    split; [now rewrite keys_incr|]. split; [now rewrite keys_incr|].
    intro o'. rewrite lookup_incr. unfold cnt_opt. rewrite cnt_app, cnt_repeat, N2Nat.id.
    destruct (order_eqb o o') eqn:E2.
    + apply order_eqb_eq in E2. subst o'. rewrite E. simpl. rewrite Hc.
      destruct (N.eqb_spec (c + k) 0); [lia | reflexivity].
    + rewrite N.add_0_r. apply H.
  - assert (Hc : cnt ms o = 0%N).
    { rewrite H in E. unfold cnt_opt in E. destruct (N.eqb_spec (cnt ms o) 0); [assumption | discriminate]. }
    rewrite (assign_absent _ _ _ E). unfold tbl. rewrite map_app. simpl.
    split.
    { apply NoDup_snoc; [assumption | now apply lookup_none_iff]. }
    split; [reflexivity|].
    intro o'. rewrite <- (assign_absent _ _ _ E), lookup_assign.
    unfold cnt_opt. rewrite cnt_app, cnt_repeat, N2Nat.id.
    destruct (order_eqb o o') eqn:E2.
    + apply order_eqb_eq in E2. subst o'. rewrite Hc. simpl.
      destruct (N.eqb_spec k 0); [lia | reflexivity].
    + rewrite N.add_0_r. apply H.
Qed.

(* ------------------------------------------------------------------------------------------ *)
(** * alternatives_name *)

Definition alts_ok (al : list (N * text)) (ms : list order) : Prop :=
  NoDup (map fst al) /\
  (forall a, In a (map fst al) <-> In a (concat (concat ms))) /\
  (forall a t, In (a, t) al -> t = alt_name a).

Lemma has_alt_iff al a : has_alt al a = true <-> In a (map fst al).
Proof.
  unfold has_alt. rewrite existsb_exists, in_map_iff. split.
  - intros [p [Hp E]]. apply N.eqb_eq in E. exists p. now split.
  - intros [p [E Hp]]. exists p. split; [assumption | now apply N.eqb_eq].
Qed.

Lemma add_alt_spec al a :
  NoDup (map fst al) -> (forall x t, In (x, t) al -> t = alt_name x) ->
  NoDup (map fst (add_alt al a)) /\
  (forall x, In x (map fst (add_alt al a)) <-> In x (map fst al) \/ x = a) /\
  (forall x t, In (x, t) (add_alt al a) -> t = alt_name x).
Proof.
  intros Hn Hnm. unfold add_alt. destruct (has_alt al a) eqn:E.
  - apply has_alt_iff in E. split; [assumption|]. split; [|assumption].
    intro x. split; [tauto|]. intros [H1| ->]; assumption.
  - assert (Hnin : ~ In a (map fst al)) by (rewrite <- has_alt_iff; congruence).
    rewrite map_app. simpl. split; [now apply NoDup_snoc|]. split.
    + intro x. rewrite in_app_iff. simpl. intuition.
    + intros x t Hin. apply in_app_iff in Hin. destruct Hin as [Hin|[Hin|[]]]; [eauto|].
      injection Hin as <- <-. reflexivity.
Qed.

Lemma add_alts_spec l : forall al,
  NoDup (map fst al) -> (forall x t, In (x, t) al -> t = alt_name x) ->
  NoDup (map fst (add_alts al l)) /\
  (forall x, In x (map fst (add_alts al l)) <-> In x (map fst al) \/ In x l) /\
  (forall x t, In (x, t) (add_alts al l) -> t = alt_name x).
Proof.
  unfold add_alts. induction l as [|a l IH]; intros al Hn Hnm; simpl.
  - split; [assumption|]. split; [|assumption]. intro x. tauto.
  - destruct (add_alt_spec al a Hn Hnm) as (A & B & C).
    destruct (IH _ A C) as (A' & B' & C'). split; [assumption|]. split; [|assumption].
    intro x. rewrite B', B. intuition.
Qed.

Lemma add_alts_ok al ms l vs :
  alts_ok al ms -> (forall a, In a l <-> In a (concat (concat vs))) ->
  alts_ok (add_alts al l) (ms ++ vs).
Proof.
  intros (A & B & C) Hl. destruct (add_alts_spec l al A C) as (A' & B' & C').
  split; [assumption|]. split; [|assumption].
  intro a. rewrite B', !concat_app, in_app_iff, B, Hl. tauto.
Qed.

Lemma concat_strictify l : concat (strictify l) = l.
Proof. induction l as [|a l IH]; simpl; [reflexivity | now rewrite IH]. Qed.

Lemma cc_strictify rows : concat (concat (map strictify rows)) = concat rows.
Proof.
  induction rows as [|r rows IH]; simpl; [reflexivity|].
  now rewrite concat_app, concat_strictify, IH.
Qed.

Lemma in_cc_repeat (o : order) n (a : N) : n <> 0 -> (In a (concat (concat (repeat o n))) <-> In a (concat o)).
Proof.
  intro Hn. split.
  - clear Hn. induction n as [|n IH]; simpl; [tauto|].
    rewrite concat_app, in_app_iff. tauto.
  - destruct n as [|n]; [contradiction|]. simpl. rewrite concat_app, in_app_iff. tauto.
Qed.

(* ------------------------------------------------------------------------------------------ *)
(** * Well-formed votes and operations *)

Definition wf_vote (o : order) : Prop :=
  o <> [] /\ Forall (fun c => c <> []) o /\ NoDup (concat o).

Definition wf_op (p : op) : Prop :=
  match p with
  | AppendVoteMap vm => Forall (fun e => wf_vote (fst e) /\ (1 <= snd e)%N) vm
  | _ => Forall wf_vote (votes p)
  end.
Definition wf_ops (ops : list op) : Prop := Forall wf_op ops.

Lemma wf_expand vm :
  Forall (fun e => wf_vote (fst e) /\ (1 <= snd e)%N) vm -> Forall wf_vote (expand vm).
Proof.
  unfold expand. induction 1 as [|[o k] vm [H1 H2] _ IH]; simpl; [constructor|].
  apply Forall_app. split; [|assumption].
  apply Forall_forall. intros x Hx. apply repeat_spec in Hx. now subst.
Qed.

Lemma wf_op_votes p : wf_op p -> Forall wf_vote (votes p).
Proof. destruct p; simpl; auto. apply wf_expand. Qed.

(* ------------------------------------------------------------------------------------------ *)
(** * infer_type *)

Lemma infer_loop_spec na os : forall st co,
  (forall o, In o os -> o <> []) -> st || co = true ->
  infer_loop na os st co =
  Ok (type_code (st && forallb strict_o os) (co && forallb (complete_o na) os)).
Proof.
  induction os as [|o os IH]; intros st co Hne Hsc; simpl.
  - rewrite !andb_true_r. destruct st, co; simpl in *; try reflexivity. discriminate.
  - assert (Ho : o <> []) by (apply Hne; now left).
    destruct o as [|c o']; [contradiction|].
    fold (strict_o (c :: o')). fold (complete_o na (c :: o')).
    destruct (strict_o (c :: o')) eqn:Es; destruct (complete_o na (c :: o')) eqn:Ec; simpl.
    + destruct (negb st && negb co) eqn:E; [destruct st, co; discriminate|].
      rewrite IH; [reflexivity | intros; apply Hne; now right | assumption].
    + destruct st; simpl.
      * rewrite IH; [now rewrite !andb_false_r | intros; apply Hne; now right | reflexivity].
      * now rewrite !andb_false_r.
    + destruct co; simpl.
      * rewrite andb_false_r. simpl.
        rewrite IH; [now rewrite ?andb_false_r | intros; apply Hne; now right | apply orb_true_r].
      * now rewrite !andb_false_r.
    + now rewrite !andb_false_r.
Qed.

Lemma infer_type_spec s :
  (forall o, In o (ords s) -> o <> []) ->
  infer_type s = Ok (type_code (forallb strict_o (ords s)) (forallb (complete_o (n_alt s)) (ords s))).
Proof. intro H. unfold infer_type. now rewrite infer_loop_spec. Qed.

Lemma type_code_not_none a b : type_code a b <> DNone.
Proof. destruct a, b; discriminate. Qed.

(* ------------------------------------------------------------------------------------------ *)
(** * The entry points, field by field *)

Lemma add_one_fields s o :
  alts (add_one s o) = alts s /\ n_alt (add_one s o) = n_alt s /\
  n_vot (add_one s o) = n_vot s /\ dtype (add_one s o) = dtype s.
Proof. unfold add_one. destruct (has_key (mult s) o); simpl; auto. Qed.

Lemma add_one_tbl s o ms :
  tbl (ords s) (mult s) ms -> tbl (ords (add_one s o)) (mult (add_one s o)) (ms ++ [o]).
Proof.
  intro T. assert (H1 : (1 <= 1)%N) by lia. pose proof (tbl_add _ _ _ o 1%N T H1) as TA.
  unfold add_one. destruct (has_key (mult s) o); simpl; exact TA.
Qed.

Lemma add_one_nuniq s o :
  n_uniq s = N.of_nat (length (ords s)) ->
  n_uniq (add_one s o) = N.of_nat (length (ords (add_one s o))).
Proof.
  intro U. unfold add_one. destruct (has_key (mult s) o); simpl; [assumption|].
  rewrite app_length. simpl. lia.
Qed.

Lemma fold_add_one os : forall s ms,
  tbl (ords s) (mult s) ms -> n_uniq s = N.of_nat (length (ords s)) ->
  tbl (ords (fold_left add_one os s)) (mult (fold_left add_one os s)) (ms ++ os) /\
  n_uniq (fold_left add_one os s) = N.of_nat (length (ords (fold_left add_one os s))) /\
  alts (fold_left add_one os s) = alts s /\ n_alt (fold_left add_one os s) = n_alt s /\
  n_vot (fold_left add_one os s) = n_vot s.
Proof.
  induction os as [|o os IH]; intros s ms T U; simpl.
  - rewrite app_nil_r. auto.
  - destruct (add_one_fields s o) as (A & B & C & _).
    destruct (IH (add_one s o) (ms ++ [o]) (add_one_tbl _ _ _ T) (add_one_nuniq _ _ U))
      as (I1 & I2 & I3 & I4 & I5).
    rewrite <- app_assoc in I1. simpl in I1.
    split; [exact I1|]. split; [exact I2|]. split; [congruence|]. split; congruence.
Qed.

Lemma vm_item_spec s o k ms :
  tbl (ords s) (mult s) ms -> n_vot s = N.of_nat (length ms) -> alts_ok (alts s) ms ->
  (1 <= k)%N ->
  tbl (ords (vm_item s (o, k))) (mult (vm_item s (o, k))) (ms ++ repeat o (N.to_nat k)) /\
  n_vot (vm_item s (o, k)) = N.of_nat (length (ms ++ repeat o (N.to_nat k))) /\
  alts_ok (alts (vm_item s (o, k))) (ms ++ repeat o (N.to_nat k)).
Proof.
  intros T V A Hk. pose proof (tbl_add _ _ _ o k T Hk) as TA.
  rewrite (tbl_has_key _ _ _ o T) in TA. unfold vm_item.
  split; [|split].
  - destruct (in_orders (ords s) o); simpl; exact TA.
  - simpl. rewrite app_length, repeat_length, Nat2N.inj_add, N2Nat.id. congruence.
  - simpl. apply add_alts_ok; [assumption|]. intro a. symmetry. apply in_cc_repeat. lia.
Qed.

Lemma fold_vm vm : forall s ms,
  tbl (ords s) (mult s) ms -> n_vot s = N.of_nat (length ms) -> alts_ok (alts s) ms ->
  Forall (fun e => (1 <= snd e)%N) vm ->
  tbl (ords (fold_left vm_item vm s)) (mult (fold_left vm_item vm s)) (ms ++ expand vm) /\
  n_vot (fold_left vm_item vm s) = N.of_nat (length (ms ++ expand vm)) /\
  alts_ok (alts (fold_left vm_item vm s)) (ms ++ expand vm).
Proof.
  induction vm as [|[o k] vm IH]; intros s ms T V A Hk; simpl.
  - rewrite app_nil_r. auto.
  - inversion Hk as [|? ? Hk1 Hk2]; subst. simpl in Hk1.
    destruct (vm_item_spec s o k ms T V A Hk1) as (T1 & V1 & A1).
    destruct (IH _ _ T1 V1 A1 Hk2) as (T2 & V2 & A2).
    unfold expand in *. simpl. rewrite app_assoc. auto.
Qed.

(* ------------------------------------------------------------------------------------------ *)
(** * The invariant *)

Record Inv (s : state) (ms : list order) : Prop := mkInv {
  inv_tbl   : tbl (ords s) (mult s) ms;
  inv_nvot  : n_vot s = N.of_nat (length ms);
  inv_nuniq : n_uniq s = N.of_nat (length (ords s));
  inv_alts  : alts_ok (alts s) ms;
  inv_nalt  : n_alt s = N.of_nat (length (alts s));
  inv_wf    : Forall wf_vote ms;
  inv_type  : infer_type s = Ok (dtype s) \/ s = init
}.

Lemma Inv_init : Inv init [].
Proof.
  constructor; simpl; try reflexivity.
  - apply tbl_nil.
  - split; [constructor|]. split; [intro a; simpl; tauto | intros a t []].
  - constructor.
  - now right.
Qed.

Lemma ords_nonempty os m ms :
  tbl os m ms -> Forall wf_vote ms -> forall o, In o os -> o <> [].
Proof.
  intros T W o Ho. apply (tbl_in _ _ _ o T) in Ho.
  rewrite Forall_forall in W. now destruct (W o Ho).
Qed.

Lemma Inv_finish s ms :
  tbl (ords s) (mult s) ms -> n_vot s = N.of_nat (length ms) ->
  n_uniq s = N.of_nat (length (ords s)) -> alts_ok (alts s) ms ->
  n_alt s = N.of_nat (length (alts s)) -> Forall wf_vote ms ->
  Inv (set_type s) ms /\ infer_type (set_type s) = Ok (dtype (set_type s)).
Proof.
  intros T V U A NA W.
  assert (HT : infer_type (set_type s) = Ok (dtype (set_type s))).
  { unfold set_type at 2. simpl. change (infer_type (set_type s)) with (infer_type s).
    rewrite (infer_type_spec s (ords_nonempty _ _ _ T W)). reflexivity. }
  split; [|exact HT]. constructor; simpl; try assumption. now left.
Qed.

Lemma batch_Inv s ms l os :
  Inv s ms -> (forall a, In a l <-> In a (concat (concat os))) -> Forall wf_vote os ->
  Inv (set_type (fold_left add_one os (register s l (N.of_nat (length os))))) (ms ++ os) /\
  infer_type (set_type (fold_left add_one os (register s l (N.of_nat (length os))))) =
  Ok (dtype (set_type (fold_left add_one os (register s l (N.of_nat (length os)))))).
Proof.
  intros I Hl W. destruct I as [T V U A NA W0 _].
  set (r := register s l (N.of_nat (length os))).
  assert (Tr : tbl (ords r) (mult r) ms) by exact T.
  assert (Ur : n_uniq r = N.of_nat (length (ords r))) by exact U.
  destruct (fold_add_one os r ms Tr Ur) as (F1 & F2 & F3 & F4 & F5).
  apply Inv_finish.
  - exact F1.
  - rewrite F5. unfold r, register. cbn [n_vot]. rewrite V, app_length, Nat2N.inj_add. reflexivity.
  - exact F2.
  - rewrite F3. unfold r. simpl. now apply add_alts_ok.
  - rewrite F4, F3. reflexivity.
  - apply Forall_app. now split.
Qed.

Lemma step_Inv s ms p :
  Inv s ms -> wf_op p ->
  Inv (step s p) (ms ++ votes p) /\ infer_type (step s p) = Ok (dtype (step s p)).
Proof.
  intros I W. destruct p as [o | rows | os | vm]; simpl in W.
  - exact (batch_Inv s ms o [strictify o] I
             (fun a => eq_ind_r (fun l => In a o <-> In a l) (iff_refl _)
                         (eq_trans (f_equal (@concat N) (app_nil_r (strictify o))) (concat_strictify o))) W).
  - assert (Hl : forall a, In a (concat rows) <-> In a (concat (concat (map strictify rows))))
      by (intro a; now rewrite cc_strictify).
    pose proof (batch_Inv s ms (concat rows) (map strictify rows) I Hl W) as B.
    rewrite map_length in B. exact B.
  - simpl. apply batch_Inv; [assumption | intro a; tauto | assumption].
  - destruct I as [T V U A NA W0 _].
    assert (Wk : Forall (fun e => (1 <= snd e)%N) vm).
    { eapply Forall_impl; [|exact W]. simpl. tauto. }
    destruct (fold_vm vm s ms T V A Wk) as (T1 & V1 & A1).
    simpl. apply Inv_finish; simpl; try assumption; try reflexivity.
    + destruct T1 as (_ & -> & _). now rewrite map_length.
    + apply Forall_app. split; [assumption | now apply wf_expand].
Qed.

(* ------------------------------------------------------------------------------------------ *)
(** * Reachable states *)

Lemma run_Inv_gen ops : forall s ms,
  Inv s ms -> wf_ops ops -> Inv (fold_left step ops s) (ms ++ votes_of ops).
Proof.
  induction ops as [|p ops IH]; intros s ms I W; simpl.
  - now rewrite app_nil_r.
  - inversion W as [|? ? Wp Wr]; subst. unfold votes_of. simpl. rewrite app_assoc.
    apply IH; [|assumption]. now apply step_Inv.
Qed.

Lemma reachable ops : wf_ops ops -> Inv (run ops) (votes_of ops).
Proof. intro W. exact (run_Inv_gen ops init [] Inv_init W). Qed.

Lemma run_typed ops : wf_ops ops -> ops <> [] -> infer_type (run ops) = Ok (dtype (run ops)).
Proof.
  intros W Hne. destruct (exists_last Hne) as [ops0 [p ->]].
  unfold run. rewrite fold_left_app. simpl.
  apply Forall_app in W. destruct W as [W0 Wp]. inversion Wp as [|? ? Wp1 _]; subst.
  apply (step_Inv _ (votes_of ops0)); [|assumption]. now apply reachable.
Qed.

(* ------------------------------------------------------------------------------------------ *)
(** * Views *)

Lemma count_flat_repeat (n : order -> nat) l o :
  count_occ order_eq_dec (flat_map (fun x => repeat x (n x)) l) o = count_occ order_eq_dec l o * n o.
Proof.
  induction l as [|a l IH]; [reflexivity|].
  cbn [flat_map]. rewrite count_occ_app, IH.
  destruct (order_eq_dec a o) as [E|E].
  - subst a. rewrite count_occ_repeat_eq by reflexivity. rewrite count_occ_cons_eq by reflexivity. lia.
  - rewrite count_occ_repeat_neq by congruence. rewrite count_occ_cons_neq by assumption. lia.
Qed.

Lemma full_profile_perm s ms : Inv s ms -> Permutation (full_profile s) ms.
Proof.
  intros [T _ _ _ _ _ _]. apply (Permutation_count_occ order_eq_dec). intro o.
  unfold full_profile. rewrite (count_flat_repeat (fun x => N.to_nat (mget (mult s) x))).
  rewrite (tbl_mget _ _ _ o T). unfold cnt. rewrite Nat2N.id.
  destruct (in_dec order_eq_dec o (ords s)) as [Hin|Hnin].
  - assert (Hn : NoDup (ords s)) by (destruct T as (Hn & -> & _); exact Hn).
    rewrite (proj1 (NoDup_count_occ' order_eq_dec (ords s)) Hn o Hin). lia.
  - assert (Hm : ~ In o ms) by (rewrite <- (tbl_in _ _ _ o T); exact Hnin).
    apply (count_occ_not_In order_eq_dec) in Hm. rewrite Hm. lia.
Qed.

Lemma vote_map_keys m : NoDup (map fst m) -> map (fun o => (o, mget m o)) (map fst m) = m.
Proof.
  induction m as [|[o k] m IH]; simpl; intro Hn; [reflexivity|].
  inversion Hn as [|? ? Hnin Hn']; subst. f_equal.
  - unfold mget. simpl. now rewrite order_eqb_refl.
  - transitivity (map (fun o' => (o', mget m o')) (map fst m)); [|now apply IH].
    apply map_ext_in. intros o' Ho'. f_equal. unfold mget. simpl.
    rewrite order_eqb_neq; [reflexivity|]. intros ->. contradiction.
Qed.

Lemma vote_map_eq s ms : Inv s ms -> vote_map s = mult s.
Proof.
  intros [T _ _ _ _ _ _]. destruct T as (Hn & E & _). unfold vote_map. rewrite E.
  now apply vote_map_keys.
Qed.

Lemma flatten_strict_eq s ms :
  Inv s ms -> flatten_strict s = map (fun p => (map (fun c => hd 0%N c) (fst p), snd p)) (mult s).
Proof.
  intro I. rewrite <- (vote_map_eq s ms I) at 1. unfold flatten_strict, vote_map.
  now rewrite map_map.
Qed.

Lemma hd_strictify l : map (fun c => hd 0%N c) (strictify l) = l.
Proof. induction l as [|a l IH]; simpl; [reflexivity | now rewrite IH]. Qed.

(* ------------------------------------------------------------------------------------------ *)
(** * Regrouping *)

Lemma in_cc (ms : list order) (a : N) :
  In a (concat (concat ms)) <-> exists o, In o ms /\ In a (concat o).
Proof.
  rewrite in_concat. split.
  - intros [c [Hc Ha]]. apply in_concat in Hc. destruct Hc as [o [Ho Hco]].
    exists o. split; [assumption|]. apply in_concat. now exists c.
  - intros [o [Ho Ha]]. apply in_concat in Ha. destruct Ha as [c [Hc Hac]].
    exists c. split; [|assumption]. apply in_concat. now exists o.
Qed.

Lemma in_cc_perm (ms ms' : list order) (a : N) :
  Permutation ms ms' -> In a (concat (concat ms)) -> In a (concat (concat ms')).
Proof.
  intros P H. apply in_cc in H. destruct H as [o [Ho Ha]]. apply in_cc. exists o.
  split; [now apply (Permutation_in _ P) | assumption].
Qed.

Lemma alts_in al ms a t :
  alts_ok al ms -> (In (a, t) al <-> In a (concat (concat ms)) /\ t = alt_name a).
Proof.
  intros (A & B & C). split.
  - intro H. split; [|now apply C]. apply B. apply in_map_iff. now exists (a, t).
  - intros [H ->]. apply B in H. apply in_map_iff in H. destruct H as [[a' t'] [E H]].
    simpl in E. subst a'. now rewrite <- (C _ _ H).
Qed.

Lemma forallb_set_ext {T} (f : T -> bool) l l' :
  (forall x, In x l <-> In x l') -> forallb f l = forallb f l'.
Proof.
  intro H. destruct (forallb f l) eqn:E1; destruct (forallb f l') eqn:E2; try reflexivity.
  - rewrite forallb_forall in E1.
    assert (X : forallb f l' = true) by (apply forallb_forall; intros x Hx; apply E1, H, Hx).
    congruence.
  - rewrite forallb_forall in E2.
    assert (X : forallb f l = true) by (apply forallb_forall; intros x Hx; apply E2, H, Hx).
    congruence.
Qed.

Lemma dtype_spec s ms :
  Inv s ms -> infer_type s = Ok (dtype s) ->
  dtype s = type_code (forallb strict_o (ords s)) (forallb (complete_o (n_alt s)) (ords s)).
Proof.
  intros [T _ _ _ _ W _] H. rewrite (infer_type_spec s (ords_nonempty _ _ _ T W)) in H. congruence.
Qed.

Record same_table (s s' : state) : Prop := mkSame {
  st_mult  : forall o, lookup (mult s) o = lookup (mult s') o;
  st_nvot  : n_vot s = n_vot s';
  st_nuniq : n_uniq s = n_uniq s';
  st_nalt  : n_alt s = n_alt s';
  st_alts  : forall p, In p (alts s) <-> In p (alts s');
  st_ords  : forall o, In o (ords s) <-> In o (ords s');
  st_nodup : NoDup (ords s) /\ NoDup (ords s');
  st_type  : infer_type s = Ok (dtype s) -> infer_type s' = Ok (dtype s') -> dtype s = dtype s'
}.

Lemma Inv_nodup_ords s ms : Inv s ms -> NoDup (ords s).
Proof. intros [T _ _ _ _ _ _]. destruct T as (Hn & -> & _). exact Hn. Qed.

Lemma Inv_nodup_alts s ms : Inv s ms -> NoDup (alts s).
Proof. intros [_ _ _ A _ _ _]. destruct A as (Hn & _). now apply NoDup_map_inv in Hn. Qed.

Lemma Inv_regroup s s' ms ms' :
  Inv s ms -> Inv s' ms' -> Permutation ms ms' -> same_table s s'.
Proof.
  intros I I' P.
  assert (Hords : forall o, In o (ords s) <-> In o (ords s')).
  { intro o. rewrite (tbl_in _ _ _ o (inv_tbl _ _ I)), (tbl_in _ _ _ o (inv_tbl _ _ I')).
    split; apply Permutation_in; [assumption | now apply Permutation_sym]. }
  assert (Halts : forall p, In p (alts s) <-> In p (alts s')).
  { intros [a t]. rewrite (alts_in _ _ a t (inv_alts _ _ I)), (alts_in _ _ a t (inv_alts _ _ I')).
    split; intros [H1 H2]; (split; [|assumption]);
      [apply (in_cc_perm ms ms') | apply (in_cc_perm ms' ms)]; auto using Permutation_sym. }
  assert (Hnalt : n_alt s = n_alt s').
  { rewrite (inv_nalt _ _ I), (inv_nalt _ _ I'). f_equal. apply Permutation_length.
    apply NoDup_Permutation; eauto using Inv_nodup_alts. }
  constructor.
  - intro o. destruct (inv_tbl _ _ I) as (_ & _ & L). destruct (inv_tbl _ _ I') as (_ & _ & L').
    rewrite L, L'. unfold cnt_opt. now rewrite (cnt_perm ms ms' o P).
  - rewrite (inv_nvot _ _ I), (inv_nvot _ _ I'). f_equal. now apply Permutation_length.
  - rewrite (inv_nuniq _ _ I), (inv_nuniq _ _ I'). f_equal. apply Permutation_length.
    apply NoDup_Permutation; eauto using Inv_nodup_ords.
  - exact Hnalt.
  - exact Halts.
  - exact Hords.
  - split; eauto using Inv_nodup_ords.
  - intros H H'. rewrite (dtype_spec s ms I H), (dtype_spec s' ms' I' H'). rewrite Hnalt.
    f_equal; now apply forallb_set_ext.
Qed.

(* ------------------------------------------------------------------------------------------ *)
(** * data_type against is_strict / is_complete / the ballot-size statistics *)

Lemma dedup_in l x : In x (dedup l) <-> In x l.
Proof.
  induction l as [|a l IH]; simpl; [tauto|].
  destruct (existsb (N.eqb a) l) eqn:E.
  - rewrite IH. split; [tauto|]. intros [<-|H]; [|assumption].
    apply existsb_exists in E. destruct E as [y [Hy Ey]]. apply N.eqb_eq in Ey. now subst.
  - simpl. rewrite IH. tauto.
Qed.

Lemma dedup_nodup l : NoDup (dedup l).
Proof.
  induction l as [|a l IH]; simpl; [constructor|].
  destruct (existsb (N.eqb a) l) eqn:E; [assumption|].
  constructor; [|assumption]. rewrite dedup_in. intro H.
  assert (X : existsb (N.eqb a) l = true).
  { apply existsb_exists. exists a. split; [assumption | apply N.eqb_refl]. }
  congruence.
Qed.

Lemma dedup_id l : NoDup l -> dedup l = l.
Proof.
  induction 1 as [|x l Hnin Hn IH]; simpl; [reflexivity|].
  destruct (existsb (N.eqb x) l) eqn:E.
  - apply existsb_exists in E. destruct E as [y [Hy Ey]]. apply N.eqb_eq in Ey. subst. contradiction.
  - now rewrite IH.
Qed.

Lemma bool_iff (a b : bool) : (a = true <-> b = true) -> a = b.
Proof. destruct a, b; intros [H1 H2]; try reflexivity; [symmetry; now apply H1 | now apply H2]. Qed.

Lemma list_max0_le l n : list_max0 l <= n <-> forall x, In x l -> x <= n.
Proof.
  unfold list_max0. induction l as [|a l IH]; simpl.
  - split; [intros _ x [] | lia].
  - rewrite Nat.max_lub_iff, IH. split.
    + intros [H1 H2] x [<-|Hx]; auto.
    + intro H. split; [apply H; now left | intros x Hx; apply H; now right].
Qed.

Lemma list_max0_ge l x : In x l -> x <= list_max0 l.
Proof. intro H. now apply (proj1 (list_max0_le l (list_max0 l)) (Nat.le_refl _)). Qed.

Lemma max_eq1 l :
  l <> [] -> (forall x, In x l -> 1 <= x) -> (list_max0 l = 1 <-> forall x, In x l -> x = 1).
Proof.
  intros Hne Hge. split.
  - intros E x Hx. pose proof (list_max0_ge l x Hx). pose proof (Hge x Hx). lia.
  - intro H. assert (Hle : list_max0 l <= 1).
    { apply list_max0_le. intros x Hx. rewrite (H x Hx). lia. }
    destruct l as [|y l]; [contradiction|].
    pose proof (list_max0_ge (y :: l) y (or_introl eq_refl)) as G.
    pose proof (H y (or_introl eq_refl)) as Ey. lia.
Qed.

Lemma fold_max_base x r : fold_right Nat.max x r = Nat.max x (fold_right Nat.max 0 r).
Proof. induction r as [|a r IH]; simpl; lia. Qed.

Lemma fold_min_base x y r : fold_right Nat.min (Nat.min x y) r = Nat.min y (fold_right Nat.min x r).
Proof. induction r as [|a r IH]; simpl; lia. Qed.

Lemma max_tail0 l : get 0 (list_max_r (l ++ [0])) = list_max0 l.
Proof.
  destruct l as [|x r]; [reflexivity|]. simpl. rewrite fold_right_app. simpl.
  apply fold_max_base.
Qed.

Lemma fold_min_spec x r :
  In (fold_right Nat.min x r) (x :: r) /\ forall y, In y (x :: r) -> fold_right Nat.min x r <= y.
Proof.
  induction r as [|a r [IH1 IH2]]; simpl.
  - split; [now left | intros y [<-|[]]; lia].
  - split.
    + destruct (Nat.min_spec a (fold_right Nat.min x r)) as [[_ E]|[_ E]]; rewrite E.
      * right. now left.
      * destruct IH1 as [H|H]; [now left | right; now right].
    + intros y [<-|[<-|Hy]].
      * pose proof (IH2 x (or_introl eq_refl)). lia.
      * lia.
      * pose proof (IH2 y (or_intror Hy)). lia.
Qed.

Lemma fold_max_spec x r :
  In (fold_right Nat.max x r) (x :: r) /\ forall y, In y (x :: r) -> y <= fold_right Nat.max x r.
Proof.
  induction r as [|a r [IH1 IH2]]; simpl.
  - split; [now left | intros y [<-|[]]; lia].
  - split.
    + destruct (Nat.max_spec a (fold_right Nat.max x r)) as [[_ E]|[_ E]]; rewrite E.
      * destruct IH1 as [H|H]; [now left | right; now right].
      * right. now left.
    + intros y [<-|[<-|Hy]].
      * pose proof (IH2 x (or_introl eq_refl)). lia.
      * lia.
      * pose proof (IH2 y (or_intror Hy)). lia.
Qed.

Lemma filter_all {T} (f : T -> bool) l : (forall x, In x l -> f x = true) -> filter f l = l.
Proof.
  induction l as [|a l IH]; simpl; intro H; [reflexivity|].
  rewrite (H a (or_introl eq_refl)). f_equal. apply IH. intros x Hx. apply H. now right.
Qed.

Lemma nonempty_in {T} (l : list T) : l <> [] -> exists x, In x l.
Proof. destruct l as [|x l]; [contradiction|]. intros _. exists x. now left. Qed.

Lemma in_nonempty {T} (l : list T) x : In x l -> l <> [].
Proof. destruct l; [contradiction | discriminate]. Qed.

Section TypeAgreement.
  Variables (s : state) (ms : list order).
  Hypothesis I : Inv s ms.

  Lemma TA_tbl : tbl (ords s) (mult s) ms.
  Proof. exact (inv_tbl _ _ I). Qed.
  Lemma TA_wf : Forall wf_vote ms.
  Proof. exact (inv_wf _ _ I). Qed.

  Lemma ords_wf o : In o (ords s) -> wf_vote o.
  Proof.
    intro Ho. apply (tbl_in _ _ _ o TA_tbl) in Ho. pose proof TA_wf as W'.
    rewrite Forall_forall in W'. now apply W'.
  Qed.

  Lemma ballot_incl o : In o (ords s) -> incl (concat o) (map fst (alts s)).
  Proof.
    intros Ho a Ha. destruct (inv_alts _ _ I) as (_ & B & _). apply B. apply in_cc.
    exists o. split; [now apply (tbl_in _ _ _ o TA_tbl) | assumption].
  Qed.

  Lemma ballot_le o : In o (ords s) -> (N.of_nat (ballot_size o) <= n_alt s)%N.
  Proof.
    intro Ho. destruct (ords_wf o Ho) as (_ & _ & Hn).
    pose proof (NoDup_incl_length Hn (ballot_incl o Ho)) as L.
    rewrite map_length in L. rewrite (inv_nalt _ _ I). unfold ballot_size. lia.
  Qed.

  (** strictness: three equivalent readings *)
  Definition all_singletons (os : list order) : Prop :=
    forall o c, In o os -> In c o -> length c = 1.

  Lemma strict_o_iff o : wf_vote o -> (strict_o o = true <-> forall c, In c o -> length c = 1).
  Proof.
    intros (Hne & Hc & _). unfold strict_o, max_class_len. rewrite Nat.eqb_eq.
    change (fold_right Nat.max 0 (map (@length N) o)) with (list_max0 (map (@length N) o)).
    rewrite max_eq1.
    - split.
      + intros H c Hin. apply H. now apply in_map.
      + intros H x Hx. apply in_map_iff in Hx. destruct Hx as [c [<- Hin]]. now apply H.
    - destruct o; [contradiction | discriminate].
    - intros x Hx. apply in_map_iff in Hx. destruct Hx as [c [<- Hin]].
      rewrite Forall_forall in Hc. specialize (Hc c Hin). destruct c; [contradiction | simpl; lia].
  Qed.

  Lemma forallb_strict_iff : forallb strict_o (ords s) = true <-> all_singletons (ords s).
  Proof.
    rewrite forallb_forall. unfold all_singletons. split.
    - intros H o c Ho. now apply (strict_o_iff o (ords_wf o Ho)), H.
    - intros H o Ho. apply (strict_o_iff o (ords_wf o Ho)). intros c Hc. now apply (H o).
  Qed.

  Lemma all_singletons_ms : all_singletons (ords s) <-> all_singletons ms.
  Proof.
    unfold all_singletons. split; intros H o c Ho; apply H; now apply (tbl_in _ _ _ o TA_tbl).
  Qed.

  Hypothesis Hne : ms <> [].

  Lemma ords_ne : ords s <> [].
  Proof.
    destruct (nonempty_in ms Hne) as [o Ho]. apply (tbl_in _ _ _ o TA_tbl) in Ho.
    now apply (in_nonempty _ o).
  Qed.

  Lemma class_sizes_eq : class_sizes s = map (@length N) (concat (ords s)).
  Proof.
    unfold class_sizes. apply filter_all. intros x Hx. apply in_map_iff in Hx.
    destruct Hx as [c [<- Hc]]. apply in_concat in Hc. destruct Hc as [o [Ho Hco]].
    destruct (ords_wf o Ho) as (_ & Hcl & _). rewrite Forall_forall in Hcl.
    specialize (Hcl c Hco). destruct c; [contradiction | reflexivity].
  Qed.

  Lemma is_strict_iff : is_strict s = true <-> all_singletons (ords s).
  Proof.
    unfold is_strict, largest_indif. rewrite max_tail0, class_sizes_eq, Nat.eqb_eq.
    rewrite max_eq1.
    - unfold all_singletons. split.
      + intros H o c Ho Hc. apply H. apply in_map. apply in_concat. now exists o.
      + intros H x Hx. apply in_map_iff in Hx. destruct Hx as [c [<- Hc]].
        apply in_concat in Hc. destruct Hc as [o [Ho Hco]]. now apply (H o).
    - destruct (nonempty_in _ ords_ne) as [o Ho].
      destruct (ords_wf o Ho) as (Hone & _ & _). destruct (nonempty_in o Hone) as [c Hc].
      apply (in_nonempty _ (length c)). apply in_map. apply in_concat. now exists o.
    - intros x Hx. apply in_map_iff in Hx. destruct Hx as [c [<- Hc]].
      apply in_concat in Hc. destruct Hc as [o [Ho Hco]].
      destruct (ords_wf o Ho) as (_ & Hcl & _). rewrite Forall_forall in Hcl.
      specialize (Hcl c Hco). destruct c; [contradiction | simpl; lia].
  Qed.

  Lemma is_strict_eq : is_strict s = forallb strict_o (ords s).
  Proof. apply bool_iff. now rewrite is_strict_iff, forallb_strict_iff. Qed.

  (** completeness *)
  Lemma sizes_ne : map ballot_size (ords s) <> [].
  Proof.
    destruct (nonempty_in _ ords_ne) as [o Ho]. apply (in_nonempty _ (ballot_size o)). now apply in_map.
  Qed.

  Lemma smallest_spec :
    exists m, smallest_ballot s = Ok m /\
              ((N.of_nat m =? n_alt s)%N = forallb (complete_o (n_alt s)) (ords s)).
  Proof.
    unfold smallest_ballot. pose proof sizes_ne as Hs.
    destruct (map ballot_size (ords s)) as [|x r] eqn:E; [contradiction|]. simpl.
    exists (fold_right Nat.min x r). split; [reflexivity|].
    destruct (fold_min_spec x r) as [Hin Hle]. rewrite <- E in Hin, Hle.
    apply bool_iff. rewrite N.eqb_eq, forallb_forall. split.
    - intros Hm o Ho. unfold complete_o. apply N.eqb_eq.
      pose proof (ballot_le o Ho). pose proof (Hle (ballot_size o) (in_map _ _ _ Ho)). lia.
    - intro H. apply in_map_iff in Hin. destruct Hin as [o [<- Ho]].
      specialize (H o Ho). unfold complete_o in H. now apply N.eqb_eq in H.
  Qed.

  Lemma is_complete_eq : is_complete s = Ok (forallb (complete_o (n_alt s)) (ords s)).
  Proof.
    destruct smallest_spec as [m [E1 E2]]. unfold is_complete. rewrite E1. simpl. now rewrite E2.
  Qed.

  Lemma largest_spec : exists k, largest_ballot s = Ok k /\ (N.of_nat k <= n_alt s)%N.
  Proof.
    unfold largest_ballot. pose proof sizes_ne as Hs.
    destruct (map ballot_size (ords s)) as [|x r] eqn:E; [contradiction|]. simpl.
    exists (fold_right Nat.max x r). split; [reflexivity|].
    destruct (fold_max_spec x r) as [Hin _]. rewrite <- E in Hin.
    apply in_map_iff in Hin. destruct Hin as [o [<- Ho]]. now apply ballot_le.
  Qed.

  Definition all_complete (os : list order) : Prop :=
    forall o a, In o os -> In a (map fst (alts s)) -> In a (concat o).

  Lemma forallb_complete_iff :
    forallb (complete_o (n_alt s)) (ords s) = true <-> all_complete ms.
  Proof.
    rewrite forallb_forall. unfold all_complete, complete_o. split.
    - intros H o a Ho Ha. apply (tbl_in _ _ _ o TA_tbl) in Ho. specialize (H o Ho).
      apply N.eqb_eq in H. destruct (ords_wf o Ho) as (_ & _ & Hn).
      refine (NoDup_length_incl Hn _ (ballot_incl o Ho) a Ha).
      rewrite map_length. rewrite (inv_nalt _ _ I) in H. unfold ballot_size in H. lia.
    - intros H o Ho. apply N.eqb_eq. pose proof (ballot_le o Ho) as L.
      destruct (inv_alts _ _ I) as (Hn & _ & _).
      assert (Hi : incl (map fst (alts s)) (concat o)).
      { intros a Ha. apply (H o a); [now apply (tbl_in _ _ _ o TA_tbl) | assumption]. }
      pose proof (NoDup_incl_length Hn Hi) as L2. rewrite map_length in L2.
      rewrite (inv_nalt _ _ I) in *. unfold ballot_size in *. lia.
  Qed.

  Lemma not_init : infer_type s = Ok (dtype s).
  Proof.
    destruct (inv_type _ _ I) as [H|H]; [assumption|]. exfalso.
    pose proof ords_ne as One. rewrite H in One. now apply One.
  Qed.

  Lemma n_alt_spec : n_alt s = N.of_nat (length (dedup (concat (concat ms)))).
  Proof.
    rewrite (inv_nalt _ _ I), <- (map_length fst (alts s)). f_equal. apply Permutation_length.
    destruct (inv_alts _ _ I) as (Hn & B & _).
    apply NoDup_Permutation; [assumption | apply dedup_nodup|].
    intro a. now rewrite B, dedup_in.
  Qed.

  Lemma dtype_is_spec_type : dtype s = spec_type ms.
  Proof.
    rewrite (dtype_spec s ms I not_init). unfold spec_type. rewrite <- n_alt_spec.
    f_equal; apply forallb_set_ext; intro o; apply (tbl_in _ _ _ o TA_tbl).
  Qed.

  Lemma type_agreement :
    dtype s = spec_type ms /\
    is_strict s = is_strict_type (dtype s) /\
    is_complete s = Ok (is_complete_type (dtype s)) /\
    (largest_indif s = 1 <-> is_strict_type (dtype s) = true) /\
    (smallest_ballot s = Ok (N.to_nat (n_alt s)) <-> is_complete_type (dtype s) = true) /\
    (exists k, largest_ballot s = Ok k /\ (N.of_nat k <= n_alt s)%N) /\
    (is_strict_type (dtype s) = true <-> all_singletons ms) /\
    (is_complete_type (dtype s) = true <-> all_complete ms) /\
    dtype s <> DNone.
  Proof.
    pose proof (dtype_spec s ms I not_init) as D.
    assert (S1 : is_strict_type (dtype s) = forallb strict_o (ords s)).
    { rewrite D. now destruct (forallb strict_o (ords s)), (forallb (complete_o (n_alt s)) (ords s)). }
    assert (C1 : is_complete_type (dtype s) = forallb (complete_o (n_alt s)) (ords s)).
    { rewrite D. now destruct (forallb strict_o (ords s)), (forallb (complete_o (n_alt s)) (ords s)). }
    split; [exact dtype_is_spec_type|].
    split; [rewrite S1; exact is_strict_eq|].
    split; [rewrite C1; exact is_complete_eq|].
    split.
    { rewrite S1, <- is_strict_eq. unfold is_strict. now rewrite Nat.eqb_eq. }
    split.
    { rewrite C1. destruct smallest_spec as [m [E1 E2]]. rewrite E1, <- E2, N.eqb_eq.
      split; [intro H; injection H as ->; lia | intro H; f_equal; lia]. }
    split; [exact largest_spec|].
    split; [rewrite S1, forallb_strict_iff; exact all_singletons_ms|].
    split; [rewrite C1; exact forallb_complete_iff|].
    rewrite D. apply type_code_not_none.
  Qed.
End TypeAgreement.

(* ------------------------------------------------------------------------------------------ *)
(** * sanity.orders *)

Lemma len_flat_repeat (g : order -> N) l :
  N.of_nat (length (flat_map (fun o => repeat o (N.to_nat (g o))) l)) = sum_N (map g l).
Proof.
  induction l as [|a l IH]; simpl; [reflexivity|].
  rewrite app_length, repeat_length, Nat2N.inj_add, N2Nat.id. unfold sum_N in IH. now rewrite IH.
Qed.

Lemma nodup_orders_true l : NoDup l -> nodup_orders l = true.
Proof.
  induction 1 as [|x l Hnin Hn IH]; simpl; [reflexivity|]. rewrite IH, andb_true_r.
  destruct (in_orders l x) eqn:E; [|reflexivity]. apply in_orders_iff in E. contradiction.
Qed.

Lemma sum_table s ms : Inv s ms -> sum_N (map snd (mult s)) = N.of_nat (length ms).
Proof.
  intro I. rewrite <- (Permutation_length (full_profile_perm s ms I)).
  unfold full_profile. rewrite (len_flat_repeat (mget (mult s))).
  f_equal. rewrite <- (vote_map_eq s ms I) at 1. unfold vote_map. rewrite map_map. reflexivity.
Qed.

Lemma dt_eqb_refl d : dt_eqb d d = true.
Proof. now destruct d. Qed.

Lemma Inv_sanity s ms : Inv s ms -> infer_type s = Ok (dtype s) -> sanity_ok s = true.
Proof.
  intros I Hty. pose proof (TA_tbl s ms I) as T.
  unfold sanity_ok, sanity_checks. cbn [forallb]. rewrite !andb_true_iff.
  split; [|split; [|split; [|split; [|split; [|split; [|split; [|reflexivity]]]]]]].
  - apply Nat.eqb_eq. destruct T as (_ & -> & _). now rewrite map_length.
  - apply N.eqb_eq. now rewrite (sum_table s ms I), (inv_nvot _ _ I).
  - apply N.eqb_eq. exact (inv_nuniq _ _ I).
  - apply N.leb_le. rewrite (inv_nalt _ _ I), <- (map_length fst (alts s)).
    assert (L : length (order_alts s) <= length (map fst (alts s))).
    { apply NoDup_incl_length; [apply dedup_nodup|]. intros a Ha. unfold order_alts in Ha.
      apply dedup_in, in_cc in Ha. destruct Ha as [o [Ho Ha]].
      exact (ballot_incl s ms I o Ho a Ha). }
    lia.
  - rewrite Hty. apply dt_eqb_refl.
  - apply nodup_orders_true. exact (Inv_nodup_ords s ms I).
  - apply forallb_forall. intros o Ho. unfold sanity_order.
    destruct (ords_wf s ms I o Ho) as (_ & _ & Hn).
    rewrite (dedup_id _ Hn). pose proof (ballot_le s ms I o Ho) as L. unfold ballot_size in L.
    rewrite !andb_true_iff. split; [split; [split|]|].
    + now apply N.leb_le.
    + now apply Nat.leb_le.
    + destruct (is_complete_type (dtype s)); [now apply N.leb_le | reflexivity].
    + destruct (is_strict_type (dtype s)) eqn:E; [|reflexivity].
      rewrite (dtype_spec s ms I Hty) in E.
      assert (A : forallb strict_o (ords s) = true).
      { destruct (forallb strict_o (ords s)); [reflexivity|].
        now destruct (forallb (complete_o (n_alt s)) (ords s)). }
      rewrite forallb_forall in A. exact (A o Ho).
Qed.

(* ------------------------------------------------------------------------------------------ *)
(** * Boolean well-formedness (to exhibit concrete well-formed histories) *)

Definition wf_voteb (o : order) : bool :=
  negb (match o with [] => true | _ => false end)
  && forallb (fun c => negb (match c with [] => true | _ => false end)) o
  && (length (dedup (concat o)) =? length (concat o)).

Lemma dedup_len_nodup l : length (dedup l) = length l -> NoDup l.
Proof.
  induction l as [|a l IH]; simpl; [constructor|].
  destruct (existsb (N.eqb a) l) eqn:E.
  - intro H. exfalso.
    assert (L : length (dedup l) <= length l).
    { apply NoDup_incl_length; [apply dedup_nodup | intros x Hx; now apply dedup_in]. }
    lia.
  - simpl. intro H. constructor; [|apply IH; lia].
    intro Hin. assert (X : existsb (N.eqb a) l = true).
    { apply existsb_exists. exists a. split; [assumption | apply N.eqb_refl]. }
    congruence.
Qed.

Lemma wf_voteb_sound o : wf_voteb o = true -> wf_vote o.
Proof.
  unfold wf_voteb. rewrite !andb_true_iff. intros [[H1 H2] H3]. split; [|split].
  - destruct o; [discriminate | discriminate].
  - apply Forall_forall. intros c Hc. rewrite forallb_forall in H2. specialize (H2 c Hc).
    destruct c; [discriminate | discriminate].
  - apply dedup_len_nodup. now apply Nat.eqb_eq.
Qed.

Definition wf_opb (p : op) : bool :=
  match p with
  | AppendVoteMap vm => forallb (fun e => wf_voteb (fst e) && (1 <=? snd e)%N) vm
  | _ => forallb wf_voteb (votes p)
  end.

Lemma wf_opb_sound p : wf_opb p = true -> wf_op p.
Proof.
  destruct p; cbn [wf_opb wf_op]; intro H; apply Forall_forall; intros x Hx; rewrite forallb_forall in H;
    specialize (H x Hx); try (now apply wf_voteb_sound).
  apply andb_true_iff in H. destruct H as [H1 H2]. split; [now apply wf_voteb_sound | now apply N.leb_le].
Qed.

Lemma wf_opsb_sound ops : forallb wf_opb ops = true -> wf_ops ops.
Proof.
  intro H. apply Forall_forall. intros p Hp. rewrite forallb_forall in H. now apply wf_opb_sound, H.
Qed.

(* ------------------------------------------------------------------------------------------ *)
(** * The invariant spelled out; the samplers *)

Definition Inv_explicit (s : state) (ms : list order) : Prop :=
  NoDup (map fst (mult s)) /\
  ords s = map fst (mult s) /\
  (forall o, lookup (mult s) o = if (cnt ms o =? 0)%N then None else Some (cnt ms o)) /\
  n_vot s = N.of_nat (length ms) /\
  n_uniq s = N.of_nat (length (ords s)) /\
  NoDup (map fst (alts s)) /\
  (forall a, In a (map fst (alts s)) <-> exists o, In o ms /\ In a (concat o)) /\
  (forall a t, In (a, t) (alts s) -> t = alt_name a) /\
  n_alt s = N.of_nat (length (alts s)) /\
  Forall wf_vote ms /\
  (infer_type s = Ok (dtype s) \/ s = init).

Lemma Inv_explicit_iff s ms : Inv s ms <-> Inv_explicit s ms.
Proof.
  unfold Inv_explicit. split.
  - intros [(T1 & T2 & T3) V U (A1 & A2 & A3) NA W Ty].
    repeat (split; [assumption|]). split; [|auto].
    intro a. now rewrite A2, in_cc.
  - intros (T1 & T2 & T3 & V & U & A1 & A2 & A3 & NA & W & Ty).
    constructor; try assumption.
    + now split; [|split].
    + split; [assumption|]. split; [|assumption]. intro a. now rewrite A2, in_cc.
Qed.

Lemma wf_strictify l : l <> [] -> NoDup l -> wf_vote (strictify l).
Proof.
  intros Hne Hn. split; [|split].
  - destruct l; [contradiction | discriminate].
  - apply Forall_forall. intros c Hc. apply in_map_iff in Hc. destruct Hc as [a [<- _]]. discriminate.
  - now rewrite concat_strictify.
Qed.

(** what prefsampling_ordinal_wrapper returns: a map from strict orders (tuples of singletons over
    distinct alternatives) to positive counts.  Any such map is a well-formed AppendVoteMap. *)
Definition sampler_output (vm : list (order * N)) : Prop :=
  Forall (fun e => (exists l, fst e = strictify l /\ l <> [] /\ NoDup l) /\ (1 <= snd e)%N) vm.

Lemma sampler_wf vm : sampler_output vm -> wf_op (AppendVoteMap vm).
Proof.
  intro H. simpl. eapply Forall_impl; [|exact H]. intros e [[l (-> & Hne & Hn)] Hk].
  split; [now apply wf_strictify | assumption].
Qed.

(** no entry point raises on a well-formed operation (the only exception the mirrored code can
    raise is infer_type's ValueError on an order without classes) *)
Lemma step_no_raise s ms o : Inv s ms -> wf_op o -> step_raises s o = false.
Proof.
  intros I Wf. destruct (step_Inv s ms o I Wf) as [_ H].
  destruct o; unfold step_raises, raises; unfold step in H; cbv zeta in *;
    match goal with
    | |- negb (is_ok (infer_type ?X)) = false => change (infer_type X) with (infer_type (set_type X))
    end; rewrite H; reflexivity.
Qed.

(* ------------------------------------------------------------------------------------------ *)
(** * prefsampling_ordinal_wrapper: from the sampler's rows to the vote map *)

Lemma tbl_profile_perm os m ms :
  tbl os m ms -> Permutation (flat_map (fun o => repeat o (N.to_nat (mget m o))) os) ms.
Proof.
  intro T. apply (Permutation_count_occ order_eq_dec). intro o.
  rewrite (count_flat_repeat (fun x => N.to_nat (mget m x))).
  rewrite (tbl_mget _ _ _ o T). unfold cnt. rewrite Nat2N.id.
  destruct (in_dec order_eq_dec o os) as [Hin|Hnin].
  - assert (Hn : NoDup os) by (destruct T as (Hn & -> & _); exact Hn).
    rewrite (proj1 (NoDup_count_occ' order_eq_dec os) Hn o Hin). lia.
  - assert (Hm : ~ In o ms) by (rewrite <- (tbl_in _ _ _ o T); exact Hnin).
    apply (count_occ_not_In order_eq_dec) in Hm. rewrite Hm. lia.
Qed.

Lemma tbl_expand_perm os m ms : tbl os m ms -> Permutation (expand m) ms.
Proof.
  intro T. pose proof (tbl_profile_perm os m ms T) as P. destruct T as (Hn & -> & _).
  unfold expand. rewrite <- (vote_map_keys m Hn) at 1.
  rewrite flat_map_concat_map, map_map. simpl. rewrite <- flat_map_concat_map. exact P.
Qed.

Lemma lookup_in m o k : NoDup (map fst m) -> In (o, k) m -> lookup m o = Some k.
Proof.
  induction m as [|[o' k'] m IH]; simpl; intros Hn Hin; [contradiction|].
  inversion Hn as [|? ? Hnin Hn']; subst. destruct Hin as [E|Hin].
  - injection E as -> ->. now rewrite order_eqb_refl.
  - rewrite order_eqb_neq; [now apply IH|]. intros ->. apply Hnin. apply in_map_iff. now exists (o, k).
Qed.

Lemma wrapper_tbl_gen rows : forall vm ms,
  tbl (map fst vm) vm ms ->
  tbl (map fst (fold_left (fun vm r => bump vm (strictify r)) rows vm))
      (fold_left (fun vm r => bump vm (strictify r)) rows vm) (ms ++ map strictify rows).
Proof.
  induction rows as [|r rows IH]; intros vm ms T; simpl.
  - now rewrite app_nil_r.
  - assert (H1 : (1 <= 1)%N) by lia.
    pose proof (tbl_add _ _ _ (strictify r) 1%N T H1) as TA.
    assert (T' : tbl (map fst (bump vm (strictify r))) (bump vm (strictify r)) (ms ++ [strictify r])).
    { unfold bump. destruct (has_key vm (strictify r)).
      - destruct TA as (A & B & C). split; [assumption|]. split; [reflexivity | exact C].
      - destruct TA as (A & B & C). split; [assumption|]. split; [reflexivity | exact C]. }
    specialize (IH _ _ T'). rewrite <- app_assoc in IH. exact IH.
Qed.

Lemma wrapper_tbl rows : tbl (map fst (wrapper rows)) (wrapper rows) (map strictify rows).
Proof. exact (wrapper_tbl_gen rows [] [] tbl_nil). Qed.

(** the rows a ranking sampler returns: non-empty duplicate-free rankings *)
Definition sampler_rows (rows : list (list N)) : Prop := Forall (fun r => r <> [] /\ NoDup r) rows.

Lemma wrapper_spec rows :
  sampler_rows rows ->
  NoDup (map fst (wrapper rows)) /\
  (forall o, lookup (wrapper rows) o = cnt_opt (map strictify rows) o) /\
  Permutation (expand (wrapper rows)) (map strictify rows) /\
  sampler_output (wrapper rows).
Proof.
  intro R. pose proof (wrapper_tbl rows) as T. pose proof T as (Hn & _ & L).
  split; [assumption|]. split; [assumption|]. split; [exact (tbl_expand_perm _ _ _ T)|].
  apply Forall_forall. intros [o k] Hin. simpl. split.
  - assert (Ho : In o (map strictify rows)).
    { apply (tbl_in _ _ _ o T). apply in_map_iff. now exists (o, k). }
    apply in_map_iff in Ho. destruct Ho as [r [<- Hr]]. exists r. split; [reflexivity|].
    unfold sampler_rows in R. rewrite Forall_forall in R. exact (R r Hr).
  - pose proof (lookup_in _ _ _ Hn Hin) as E. rewrite L in E. unfold cnt_opt in E.
    destruct (N.eqb_spec (cnt (map strictify rows) o) 0); [discriminate|]. injection E as <-. lia.
Qed.

(** the invariant speaks about the multiset of votes: it is stable under permutation of [ms] *)
Lemma Inv_perm s ms ms' : Inv s ms -> Permutation ms ms' -> Inv s ms'.
Proof.
  intros [(T1 & T2 & T3) V U (A1 & A2 & A3) NA W Ty] P. constructor; try assumption.
  - split; [assumption|]. split; [assumption|]. intro o. rewrite T3. unfold cnt_opt.
    now rewrite (cnt_perm ms ms' o P).
  - rewrite V. f_equal. now apply Permutation_length.
  - split; [assumption|]. split; [|assumption]. intro a. rewrite A2.
    split; [apply in_cc_perm; assumption | apply in_cc_perm; now apply Permutation_sym].
  - eapply Permutation_Forall; eassumption.
Qed.

Lemma populate_rows ops rows :
  wf_ops ops -> sampler_rows rows ->
  wf_op (AppendVoteMap (wrapper rows)) /\
  Inv (run (ops ++ [AppendVoteMap (wrapper rows)])) (votes_of ops ++ map strictify rows).
Proof.
  intros Wf R. destruct (wrapper_spec rows R) as (_ & _ & P & S).
  pose proof (sampler_wf _ S) as Wv. split; [assumption|].
  apply (Inv_perm _ (votes_of ops ++ expand (wrapper rows))).
  - unfold run. rewrite fold_left_app. simpl.
    apply (step_Inv _ _ (AppendVoteMap (wrapper rows)) (reachable ops Wf) Wv).
  - now apply Permutation_app_head.
Qed.

(* ------------------------------------------------------------------------------------------ *)
(** * recompute_cardinality_param changes nothing on a consistent instance *)

Lemma dedup_o_id l : NoDup l -> dedup_o l = l.
Proof.
  induction 1 as [|x l Hnin Hn IH]; simpl; [reflexivity|].
  destruct (in_orders l x) eqn:E; [apply in_orders_iff in E; contradiction | now rewrite IH].
Qed.

Lemma recompute_noop s ms : Inv s ms -> recompute s = s.
Proof.
  intro I. unfold recompute.
  assert (V : sum_N (map (mget (mult s)) (ords s)) = n_vot s).
  { rewrite (inv_nvot _ _ I), <- (sum_table s ms I). f_equal.
    rewrite <- (vote_map_eq s ms I) at 2. unfold vote_map. now rewrite map_map. }
  assert (U : N.of_nat (length (dedup_o (ords s))) = n_uniq s).
  { rewrite (dedup_o_id _ (Inv_nodup_ords s ms I)). symmetry. exact (inv_nuniq _ _ I). }
  rewrite V, U. now destruct s.
Qed.
