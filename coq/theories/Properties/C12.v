(* Properties/C12.v — nearly-single-peaked optimisers return true optima with certificates.
   Statements only; every proof is `exact <lemma of Proofs/Deletion.v>`.

   Shape (R): approx_SP_voter_deletion_ILP, approx_SP_alternative_deletion_ILP (python-mip / CBC) and
   k_alternative_deletion (dynamic programme) are NOT mirrored.  Stated and proved here, for every size:
     - the specification of the two optima, over the declarative single-peakedness SPw of Proofs/SP.v
       (exists an axis, a permutation of the alternatives, on which the union of the k best classes of every
       order is contiguous, for every k);
     - reference optimisers min_alt_del / min_vot_del (Model/Deletion.v: enumeration of deletion sets by
       increasing size over the verified decider spw_decide) return exactly the minimum;
     - certificate checkers cert_alt / cert_vot accept exactly the valid certificates, and a valid certificate of
       size k implies optimum <= k.  "reference = k and certificate of size k valid" pins the value from both sides;
     - monotonicity of both optima under restriction to a subset of the alternatives and under removal of
       orders (exact lower bounds on large inputs from small cores);
     - invariance under reordering of the stored orders and under injective relabelling (reused by C15).
   The correspondence (harness/props/c12.py) compares the objective values of the three functions with the
   references on bounded inputs and runs the checkers on every returned certificate at every size.

   Conventions: a profile is the list instance.orders of DISTINCT orders (the objective is unweighted);
   an order is the list of its indifference classes, best first; `complete_on alts o` = o is a complete weak
   order over alts (classes non-empty, every alternative exactly once) - the quantifier of C12 (soc / toc).
   keepN D l = the elements of l not in D;  delete_alts D p = every order of p without the alternatives of D
   (emptied classes dropped);  remove_idx V p = p without the orders whose index is in V.

   Agreement clause ("the two alternative-deletion methods report the same optimum on strict profiles"): both are
   compared with the same reference min_alt_del, which by min_alt_del_correct is THE minimum, so no further theorem is
   needed; AltDel_strict shows that on strict profiles the specification is C03's SP of the remaining rankings. *)
From Coq Require Import List Arith NArith ZArith Bool Permutation.
From PrefVerif Require Import Lib.Val Lib.Contig Lib.Subsets Model.SP Model.Deletion Model.ILPEnc Model.ELPDP Model.MaxAxis
                              Model.Partition Proofs.SP Proofs.Deletion Proofs.ILPEnc Proofs.ELPDP Proofs.MaxAxis Proofs.ELPComplete Proofs.ELPOptimal.
Import ListNotations.

(* ---- the reference optimisers return the minimum ---------------------------------------------- *)

(* min_alt_del alts p = k  iff  some duplicate-free set D of k alternatives leaves a single-peaked profile on the
   remaining alternatives, and no list D' of fewer than k alternatives (whatever it contains) does *)
Theorem min_alt_del_correct : forall (alts : list N) (p : list order) (k : nat),
  NoDup alts -> Forall (complete_on alts) p ->
  (min_alt_del alts p = k <->
   (exists D, NoDup D /\ incl D alts /\ length D = k /\ SPw (keepN D alts) (delete_alts D p)) /\
   (forall D', length D' < k -> ~ SPw (keepN D' alts) (delete_alts D' p))).
Proof. exact Proofs.Deletion.min_alt_del_correct. Qed.
Print Assumptions min_alt_del_correct.

(* same for sets of distinct orders (indices into the profile) *)
Theorem min_vot_del_correct : forall (alts : list N) (p : list order) (k : nat),
  NoDup alts -> Forall (complete_on alts) p ->
  (min_vot_del alts p = k <->
   (exists V, NoDup V /\ (forall i, In i V -> i < length p) /\ length V = k /\ SPw alts (remove_idx V p)) /\
   (forall V', length V' < k -> ~ SPw alts (remove_idx V' p))).
Proof. exact Proofs.Deletion.min_vot_del_correct. Qed.
Print Assumptions min_vot_del_correct.

(* the boolean tests used by the enumeration decide the specification *)
Theorem alt_del_ok_correct : forall alts p D, NoDup alts -> Forall (complete_on alts) p ->
  (alt_del_ok alts p D = true <-> SPw (keepN D alts) (delete_alts D p)).
Proof. exact Proofs.Deletion.alt_del_ok_correct. Qed.
Print Assumptions alt_del_ok_correct.

Theorem vot_del_ok_correct : forall alts p V, NoDup alts -> Forall (complete_on alts) p ->
  (vot_del_ok alts p V = true <-> SPw alts (remove_idx V p)).
Proof. exact Proofs.Deletion.vot_del_ok_correct. Qed.
Print Assumptions vot_del_ok_correct.

(* on strict profiles the specification is C03's SP of the remaining rankings *)
Theorem AltDel_strict : forall alts (rs : list ranking) D,
  SPw (keepN D alts) (delete_alts D (map strictify rs)) <-> SP (keepN D alts) (map (keepN D) rs).
Proof. exact Proofs.Deletion.AltDel_strict. Qed.
Print Assumptions AltDel_strict.

(* ---- certificates ----------------------------------------------------------------------------- *)

(* cert_alt accepts (axis, D) with reported value k  iff  D is a duplicate-free set of k alternatives, the axis with
   the deleted alternatives filtered out lists every remaining alternative exactly once, and the remaining profile
   restricted to the remaining alternatives is single-peaked on it *)
Theorem cert_alt_correct : forall alts p k axis D, NoDup alts -> Forall (complete_on alts) p ->
  (cert_alt alts p k axis D = true <->
   NoDup D /\ incl D alts /\ length D = k /\
   Permutation (keepN D alts) (keepN D axis) /\ SPw_axis (delete_alts D p) (keepN D axis)).
Proof. exact Proofs.Deletion.cert_alt_correct. Qed.
Print Assumptions cert_alt_correct.

Theorem cert_vot_correct : forall alts p k axis V, NoDup alts -> Forall (complete_on alts) p ->
  (cert_vot alts p k axis V = true <->
   NoDup V /\ (forall i, In i V -> i < length p) /\ length V = k /\
   Permutation alts axis /\ SPw_axis (remove_idx V p) axis).
Proof. exact Proofs.Deletion.cert_vot_correct. Qed.
Print Assumptions cert_vot_correct.

(* a valid certificate of size k implies optimum <= k *)
Theorem cert_valid_bound : forall alts p k axis, NoDup alts -> Forall (complete_on alts) p ->
  (forall D, cert_alt alts p k axis D = true -> min_alt_del alts p <= k) /\
  (forall V, cert_vot alts p k axis V = true -> min_vot_del alts p <= k).
Proof.
  intros alts p k axis Hnd Hc. split.
  - intros D. now apply Proofs.Deletion.cert_alt_valid_bound.
  - intros V. now apply Proofs.Deletion.cert_vot_valid_bound.
Qed.
Print Assumptions cert_valid_bound.

(* any sufficient deletion set - not necessarily duplicate-free or within range - bounds the optimum *)
Theorem alt_del_bound : forall alts p D, NoDup alts -> Forall (complete_on alts) p ->
  alt_del_ok alts p D = true -> min_alt_del alts p <= length D.
Proof. exact Proofs.Deletion.alt_del_bound. Qed.
Print Assumptions alt_del_bound.

Theorem vot_del_bound : forall alts p V, vot_del_ok alts p V = true -> min_vot_del alts p <= length V.
Proof. exact Proofs.Deletion.vot_del_bound. Qed.
Print Assumptions vot_del_bound.

(* what the correspondence establishes when "certificate accepted and k <= reference": k is the optimum *)
Theorem cert_alt_optimal : forall alts p k axis D, NoDup alts -> Forall (complete_on alts) p ->
  cert_alt alts p k axis D = true -> k <= min_alt_del alts p ->
  min_alt_del alts p = k /\ forall D', length D' < k -> ~ SPw (keepN D' alts) (delete_alts D' p).
Proof. exact Proofs.Deletion.cert_alt_optimal. Qed.
Print Assumptions cert_alt_optimal.

Theorem cert_vot_optimal : forall alts p k axis V, NoDup alts -> Forall (complete_on alts) p ->
  cert_vot alts p k axis V = true -> k <= min_vot_del alts p ->
  min_vot_del alts p = k /\ forall V', length V' < k -> ~ SPw alts (remove_idx V' p).
Proof. exact Proofs.Deletion.cert_vot_optimal. Qed.
Print Assumptions cert_vot_optimal.

(* ---- monotonicity: exact lower bounds on larger inputs from small cores ----------------------- *)

(* restriction to the alternatives of S (restrict_order drops the other alternatives and the emptied classes) *)
Theorem opt_restrict_mono : forall alts p S, NoDup alts -> Forall (complete_on alts) p ->
  min_alt_del (restrict_alts S alts) (map (restrict_order S) p) <= min_alt_del alts p /\
  min_vot_del (restrict_alts S alts) (map (restrict_order S) p) <= min_vot_del alts p.
Proof.
  intros alts p S Hnd Hc. split.
  - now apply Proofs.Deletion.opt_restrict_mono_alt.
  - now apply Proofs.Deletion.opt_restrict_mono_vot.
Qed.
Print Assumptions opt_restrict_mono.

(* sub-profiles *)
Theorem opt_subprofile_mono : forall alts p p',
  (incl p' p -> min_alt_del alts p' <= min_alt_del alts p) /\
  (sublist p' p -> min_vot_del alts p' <= min_vot_del alts p).
Proof.
  intros alts p p'. split.
  - apply Proofs.Deletion.opt_subprofile_mono_alt.
  - apply Proofs.Deletion.opt_subprofile_mono_vot.
Qed.
Print Assumptions opt_subprofile_mono.

(* the restricted inputs are again in the domain of the theorems above *)
Theorem restrict_in_domain : forall alts p S, NoDup alts -> Forall (complete_on alts) p ->
  NoDup (restrict_alts S alts) /\ Forall (complete_on (restrict_alts S alts)) (map (restrict_order S) p).
Proof.
  intros alts p S Hnd Hc. split; [now apply NoDup_filter|now apply Proofs.Deletion.complete_on_restrict_profile].
Qed.
Print Assumptions restrict_in_domain.

(* ---- invariance (reused by C15) --------------------------------------------------------------- *)

Theorem min_del_reorder : forall alts p p', Permutation p p' ->
  min_alt_del alts p = min_alt_del alts p' /\ min_vot_del alts p = min_vot_del alts p'.
Proof.
  intros alts p p' Hp. split.
  - now apply Proofs.Deletion.min_alt_del_reorder.
  - now apply Proofs.Deletion.min_vot_del_reorder.
Qed.
Print Assumptions min_del_reorder.

Theorem min_del_alts_perm : forall alts alts' p, NoDup alts -> Forall (complete_on alts) p ->
  Permutation alts alts' ->
  min_alt_del alts p = min_alt_del alts' p /\ min_vot_del alts p = min_vot_del alts' p.
Proof.
  intros alts alts' p Hnd Hc Hp. split.
  - now apply Proofs.Deletion.min_alt_del_alts_perm.
  - now apply Proofs.Deletion.min_vot_del_alts_perm.
Qed.
Print Assumptions min_del_alts_perm.

Theorem min_del_relabel : forall f : N -> N, (forall x y, f x = f y -> x = y) -> forall alts p,
  min_alt_del (map f alts) (map (map_order f) p) = min_alt_del alts p /\
  min_vot_del (map f alts) (map (map_order f) p) = min_vot_del alts p.
Proof.
  intros f Hf alts p. split.
  - now apply Proofs.Deletion.min_alt_del_relabel.
  - now apply Proofs.Deletion.min_vot_del_relabel.
Qed.
Print Assumptions min_del_relabel.

Theorem cert_relabel : forall f : N -> N, (forall x y, f x = f y -> x = y) -> forall alts p k axis,
  (forall D, cert_alt (map f alts) (map (map_order f) p) k (map f axis) (map f D) = cert_alt alts p k axis D) /\
  (forall V, cert_vot (map f alts) (map (map_order f) p) k (map f axis) V = cert_vot alts p k axis V).
Proof.
  intros f Hf alts p k axis. split.
  - intros D. now apply Proofs.Deletion.cert_alt_relabel.
  - intros V. now apply Proofs.Deletion.cert_vot_relabel.
Qed.
Print Assumptions cert_relabel.

(* ---- the ILP encodings (deepening: encoding proved, only the solver trusted) ------------------- *)
(* Model/ILPEnc.v mirrors the builders of the three ILP functions (variables + bounds, constraints x2, objective);
   the correspondence compares the mirrored model with the model python-mip actually receives (multiset of
   constraints).  `feasible M s` = the assignment s respects every bound and every constraint of M;
   `ilp_opt M z` = z is the optimal objective value of M (attained, and a lower bound on every feasible assignment);
   decode_axis / decode_voters / decode_alts are the read-back loops of the code. *)

(* CORE 1: totality + position constraints + bounds make LeftOf the strict order of Pos (so Pos is injective) *)
Theorem ilp_pos_order_core : forall (s : asg) (m : nat),
  leftof_binary s m -> pos_range s m -> total_sem s m -> pos_sem s m ->
  forall x y, (x < m)%nat -> (y < m)%nat -> x <> y ->
    (s (LeftOf x y) = 1%Z <-> (s (Pos x) < s (Pos y))%Z) /\ (s (LeftOf x y) = 0%Z <-> (s (Pos y) < s (Pos x))%Z).
Proof. exact Proofs.ILPEnc.pos_order_core. Qed.
Print Assumptions ilp_pos_order_core.

(* the transitivity constraints are implied by the others *)
Theorem ilp_trans_redundant : forall s m, structural s m -> trans_sem s m.
Proof. exact Proofs.ILPEnc.trans_redundant. Qed.
Print Assumptions ilp_trans_redundant.

(* is_single_peaked_ILP (C11): feasible assignment -> the decoded axis is a permutation passing the axis test;
   every such axis is the decoding of a feasible assignment; feasibility <-> SPw *)
Theorem ilp_sp_sound : forall alts p s, NoDup alts -> Forall (complete_on alts) p ->
  feasible (sp_ilp alts p) s ->
  Permutation alts (decode_axis alts s) /\ sp_axis_profile p (decode_axis alts s) = true.
Proof. exact Proofs.ILPEnc.ilp_sp_sound. Qed.
Print Assumptions ilp_sp_sound.

Theorem ilp_sp_complete : forall alts p axis, NoDup alts -> Forall (complete_on alts) p ->
  Permutation alts axis -> sp_axis_profile p axis = true ->
  exists s, feasible (sp_ilp alts p) s /\ decode_axis alts s = axis.
Proof. exact Proofs.ILPEnc.ilp_sp_complete. Qed.
Print Assumptions ilp_sp_complete.

Theorem ilp_sp_feasible_iff : forall alts p, NoDup alts -> Forall (complete_on alts) p ->
  ((exists s, feasible (sp_ilp alts p) s) <-> SPw alts p).
Proof. exact Proofs.ILPEnc.ilp_sp_feasible_iff. Qed.
Print Assumptions ilp_sp_feasible_iff.

(* approx_SP_voter_deletion_ILP: a feasible assignment has objective = number of deleted voters and decodes to a
   certificate accepted by cert_vot; every accepted certificate of size k comes from a feasible assignment of
   objective k; hence the ILP optimum is min_vot_del *)
Theorem ilp_votdel_sound : forall alts p s, NoDup alts -> Forall (complete_on alts) p ->
  feasible (votdel_ilp alts p) s ->
  let V := decode_voters (length p) s in
  objective (votdel_ilp alts p) s = Z.of_nat (length V) /\
  cert_vot alts p (length V) (decode_axis alts s) V = true.
Proof. exact Proofs.ILPEnc.ilp_votdel_sound. Qed.
Print Assumptions ilp_votdel_sound.

Theorem ilp_votdel_complete : forall alts p k axis V, NoDup alts -> Forall (complete_on alts) p ->
  cert_vot alts p k axis V = true ->
  exists s, feasible (votdel_ilp alts p) s /\ objective (votdel_ilp alts p) s = Z.of_nat k /\
            decode_axis alts s = axis /\ (forall v, In v (decode_voters (length p) s) <-> In v V).
Proof. exact Proofs.ILPEnc.ilp_votdel_complete. Qed.
Print Assumptions ilp_votdel_complete.

Theorem ilp_votdel_optimum : forall alts p z, NoDup alts -> Forall (complete_on alts) p ->
  (ilp_opt (votdel_ilp alts p) z <-> z = Z.of_nat (min_vot_del alts p)).
Proof. exact Proofs.ILPEnc.ilp_votdel_optimum. Qed.
Print Assumptions ilp_votdel_optimum.

(* approx_SP_alternative_deletion_ILP.  In the converse direction the certificate's axis may be partial (dynamic
   programme) or full: the assignment places the deleted alternatives at the right end of the axis, and agrees with
   the certificate on the remaining alternatives *)
Theorem ilp_altdel_sound : forall alts p s, NoDup alts -> Forall (complete_on alts) p ->
  feasible (altdel_ilp alts p) s ->
  let D := decode_alts alts s in
  objective (altdel_ilp alts p) s = Z.of_nat (length D) /\
  cert_alt alts p (length D) (decode_axis alts s) D = true.
Proof. exact Proofs.ILPEnc.ilp_altdel_sound. Qed.
Print Assumptions ilp_altdel_sound.

Theorem ilp_altdel_complete : forall alts p k axis D, NoDup alts -> Forall (complete_on alts) p ->
  cert_alt alts p k axis D = true ->
  exists s, feasible (altdel_ilp alts p) s /\ objective (altdel_ilp alts p) s = Z.of_nat k /\
            keepN D (decode_axis alts s) = keepN D axis /\ (forall x, In x (decode_alts alts s) <-> In x D).
Proof. exact Proofs.ILPEnc.ilp_altdel_complete. Qed.
Print Assumptions ilp_altdel_complete.

Theorem ilp_altdel_optimum : forall alts p z, NoDup alts -> Forall (complete_on alts) p ->
  (ilp_opt (altdel_ilp alts p) z <-> z = Z.of_nat (min_alt_del alts p)).
Proof. exact Proofs.ILPEnc.ilp_altdel_optimum. Qed.
Print Assumptions ilp_altdel_optimum.

(* ---- the dynamic programme of k_alternative_deletion.py (deepening: the algorithm is mirrored) -- *)
(* Model/ELPDP.v mirrors longest_single_peaked_axis, get_L_sets, eligible_alternatives, last_check, place, case_2,
   case_3, check_case_4, boundary and the loop of k_alt_partition_approx; votes are flat rankings.  The two places
   where the iteration order of a CPython set matters are parameters (pair_first, ext_order); the theorems hold
   for every choice (ext_order only has to return members of its argument; for termination of the partition loop,
   all of them).  The mirror is total: every Python loop is a `for` over a finite range except the `while` of
   k_alt_partition_approx, whose termination is part of approx_valid.
   Optimality (|removed| = min_alt_del, the theorem of Erdelyi, Lackner and Pfandler) is proved further below
   (elp_optimal). *)

(* the returned (axis, removed) is accepted by the verified certificate checker: "the deletion set has the reported
   size and the remaining profile restricted to the remaining alternatives is single-peaked on the returned axis" *)
Theorem elp_sound : forall (pair_first : N -> N -> bool) (ext_order : list (list N) -> list (list N)),
  (forall l X, In X (ext_order l) -> In X l) ->
  forall alts votes, NoDup alts -> (forall v, In v votes -> Permutation alts v) ->
  let r := k_alternative_deletion pair_first ext_order alts votes in
  cert_alt alts (map strictify votes) (length (snd r)) (fst r) (snd r) = true.
Proof. exact Proofs.ELPDP.elp_sound. Qed.
Print Assumptions elp_sound.

Theorem elp_bound : forall (pair_first : N -> N -> bool) (ext_order : list (list N) -> list (list N)),
  (forall l X, In X (ext_order l) -> In X l) ->
  forall alts votes, NoDup alts -> (forall v, In v votes -> Permutation alts v) ->
  (min_alt_del alts (map strictify votes) <= length (snd (k_alternative_deletion pair_first ext_order alts votes)))%nat.
Proof. exact Proofs.ELPDP.elp_bound. Qed.
Print Assumptions elp_bound.

(* general form, for a subset alts of the alternatives of the votes (what k_alt_partition_approx calls) *)
Theorem longest_axis_sound : forall (pair_first : N -> N -> bool) (ext_order : list (list N) -> list (list N)),
  (forall l X, In X (ext_order l) -> In X l) ->
  forall alts votes, NoDup alts -> (forall v, In v votes -> NoDup v /\ incl alts v) ->
  let r := longest_axis pair_first ext_order alts votes in
  NoDup (fst r) /\ incl (fst r) alts /\ Permutation alts (fst r ++ snd r) /\
  sp_axis_profile (map strictify (map (restrict_ranking (fst r)) votes)) (fst r) = true.
Proof. exact Proofs.ELPDP.longest_axis_sound. Qed.
Print Assumptions longest_axis_sound.

(* progress: with at least one vote and one alternative the axis is not empty *)
Theorem longest_axis_nonempty : forall alts votes (pair_first : N -> N -> bool) (ext_order : list (list N) -> list (list N)),
  (forall l X, In X l -> In X (ext_order l)) ->
  NoDup alts -> alts <> [] -> votes <> [] -> (forall v, In v votes -> NoDup v /\ incl alts v) ->
  fst (longest_axis pair_first ext_order alts votes) <> [].
Proof. exact Proofs.ELPDP.longest_axis_nonempty. Qed.
Print Assumptions longest_axis_nonempty.

(* C18: the loop of k_alt_partition_approx terminates (no OutOfFuel) and its axes form a partition of the
   alternatives into axes that are single-peaked for the restricted profile (Partition.partition_check) *)
Theorem approx_valid : forall (pair_first : N -> N -> bool) (ext_order : list (list N) -> list (list N)),
  (forall l X, In X (ext_order l) <-> In X l) ->
  forall alts votes, NoDup alts -> votes <> [] -> (forall v, In v votes -> NoDup v /\ incl alts v) ->
  exists axes, k_alt_partition_approx pair_first ext_order alts votes = Ok axes /\
               partition_check alts votes axes = true.
Proof. exact Proofs.ELPDP.approx_valid. Qed.
Print Assumptions approx_valid.

(* ---- a fast verified reference for strict profiles (Model/MaxAxis.v) --------------------------- *)
(* To compare the implementation with the exact optimum at 7-15
   alternatives, where min_alt_del (all deletion sets x all axes) is too slow, the longest single-peaked axis over any
   subset of the alternatives is computed by a depth-first search over the lists on which every vote is single-peaked
   (hereditary, so the search is exhaustive), and proved equal to the reference: *)
Theorem fast_min_alt_correct : forall alts votes, NoDup alts -> (forall v, In v votes -> Permutation alts v) ->
  fast_min_alt alts votes = min_alt_del alts (map strictify votes).
Proof. exact Proofs.MaxAxis.fast_min_alt_correct. Qed.
Print Assumptions fast_min_alt_correct.

(* ---- optimality of the dynamic programme (Erdelyi-Lackner-Pfandler) ---------------------------- *)
(* Proofs/ELPComplete.v, ELPLevels.v, ELPOptimal.v.  For EVERY choice of the two order parameters (ext_order has to
   return exactly the members of its argument):
     place_complete       `place` accepts the set of bottoms of the unplaced rest of any completable incomplete axis
                          and the result is completable again (completeness of case_2 / case_3; reused by C18)
     longest_axis_longest the axis returned is at least as long as every list of alternatives on which all votes are
                          single-peaked: table domination (place only looks at the boundary), the pruning test and the
                          locked axis are harmless, and every single-peaked target is built level by level
     elp_optimal          hence k_alternative_deletion removes exactly min_alt_del alternatives. *)
Theorem place_complete : forall votes, votes <> [] -> forall (pair_first : N -> N -> bool) A U,
  U <> [] -> NoDup (pa_elems A ++ U) -> (forall v, In v votes -> NoDup v /\ incl (pa_elems A ++ U) v) ->
  completable votes A U ->
  exists x1 x2, isbottom votes U x1 /\ isbottom votes U x2 /\ (forall y, isbottom votes U y -> y = x1 \/ y = x2) /\
  exists A' ok, place pair_first A (mkset x1 x2) votes = (A', ok) /\
    pa_len A' = (pa_len A + length (mkset x1 x2))%nat /\
    Permutation (pa_elems A' ++ rest (mkset x1 x2) U) (pa_elems A ++ U) /\
    completable votes A' (rest (mkset x1 x2) U) /\
    (rest (mkset x1 x2) U <> [] -> ok = true) /\ pa_eqb A' A = false.
Proof. exact Proofs.ELPComplete.place_complete. Qed.
Print Assumptions place_complete.

Theorem longest_axis_longest : forall (pair_first : N -> N -> bool) (ext_order : list (list N) -> list (list N)),
  (forall l X, In X (ext_order l) <-> In X l) ->
  forall alts votes O, NoDup alts -> votes <> [] -> (forall v, In v votes -> NoDup v /\ incl alts v) ->
  (NoDup O /\ incl O alts /\ forall v, In v votes -> spv v O) ->
  (length O <= length (fst (longest_axis pair_first ext_order alts votes)))%nat.
Proof. exact Proofs.ELPOptimal.longest_axis_longest. Qed.
Print Assumptions longest_axis_longest.

Theorem elp_optimal : forall (pair_first : N -> N -> bool) (ext_order : list (list N) -> list (list N)),
  (forall l X, In X (ext_order l) <-> In X l) ->
  forall alts votes, NoDup alts -> votes <> [] -> (forall v, In v votes -> Permutation alts v) ->
  length (snd (k_alternative_deletion pair_first ext_order alts votes)) = min_alt_del alts (map strictify votes).
Proof. exact Proofs.ELPOptimal.elp_optimal. Qed.
Print Assumptions elp_optimal.

(* ---- non-vacuity ------------------------------------------------------------------------------ *)
Open Scope N_scope.

(* the Condorcet cycle on three alternatives: both optima are 1; certificates *)
Example C12_example_cycle :
  let alts := [1;2;3] in
  let p := [ [[1];[2];[3]] ; [[2];[3];[1]] ; [[3];[1];[2]] ] in
  NoDup alts /\ Forall (complete_on alts) p /\
  min_alt_del alts p = 1%nat /\ cert_alt alts p 1 [1;2;3] [3] = true /\ cert_alt alts p 1 [1;2] [3] = true /\
  min_vot_del alts p = 1%nat /\ cert_vot alts p 1 [1;2;3] [2%nat] = true /\
  cert_vot alts p 0 [1;2;3] [] = false /\ cert_alt alts p 0 [1;2;3] [] = false.
Proof.
  cbv zeta. split; [|split].
  - apply nodupN_correct. reflexivity.
  - apply Proofs.SP.complete_profile_b. reflexivity.
  - repeat split; vm_compute; reflexivity.
Qed.

(* a weak-order (toc) profile with tied tops: the voter optimum is 1 and the alternative optimum is 1 *)
Example C12_example_toc :
  let alts := [1;2;3;4] in
  let p := [ [[1;2];[3];[4]] ; [[3;4];[2];[1]] ; [[1;4];[2;3]] ; [[2;3];[1;4]] ] in
  Forall (complete_on alts) p /\
  min_vot_del alts p = 1%nat /\ cert_vot alts p 1 [1;2;3;4] [2%nat] = true /\
  min_alt_del alts p = 1%nat /\ cert_alt alts p 1 [4;1;2;3] [4] = true /\
  (* restricting to the core {1,2,4} keeps the obstruction: lower bound 1 for every extension *)
  min_vot_del (restrict_alts [1;2;4] alts) (map (restrict_order [1;2;4]) p) = 1%nat.
Proof.
  cbv zeta. split; [apply Proofs.SP.complete_profile_b; reflexivity|].
  repeat split; vm_compute; reflexivity.
Qed.

(* the mirrored voter-deletion ILP of the toc example: the assignment built from the axis 1 2 3 4 with voter 2
   deleted is feasible with objective 1 and decodes back to that axis; deleting nobody is infeasible on that axis *)
Example C12_example_ilp :
  let alts := [1;2;3;4] in
  let p := [ [[1;2];[3];[4]] ; [[3;4];[2];[1]] ; [[1;4];[2;3]] ; [[2;3];[1;4]] ] in
  let s := mk_asg (posn_axis alts [1;2;3;4]) (fun v => Nat.eqb v 2) (fun _ => false) in
  feasibleb (votdel_ilp alts p) s = true /\ objective (votdel_ilp alts p) s = 1%Z /\
  decode_axis alts s = [1;2;3;4] /\ decode_voters 4 s = [2%nat] /\
  length (i_cstrs (votdel_ilp alts p)) = 82%nat /\
  feasibleb (votdel_ilp alts p) (mk_asg (posn_axis alts [1;2;3;4]) (fun _ => false) (fun _ => false)) = false /\
  feasibleb (sp_ilp alts p) (mk_asg (posn_axis alts [1;2;3;4]) (fun _ => false) (fun _ => false)) = false.
Proof. cbv zeta. repeat split; vm_compute; reflexivity. Qed.

(* the mirrored dynamic programme on the cycle and on a 5-alternative profile (optimum 2) *)
Example C12_example_elp :
  k_alternative_deletion std_pair_first std_ext_order [1;2;3] [ [1;2;3] ; [2;3;1] ; [3;1;2] ] = ([1;3], [2]) /\
  k_alternative_deletion std_pair_first std_ext_order [1;2;3;4;5]
     [ [1;2;3;4;5] ; [3;5;1;4;2] ; [5;1;3;2;4] ; [2;4;1;5;3] ] = ([2;1;5], [3;4]) /\
  min_alt_del [1;2;3;4;5] (map strictify [ [1;2;3;4;5] ; [3;5;1;4;2] ; [5;1;3;2;4] ; [2;4;1;5;3] ]) = 2%nat /\
  k_alt_partition_approx std_pair_first std_ext_order [1;2;3] [ [1;2;3] ; [2;3;1] ; [3;1;2] ] = Ok [[1;3];[2]].
Proof. repeat split; vm_compute; reflexivity. Qed.
