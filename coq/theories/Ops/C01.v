(* Ops/C01.v — protocol entry points for the ordinal file model (Model/OrdIO.v).
   instance  ::= ( (file_name title description data_type modification_type relates_to related_files
                    publication_date modification_date)  num_alternatives  num_voters
                   ((id name) ...)  num_unique_orders  (order ...)  ((order mult) ...) )
   order ::= ((id ...) ...) ; text ::= (code points) *)
From Coq Require Import List ZArith NArith String.
From PrefVerif Require Import Lib.Val Lib.Dec Lib.PyStr Model.Meta Model.OrdIO.
Import ListNotations.
Open Scope string_scope.

Definition d_text (v : val) : text := dlist dN v.
Definition e_text (t : text) : val := elist eN t.
Definition d_order (v : val) : order := dlist (dlist dN) v.
Definition e_order (o : order) : val := elist (elist eN) o.

Definition d_meta (f : val) (na nv : N) (names : val) : meta :=
  mkMeta (d_text (dnth 0 f)) (d_text (dnth 1 f)) (d_text (dnth 2 f)) (d_text (dnth 3 f)) (d_text (dnth 4 f))
         (d_text (dnth 5 f)) (d_text (dnth 6 f)) (d_text (dnth 7 f)) (d_text (dnth 8 f))
         na nv (dlist (dpair dN d_text) names) [].

Definition d_inst (v : val) : oinst :=
  mkOinst (d_meta (dnth 0 v) (dN (dnth 1 v)) (dN (dnth 2 v)) (dnth 3 v))
          (dN (dnth 4 v)) (dlist d_order (dnth 5 v)) (dlist (dpair d_order dN) (dnth 6 v)).

Definition e_inst (i : oinst) : val :=
  let m := o_meta i in
  VL [ VL [e_text (file_name m); e_text (title m); e_text (description m); e_text (data_type m);
           e_text (modification_type m); e_text (relates_to m); e_text (related_files m);
           e_text (publication_date m); e_text (modification_date m)];
       eN (num_alternatives m); eN (num_voters m);
       elist (epair eN e_text) (alt_names m);
       eN (o_num_unique i); elist e_order (o_orders i); elist (epair e_order eN) (o_mult i) ].

(* c01.write : instance -> text *)
Definition op_write (v : val) : val := e_text (ord_write (d_inst v)).

(* c01.parse : (autocorrect header_only data_type (line ...)) -> result instance *)
Definition op_parse (v : val) : val :=
  eresult e_inst (ord_parse (dbool (dnth 0 v)) (dbool (dnth 1 v)) (meta0 (d_text (dnth 2 v)))
                            (dlist d_text (dnth 3 v))).

Definition cut (mode : nat) (s : text) : list text :=
  match mode with 0 => lines_file s | 1 => lines_str s | _ => lines_url s end.

(* c01.parse_text : (autocorrect header_only mode data_type text [file_name]) -> result instance
   mode 0 = readlines (parse_file), 1 = splitlines (parse_str), 2 = stripped splitlines (parse_url);
   file_name = the value the entry point stores before parsing (basename of the path; default empty) *)
Definition op_parse_text (v : val) : val :=
  eresult e_inst (ord_parse (dbool (dnth 0 v)) (dbool (dnth 1 v))
                            (set_file_name (meta0 (d_text (dnth 3 v))) (d_text (dnth 5 v)))
                            (cut (dnat (dnth 2 v)) (d_text (dnth 4 v)))).

(* c01.tokenize : text -> (token ...) *)
Definition op_tokenize (v : val) : val := elist e_text (tokenize (d_text v)).

(* c01.order_str : order -> text ;  c01.order_of_str : text -> result order *)
Definition op_order_str (v : val) : val := e_text (order_str (d_order v)).
Definition op_order_of_str (v : val) : val := eresult e_order (order_of_str (d_text v)).

(* c01.roundtrip : instance -> (wf  sorted_view  parse(readlines(write i))  parse(splitlines(write i))) *)
Definition op_roundtrip (v : val) : val :=
  let i := d_inst v in
  let t := ord_write i in
  let m0 := meta0 (data_type (o_meta i)) in
  VL [ ebool (wf_ord i); e_inst (sorted_view i);
       eresult e_inst (ord_parse false false m0 (lines_file t));
       eresult e_inst (ord_parse false false m0 (lines_str t)) ].

(* c01.with_default_file_name : (basename instance) -> instance *)
Definition op_default_name (v : val) : val :=
  e_inst (with_default_file_name (d_text (dnth 0 v)) (d_inst (dnth 1 v))).

Definition ops : optable :=
  [ ("c01.write", op_write); ("c01.parse", op_parse); ("c01.parse_text", op_parse_text);
    ("c01.tokenize", op_tokenize); ("c01.order_str", op_order_str); ("c01.order_of_str", op_order_of_str);
    ("c01.roundtrip", op_roundtrip); ("c01.with_default_file_name", op_default_name) ].
