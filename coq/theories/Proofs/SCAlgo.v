(* Proofs/SCAlgo.v — the mirror of is_single_crossing (Model/SCAlgo.v) is sound and complete on
   well-formed profiles. *)
From Coq Require Import List Arith NArith ZArith Bool Lia Permutation Sorted.
From PrefVerif Require Import Lib.Val Lib.Perms Model.Distances Model.SC Model.SCAlgo Proofs.SC.
From PrefVerif Require Proofs.Distances.
Import ListNotations.
Local Open Scope Z_scope.

(* ============================================================================================== *)
(* 1. Kendall tau on well-formed orders                                                            *)
(* ============================================================================================== *)
Section KT.
Variable alts : list N.
Hypothesis alts_nodup : NoDup alts.
Let wfo (o : list N) := Permutation alts o.

Lemma wfo_nodup o : wfo o -> NoDup o.
Proof. intros H. eapply Permutation_NoDup; eassumption. Qed.

Lemma wfo_perm x y : wfo x -> wfo y -> Permutation x y.
Proof. intros Hx Hy. eapply Permutation_trans; [apply Permutation_sym; exact Hx|exact Hy]. Qed.

Lemma ktd_sym x y : wfo x -> wfo y -> ktd x y = ktd y x.
Proof.
  intros Hx Hy. unfold ktd. apply Proofs.Distances.kt_count_sym; [now apply wfo_nodup|now apply wfo_perm].
Qed.

Lemma ktd_refl x : wfo x -> ktd x x = 0%nat.
Proof. intros Hx. unfold ktd. apply Proofs.Distances.kt_count_refl. now apply wfo_nodup. Qed.

Lemma ktd_zero x y : wfo x -> wfo y -> ktd x y = 0%nat -> x = y.
Proof.
  intros Hx Hy H. unfold ktd in H. eapply Proofs.Distances.kt_count_zero; [now apply wfo_nodup|now apply wfo_perm|exact H].
Qed.

Lemma pairs_length l : (length (pairs l) <= length l * length l)%nat.
Proof.
  induction l as [|x t IH]; [simpl; lia|]. cbn [pairs]. rewrite app_length, map_length. cbn [length]. lia.
Qed.

Lemma filter_len_le {U} (p : U -> bool) l : (length (filter p l) <= length l)%nat.
Proof. induction l as [|a t IH]; simpl; [lia|]. destruct (p a); simpl; lia. Qed.

Lemma ktd_bound x y : wfo x -> wfo y -> (ktd x y <= length alts * length alts)%nat.
Proof.
  intros Hx Hy. rewrite (ktd_pairs alts x y alts_nodup Hx Hy).
  eapply Nat.le_trans; [apply filter_len_le|apply pairs_length].
Qed.
End KT.

(* ============================================================================================== *)
(* 2. the scores dictionary                                                                        *)
(* ============================================================================================== *)
Lemma lookup_upd_same sc o v : lookup (upd sc o v) o = v.
Proof.
  induction sc as [|[k w] t IH]; simpl.
  - rewrite (proj2 (order_eqb_eq o o) eq_refl). reflexivity.
  - destruct (order_eqb k o) eqn:E; simpl; rewrite E; [reflexivity|exact IH].
Qed.

Lemma lookup_upd_other sc o v o' : o <> o' -> lookup (upd sc o v) o' = lookup sc o'.
Proof.
  intros Hne. induction sc as [|[k w] t IH]; simpl.
  - destruct (order_eqb o o') eqn:E; [apply order_eqb_eq in E; contradiction|reflexivity].
  - destruct (order_eqb k o) eqn:E; simpl.
    + apply order_eqb_eq in E. subst k.
      destruct (order_eqb o o') eqn:E'; [apply order_eqb_eq in E'; contradiction|reflexivity].
    + destruct (order_eqb k o'); [reflexivity|exact IH].
Qed.

Lemma order_eq_dec (x y : list N) : {x = y} + {x <> y}.
Proof. apply list_eq_dec. apply N.eq_dec. Qed.

(* ============================================================================================== *)
(* 3. sorting                                                                                      *)
(* ============================================================================================== *)
Section Sorting.
Context {T : Type}.
Variable key : T -> Z.

Lemma insert_by_perm x l : Permutation (x :: l) (insert_by key x l).
Proof.
  induction l as [|y t IH]; simpl; [apply Permutation_refl|].
  destruct (key x <=? key y); [apply Permutation_refl|].
  eapply Permutation_trans; [apply perm_swap|]. now constructor.
Qed.

Lemma sort_by_perm l : Permutation l (sort_by key l).
Proof.
  induction l as [|x t IH]; simpl; [constructor|].
  eapply Permutation_trans; [|apply insert_by_perm]. now constructor.
Qed.

Lemma insert_by_sorted x l :
  StronglySorted (fun a b => key a <= key b) l -> StronglySorted (fun a b => key a <= key b) (insert_by key x l).
Proof.
  induction 1 as [|y t Ht IH Hall]; simpl; [constructor; constructor|].
  destruct (Z.leb_spec (key x) (key y)) as [Hle|Hgt].
  - constructor; [constructor; assumption|]. constructor; [assumption|].
    rewrite Forall_forall in *. intros z Hz. specialize (Hall z Hz). lia.
  - constructor; [assumption|]. rewrite Forall_forall in *. intros z Hz.
    assert (Hz' : In z (x :: t)) by (eapply Permutation_in; [apply Permutation_sym, insert_by_perm|exact Hz]).
    destruct Hz' as [<-|Hz']; [lia|now apply Hall].
Qed.

Lemma sort_by_sorted l : StronglySorted (fun a b => key a <= key b) (sort_by key l).
Proof. induction l as [|x t IH]; simpl; [constructor|now apply insert_by_sorted]. Qed.

Lemma sorted_strict l :
  StronglySorted (fun a b => key a <= key b) l -> NoDup l ->
  (forall a b, In a l -> In b l -> key a = key b -> a = b) ->
  StronglySorted (fun a b => key a < key b) l.
Proof.
  induction 1 as [|y t Ht IH Hall]; intros Hnd Hinj; [constructor|].
  inversion Hnd as [|? ? Hy Hnt]; subst. constructor.
  - apply IH; [assumption|]. intros a b Ha Hb. apply Hinj; now right.
  - rewrite Forall_forall in *. intros z Hz. specialize (Hall z Hz).
    assert (key y <> key z); [|lia]. intros E. apply Hy. rewrite (Hinj y z); auto; [now left|now right].
Qed.
End Sorting.

Lemma StronglySorted_app {T} (R : T -> T -> Prop) l1 l2 :
  StronglySorted R l1 -> StronglySorted R l2 -> (forall x y, In x l1 -> In y l2 -> R x y) ->
  StronglySorted R (l1 ++ l2).
Proof.
  induction 1 as [|x t Ht IH Hall]; intros H2 Hx; [exact H2|]. simpl. constructor.
  - apply IH; [assumption|]. intros a b Ha Hb. apply Hx; [now right|assumption].
  - apply Forall_app. split; [assumption|]. rewrite Forall_forall. intros y Hy. apply Hx; [now left|assumption].
Qed.

Lemma all_related_sorted {T} (R : T -> T -> Prop) l :
  (forall x y, In x l -> In y l -> R x y) -> StronglySorted R l.
Proof.
  induction l as [|x t IH]; intros H; constructor.
  - apply IH. intros a b Ha Hb. apply H; now right.
  - rewrite Forall_forall. intros y Hy. apply H; [now left|now right].
Qed.

(* ============================================================================================== *)
(* 4. the bucket array                                                                             *)
(* ============================================================================================== *)
Lemma flat_map_ext_in {A B} (f h : A -> list B) l :
  (forall a, In a l -> f a = h a) -> flat_map f l = flat_map h l.
Proof.
  induction l as [|a t IH]; intros H; [reflexivity|]. simpl. rewrite (H a) by now left.
  rewrite IH; [reflexivity|]. intros b Hb. apply H. now right.
Qed.

Section FlatFilter.
Context {T : Type}.
Variable g : T -> option nat.
Definition hit (i : nat) (o : T) : bool := match g o with Some j => Nat.eqb j i | None => false end.

Lemma hit_true i o : hit i o = true <-> g o = Some i.
Proof.
  unfold hit. destruct (g o) as [j|]; [|split; discriminate].
  rewrite Nat.eqb_eq. split; [intros ->; reflexivity|intros E; now injection E].
Qed.

Lemma flat_insert (F : nat -> list T) x j a len : (a <= j < a + len)%nat ->
  Permutation (flat_map (fun i => if Nat.eqb j i then x :: F i else F i) (seq a len)) (x :: flat_map F (seq a len)).
Proof.
  revert a. induction len as [|len IH]; intros a Hj; [lia|]. cbn [seq flat_map].
  destruct (Nat.eqb_spec j a) as [->|Hne].
  - simpl. constructor. apply Permutation_app_head.
    rewrite (flat_map_ext_in (fun i => if Nat.eqb a i then x :: F i else F i) F); [apply Permutation_refl|].
    intros i Hi. apply in_seq in Hi. destruct (Nat.eqb_spec a i); [lia|reflexivity].
  - eapply Permutation_trans; [apply Permutation_app_head; apply IH; lia|].
    apply Permutation_sym, Permutation_middle.
Qed.

Lemma flat_filter_perm l a len :
  (forall o, In o l -> exists j, g o = Some j /\ (a <= j < a + len)%nat) ->
  Permutation (flat_map (fun i => filter (hit i) l) (seq a len)) l.
Proof.
  induction l as [|x t IH]; intros H.
  - simpl. replace (flat_map (fun _ : nat => @nil T) (seq a len)) with (@nil T); [constructor|].
    clear. revert a. induction len; intros a; simpl; auto.
  - destruct (H x (or_introl eq_refl)) as (j & Hg & Hj).
    rewrite (flat_map_ext (fun i => filter (hit i) (x :: t))
                          (fun i => if Nat.eqb j i then x :: filter (hit i) t else filter (hit i) t)).
    + eapply Permutation_trans; [apply flat_insert; exact Hj|]. constructor. apply IH.
      intros o Ho. apply H. now right.
    + intros i. cbn [filter]. unfold hit at 1. rewrite Hg. reflexivity.
Qed.

Lemma flat_filter_sorted l a len :
  StronglySorted (fun x y => exists i j, g x = Some i /\ g y = Some j /\ (i <= j)%nat)
                 (flat_map (fun i => filter (hit i) l) (seq a len)).
Proof.
  revert a. induction len as [|len IH]; intros a; [constructor|]. cbn [seq flat_map].
  apply StronglySorted_app.
  - apply all_related_sorted. intros x y Hx Hy. apply filter_In in Hx, Hy.
    destruct Hx as [_ Hx], Hy as [_ Hy]. apply hit_true in Hx, Hy. exists a, a. auto.
  - apply IH.
  - intros x y Hx Hy. apply filter_In in Hx. destruct Hx as [_ Hx]. apply hit_true in Hx.
    apply in_flat_map in Hy. destruct Hy as (i & Hi & Hy). apply in_seq in Hi.
    apply filter_In in Hy. destruct Hy as [_ Hy]. apply hit_true in Hy. exists a, i. repeat split; auto. lia.
Qed.
End FlatFilter.

Lemma first_of_id {T} (b : list T) : (length b <= 1)%nat -> first_of b = b.
Proof. destruct b as [|x [|y t]]; simpl; intros; try reflexivity. lia. Qed.

Lemma flat_map_map {A B C} (f : B -> list C) (h : A -> B) l :
  flat_map f (map h l) = flat_map (fun x => f (h x)) l.
Proof. induction l; simpl; congruence. Qed.

Lemma existsb_false {T} (f : T -> bool) l : existsb f l = false -> forall x, In x l -> f x = false.
Proof.
  intros H x Hx. destruct (f x) eqn:E; [|reflexivity].
  assert (existsb f l = true) by (apply existsb_exists; eauto). congruence.
Qed.

Lemma bucket_index_lt m s j : bucket_index m s = Some j -> (j < 2 * (m * m) + 1)%nat.
Proof.
  unfold bucket_index. generalize (m * m)%nat. clear m. intros q H.
  destruct (Z.leb_spec 0 (s + Z.of_nat q)) as [H0|H0].
  - destruct (Z.ltb_spec (s + Z.of_nat q) (2 * Z.of_nat q + 1)) as [H1|H1]; [|discriminate].
    injection H as <-. lia.
  - destruct (Z.leb_spec (- (2 * Z.of_nat q + 1)) (s + Z.of_nat q)) as [H1|H1]; [|discriminate].
    assert (E : j = Z.to_nat (s + Z.of_nat q + (2 * Z.of_nat q + 1))) by congruence. rewrite E. lia.
Qed.

Lemma bucket_index_in_range m s : - Z.of_nat (m * m) <= s <= Z.of_nat (m * m) ->
  bucket_index m s = Some (Z.to_nat (s + Z.of_nat (m * m))).
Proof.
  unfold bucket_index. generalize (m * m)%nat. clear m. intros q H.
  destruct (Z.leb_spec 0 (s + Z.of_nat q)); [|lia].
  destruct (Z.ltb_spec (s + Z.of_nat q) (2 * Z.of_nat q + 1)); [reflexivity|lia].
Qed.

Section Buckets.
Variable m : nat.
Variable key : list N -> Z.
Let mm := Z.of_nat (m * m).
Let L := (2 * (m * m) + 1)%nat.
Let B (orders : list (list N)) (i : nat) := filter (in_bucket m key i) orders.

Lemma bucket_phase_inv orders vo : bucket_phase m key orders = Ok (Some vo) ->
  vo = flat_map (B orders) (seq 0 L) /\
  (forall o, In o orders -> exists j, bucket_index m (key o) = Some j).
Proof.
  unfold bucket_phase. fold L.
  destruct (forallb _ orders) eqn:Hall; [|discriminate].
  destruct (existsb _ _) eqn:Hex; [discriminate|]. intros H. injection H as <-. split.
  - rewrite flat_map_map. apply flat_map_ext_in. intros i Hi. apply first_of_id.
    pose proof (existsb_false _ _ Hex (filter (in_bucket m key i) orders)) as Hb.
    cbv beta in Hb. rewrite Nat.ltb_ge in Hb. apply Hb. apply in_map_iff. exists i. auto.
  - rewrite forallb_forall in Hall. intros o Ho. specialize (Hall o Ho).
    destruct (bucket_index m (key o)) as [j|]; [eauto|discriminate].
Qed.

Lemma bucket_phase_ok orders :
  (forall o, In o orders -> exists j, bucket_index m (key o) = Some j) ->
  (forall i, (length (B orders i) <= 1)%nat) ->
  bucket_phase m key orders = Ok (Some (flat_map (B orders) (seq 0 L))).
Proof.
  intros Hr Hc. unfold bucket_phase. fold L.
  replace (forallb _ orders) with true.
  - replace (existsb _ _) with false.
    + f_equal. f_equal. rewrite flat_map_map. apply flat_map_ext_in. intros i _. apply first_of_id. apply Hc.
    + symmetry. apply not_true_is_false. intros H. apply existsb_exists in H. destruct H as (b & Hb & Hlen).
      apply in_map_iff in Hb. destruct Hb as (i & <- & _). apply Nat.ltb_lt in Hlen. specialize (Hc i). unfold B in Hc. lia.
  - symmetry. apply forallb_forall. intros o Ho. destruct (Hr o Ho) as (j & ->). reflexivity.
Qed.

Lemma buckets_perm orders :
  (forall o, In o orders -> exists j, bucket_index m (key o) = Some j) ->
  Permutation (flat_map (B orders) (seq 0 L)) orders.
Proof.
  intros Hr. apply (flat_filter_perm (fun o => bucket_index m (key o)) orders 0 L).
  intros o Ho. destruct (Hr o Ho) as (j & Hj). exists j. split; [assumption|].
  apply bucket_index_lt in Hj. fold L in Hj. lia.
Qed.

Lemma buckets_sorted orders :
  (forall o, In o orders -> - mm <= key o <= mm) ->
  StronglySorted (fun x y => key x <= key y) (flat_map (B orders) (seq 0 L)).
Proof.
  intros Hr.
  pose proof (flat_filter_sorted (fun o => bucket_index m (key o)) orders 0 L) as Hs.
  assert (Hin : forall x, In x (flat_map (B orders) (seq 0 L)) -> In x orders).
  { intros x Hx. apply in_flat_map in Hx. destruct Hx as (i & _ & Hx). apply filter_In in Hx. tauto. }
  change (flat_map (fun i => filter (hit (fun o => bucket_index m (key o)) i) orders) (seq 0 L))
    with (flat_map (B orders) (seq 0 L)) in Hs.
  revert Hs Hin. generalize (flat_map (B orders) (seq 0 L)) as l.
  induction 1 as [|x t Ht IH Hall]; intros Hin; constructor.
  - apply IH. intros y Hy. apply Hin. now right.
  - rewrite Forall_forall in *. intros y Hy. destruct (Hall y Hy) as (i & j & Hi & Hj & Hij).
    rewrite bucket_index_in_range in Hi by (apply Hr, Hin; now left).
    rewrite bucket_index_in_range in Hj by (apply Hr, Hin; now right).
    injection Hi as <-. injection Hj as <-.
    pose proof (Hr x (Hin x (or_introl eq_refl))). pose proof (Hr y (Hin y (or_intror Hy))). lia.
Qed.

Lemma buckets_no_collision orders : NoDup orders ->
  (forall o, In o orders -> - mm <= key o <= mm) ->
  (forall a b, In a orders -> In b orders -> key a = key b -> a = b) ->
  forall i, (length (B orders i) <= 1)%nat.
Proof.
  intros Hnd Hr Hinj i. unfold B.
  assert (Hnf : NoDup (filter (in_bucket m key i) orders)) by now apply NoDup_filter.
  destruct (filter (in_bucket m key i) orders) as [|x [|y t]] eqn:E; simpl; try lia.
  exfalso.
  assert (Hx : In x (filter (in_bucket m key i) orders)) by (rewrite E; now left).
  assert (Hy : In y (filter (in_bucket m key i) orders)) by (rewrite E; right; now left).
  apply filter_In in Hx, Hy. destruct Hx as [Hx Hbx], Hy as [Hy Hby].
  unfold in_bucket in Hbx, Hby.
  rewrite bucket_index_in_range in Hbx, Hby by now apply Hr.
  apply Nat.eqb_eq in Hbx, Hby.
  assert (Exy : x = y).
  { apply Hinj; try assumption. pose proof (Hr x Hx). pose proof (Hr y Hy). lia. }
  subst y. inversion Hnf as [|? ? Hn _]; subst. apply Hn. now left.
Qed.
End Buckets.

(* ============================================================================================== *)
(* 5. soundness: an answer (True, seq) carries a valid witness                                     *)
(* ============================================================================================== *)
Lemma sc_algo_some alts orders vo : sc_algo alts orders = Ok (Some vo) ->
  Permutation orders vo /\ ordered_check vo = true.
Proof.
  destruct orders as [|v1 [|v2 rest]].
  - simpl. intros H. injection H as <-. split; [constructor|reflexivity].
  - simpl. intros H. injection H as <-. split; [apply Permutation_refl|reflexivity].
  - unfold sc_algo. destruct (scan v1 v2 (ktd v1 v2) rest [(v2, Z.of_nat (ktd v1 v2))]) as [sc|]; [|discriminate].
    cbv zeta. destruct (Nat.ltb (length (v1 :: v2 :: rest)) (length alts)).
    + destruct (ordered_check (sort_by (lookup sc) (v1 :: v2 :: rest))) eqn:E; [|discriminate].
      intros H. assert (Hv : sort_by (lookup sc) (v1 :: v2 :: rest) = vo) by congruence. rewrite <- Hv.
      split; [apply sort_by_perm|exact E].
    + destruct (bucket_phase (length alts) (lookup sc) (v1 :: v2 :: rest)) as [[vo'|]|e] eqn:Eb; try discriminate.
      destruct (ordered_check vo') eqn:E; [|discriminate].
      intros H. assert (Hv : vo' = vo) by congruence. rewrite <- Hv. split; [|exact E].
      apply bucket_phase_inv in Eb. destruct Eb as [-> Hr]. apply Permutation_sym. now apply buckets_perm.
Qed.

Theorem sc_algo_sound alts orders vo : wf_profile alts orders ->
  sc_algo alts orders = Ok (Some vo) -> sc_witness_check alts orders vo = true.
Proof.
  intros (Hna & Hno & Hwf) H. apply sc_algo_some in H. destruct H as [HP Hoc].
  apply (sc_witness_check_perm alts orders vo Hno). split; [assumption|].
  apply (ordered_check_correct alts vo Hna); [|assumption].
  rewrite Forall_forall in *. intros o Ho. apply Hwf. eapply Permutation_in; [apply Permutation_sym; eassumption|assumption].
Qed.

Corollary sc_algo_sound_SC alts orders vo : wf_profile alts orders ->
  sc_algo alts orders = Ok (Some vo) -> SC alts orders.
Proof.
  intros Hwf H. pose proof (sc_algo_sound alts orders vo Hwf H) as Hw.
  destruct Hwf as (_ & Hno & _). eapply sc_witness_sound; eassumption.
Qed.

(* ============================================================================================== *)
(* 6. a single-crossing profile embeds isometrically into the line                                 *)
(* ============================================================================================== *)
Definition embeds (orders : list (list N)) (pos : list N -> Z) : Prop :=
  forall x y, In x orders -> In y orders -> Z.of_nat (ktd x y) = Z.abs (pos x - pos y).

Lemma embeds_perm orders orders' pos : Permutation orders orders' -> embeds orders pos -> embeds orders' pos.
Proof.
  intros HP H x y Hx Hy. apply H; eapply Permutation_in; try eassumption; now apply Permutation_sym.
Qed.

Lemma sc_embeds alts orders : wf_profile alts orders -> SC alts orders -> exists pos, embeds orders pos.
Proof.
  intros (Hna & Hno & Hwf) (s & HP & Hs).
  assert (Hwfs : Forall (fun o => Permutation alts o) s).
  { rewrite Forall_forall in *. intros o Ho. apply Hwf. eapply Permutation_in; [apply Permutation_sym; eassumption|assumption]. }
  enough (exists pos, embeds s pos) as (pos & Hpos).
  { exists pos. eapply embeds_perm; [apply Permutation_sym; eassumption|assumption]. }
  destruct s as [|c0 t].
  - exists (fun _ => 0). intros x y [].
  - exists (fun o => Z.of_nat (ktd c0 o)).
    pose proof (proj1 (sc_seq_kt_triples alts (c0 :: t) Hna Hwfs) Hs) as Htr.
    assert (Hw : forall o, In o (c0 :: t) -> Permutation alts o) by (rewrite Forall_forall in Hwfs; exact Hwfs).
    assert (H0 : ktd c0 c0 = 0%nat) by (apply (ktd_refl alts Hna); apply Hw; now left).
    intros x y Hx Hy. cbv beta.
    destruct Hx as [<-|Hx]; [rewrite H0; lia|].
    destruct Hy as [<-|Hy].
    { rewrite H0, (ktd_sym alts Hna x c0) by (apply Hw; simpl; auto). lia. }
    destruct (two_members x y t Hx Hy) as [->|[(l1 & l2 & l3 & E)|(l1 & l2 & l3 & E)]].
    + rewrite (ktd_refl alts Hna y) by (apply Hw; now right). lia.
    + pose proof (Htr [] c0 l1 x l2 y l3) as A. cbn [app] in A. rewrite <- E in A. specialize (A eq_refl). lia.
    + pose proof (Htr [] c0 l1 y l2 x l3) as A. cbn [app] in A. rewrite <- E in A. specialize (A eq_refl).
      rewrite (ktd_sym alts Hna x y) by (apply Hw; now right). lia.
Qed.

(* ============================================================================================== *)
(* 7. the scoring loop on an embedded profile                                                      *)
(* ============================================================================================== *)
Section Embedded.
Variable orders : list (list N).
Variable pos : list N -> Z.
Hypothesis Hemb : embeds orders pos.
Variables v1 v2 : list N.
Hypothesis Hv1 : In v1 orders.
Hypothesis Hv2 : In v2 orders.
Hypothesis Hlt : pos v1 < pos v2.

Lemma scan_step o t sc : In o orders ->
  scan v1 v2 (ktd v1 v2) (o :: t) sc = scan v1 v2 (ktd v1 v2) t (upd sc o (pos o - pos v1)).
Proof.
  intros Ho. cbn [scan].
  pose proof (Hemb v1 o Hv1 Ho) as E1. pose proof (Hemb v2 o Hv2 Ho) as E2. pose proof (Hemb v1 v2 Hv1 Hv2) as Ek.
  destruct (Nat.eqb_spec (ktd v1 o + ktd v2 o) (ktd v1 v2)) as [A|A].
  { f_equal. f_equal. lia. }
  destruct (Nat.eqb_spec (ktd v1 v2 + ktd v2 o) (ktd v1 o)) as [B|B].
  { f_equal. f_equal. lia. }
  destruct (Nat.eqb_spec (ktd v1 o + ktd v1 v2) (ktd v2 o)) as [C|C].
  { f_equal. f_equal. lia. }
  exfalso. lia.
Qed.

Lemma scan_ok rest : (forall o, In o rest -> In o orders) -> forall sc,
  exists sc', scan v1 v2 (ktd v1 v2) rest sc = Some sc' /\
              (forall o, In o rest -> lookup sc' o = pos o - pos v1) /\
              (forall o, ~ In o rest -> lookup sc' o = lookup sc o).
Proof.
  induction rest as [|o t IH]; intros Hin sc.
  - exists sc. split; [reflexivity|]. split; [intros o []|reflexivity].
  - rewrite scan_step by (apply Hin; now left).
    destruct (IH (fun o' Ho' => Hin o' (or_intror Ho')) (upd sc o (pos o - pos v1))) as (sc' & Hs & Hl & Hn).
    exists sc'. split; [exact Hs|]. split.
    + intros o' [<-|Ho']; [|now apply Hl].
      destruct (in_dec order_eq_dec o t) as [Hi|Hi]; [now apply Hl|].
      rewrite (Hn o Hi). apply lookup_upd_same.
    + intros o' Ho'. rewrite Hn by (intros H; apply Ho'; now right).
      apply lookup_upd_other. intros ->. apply Ho'. now left.
Qed.

(* a sequence of orders of the profile sorted by position passes the verification pass *)
Lemma ordered_from_sorted f t : In f orders -> (forall y, In y t -> In y orders) ->
  Forall (fun y => pos f < pos y) t -> StronglySorted (fun a b => pos a < pos b) t ->
  ordered_check_from f t = true.
Proof.
  intros Hf. induction t as [|y t IH]; intros Hin Hall Hs; [reflexivity|].
  destruct t as [|z t']; [reflexivity|].
  rewrite ordered_check_from_cons2, andb_true_iff, Nat.eqb_eq.
  inversion Hs as [|? ? Hs' Hyz]; subst. inversion Hall as [|? ? Hfy Hall']; subst.
  split.
  - assert (Hy : In y orders) by (apply Hin; now left).
    assert (Hz : In z orders) by (apply Hin; right; now left).
    pose proof (Hemb f y Hf Hy). pose proof (Hemb y z Hy Hz). pose proof (Hemb f z Hf Hz).
    inversion Hyz as [|? ? Hyz' _]; subst. inversion Hall' as [|? ? Hfz _]; subst. lia.
  - apply IH; try assumption. intros w Hw. apply Hin. now right.
Qed.
End Embedded.

(* ============================================================================================== *)
(* 8. completeness                                                                                 *)
(* ============================================================================================== *)
Lemma StronglySorted_impl_in {T} (R R' : T -> T -> Prop) l :
  StronglySorted R l -> (forall a b, In a l -> In b l -> R a b -> R' a b) -> StronglySorted R' l.
Proof.
  induction 1 as [|x t Ht IH Hall]; intros Himp; constructor.
  - apply IH. intros a b Ha Hb. apply Himp; now right.
  - rewrite Forall_forall in *. intros y Hy. apply Himp; [now left|now right|now apply Hall].
Qed.

Lemma embeds_inj alts orders pos : wf_profile alts orders -> embeds orders pos ->
  forall a b, In a orders -> In b orders -> pos a = pos b -> a = b.
Proof.
  intros (Hna & _ & Hwf) Hemb a b Ha Hb E. rewrite Forall_forall in Hwf.
  apply (ktd_zero alts Hna a b); [now apply Hwf|now apply Hwf|].
  pose proof (Hemb a b Ha Hb). lia.
Qed.

(* any arrangement of the profile that is sorted by a key equal to the position up to a shift
   passes the verification pass *)
Lemma sorted_ordered_check alts orders pos (key : list N -> Z) shift vo :
  wf_profile alts orders -> embeds orders pos ->
  (forall o, In o orders -> key o = pos o - shift) ->
  Permutation orders vo -> StronglySorted (fun a b => key a <= key b) vo ->
  ordered_check vo = true.
Proof.
  intros Hwf Hemb Hkey HP Hs.
  assert (Hin : forall o, In o vo -> In o orders).
  { intros o Ho. eapply Permutation_in; [apply Permutation_sym; eassumption|assumption]. }
  assert (Hnd : NoDup vo) by (destruct Hwf as (_ & Hno & _); eapply Permutation_NoDup; eassumption).
  apply sorted_strict in Hs; [|assumption|].
  - apply (StronglySorted_impl_in _ (fun a b => pos a < pos b)) in Hs.
    + destruct vo as [|f t]; [reflexivity|]. cbn [ordered_check].
      inversion Hs as [|? ? Hst Hall]; subst.
      apply (ordered_from_sorted orders pos Hemb); try assumption.
      * apply Hin. now left.
      * intros y Hy. apply Hin. now right.
    + intros a b Ha Hb. rewrite (Hkey a), (Hkey b) by now apply Hin. lia.
  - intros a b Ha Hb E. apply (embeds_inj alts orders pos Hwf Hemb); try now apply Hin.
    rewrite (Hkey a), (Hkey b) in E by now apply Hin. lia.
Qed.

Lemma sc_algo_complete_oriented alts v1 v2 rest pos :
  wf_profile alts (v1 :: v2 :: rest) -> embeds (v1 :: v2 :: rest) pos -> pos v1 < pos v2 ->
  exists vo, sc_algo alts (v1 :: v2 :: rest) = Ok (Some vo).
Proof.
  intros Hwf Hemb Hlt. set (orders := v1 :: v2 :: rest) in *.
  assert (Hv1 : In v1 orders) by (now left).
  assert (Hv2 : In v2 orders) by (right; now left).
  destruct Hwf as (Hna & Hno & Hwfo). assert (Hwf : wf_profile alts orders) by (repeat split; assumption).
  destruct (scan_ok orders pos Hemb v1 v2 Hv1 Hv2 Hlt rest (fun o Ho => or_intror (or_intror Ho))
                    [(v2, Z.of_nat (ktd v1 v2))]) as (sc & Hscan & Hl & Hn).
  assert (Hv12 : ~ In v1 (v2 :: rest)) by (inversion Hno; assumption).
  assert (Hv2r : ~ In v2 rest) by (inversion Hno as [|? ? _ H2]; inversion H2; assumption).
  assert (Hkey : forall o, In o orders -> lookup sc o = pos o - pos v1).
  { intros o [<-|[<-|Ho]].
    - rewrite Hn by (intros H; apply Hv12; now right). simpl.
      destruct (order_eqb v2 v1) eqn:E; [apply order_eqb_eq in E; exfalso; apply Hv12; now left|lia].
    - rewrite Hn by assumption. simpl. rewrite (proj2 (order_eqb_eq v2 v2) eq_refl).
      pose proof (Hemb v1 v2 Hv1 Hv2). lia.
    - now apply Hl. }
  unfold sc_algo. unfold orders. fold orders. rewrite Hscan. cbv zeta.
  assert (Hfin : forall vo, Permutation orders vo -> StronglySorted (fun a b => lookup sc a <= lookup sc b) vo ->
                            ordered_check vo = true).
  { intros vo HP Hs. eapply sorted_ordered_check; eassumption. }
  destruct (Nat.ltb (length orders) (length alts)).
  - exists (sort_by (lookup sc) orders). rewrite Hfin; [reflexivity|apply sort_by_perm|apply sort_by_sorted].
  - assert (Hrange : forall o, In o orders ->
                - Z.of_nat (length alts * length alts) <= lookup sc o <= Z.of_nat (length alts * length alts)).
    { intros o Ho. rewrite (Hkey o Ho). pose proof (Hemb v1 o Hv1 Ho) as E.
      rewrite Forall_forall in Hwfo.
      pose proof (ktd_bound alts Hna v1 o (Hwfo v1 Hv1) (Hwfo o Ho)). lia. }
    assert (Hinj : forall a b, In a orders -> In b orders -> lookup sc a = lookup sc b -> a = b).
    { intros a b Ha Hb E. apply (embeds_inj alts orders pos Hwf Hemb a b Ha Hb).
      rewrite (Hkey a Ha), (Hkey b Hb) in E. lia. }
    rewrite (bucket_phase_ok (length alts) (lookup sc) orders).
    + eexists. rewrite Hfin; [reflexivity| |].
      * apply Permutation_sym, buckets_perm. intros o Ho. eexists. apply bucket_index_in_range. now apply Hrange.
      * apply buckets_sorted. exact Hrange.
    + intros o Ho. eexists. apply bucket_index_in_range. now apply Hrange.
    + apply buckets_no_collision; assumption.
Qed.

Theorem sc_algo_complete alts orders : wf_profile alts orders -> SC alts orders ->
  exists vo, sc_algo alts orders = Ok (Some vo).
Proof.
  intros Hwf Hsc. destruct (sc_embeds alts orders Hwf Hsc) as (pos & Hemb).
  destruct orders as [|v1 [|v2 rest]]; [eexists; reflexivity|eexists; reflexivity|].
  assert (Hne : pos v1 <> pos v2).
  { intros E. apply (embeds_inj alts _ pos Hwf Hemb) in E; [|now left|right; now left].
    destruct Hwf as (_ & Hno & _). inversion Hno as [|? ? H1 _]. apply H1. subst. now left. }
  destruct (Z.lt_ge_cases (pos v1) (pos v2)) as [Hlt|Hge].
  - eapply sc_algo_complete_oriented; eassumption.
  - apply (sc_algo_complete_oriented alts v1 v2 rest (fun o => - pos o)); [assumption| |lia].
    intros x y Hx Hy. rewrite (Hemb x y Hx Hy). lia.
Qed.

(* exactness of the mirrored algorithm on well-formed profiles *)
Theorem sc_algo_correct alts orders : wf_profile alts orders ->
  ((exists vo, sc_algo alts orders = Ok (Some vo)) <-> SC alts orders).
Proof.
  intros Hwf. split.
  - intros (vo & H). eapply sc_algo_sound_SC; eassumption.
  - now apply sc_algo_complete.
Qed.

(* ============================================================================================== *)
(* 9. no IndexError on well-formed profiles; the verdict as a boolean                              *)
(* ============================================================================================== *)
Lemma scan_bound v1 v2 k rest (B : Z) : (forall o, In o rest -> Z.of_nat (ktd v1 o) <= B) ->
  forall sc sc', (forall o, Z.abs (lookup sc o) <= B) -> scan v1 v2 k rest sc = Some sc' ->
  forall o, Z.abs (lookup sc' o) <= B.
Proof.
  induction rest as [|x t IH]; intros Hb sc sc' Hinv H.
  - simpl in H. injection H as <-. exact Hinv.
  - cbn [scan] in H.
    assert (Hx : Z.of_nat (ktd v1 x) <= B) by (apply Hb; now left).
    assert (Hup : forall v, Z.abs v <= B -> forall o, Z.abs (lookup (upd sc x v) o) <= B).
    { intros v Hv o. destruct (order_eq_dec x o) as [<-|Hne].
      - now rewrite lookup_upd_same.
      - rewrite lookup_upd_other by assumption. apply Hinv. }
    assert (Ht : forall o, In o t -> Z.of_nat (ktd v1 o) <= B) by (intros o Ho; apply Hb; now right).
    destruct (Nat.eqb (ktd v1 x + ktd v2 x) k).
    { eapply (IH Ht); [|exact H]. apply Hup. lia. }
    destruct (Nat.eqb (k + ktd v2 x) (ktd v1 x)).
    { eapply (IH Ht); [|exact H]. apply Hup. lia. }
    destruct (Nat.eqb (ktd v1 x + k) (ktd v2 x)); [|discriminate].
    eapply (IH Ht); [|exact H]. apply Hup. lia.
Qed.

Theorem sc_algo_no_error alts orders : wf_profile alts orders -> forall e, sc_algo alts orders <> Err e.
Proof.
  intros (Hna & Hno & Hwf) e. rewrite Forall_forall in Hwf.
  destruct orders as [|v1 [|v2 rest]]; [discriminate|discriminate|].
  unfold sc_algo.
  destruct (scan v1 v2 (ktd v1 v2) rest [(v2, Z.of_nat (ktd v1 v2))]) as [sc|] eqn:Hscan; [|discriminate].
  cbv zeta. destruct (Nat.ltb (length (v1 :: v2 :: rest)) (length alts)).
  - destruct (ordered_check _); discriminate.
  - assert (Hb : forall o, Z.abs (lookup sc o) <= Z.of_nat (length alts * length alts)).
    { eapply scan_bound; [| |exact Hscan].
      - intros o Ho. apply inj_le. apply (ktd_bound alts Hna); apply Hwf; [now left|right; now right].
      - intros o. simpl. destruct (order_eqb v2 o); [|lia].
        pose proof (ktd_bound alts Hna v1 v2 (Hwf v1 (or_introl eq_refl)) (Hwf v2 (or_intror (or_introl eq_refl)))). lia. }
    destruct (bucket_phase (length alts) (lookup sc) (v1 :: v2 :: rest)) as [[vo|]|e'] eqn:Eb.
    + destruct (ordered_check vo); discriminate.
    + discriminate.
    + exfalso. unfold bucket_phase in Eb.
      replace (forallb _ (v1 :: v2 :: rest)) with true in Eb.
      * destruct (existsb _ _) in Eb; discriminate.
      * symmetry. apply forallb_forall. intros o _. rewrite bucket_index_in_range; [reflexivity|].
        specialize (Hb o). lia.
Qed.

Theorem sc_algo_verdict_correct alts orders : wf_profile alts orders ->
  sc_algo_verdict alts orders = sc_decide alts orders.
Proof.
  intros Hwf. unfold sc_algo_verdict.
  destruct (sc_decide alts orders) eqn:Ed.
  - apply sc_decide_correct in Ed. destruct (sc_algo_complete alts orders Hwf Ed) as (vo & ->). reflexivity.
  - destruct (sc_algo alts orders) as [[vo|]|e] eqn:Ea; try reflexivity.
    apply (sc_algo_sound_SC alts orders vo Hwf) in Ea. apply sc_decide_correct in Ea. congruence.
Qed.

(* the answer (False, None) is given exactly on the profiles that are not single-crossing *)
Theorem sc_algo_false_iff alts orders : wf_profile alts orders ->
  (sc_algo alts orders = Ok None <-> ~ SC alts orders).
Proof.
  intros Hwf. split.
  - intros H Hsc. destruct (sc_algo_complete alts orders Hwf Hsc) as (vo & E). congruence.
  - intros Hn. destruct (sc_algo alts orders) as [[vo|]|e] eqn:Ea.
    + exfalso. apply Hn. eapply sc_algo_sound_SC; eassumption.
    + reflexivity.
    + exfalso. eapply sc_algo_no_error; eassumption.
Qed.

(* ============================================================================================== *)
(* 10. the mirror of is_single_crossing_conflict_sets equals the proved reference                  *)
(* ============================================================================================== *)
Lemma pair_eqb_eq p q : pair_eqb p q = true <-> p = q.
Proof.
  destruct p as [a b], q as [c d]. unfold pair_eqb. cbn [fst snd].
  rewrite andb_true_iff, !N.eqb_eq. split; [intros [-> ->]; reflexivity|intros E; injection E; auto].
Qed.

Lemma subsetb_spec s t : subsetb s t = true <-> incl s t.
Proof.
  unfold subsetb. rewrite forallb_forall. split.
  - intros H p Hp. specialize (H p Hp). apply existsb_exists in H. destruct H as (q & Hq & E).
    apply pair_eqb_eq in E. now subst.
  - intros H p Hp. apply existsb_exists. exists p. split; [now apply H|now apply pair_eqb_eq].
Qed.

Section ConflictMirror.
Variable alts : list N.
Hypothesis alts_nodup : NoDup alts.

Lemma cond_conflict v o a b : Permutation alts v -> Permutation alts o -> In a alts -> In b alts -> a <> b ->
  (prefers v a b && prefers o b a) || (prefers v b a && prefers o a b) = conflict v o a b.
Proof.
  intros Hv Ho Ha Hb Hne. unfold conflict.
  rewrite (prefers_total v a b), (prefers_total o a b); try assumption;
    try (eapply Permutation_in; eassumption).
  destruct (prefers v a b), (prefers o a b); reflexivity.
Qed.

Lemma minmax_same a b c d : N.min a b = N.min c d -> N.max a b = N.max c d ->
  (a = c /\ b = d) \/ (a = d /\ b = c).
Proof. lia. Qed.

Lemma conflict_set_In v o x y : Permutation alts v -> Permutation alts o ->
  (In (x, y) (conflict_set v o) <->
   exists a b, In (a, b) (pairs v) /\ conflict v o a b = true /\ x = N.min a b /\ y = N.max a b).
Proof.
  intros Hv Ho. unfold conflict_set. rewrite in_flat_map. split.
  - intros ([a b] & Hp & Hin). cbn [fst snd] in Hin.
    pose proof (pairs_In a b v Hp) as [Ha Hb].
    pose proof (pairs_neq a b v (Permutation_NoDup Hv alts_nodup) Hp) as Hne.
    assert (Ha' : In a alts) by (eapply Permutation_in; [apply Permutation_sym; exact Hv|exact Ha]).
    assert (Hb' : In b alts) by (eapply Permutation_in; [apply Permutation_sym; exact Hv|exact Hb]).
    rewrite (cond_conflict v o a b Hv Ho Ha' Hb' Hne) in Hin.
    destruct (conflict v o a b) eqn:E; [|contradiction].
    destruct Hin as [Hin|[]]. injection Hin as <- <-. exists a, b. auto.
  - intros (a & b & Hp & Hc & -> & ->). exists (a, b). split; [assumption|]. cbn [fst snd].
    pose proof (pairs_In a b v Hp) as [Ha Hb].
    pose proof (pairs_neq a b v (Permutation_NoDup Hv alts_nodup) Hp) as Hne.
    assert (Ha' : In a alts) by (eapply Permutation_in; [apply Permutation_sym; exact Hv|exact Ha]).
    assert (Hb' : In b alts) by (eapply Permutation_in; [apply Permutation_sym; exact Hv|exact Hb]).
    rewrite (cond_conflict v o a b Hv Ho Ha' Hb' Hne), Hc. now left.
Qed.

Lemma subset_conf_sub v j k : Permutation alts v -> Permutation alts j -> Permutation alts k ->
  subsetb (conflict_set v j) (conflict_set v k) = conf_sub alts v j k.
Proof.
  intros Hv Hj Hk.
  assert (Hin : forall o x, Permutation alts o -> In x alts -> In x o) by (intros o x Ho Hx; eapply Permutation_in; eassumption).
  assert (E : subsetb (conflict_set v j) (conflict_set v k) = true <-> conf_sub alts v j k = true).
  { rewrite subsetb_spec, conf_sub_spec. split.
    - intros H a b Ha Hb Hc.
      destruct (N.eq_dec a b) as [->|Hne]; [unfold conflict in Hc; rewrite !prefers_same in Hc; discriminate|].
      assert (Hgen : forall a b, In (a, b) (pairs v) -> conflict v j a b = true -> conflict v k a b = true).
      { intros a0 b0 Hp Hc0.
        assert (Hm : In (N.min a0 b0, N.max a0 b0) (conflict_set v k)).
        { apply H. apply (conflict_set_In v j); try assumption. exists a0, b0. auto. }
        apply (conflict_set_In v k) in Hm; try assumption. destruct Hm as (c & d & Hp' & Hc' & E1 & E2).
        destruct (minmax_same a0 b0 c d E1 E2) as [[-> ->]|[-> ->]]; [assumption|].
        pose proof (pairs_In c d v Hp') as [Hc1 Hd1].
        rewrite (conflict_sym v k d c); auto; eapply Permutation_in; try eassumption;
          eapply Permutation_in; try (apply Permutation_sym; exact Hv); assumption. }
      destruct (pairs_cover a b v (Hin v a Hv Ha) (Hin v b Hv Hb) Hne) as [Hp|Hp].
      + now apply Hgen.
      + rewrite (conflict_sym v k a b) by auto. apply Hgen; [assumption|].
        rewrite (conflict_sym v j b a) by auto. assumption.
    - intros H [x y] Hxy. apply (conflict_set_In v j) in Hxy; try assumption.
      destruct Hxy as (a & b & Hp & Hc & -> & ->). apply (conflict_set_In v k); try assumption.
      exists a, b. repeat split; try assumption.
      pose proof (pairs_In a b v Hp) as [Ha Hb].
      apply H; try assumption; eapply Permutation_in; try (apply Permutation_sym; exact Hv); assumption. }
  destruct (subsetb _ _), (conf_sub alts v j k); try reflexivity.
  - symmetry. now apply E.
  - now apply E.
Qed.
End ConflictMirror.

Lemma forallb_ext_in' {T} (f g : T -> bool) l : (forall x, In x l -> f x = g x) -> forallb f l = forallb g l.
Proof.
  induction l as [|x t IH]; intros H; [reflexivity|]. simpl. rewrite (H x) by now left.
  rewrite IH; [reflexivity|]. intros y Hy. apply H. now right.
Qed.

Lemma existsb_ext_in' {T} (f g : T -> bool) l : (forall x, In x l -> f x = g x) -> existsb f l = existsb g l.
Proof.
  induction l as [|x t IH]; intros H; [reflexivity|]. simpl. rewrite (H x) by now left.
  rewrite IH; [reflexivity|]. intros y Hy. apply H. now right.
Qed.

Lemma sc_with_first_chain alts orders v : wf_profile alts orders -> In v orders ->
  sc_with_first v orders = chain_from alts orders v.
Proof.
  intros (Hna & _ & Hwf) Hv. rewrite Forall_forall in Hwf. unfold sc_with_first, chain_from.
  apply forallb_ext_in'. intros j Hj. apply forallb_ext_in'. intros k Hk.
  rewrite (subset_conf_sub alts Hna v j k), (subset_conf_sub alts Hna v k j); auto.
Qed.

(* the literal mirror of is_single_crossing_conflict_sets is the proved polynomial reference *)
Theorem conflict_sets_algo_eq alts orders : wf_profile alts orders -> orders <> [] ->
  conflict_sets_algo orders = sc_conflict_decide alts orders.
Proof.
  intros Hwf Hne. unfold conflict_sets_algo, sc_conflict_decide.
  destruct orders as [|o0 rest] eqn:E; [contradiction|]. rewrite <- E in *.
  apply existsb_ext_in'. intros v Hv. now apply sc_with_first_chain.
Qed.

Corollary conflict_sets_algo_correct alts orders : wf_profile alts orders -> orders <> [] ->
  (conflict_sets_algo orders = true <-> SC alts orders).
Proof. intros Hwf Hne. rewrite (conflict_sets_algo_eq alts orders Hwf Hne). apply sc_conflict_decide_correct. Qed.
