(* Proofs/Relabel.v — lemmas for property C15 (label and storage-order invariance) that the owners of the
   individual models did not already prove.  Every lemma is on top of the owners' definitions. *)
From Coq Require Import List Arith NArith ZArith Bool Lia Permutation.
From PrefVerif Require Import Lib.Val Model.Relabel.
Import ListNotations.

Lemma map_order_id o : map_order (fun x => x) o = o.
Proof. unfold map_order. induction o as [|c r IH]; [reflexivity|]. simpl. now rewrite map_id, IH. Qed.
