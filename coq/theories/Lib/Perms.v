(* Lib/Perms.v — verified enumeration of the permutations of a list, and the generic
   'exists a permutation satisfying P' decision lemma. *)
From Coq Require Import List Permutation Arith Lia Bool.
Import ListNotations.

Section Perms.
Variable A : Type.

Fixpoint insert_all (x:A) (l:list A) : list (list A) :=
  match l with
  | [] => [[x]]
  | y::ys => (x::y::ys) :: map (cons y) (insert_all x ys)
  end.

Fixpoint perms (l:list A) : list (list A) :=
  match l with
  | [] => [[]]
  | x::xs => flat_map (insert_all x) (perms xs)
  end.

Lemma insert_all_spec x l r : In r (insert_all x l) <-> exists l1 l2, l = l1 ++ l2 /\ r = l1 ++ x :: l2.
Proof.
  revert r; induction l as [|y ys IH]; intros r; simpl.
  - split.
    + intros [<-|[]]. exists [], []. auto.
    + intros (l1 & l2 & H & ->). destruct l1; destruct l2; try discriminate. now left.
  - split.
    + intros [<-|H].
      * exists [], (y::ys). auto.
      * apply in_map_iff in H. destruct H as (r' & <- & H). apply IH in H.
        destruct H as (l1 & l2 & -> & ->). exists (y::l1), l2. auto.
    + intros (l1 & l2 & H & ->). destruct l1 as [|z l1]; simpl in *.
      * subst l2. now left.
      * injection H as -> ->. right. apply in_map_iff. eexists; split; [reflexivity|].
        apply IH. eauto.
Qed.

Lemma perms_sound l r : In r (perms l) -> Permutation l r.
Proof.
  revert r; induction l as [|x xs IH]; intros r; simpl.
  - intros [<-|[]]. constructor.
  - intros H. apply in_flat_map in H. destruct H as (p & Hp & Hr).
    apply insert_all_spec in Hr. destruct Hr as (l1 & l2 & -> & ->).
    apply Permutation_cons_app. now apply IH.
Qed.

Lemma perms_complete l r : Permutation l r -> In r (perms l).
Proof.
  revert r; induction l as [|x xs IH]; intros r H.
  - apply Permutation_nil in H. subst. now left.
  - assert (Hin : In x r) by (eapply Permutation_in; [exact H|now left]).
    apply in_split in Hin. destruct Hin as (l1 & l2 & ->).
    apply Permutation_cons_app_inv in H.
    simpl. apply in_flat_map. exists (l1 ++ l2). split; [now apply IH|].
    apply insert_all_spec. eauto.
Qed.

Theorem perms_iff l r : In r (perms l) <-> Permutation l r.
Proof. split; [apply perms_sound|apply perms_complete]. Qed.

(* generic decider from a checker *)
Variable P : list A -> Prop.
Variable chk : list A -> bool.
Hypothesis chk_ok : forall r, chk r = true <-> P r.
Theorem exists_perm_dec l : existsb chk (perms l) = true <-> exists r, Permutation l r /\ P r.
Proof.
  rewrite existsb_exists. split.
  - intros (r & Hin & Hc). exists r. split; [now apply perms_iff|now apply chk_ok].
  - intros (r & Hp & Hr). exists r. split; [now apply perms_iff|now apply chk_ok].
Qed.
End Perms.

Arguments insert_all {A} x l.
Arguments perms {A} l.

Lemma perms_length_each {A} (l r : list A) : In r (perms l) -> length r = length l.
Proof. intros H. apply perms_iff in H. symmetry. now apply Permutation_length. Qed.
