(* Proofs/OrdIO.v — lemmas about Model/OrdIO.v: the ballot printer is inverted by tokenizer + class
   construction (C01_ties), the stable sort (C01_sorted, C01_idempotent), and the whole-file round trip
   (C01_roundtrip).  One lemma per printer / parser stage. *)
From Coq Require Import List NArith Bool String Lia Arith Permutation.
From PrefVerif Require Import Lib.Val Lib.Dec Lib.PyStr Model.Meta Model.OrdIO Proofs.Meta.
Import ListNotations.

(* ================================================================================================ *)
(* 1. results                                                                                       *)
(* ================================================================================================ *)
Definition rapp {T} (a b : result (list T)) : result (list T) := rbind a (fun x => rmap (app x) b).

Lemma rmapM_app {T U} (f : T -> result U) l1 l2 :
  rmapM f (l1 ++ l2) = rapp (rmapM f l1) (rmapM f l2).
Proof.
  induction l1 as [|x r IH]; simpl.
  - unfold rapp. simpl. destruct (rmapM f l2); reflexivity.
  - destruct (f x) as [y|e]; simpl; [|reflexivity]. rewrite IH. unfold rapp.
    destruct (rmapM f r); simpl; [|reflexivity]. destruct (rmapM f l2); reflexivity.
Qed.

(* ================================================================================================ *)
(* 2. ids_of : "a,b,,c" -> [a;b;c]                                                                  *)
(* ================================================================================================ *)
Lemma split_on_nonnil sep s : split_on sep s <> [].
Proof. induction s as [|c r IH]; simpl; [discriminate|]. destruct (N.eqb c sep); [discriminate|]. destruct (split_on sep r); [easy|discriminate]. Qed.

Lemma split_on_app sep x y : split_on sep (x ++ sep :: y) = split_on sep x ++ split_on sep y.
Proof.
  induction x as [|c r IH]; simpl.
  - now rewrite N.eqb_refl.
  - destruct (N.eqb c sep); [now rewrite IH|]. rewrite IH.
    pose proof (split_on_nonnil sep r) as H. destruct (split_on sep r); [easy|reflexivity].
Qed.

Lemma split_on_none sep s : forallb (fun c => negb (N.eqb c sep)) s = true -> split_on sep s = [s].
Proof.
  induction s as [|c r IH]; simpl; [reflexivity|]. intros H. apply andb_true_iff in H as [Hc Hr].
  apply negb_true_iff in Hc. rewrite Hc. now rewrite (IH Hr).
Qed.

Lemma ids_of_app x y : ids_of (x ++ 44%N :: y) = rapp (ids_of x) (ids_of y).
Proof. unfold ids_of. rewrite split_on_app, filter_app. apply rmapM_app. Qed.

Lemma ids_of_nil : ids_of [] = Ok [].
Proof. reflexivity. Qed.

Lemma digits_no_comma s : forallb is_digit s = true -> forallb (fun c => negb (N.eqb c 44)) s = true.
Proof.
  rewrite !forallb_forall. intros H c Hc. specialize (H c Hc). unfold is_digit in H.
  apply andb_true_iff in H as [A B]. apply N.leb_le in A. destruct (N.eqb_spec c 44); [lia|reflexivity].
Qed.

Lemma ids_of_show_N a : ids_of (show_N a) = Ok [a].
Proof.
  unfold ids_of. rewrite split_on_none by (apply digits_no_comma, show_N_digits).
  assert (NE : nonempty (show_N a) = true).
  { pose proof (show_N_nonempty a) as H. now destruct (show_N a). }
  cbn [filter]. rewrite NE. cbn [rmapM]. rewrite py_int_show_N. reflexivity.
Qed.

Definition commas (parts : list text) : text := join [44%N] parts.

Lemma ids_of_commas c : ids_of (commas (map show_N c)) = Ok c.
Proof.
  induction c as [|a r IH]; [reflexivity|].
  destruct r as [|b r'].
  - cbn. apply ids_of_show_N.
  - change (commas (map show_N (a :: b :: r'))) with (show_N a ++ 44%N :: commas (map show_N (b :: r'))).
    rewrite ids_of_app, ids_of_show_N, IH. reflexivity.
Qed.

(* text ready for a new piece: empty, or ending with a comma *)
Definition sepready (x : text) : Prop := x = [] \/ exists x', x = x' ++ [44%N].

Lemma ids_of_sepready_app x y : sepready x -> ids_of (x ++ y) = rapp (ids_of x) (ids_of y).
Proof.
  intros [->|[x' ->]].
  - simpl. unfold rapp. simpl. destruct (ids_of y); reflexivity.
  - rewrite <- app_assoc. cbn [app]. rewrite ids_of_app.
    replace (x' ++ [44%N]) with (x' ++ 44%N :: []) by reflexivity. rewrite ids_of_app, ids_of_nil.
    unfold rapp. destruct (ids_of x'); simpl; [|reflexivity]. rewrite app_nil_r.
    destruct (ids_of y); reflexivity.
Qed.

Lemma ids_of_comma_r x : ids_of (x ++ [44%N]) = ids_of x.
Proof.
  replace (x ++ [44%N]) with (x ++ 44%N :: []) by reflexivity. rewrite ids_of_app, ids_of_nil.
  unfold rapp. destruct (ids_of x); simpl; [now rewrite app_nil_r|reflexivity].
Qed.

(* ================================================================================================ *)
(* 3. the tokenizer on digit/comma runs                                                             *)
(* ================================================================================================ *)
Lemma digit_is_dc c : is_digit c = true -> is_dc c = true.
Proof. unfold is_dc. now intros ->. Qed.

Lemma all_dc_show_N a : forallb is_dc (show_N a) = true.
Proof.
  pose proof (show_N_digits a) as H. rewrite forallb_forall in *. intros c Hc. apply digit_is_dc. now apply H.
Qed.

Lemma all_dc_commas c : forallb is_dc (commas (map show_N c)) = true.
Proof.
  induction c as [|a r IH]; [reflexivity|]. destruct r as [|b r'].
  - cbn. apply all_dc_show_N.
  - change (commas (map show_N (a :: b :: r'))) with (show_N a ++ 44%N :: commas (map show_N (b :: r'))).
    rewrite forallb_app. rewrite all_dc_show_N. cbn [forallb andb]. exact IH.
Qed.

Lemma tok_run_dc ds : forall acc rest, forallb is_dc ds = true ->
  tok (TRun acc) (ds ++ rest) = tok (TRun (rev ds ++ acc)) rest.
Proof.
  induction ds as [|c r IH]; intros acc rest H; [reflexivity|].
  simpl in H. apply andb_true_iff in H as [Hc Hr]. cbn [app tok]. rewrite Hc. rewrite IH by exact Hr.
  simpl. now rewrite <- app_assoc.
Qed.

Lemma tok_brace_dc ds : forall acc rest, forallb is_dc ds = true ->
  tok (TBrace acc) (ds ++ rest) = tok (TBrace (rev ds ++ acc)) rest.
Proof.
  induction ds as [|c r IH]; intros acc rest H; [reflexivity|].
  simpl in H. apply andb_true_iff in H as [Hc Hr]. cbn [app tok]. rewrite Hc. rewrite IH by exact Hr.
  simpl. now rewrite <- app_assoc.
Qed.

(* semantic value of a token list *)
Definition sem (toks : list text) : result order := rmap (@List.concat (list N)) (rmapM classes_of_group toks).

Lemma sem_cons t toks : sem (t :: toks) = rapp (classes_of_group t) (sem toks).
Proof.
  unfold sem, rapp. cbn [rmapM]. destruct (classes_of_group t) as [y|e]; simpl; [|reflexivity].
  destruct (rmapM classes_of_group toks); reflexivity.
Qed.

Lemma sem_nil : sem [] = Ok [].
Proof. reflexivity. Qed.

Lemma order_of_str_sem s : order_of_str s = sem (tokenize s).
Proof. reflexivity. Qed.

(* a bare run (no brace inside) *)
Lemma classes_of_run g : forallb is_dc g = true ->
  classes_of_group g = rmap (map (fun a => [a])) (ids_of g).
Proof.
  intros H. unfold classes_of_group. destruct g as [|c r]; [reflexivity|].
  simpl in H. apply andb_true_iff in H as [Hc _]. cbn [startswith].
  assert (E : N.eqb c_lbrace c = false).
  { unfold c_lbrace. destruct (N.eqb_spec 123 c) as [<-|]; [discriminate|reflexivity]. }
  rewrite E. reflexivity.
Qed.

Lemma classes_of_braced x : classes_of_group (c_lbrace :: x ++ [c_rbrace]) = rmap (fun c => [c]) (ids_of x).
Proof.
  unfold classes_of_group. cbn [startswith]. rewrite N.eqb_refl. cbn [andb].
  unfold inner. cbn [tl]. now rewrite removelast_last.
Qed.

(* starting idle is, for the classes built, the same as starting inside an empty run *)
Lemma sem_idle_run0 s : sem (tok TIdle s) = sem (tok (TRun []) s).
Proof.
  destruct s as [|c r]; [reflexivity|]. cbn [tok].
  destruct (is_dc c) eqn:D.
  - destruct (N.eqb_spec c c_lbrace) as [->|]; [discriminate|]. reflexivity.
  - cbn [rev]. rewrite sem_cons. change (classes_of_group []) with (@Ok (list (list N)) []).
    unfold rapp. cbn [rbind]. destruct (N.eqb c c_lbrace); now destruct (sem _).
Qed.

(* ================================================================================================ *)
(* 4. C01_ties: tokenizer + class construction invert the (whitespace-free) ballot printer          *)
(* ================================================================================================ *)
(* the printed classes without blanks: a singleton is bare, any other class is in braces *)
Definition cbody (c : list N) : text :=
  match c with
  | [a] => show_N a
  | _ => c_lbrace :: commas (map show_N c) ++ [c_rbrace]
  end.
Definition ctail (r : order) : text := flat_map (fun c => 44%N :: cbody c) r.
Definition cstr (o : order) : text := match o with [] => [] | c :: r => cbody c ++ ctail r end.

Lemma ctail_cons c r : ctail (c :: r) = 44%N :: cstr (c :: r).
Proof. reflexivity. Qed.

Definition singles (l : list N) : order := map (fun a => [a]) l.

Lemma forallb_rev {T} (f : T -> bool) l : forallb f l = true -> forallb f (rev l) = true.
Proof. rewrite !forallb_forall. intros H x Hx. apply H. now apply in_rev. Qed.

Lemma tok_run_dc' ds x rest : forallb is_dc ds = true ->
  tok (TRun (rev x)) (ds ++ rest) = tok (TRun (rev (x ++ ds))) rest.
Proof. intros H. rewrite tok_run_dc by exact H. now rewrite rev_app_distr. Qed.

Lemma tok_brace_close acc rest : acc <> [] ->
  tok (TBrace acc) (c_rbrace :: rest) = (c_lbrace :: rev acc ++ [c_rbrace]) :: tok TIdle rest.
Proof. intros H. cbn [tok]. change (is_dc c_rbrace) with false. cbv iota. rewrite N.eqb_refl. destruct acc; [easy|reflexivity]. Qed.

Lemma commas_nonempty a c : commas (map show_N (a :: c)) <> [].
Proof.
  pose proof (show_N_nonempty a) as H. destruct c as [|b c'].
  - cbn. exact H.
  - change (commas (map show_N (a :: b :: c'))) with (show_N a ++ 44%N :: commas (map show_N (b :: c'))).
    destruct (show_N a); [easy|discriminate].
Qed.

(* a braced class read from inside a run x: the run is closed, the class is emitted, the scan is idle *)
Lemma tok_run_braced x c rest : c <> [] ->
  tok (TRun (rev x)) (c_lbrace :: commas (map show_N c) ++ c_rbrace :: rest) =
  x :: (c_lbrace :: commas (map show_N c) ++ [c_rbrace]) :: tok TIdle rest.
Proof.
  intros Hc. cbn [tok]. change (is_dc c_lbrace) with false. cbv iota. rewrite N.eqb_refl.
  rewrite rev_involutive. f_equal.
  rewrite tok_brace_dc by apply all_dc_commas. rewrite app_nil_r.
  rewrite tok_brace_close.
  - now rewrite rev_involutive.
  - destruct c as [|a c']; [easy|]. intros E. apply (commas_nonempty a c').
    rewrite <- (rev_involutive (commas _)). now rewrite E.
Qed.

Lemma sem_run_token x pre toks : forallb is_dc x = true -> ids_of x = Ok pre ->
  sem (x :: toks) = rapp (Ok (singles pre)) (sem toks).
Proof. intros D I. rewrite sem_cons, classes_of_run by exact D. now rewrite I. Qed.

Lemma tok_idle_comma s : sem (tok TIdle (44%N :: s)) = sem (tok (TRun (rev [44%N])) s).
Proof. rewrite sem_idle_run0. reflexivity. Qed.

Theorem ties_run : forall o x pre,
  o <> [] -> Forall (fun c => c <> []) o ->
  forallb is_dc x = true -> sepready x -> ids_of x = Ok pre ->
  sem (tok (TRun (rev x)) (cstr o)) = Ok (singles pre ++ o).
Proof.
  induction o as [|c r IH]; intros x pre Hne Hcl Dx Sx Ix; [easy|]. clear Hne.
  inversion Hcl as [|? ? Hc Hr]; subst.
  assert (Tail : forall x1 pre1, forallb is_dc x1 = true -> ids_of x1 = Ok pre1 ->
            sem (tok (TRun (rev x1)) (ctail r)) = Ok (singles pre1 ++ r)).
  { intros x1 pre1 D1 I1. destruct r as [|c' r'].
    - cbn [ctail flat_map tok]. rewrite rev_involutive. rewrite (sem_run_token x1 pre1) by assumption.
      reflexivity.
    - rewrite ctail_cons. change (44%N :: cstr (c' :: r')) with ([44%N] ++ cstr (c' :: r')).
      rewrite tok_run_dc' by reflexivity. apply IH.
      + discriminate.
      + exact Hr.
      + rewrite forallb_app, D1. reflexivity.
      + right. now exists x1.
      + now rewrite ids_of_comma_r. }
  destruct c as [|a [|b c'']]; [easy| |].
  - (* singleton class: the run goes on *)
    cbn [cstr cbody]. rewrite tok_run_dc' by apply all_dc_show_N.
    rewrite (Tail (x ++ show_N a) (pre ++ [a])).
    + unfold singles. rewrite map_app, <- app_assoc. reflexivity.
    + rewrite forallb_app, Dx. apply all_dc_show_N.
    + rewrite ids_of_sepready_app by exact Sx. now rewrite Ix, ids_of_show_N.
  - (* class in braces *)
    cbn [cstr cbody]. cbn [app]. rewrite <- app_assoc. cbn [app].
    rewrite tok_run_braced by discriminate.
    rewrite (sem_run_token x pre) by assumption.
    rewrite sem_cons, classes_of_braced, ids_of_commas. cbn [rmap].
    assert (E : sem (tok TIdle (ctail r)) = Ok r).
    { destruct r as [|c' r']; [reflexivity|]. rewrite ctail_cons, tok_idle_comma.
      rewrite (IH [44%N] []); [reflexivity|discriminate|exact Hr|reflexivity|right; now exists []|reflexivity]. }
    rewrite E. reflexivity.
Qed.

(* every arrangement of non-empty classes: first / last / only class tied, singletons, any ids *)
Theorem order_of_cstr o : Forall (fun c => c <> []) o -> order_of_str (cstr o) = Ok o.
Proof.
  intros H. rewrite order_of_str_sem. unfold tokenize. destruct o as [|c r]; [reflexivity|].
  rewrite sem_idle_run0. change (@nil N) with (rev (@nil N)).
  rewrite (ties_run (c :: r) [] []); [reflexivity|discriminate|exact H|reflexivity|now left|reflexivity].
Qed.
