"""Line coverage of the anchored implementation files by a sample of the campaign (evidence only, never a verdict).

measure(fn, items, files) runs fn(item) for each item in a forked child under sys.settrace restricted to the given
source files (paths relative to the preflibtools package root) and returns, per file, executable / executed line
counts and the executable lines never reached."""
import multiprocessing as mp
import os
import sys


def _executable_lines(path):
    src = open(path, encoding="utf-8").read()
    code = compile(src, path, "exec")
    lines = set()
    stack = [code]
    while stack:
        c = stack.pop()
        for _, _, ln in c.co_lines():
            if ln:
                lines.add(ln)
        for k in c.co_consts:
            if hasattr(k, "co_lines"):
                stack.append(k)
    # docstrings / def lines are noise-free enough for a percentage
    return lines


def _child(fn, items, paths, conn):
    devnull = os.open(os.devnull, os.O_WRONLY)
    os.dup2(devnull, 1)
    sys.stdout = open(os.devnull, "w")
    import warnings
    warnings.simplefilter("ignore")
    hit = {p: set() for p in paths}

    def tracer(frame, event, arg):
        f = frame.f_code.co_filename
        if f in hit:
            if event == "line":
                hit[f].add(frame.f_lineno)
            return tracer
        return None

    sys.settrace(tracer)
    for it in items:
        try:
            fn(it)
        except BaseException:
            pass
    sys.settrace(None)
    conn.send({p: sorted(v) for p, v in hit.items()})


def measure(fn, items, files, timeout_s=120):
    try:
        import preflibtools
    except Exception:
        return {}
    root = os.path.dirname(os.path.abspath(preflibtools.__file__))
    paths = [os.path.join(root, f) for f in files if os.path.exists(os.path.join(root, f))]
    if not paths or not items:
        return {}
    ctx = mp.get_context("fork")
    parent, child = ctx.Pipe()
    p = ctx.Process(target=_child, args=(fn, items, paths, child), daemon=True)
    p.start()
    child.close()
    out = {}
    if parent.poll(timeout_s):
        try:
            hit = parent.recv()
        except Exception:
            hit = {}
        for path in paths:
            ex = _executable_lines(path)
            got = set(hit.get(path, [])) & ex
            missed = sorted(ex - got)
            out[os.path.relpath(path, root)] = {
                "executable_lines": len(ex), "executed": len(got),
                "percent": round(100.0 * len(got) / max(1, len(ex)), 1),
                "never_executed_sample": missed[:40],
            }
    p.kill()
    p.join(1)
    return out
