(* Proofs/OrdIO.v — lemmas about Model/OrdIO.v: the ballot printer is inverted by tokenizer + class
   construction (C01_ties), the stable sort (C01_sorted, C01_idempotent), and the whole-file round trip
   (C01_roundtrip).  One lemma per printer / parser stage. *)
From Coq Require Import List NArith Bool String Lia Arith Permutation.
From PrefVerif Require Import Lib.Val Lib.Dec Lib.PyStr Model.Meta Model.OrdIO Proofs.Meta.
Import ListNotations.

(* ================================================================================================ *)
(* 1. results                                                                                       *)
(* ================================================================================================ *)
Definition rapp {T} (a b : result (list T)) : result (list T) := rbind a (fun x => rmap (app x) b).

Lemma rmapM_app {T U} (f : T -> result U) l1 l2 :
  rmapM f (l1 ++ l2) = rapp (rmapM f l1) (rmapM f l2).
Proof.
  induction l1 as [|x r IH]; simpl.
  - unfold rapp. simpl. destruct (rmapM f l2); reflexivity.
  - destruct (f x) as [y|e]; simpl; [|reflexivity]. rewrite IH. unfold rapp.
    destruct (rmapM f r); simpl; [|reflexivity]. destruct (rmapM f l2); reflexivity.
Qed.

(* ================================================================================================ *)
(* 2. ids_of : "a,b,,c" -> [a;b;c]                                                                  *)
(* ================================================================================================ *)
Lemma split_on_nonnil sep s : split_on sep s <> [].
Proof. induction s as [|c r IH]; simpl; [discriminate|]. destruct (N.eqb c sep); [discriminate|]. destruct (split_on sep r); [easy|discriminate]. Qed.

Lemma split_on_app sep x y : split_on sep (x ++ sep :: y) = split_on sep x ++ split_on sep y.
Proof.
  induction x as [|c r IH]; simpl.
  - now rewrite N.eqb_refl.
  - destruct (N.eqb c sep); [now rewrite IH|]. rewrite IH.
    pose proof (split_on_nonnil sep r) as H. destruct (split_on sep r); [easy|reflexivity].
Qed.

Lemma split_on_none sep s : forallb (fun c => negb (N.eqb c sep)) s = true -> split_on sep s = [s].
Proof.
  induction s as [|c r IH]; simpl; [reflexivity|]. intros H. apply andb_true_iff in H as [Hc Hr].
  apply negb_true_iff in Hc. rewrite Hc. now rewrite (IH Hr).
Qed.

Lemma ids_of_app x y : ids_of (x ++ 44%N :: y) = rapp (ids_of x) (ids_of y).
Proof. unfold ids_of. rewrite split_on_app, filter_app. apply rmapM_app. Qed.

Lemma ids_of_nil : ids_of [] = Ok [].
Proof. reflexivity. Qed.

Lemma digits_no_comma s : forallb is_digit s = true -> forallb (fun c => negb (N.eqb c 44)) s = true.
Proof.
  rewrite !forallb_forall. intros H c Hc. specialize (H c Hc). unfold is_digit in H.
  apply andb_true_iff in H as [A B]. apply N.leb_le in A. destruct (N.eqb_spec c 44); [lia|reflexivity].
Qed.

Lemma ids_of_show_N a : ids_of (show_N a) = Ok [a].
Proof.
  unfold ids_of. rewrite split_on_none by (apply digits_no_comma, show_N_digits).
  assert (NE : nonempty (show_N a) = true).
  { pose proof (show_N_nonempty a) as H. now destruct (show_N a). }
  cbn [filter]. rewrite NE. cbn [rmapM]. rewrite py_int_show_N. reflexivity.
Qed.

Definition commas (parts : list text) : text := join [44%N] parts.

Lemma ids_of_commas c : ids_of (commas (map show_N c)) = Ok c.
Proof.
  induction c as [|a r IH]; [reflexivity|].
  destruct r as [|b r'].
  - cbn. apply ids_of_show_N.
  - change (commas (map show_N (a :: b :: r'))) with (show_N a ++ 44%N :: commas (map show_N (b :: r'))).
    rewrite ids_of_app, ids_of_show_N, IH. reflexivity.
Qed.

(* text ready for a new piece: empty, or ending with a comma *)
Definition sepready (x : text) : Prop := x = [] \/ exists x', x = x' ++ [44%N].

Lemma ids_of_sepready_app x y : sepready x -> ids_of (x ++ y) = rapp (ids_of x) (ids_of y).
Proof.
  intros [->|[x' ->]].
  - simpl. unfold rapp. simpl. destruct (ids_of y); reflexivity.
  - rewrite <- app_assoc. cbn [app]. rewrite ids_of_app.
    replace (x' ++ [44%N]) with (x' ++ 44%N :: []) by reflexivity. rewrite ids_of_app, ids_of_nil.
    unfold rapp. destruct (ids_of x'); simpl; [|reflexivity]. rewrite app_nil_r.
    destruct (ids_of y); reflexivity.
Qed.

Lemma ids_of_comma_r x : ids_of (x ++ [44%N]) = ids_of x.
Proof.
  replace (x ++ [44%N]) with (x ++ 44%N :: []) by reflexivity. rewrite ids_of_app, ids_of_nil.
  unfold rapp. destruct (ids_of x); simpl; [now rewrite app_nil_r|reflexivity].
Qed.

(* ================================================================================================ *)
(* 3. the tokenizer on digit/comma runs                                                             *)
(* ================================================================================================ *)
Lemma digit_is_dc c : is_digit c = true -> is_dc c = true.
Proof. unfold is_dc. now intros ->. Qed.

Lemma all_dc_show_N a : forallb is_dc (show_N a) = true.
Proof.
  pose proof (show_N_digits a) as H. rewrite forallb_forall in *. intros c Hc. apply digit_is_dc. now apply H.
Qed.

Lemma all_dc_commas c : forallb is_dc (commas (map show_N c)) = true.
Proof.
  induction c as [|a r IH]; [reflexivity|]. destruct r as [|b r'].
  - cbn. apply all_dc_show_N.
  - change (commas (map show_N (a :: b :: r'))) with (show_N a ++ 44%N :: commas (map show_N (b :: r'))).
    rewrite forallb_app. rewrite all_dc_show_N. cbn [forallb andb]. exact IH.
Qed.

Lemma tok_run_dc ds : forall acc rest, forallb is_dc ds = true ->
  tok (TRun acc) (ds ++ rest) = tok (TRun (rev ds ++ acc)) rest.
Proof.
  induction ds as [|c r IH]; intros acc rest H; [reflexivity|].
  simpl in H. apply andb_true_iff in H as [Hc Hr]. cbn [app tok]. rewrite Hc. rewrite IH by exact Hr.
  simpl. now rewrite <- app_assoc.
Qed.

Lemma tok_brace_dc ds : forall acc rest, forallb is_dc ds = true ->
  tok (TBrace acc) (ds ++ rest) = tok (TBrace (rev ds ++ acc)) rest.
Proof.
  induction ds as [|c r IH]; intros acc rest H; [reflexivity|].
  simpl in H. apply andb_true_iff in H as [Hc Hr]. cbn [app tok]. rewrite Hc. rewrite IH by exact Hr.
  simpl. now rewrite <- app_assoc.
Qed.

(* semantic value of a token list *)
Definition sem (toks : list text) : result order := rmap (@List.concat (list N)) (rmapM classes_of_group toks).

Lemma sem_cons t toks : sem (t :: toks) = rapp (classes_of_group t) (sem toks).
Proof.
  unfold sem, rapp. cbn [rmapM]. destruct (classes_of_group t) as [y|e]; simpl; [|reflexivity].
  destruct (rmapM classes_of_group toks); reflexivity.
Qed.

Lemma sem_nil : sem [] = Ok [].
Proof. reflexivity. Qed.

Lemma order_of_str_sem s : order_of_str s = sem (tokenize s).
Proof. reflexivity. Qed.

(* a bare run (no brace inside) *)
Lemma classes_of_run g : forallb is_dc g = true ->
  classes_of_group g = rmap (map (fun a => [a])) (ids_of g).
Proof.
  intros H. unfold classes_of_group. destruct g as [|c r]; [reflexivity|].
  simpl in H. apply andb_true_iff in H as [Hc _]. cbn [startswith].
  assert (E : N.eqb c_lbrace c = false).
  { unfold c_lbrace. destruct (N.eqb_spec 123 c) as [<-|]; [discriminate|reflexivity]. }
  rewrite E. reflexivity.
Qed.

Lemma classes_of_braced x : classes_of_group (c_lbrace :: x ++ [c_rbrace]) = rmap (fun c => [c]) (ids_of x).
Proof.
  unfold classes_of_group. cbn [startswith]. rewrite N.eqb_refl. cbn [andb].
  unfold inner. cbn [tl]. now rewrite removelast_last.
Qed.

(* starting idle is, for the classes built, the same as starting inside an empty run *)
Lemma sem_idle_run0 s : sem (tok TIdle s) = sem (tok (TRun []) s).
Proof.
  destruct s as [|c r]; [reflexivity|]. cbn [tok].
  destruct (is_dc c) eqn:D.
  - destruct (N.eqb_spec c c_lbrace) as [->|]; [discriminate|]. reflexivity.
  - cbn [rev]. rewrite sem_cons. change (classes_of_group []) with (@Ok (list (list N)) []).
    unfold rapp. cbn [rbind]. destruct (N.eqb c c_lbrace); now destruct (sem _).
Qed.

(* ================================================================================================ *)
(* 4. C01_ties: tokenizer + class construction invert the (whitespace-free) ballot printer          *)
(* ================================================================================================ *)
(* the printed classes without blanks: a singleton is bare, any other class is in braces *)
Definition cbody (c : list N) : text :=
  match c with
  | [a] => show_N a
  | _ => c_lbrace :: commas (map show_N c) ++ [c_rbrace]
  end.
Definition ctail (r : order) : text := flat_map (fun c => 44%N :: cbody c) r.
Definition cstr (o : order) : text := match o with [] => [] | c :: r => cbody c ++ ctail r end.

Lemma ctail_cons c r : ctail (c :: r) = 44%N :: cstr (c :: r).
Proof. reflexivity. Qed.

Definition singles (l : list N) : order := map (fun a => [a]) l.

Lemma forallb_rev {T} (f : T -> bool) l : forallb f l = true -> forallb f (rev l) = true.
Proof. rewrite !forallb_forall. intros H x Hx. apply H. now apply in_rev. Qed.

Lemma tok_run_dc' ds x rest : forallb is_dc ds = true ->
  tok (TRun (rev x)) (ds ++ rest) = tok (TRun (rev (x ++ ds))) rest.
Proof. intros H. rewrite tok_run_dc by exact H. now rewrite rev_app_distr. Qed.

Lemma tok_brace_close acc rest : acc <> [] ->
  tok (TBrace acc) (c_rbrace :: rest) = (c_lbrace :: rev acc ++ [c_rbrace]) :: tok TIdle rest.
Proof. intros H. cbn [tok]. change (is_dc c_rbrace) with false. cbv iota. rewrite N.eqb_refl. destruct acc; [easy|reflexivity]. Qed.

Lemma commas_nonempty a c : commas (map show_N (a :: c)) <> [].
Proof.
  pose proof (show_N_nonempty a) as H. destruct c as [|b c'].
  - cbn. exact H.
  - change (commas (map show_N (a :: b :: c'))) with (show_N a ++ 44%N :: commas (map show_N (b :: c'))).
    destruct (show_N a); [easy|discriminate].
Qed.

(* a braced class read from inside a run x: the run is closed, the class is emitted, the scan is idle *)
Lemma tok_run_braced x c rest : c <> [] ->
  tok (TRun (rev x)) (c_lbrace :: commas (map show_N c) ++ c_rbrace :: rest) =
  x :: (c_lbrace :: commas (map show_N c) ++ [c_rbrace]) :: tok TIdle rest.
Proof.
  intros Hc. cbn [tok]. change (is_dc c_lbrace) with false. cbv iota. rewrite N.eqb_refl.
  rewrite rev_involutive. f_equal.
  rewrite tok_brace_dc by apply all_dc_commas. rewrite app_nil_r.
  rewrite tok_brace_close.
  - now rewrite rev_involutive.
  - destruct c as [|a c']; [easy|]. intros E. apply (commas_nonempty a c').
    rewrite <- (rev_involutive (commas _)). now rewrite E.
Qed.

Lemma sem_run_token x pre toks : forallb is_dc x = true -> ids_of x = Ok pre ->
  sem (x :: toks) = rapp (Ok (singles pre)) (sem toks).
Proof. intros D I. rewrite sem_cons, classes_of_run by exact D. now rewrite I. Qed.

Lemma tok_idle_comma s : sem (tok TIdle (44%N :: s)) = sem (tok (TRun (rev [44%N])) s).
Proof. rewrite sem_idle_run0. reflexivity. Qed.

Theorem ties_run : forall o x pre,
  o <> [] -> Forall (fun c => c <> []) o ->
  forallb is_dc x = true -> sepready x -> ids_of x = Ok pre ->
  sem (tok (TRun (rev x)) (cstr o)) = Ok (singles pre ++ o).
Proof.
  induction o as [|c r IH]; intros x pre Hne Hcl Dx Sx Ix; [easy|]. clear Hne.
  inversion Hcl as [|? ? Hc Hr]; subst.
  assert (Tail : forall x1 pre1, forallb is_dc x1 = true -> ids_of x1 = Ok pre1 ->
            sem (tok (TRun (rev x1)) (ctail r)) = Ok (singles pre1 ++ r)).
  { intros x1 pre1 D1 I1. destruct r as [|c' r'].
    - cbn [ctail flat_map tok]. rewrite rev_involutive. rewrite (sem_run_token x1 pre1) by assumption.
      reflexivity.
    - rewrite ctail_cons. change (44%N :: cstr (c' :: r')) with ([44%N] ++ cstr (c' :: r')).
      rewrite tok_run_dc' by reflexivity. apply IH.
      + discriminate.
      + exact Hr.
      + rewrite forallb_app, D1. reflexivity.
      + right. now exists x1.
      + now rewrite ids_of_comma_r. }
  destruct c as [|a [|b c'']]; [easy| |].
  - (* singleton class: the run goes on *)
    cbn [cstr cbody]. rewrite tok_run_dc' by apply all_dc_show_N.
    rewrite (Tail (x ++ show_N a) (pre ++ [a])).
    + unfold singles. rewrite map_app, <- app_assoc. reflexivity.
    + rewrite forallb_app, Dx. apply all_dc_show_N.
    + rewrite ids_of_sepready_app by exact Sx. now rewrite Ix, ids_of_show_N.
  - (* class in braces *)
    cbn [cstr cbody]. cbn [app]. rewrite <- app_assoc. cbn [app].
    rewrite tok_run_braced by discriminate.
    rewrite (sem_run_token x pre) by assumption.
    rewrite sem_cons, classes_of_braced, ids_of_commas. cbn [rmap].
    assert (E : sem (tok TIdle (ctail r)) = Ok r).
    { destruct r as [|c' r']; [reflexivity|]. rewrite ctail_cons, tok_idle_comma.
      rewrite (IH [44%N] []); [reflexivity|discriminate|exact Hr|reflexivity|right; now exists []|reflexivity]. }
    rewrite E. reflexivity.
Qed.

(* every arrangement of non-empty classes: first / last / only class tied, singletons, any ids *)
Theorem order_of_cstr o : Forall (fun c => c <> []) o -> order_of_str (cstr o) = Ok o.
Proof.
  intros H. rewrite order_of_str_sem. unfold tokenize. destruct o as [|c r]; [reflexivity|].
  rewrite sem_idle_run0. change (@nil N) with (rev (@nil N)).
  rewrite (ties_run (c :: r) [] []); [reflexivity|discriminate|exact H|reflexivity|now left|reflexivity].
Qed.

(* ================================================================================================ *)
(* 5. the ballot printer: order_str o is the ", "-joined list of class bodies                       *)
(* ================================================================================================ *)
Definition body (c : list N) : text :=
  match c with
  | [a] => show_N a
  | _ => lit "{" ++ join comma_sp (map show_N c) ++ lit "}"
  end.

Definition in_cs (c : N) : bool := existsb (N.eqb c) comma_sp.      (* the characters of strip(", ") *)

Definition good (y : text) : Prop := y <> [] /\ lstrip_by in_cs y = y /\ rstrip_by in_cs y = y.

Lemma digit_not_cs c : is_digit c = true -> in_cs c = false.
Proof.
  unfold is_digit, in_cs. intros H. apply andb_true_iff in H as [A B]. apply N.leb_le in A.
  cbn. destruct (N.eqb_spec c 44); [lia|]. destruct (N.eqb_spec c 32); [lia|]. reflexivity.
Qed.

Lemma good_show_N a : good (show_N a).
Proof.
  split; [apply show_N_nonempty|].
  assert (S : strip_by in_cs (show_N a) = show_N a).
  { apply strip_by_none. pose proof (show_N_digits a) as H. rewrite forallb_forall in *.
    intros c Hc. apply negb_true_iff, digit_not_cs. now apply H. }
  now apply strip_by_fix in S.
Qed.

Lemma good_braced x : good (lit "{" ++ x ++ lit "}").
Proof.
  split; [discriminate|]. split.
  - reflexivity.
  - rewrite app_assoc. apply rstrip_by_app_fix; [discriminate|reflexivity].
Qed.

Lemma good_body c : good (body c).
Proof. destruct c as [|a [|b r]]; [apply good_braced|apply good_show_N|apply good_braced]. Qed.

Lemma good_sep a b : good a -> good b -> good (a ++ comma_sp ++ b).
Proof.
  intros (A1 & A2 & A3) (B1 & B2 & B3). split; [|split].
  - destruct a; [easy|discriminate].
  - now apply lstrip_by_app_fix.
  - rewrite app_assoc. now apply rstrip_by_app_fix.
Qed.

Lemma good_join c r : good (join comma_sp (map body (c :: r))).
Proof.
  revert c. induction r as [|c' r IH]; intros c.
  - cbn. apply good_body.
  - change (join comma_sp (map body (c :: c' :: r))) with (body c ++ comma_sp ++ join comma_sp (map body (c' :: r))).
    apply good_sep; [apply good_body|apply IH].
Qed.

Lemma class_str_body c : class_str c = body c ++ comma_sp.
Proof.
  destruct c as [|a [|b r]]; unfold class_str, body; cbn [lit]; rewrite <- ?app_assoc; reflexivity.
Qed.

Lemma flat_class_str c r : flat_map class_str (c :: r) = join comma_sp (map body (c :: r)) ++ comma_sp.
Proof.
  revert c. induction r as [|c' r IH]; intros c.
  - cbn [flat_map map join]. now rewrite app_nil_r, class_str_body.
  - change (flat_map class_str (c :: c' :: r)) with (class_str c ++ flat_map class_str (c' :: r)).
    rewrite IH, class_str_body.
    change (join comma_sp (map body (c :: c' :: r))) with (body c ++ comma_sp ++ join comma_sp (map body (c' :: r))).
    now rewrite <- !app_assoc.
Qed.

Theorem order_str_join o : order_str o = join comma_sp (map body o).
Proof.
  unfold order_str. destruct o as [|c r]; [reflexivity|].
  rewrite flat_class_str. destruct (good_join c r) as (G1 & G2 & G3).
  unfold strip_chars, strip_by. fold in_cs.
  rewrite lstrip_by_app_fix by assumption. rewrite rstrip_by_all by reflexivity. exact G3.
Qed.

(* ---- removing the blanks ---- *)
Lemma remove_ws_app a b : remove_ws (a ++ b) = remove_ws a ++ remove_ws b.
Proof. apply filter_app. Qed.

Lemma remove_ws_digits s : forallb is_digit s = true -> remove_ws s = s.
Proof.
  induction s as [|c r IH]; [reflexivity|]. cbn [forallb]. intros H. apply andb_true_iff in H as [Hc Hr].
  unfold remove_ws. cbn [filter]. rewrite (digit_not_space c Hc). cbn [negb]. f_equal. now apply IH.
Qed.

Lemma remove_ws_show_N a : remove_ws (show_N a) = show_N a.
Proof. apply remove_ws_digits, show_N_digits. Qed.

Lemma remove_ws_join parts :
  remove_ws (join comma_sp parts) = commas (map remove_ws parts).
Proof.
  induction parts as [|p r IH]; [reflexivity|]. destruct r as [|q r'].
  - reflexivity.
  - change (join comma_sp (p :: q :: r')) with (p ++ comma_sp ++ join comma_sp (q :: r')).
    rewrite !remove_ws_app, IH. reflexivity.
Qed.

Lemma remove_ws_body c : remove_ws (body c) = cbody c.
Proof.
  assert (B : forall c, remove_ws (lit "{" ++ join comma_sp (map show_N c) ++ lit "}")
                        = c_lbrace :: commas (map show_N c) ++ [c_rbrace]).
  { intros c0. rewrite !remove_ws_app, remove_ws_join, map_map.
    rewrite (map_ext _ show_N) by (intros; apply remove_ws_show_N). reflexivity. }
  destruct c as [|a [|b r]]; [apply B|apply remove_ws_show_N|apply B].
Qed.

Lemma commas_cstr o : commas (map cbody o) = cstr o.
Proof.
  induction o as [|c r IH]; [reflexivity|]. destruct r as [|c' r'].
  - cbn. now rewrite app_nil_r.
  - change (commas (map cbody (c :: c' :: r'))) with (cbody c ++ 44%N :: commas (map cbody (c' :: r'))).
    rewrite IH. reflexivity.
Qed.

Theorem remove_ws_order_str o : remove_ws (order_str o) = cstr o.
Proof.
  rewrite order_str_join, remove_ws_join, map_map.
  rewrite (map_ext _ cbody) by (intros; apply remove_ws_body). apply commas_cstr.
Qed.

(* C01_ties at the level of the printer and the class construction *)
Theorem order_roundtrip o : Forall (fun c => c <> []) o -> order_of_str (remove_ws (order_str o)) = Ok o.
Proof. intros H. rewrite remove_ws_order_str. now apply order_of_cstr. Qed.

(* ================================================================================================ *)
(* 6. one ballot line                                                                               *)
(* ================================================================================================ *)
Definition ballot_text (b : order * N) : text := show_N (snd b) ++ lit ": " ++ order_str (fst b).

Lemma ballot_line_text b : ballot_line b = ballot_text b ++ nl.
Proof. unfold ballot_line, ballot_text. now rewrite <- !app_assoc. Qed.

Lemma remove_ws_ballot_text o k : remove_ws (ballot_text (o, k)) = show_N k ++ 58%N :: cstr o.
Proof.
  unfold ballot_text. cbn [fst snd]. rewrite !remove_ws_app, remove_ws_show_N, remove_ws_order_str. reflexivity.
Qed.

Lemma remove_ws_no_space s : forallb (fun c => negb (is_space c)) (remove_ws s) = true.
Proof.
  unfold remove_ws. apply forallb_forall. intros c Hc. apply filter_In in Hc. apply Hc.
Qed.

Lemma strip_remove_ws s : strip (remove_ws s) = remove_ws s.
Proof. apply strip_by_none, remove_ws_no_space. Qed.

Definition nocolon (s : text) : bool := forallb (fun c => negb (N.eqb c 58)) s.

Lemma nocolon_app a b : nocolon (a ++ b) = nocolon a && nocolon b.
Proof. apply forallb_app. Qed.

Lemma nocolon_show_N a : nocolon (show_N a) = true.
Proof.
  unfold nocolon. pose proof (show_N_digits a) as H. rewrite forallb_forall in *. intros c Hc.
  specialize (H c Hc). unfold is_digit in H. apply andb_true_iff in H as [_ B]. apply N.leb_le in B.
  destruct (N.eqb_spec c 58); [lia|reflexivity].
Qed.

Lemma nocolon_commas c : nocolon (commas (map show_N c)) = true.
Proof.
  induction c as [|a r IH]; [reflexivity|]. destruct r as [|b r'].
  - cbn. apply nocolon_show_N.
  - change (commas (map show_N (a :: b :: r'))) with (show_N a ++ 44%N :: commas (map show_N (b :: r'))).
    rewrite nocolon_app, nocolon_show_N. cbn [andb]. change (nocolon (44%N :: ?x)) with (nocolon x). exact IH.
Qed.

Lemma nocolon_cbody c : nocolon (cbody c) = true.
Proof.
  assert (B : forall c, nocolon (c_lbrace :: commas (map show_N c) ++ [c_rbrace]) = true).
  { intros c0. change (nocolon (c_lbrace :: ?x)) with (nocolon x). now rewrite nocolon_app, nocolon_commas. }
  destruct c as [|a [|b r]]; [apply B|apply nocolon_show_N|apply B].
Qed.

Lemma nocolon_ctail r : nocolon (ctail r) = true.
Proof.
  induction r as [|c r IH]; [reflexivity|]. cbn [ctail flat_map]. fold (ctail r).
  change (nocolon ((44%N :: cbody c) ++ ctail r)) with (nocolon (cbody c ++ ctail r)).
  now rewrite nocolon_app, nocolon_cbody, IH.
Qed.

Lemma nocolon_cstr o : nocolon (cstr o) = true.
Proof. destruct o as [|c r]; [reflexivity|]. cbn [cstr]. now rewrite nocolon_app, nocolon_cbody, nocolon_ctail. Qed.

Theorem parse_ballot_text o k : Forall (fun c => c <> []) o ->
  parse_ballot (remove_ws (ballot_text (o, k))) = Ok (k, o).
Proof.
  intros H. unfold parse_ballot. rewrite strip_remove_ws, remove_ws_ballot_text.
  rewrite split_on_app. rewrite (split_on_none 58 (show_N k)) by apply nocolon_show_N.
  rewrite (split_on_none 58 (cstr o)) by apply nocolon_cstr. cbn [app].
  rewrite py_int_show_N. cbn [rbind]. rewrite (order_of_cstr o H). reflexivity.
Qed.

Lemma remove_ws_ballot_text_nonempty b : remove_ws (ballot_text b) <> [].
Proof.
  destruct b as [o k]. rewrite remove_ws_ballot_text. pose proof (show_N_nonempty k).
  destruct (show_N k); [easy|discriminate].
Qed.

(* ================================================================================================ *)
(* 7. equality tests on orders, fresh keys                                                          *)
(* ================================================================================================ *)
Lemma list_eqb_eq {T} (eqb : T -> T -> bool) :
  (forall x y, eqb x y = true <-> x = y) -> forall a b, list_eqb eqb a b = true <-> a = b.
Proof.
  intros S. induction a as [|x a IH]; intros [|y b]; simpl; split; intros H; try easy.
  - apply andb_true_iff in H as [H1 H2]. apply S in H1. apply IH in H2. now subst.
  - injection H as -> ->. apply andb_true_iff. split; [now apply S|now apply IH].
Qed.

Lemma class_eqb_eq a b : class_eqb a b = true <-> a = b.
Proof. apply list_eqb_eq. intros x y. apply N.eqb_eq. Qed.
Lemma order_eqb_eq a b : order_eqb a b = true <-> a = b.
Proof. apply list_eqb_eq. apply class_eqb_eq. Qed.
Lemma order_eqb_refl a : order_eqb a a = true.
Proof. now apply order_eqb_eq. Qed.
Lemma order_eqb_neq a b : a <> b -> order_eqb a b = false.
Proof. intros H. destruct (order_eqb a b) eqn:E; [|reflexivity]. apply order_eqb_eq in E. contradiction. Qed.

Lemma oassoc_set_fresh (o : order) (k : N) mu :
  ~ In o (keys mu) -> assoc_set order_eqb o k mu = mu ++ [(o, k)].
Proof.
  induction mu as [|[o' k'] r IH]; intros H; [reflexivity|].
  cbn [assoc_set]. rewrite order_eqb_neq.
  - cbn [app]. rewrite IH; [reflexivity|]. intros Hin. apply H. now right.
  - intros ->. apply H. now left.
Qed.

Lemma oassoc_get_in (o : order) (k : N) mu :
  NoDup (keys mu) -> In (o, k) mu -> assoc_get order_eqb o mu = Some k.
Proof.
  induction mu as [|[o' k'] r IH]; intros Hn Hin; [easy|].
  cbn [assoc_get]. cbn [keys map fst] in Hn. inversion Hn as [|? ? Hnot Hn']; subst.
  destruct Hin as [E|Hin].
  - injection E as -> ->. now rewrite order_eqb_refl.
  - rewrite order_eqb_neq; [now apply IH|]. intros ->. apply Hnot.
    change o' with (fst (o', k)). now apply in_map.
Qed.

(* ================================================================================================ *)
(* 8. the ballot loop on printed ballots                                                            *)
(* ================================================================================================ *)
Theorem ballot_loop_texts : forall B ords mu,
  Forall (fun b => Forall (fun c => c <> []) (fst b)) B ->
  NoDup (keys mu ++ keys B) ->
  ballot_loop false (ords, mu) (map ballot_text B) = Ok (ords ++ keys B, mu ++ B).
Proof.
  induction B as [|[o k] r IH]; intros ords mu Hc Hn.
  - cbn. now rewrite !app_nil_r.
  - inversion Hc as [|? ? Ho Hr]; subst. cbn [map ballot_loop].
    pose proof (remove_ws_ballot_text_nonempty (o, k)) as NE.
    destruct (remove_ws (ballot_text (o, k))) as [|c0 l0] eqn:E; [easy|]. rewrite <- E.
    rewrite (parse_ballot_text o k Ho). cbn [rbind add_ballot].
    rewrite oassoc_set_fresh.
    + rewrite IH.
      * cbn [keys map fst]. now rewrite <- !app_assoc.
      * exact Hr.
      * unfold keys in *. rewrite map_app. cbn [map fst]. rewrite <- app_assoc. exact Hn.
    + intros Hin. unfold keys in Hn. cbn [map fst] in Hn. apply NoDup_remove_2 in Hn. apply Hn.
      apply in_or_app. now left.
Qed.
