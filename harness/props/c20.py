"""C20 — ranking distances (kendall_tau_distance, spearman_footrule_distance, sertel_distance, distance_matrix)."""
import itertools
import random

from core import proto
from .common import case, guarded, ordinal_instance, strict, rand_perm

ID = "C20"
COVER_FILES = ["properties/distances.py"]
RULE = ("exhaustive: all ordered pairs of permutations of {1..n} for n <= 5 (quick: n <= 4) for the three distances "
        "(each case evaluates d(p,q) and d(q,p)), all triples of permutations for n <= 4 (quick: n <= 3) for the "
        "triangle inequality of kendall_tau_distance, all pairs of rankings of different length over <= 3 "
        "alternatives; random: pairs and triples of permutations of up to 40 arbitrary ids, tuple-of-singleton "
        "form, distance_matrix on random soc profiles with multiplicities. Every returned number is compared with "
        "the extracted model (kt_spec, footrule/sertel numerator and denominator); in addition the clauses the "
        "property names (symmetry, zero iff identical, range [0,1], triangle, matrix shape / symmetry / zero "
        "diagonal) are evaluated directly on the implementation's numbers. "
        "non-trivial = the rankings differ (for distance_matrix: >= 2 distinct orders and some multiplicity > 1)")
EXHAUSTIVE = {"quick": "all pairs of permutations n<=4; all triples n<=3; all different-length pairs over <=3 alternatives",
              "thorough": "all pairs of permutations n<=5; all triples n<=4; all different-length pairs over <=4 alternatives"}
THEOREMS_FOR_OP = {"c20.kt": "kt_spec, kt_zero_iff, kt_sym, kt_length_mismatch",
                   "c20.footrule": "footrule_num_spec, footrule_sym, footrule_zero_iff, footrule_range, footrule_length_mismatch",
                   "c20.sertel": "sertel_sym, sertel_zero_iff, sertel_range, sertel_length_mismatch",
                   "c20.tri": "kt_triangle", "c20.dm": "dm_spec, dm_instance, expand_profile_count"}
TRUSTED = ["modelled: preflibtools/properties/distances.py (all four functions) and OrdinalInstance.full_profile; "
           "the final floating-point division of spearman_footrule_distance / sertel_distance is compared as "
           "float(impl) == num/den with one IEEE division (numpy float64 semantics trusted)"]
ASSUMPTIONS = ["rankings are tuples of hashable alternatives compared by ==; ids are non-negative integers"]
TIMEOUT_S = 30.0


PAIR_OPS = ("c20.kt", "c20.footrule", "c20.sertel")


def generate(tier, seed):
    rng = random.Random(1000003 * seed + 20)
    nmax = 4 if tier == "quick" else 5
    out = []
    for n in range(2, nmax + 1):
        perms = list(itertools.permutations(range(1, n + 1)))
        for p in perms:
            for q in perms:
                for op in PAIR_OPS:
                    out.append(case(op, [p, q], n=n, exh=1))
    # all triples (triangle inequality on the implementation's own numbers)
    tmax = 3 if tier == "quick" else 4
    for n in range(2, tmax + 1):
        perms = list(itertools.permutations(range(1, n + 1)))
        for a in perms:
            for b in perms:
                for c in perms:
                    out.append(case("c20.tri", [a, b, c], n=n, exh=1))
    # different lengths (must be refused)
    lmax = 3 if tier == "quick" else 4
    pool = []
    for n in range(0, lmax + 1):
        pool.extend(itertools.permutations(range(1, n + 1)))
    for p in pool:
        for q in pool:
            if len(p) != len(q):
                for op in PAIR_OPS:
                    out.append(case(op, [p, q], mismatch=1))
    # random large
    nrand = 300 if tier == "quick" else 4000
    for i in range(nrand):
        n = rng.randint(2, 40)
        ids = rng.sample(range(0, 10 ** rng.choice([1, 2, 6, 18]) + 50), n)
        p = rand_perm(rng, ids)
        q = _perturb(rng, p)
        for op in PAIR_OPS:
            out.append(case(op, [p, q], n=n, tup=i % 2))
    # random different lengths with arbitrary ids (one ranking is a prefix / an extension of the other)
    for i in range(30 if tier == "quick" else 300):
        n = rng.randint(1, 12)
        ids = rng.sample(range(0, 1000), n + rng.randint(1, 3))
        p = rand_perm(rng, ids[:n])
        q = rand_perm(rng, ids)
        if i % 2:
            p, q = q, p
        for op in PAIR_OPS:
            out.append(case(op, [p, q], mismatch=1, tup=(i // 2) % 2))
    # random triples
    ntri = 300 if tier == "quick" else 4000
    for i in range(ntri):
        n = rng.randint(3, 5) if i % 3 else rng.randint(6, 25)
        ids = rng.sample(range(0, 200), n)
        a = rand_perm(rng, ids)
        b = _perturb(rng, a)
        c = _perturb(rng, b)
        out.append(case("c20.tri", [a, b, c], n=n, tup=i % 2))
    # distance_matrix
    ndm = 60 if tier == "quick" else 600
    for i in range(ndm):
        m = rng.randint(2, 6)
        alts = rng.sample(range(1, 30), m)
        k = rng.randint(1, 5)
        orders = []
        for _ in range(k):
            o = rand_perm(rng, alts)
            if o not in orders:
                orders.append(o)
        prof = [[o, rng.randint(1, 3) if i % 4 != 1 else rng.randint(3, 7)] for o in orders]
        # hist=1: the instance is built through the public append API in two phases with a
        # distance_matrix / full_profile call in between (history-dependent state must not leak)
        out.append(case("c20.dm", [i % 3, prof], dm=1, hist=i % 2, hseed=rng.randrange(10 ** 6)))
    return out


def _perturb(rng, p):
    """near (a few swaps, possibly none) or far (shuffle)"""
    q = list(p)
    n = len(q)
    if rng.random() < 0.5:
        for _ in range(rng.randint(0, 3)):
            a, b = rng.randrange(n), rng.randrange(n)
            q[a], q[b] = q[b], q[a]
    else:
        rng.shuffle(q)
    return q


def _call(op, o1, o2, tup):
    """one call of the real function -> [0, int] | {"float": x} | [1, code] | {"crash": ...}"""
    from preflibtools.properties import distances as D
    if tup:
        o1, o2 = tuple((a,) for a in o1), tuple((a,) for a in o2)
    else:
        o1, o2 = tuple(o1), tuple(o2)
    fn = {"c20.kt": D.kendall_tau_distance, "c20.footrule": D.spearman_footrule_distance,
          "c20.sertel": D.sertel_distance}[op]
    if op == "c20.kt" and len(o1) == len(o2) and len(o1) >= 2 and (hash((o1, o2)) % 3 == 0):
        # cross-call history: the normalised variant of the same function is evaluated first (both argument orders);
        # it must equal count / number of pairs and must not influence the plain call that follows
        try:
            nv = fn(o1, o2, normalise=True)
            fn(o2, o1, normalise=True)
            plain = fn(o1, o2)
            npairs = len(o1) * (len(o1) - 1) // 2
            if float(nv) != plain / npairs:
                return {"crash": "kendall_tau_distance(normalise=True) = %r but count %r / %d pairs" % (nv, plain, npairs)}
        except ValueError:
            pass
    r = guarded(fn, o1, o2)
    if r[0] == 0:
        v = r[1]
        if op == "c20.kt":
            if isinstance(v, bool) or not (isinstance(v, int) or hasattr(v, "__index__")):
                return {"crash": "kendall_tau_distance returned non-integer %r" % (v,)}
            return [0, int(v)]
        return {"float": float(v)}
    return r


def impl(c):
    from preflibtools.properties import distances as D
    op, pl = c["op"], c["payload"]
    tup = c["tags"].get("tup")
    if op == "c20.dm":
        import numpy as np
        which, prof = pl
        fn = [D.kendall_tau_distance, D.spearman_footrule_distance, D.sertel_distance][which]
        if c["tags"].get("hist"):
            from preflibtools.instances import OrdinalInstance
            hr = random.Random(c["tags"].get("hseed", 0))
            inst = OrdinalInstance()
            inst.append_order_list([tuple((a,) for a in o) for o, _ in prof])   # fixes the order of instance.orders
            D.distance_matrix(inst, fn)
            inst.full_profile()
            rest = [o for o, mu in prof for _ in range(mu - 1)]
            hr.shuffle(rest)
            # a batch through append_order_array that repeats rankings already present (several copies in one batch)
            import numpy as np
            k_arr = len(rest) // 3
            if k_arr >= 2:
                batch, rest = rest[:k_arr], rest[k_arr:]
                inst.append_order_array(np.array(batch))
                D.distance_matrix(inst, fn)
            for j, o in enumerate(rest):
                if j % 3 == 0:
                    inst.append_order(tuple(o))
                elif j % 3 == 1:
                    inst.append_vote_map({tuple((a,) for a in o): 1})
                else:
                    inst.append_order_list([tuple((a,) for a in o)])
                if j % 2 == 0:
                    D.distance_matrix(inst, fn)
        else:
            inst = ordinal_instance([(strict(o), m) for o, m in prof], data_type="soc")
        mat = D.distance_matrix(inst, fn)
        if not isinstance(mat, np.ndarray) or mat.ndim != 2:
            return {"crash": "distance_matrix did not return a 2-dimensional numpy array: %r" % (type(mat),)}
        return {"shape": list(mat.shape), "m": [[float(x) for x in row] for row in mat]}
    if op == "c20.tri":
        a, b, cc = pl
        rs = [_call("c20.kt", a, b, tup), _call("c20.kt", b, cc, tup), _call("c20.kt", a, cc, tup)]
    else:
        o1, o2 = pl
        rs = [_call(op, o1, o2, tup), _call(op, o2, o1, tup)]
    for r in rs:
        if isinstance(r, dict) and "crash" in r:
            return r
    return {"rs": rs}


def oracle_requests(c, r):
    op, pl = c["op"], c["payload"]
    if op == "c20.dm":
        return [(op, pl)]
    if op == "c20.tri":
        a, b, cc = pl
        return [("c20.kt", [a, b]), ("c20.kt", [b, cc]), ("c20.kt", [a, cc])]
    return [(op, pl), (op, [pl[1], pl[0]])]


def _same_float(x, num, den):
    if den == 0:
        return False
    return x == num / den


def _cmp(op, r, m):
    """one implementation answer against one model answer"""
    if isinstance(r, dict) and "float" in r:
        if m[0] != 0:
            return "implementation returned %r where the model refuses (%r)" % (r["float"], m)
        num, den = m[1]
        if not _same_float(r["float"], num, den):
            return "impl %r != %d/%d" % (r["float"], num, den)
        return None
    if r != m:
        return "impl %r, model %r" % (r, m)
    return None


def _val(r):
    """numeric value of an implementation answer, None for a refusal"""
    if isinstance(r, dict):
        return r["float"]
    return r[1] if r[0] == 0 else None


def judge(c, r, mres):
    op = c["op"]
    if op == "c20.dm":
        m = mres[0]
        nv = sum(mu for _, mu in c["payload"][1])
        if r["shape"] != [nv, nv] or len(m) != nv:
            return "distance_matrix shape %r, expected %dx%d" % (r["shape"], nv, nv)
        for i in range(nv):
            for j in range(nv):
                e = m[i][j]
                if e[0] != 0:
                    return "model error in entry"
                x = r["m"][i][j]
                if c["payload"][0] == 0:
                    good = (x == e[1])
                else:
                    good = _same_float(x, e[1][0], e[1][1])
                if not good:
                    return "entry (%d,%d): impl %r, model %r" % (i, j, x, e[1])
        # the clauses of the property, directly on the returned matrix
        for i in range(nv):
            if r["m"][i][i] != 0.0:
                return "distance_matrix diagonal entry (%d,%d) = %r" % (i, i, r["m"][i][i])
            for j in range(i):
                if r["m"][i][j] != r["m"][j][i]:
                    return "distance_matrix not symmetric at (%d,%d)" % (i, j)
        return None
    rs = r["rs"]
    names = ["d(a,b)", "d(b,c)", "d(a,c)"] if op == "c20.tri" else ["d(p,q)", "d(q,p)"]
    for nm, ri, mi in zip(names, rs, mres):
        bad = _cmp("c20.kt" if op == "c20.tri" else op, ri, mi)
        if bad:
            return nm + ": " + bad
    vals = [_val(x) for x in rs]
    if op == "c20.tri":
        if None in vals:
            return "refusal on a triple of rankings of the same set: %r" % (rs,)
        if vals[2] > vals[0] + vals[1]:
            return {"kind": "mismatch", "theorem": "kt_triangle",
                    "reason": "triangle inequality fails: d(a,c)=%r > d(a,b)+d(b,c)=%r+%r" % (vals[2], vals[0], vals[1])}
        return None
    p, q = c["payload"]
    if len(p) != len(q):
        if vals != [None, None] or rs[0] != [1, 3] or rs[1] != [1, 3]:
            return "rankings of different length not refused with ValueError: %r" % (rs,)
        return None
    if sorted(p) == sorted(q) and len(p) >= 2:
        if None in vals:
            return "refusal on rankings of the same set: %r" % (rs,)
        if vals[0] != vals[1]:
            return "not symmetric: d(p,q)=%r, d(q,p)=%r" % (vals[0], vals[1])
        if (vals[0] == 0) != (p == q):
            return "zero-iff-identical fails: d=%r, p==q is %r" % (vals[0], p == q)
        if op != "c20.kt" and not (0.0 <= vals[0] <= 1.0):
            return "value %r outside [0, 1]" % (vals[0],)
    return None


def nontrivial(c, r, m):
    if c["op"] == "c20.dm":
        prof = c["payload"][1]
        return len(prof) >= 2 and any(mu > 1 for _, mu in prof)
    if c["op"] == "c20.tri":
        a, b, cc = c["payload"]
        return a != b and b != cc and a != cc
    return c["payload"][0] != c["payload"][1]


def stats(c, r, m):
    if c["op"] == "c20.dm":
        return ["dm which=%d voters=%d" % (c["payload"][0], sum(mu for _, mu in c["payload"][1]))]
    n = len(c["payload"][0])
    size = "n=%s" % (n if n <= 5 else ">5")
    if c["op"] == "c20.tri":
        ok_all = all(x[0] == 0 for x in m)
        tight = ok_all and m[2][1] == m[0][1] + m[1][1]
        return ["c20.tri %s %s" % (size, "tight" if tight else "strict")]
    res = "refused" if m[0][0] == 1 else ("zero" if (m[0][1] == 0 or (isinstance(m[0][1], list) and m[0][1][0] == 0)) else "positive")
    return ["%s %s %s" % (c["op"], size, res)]


def describe(c):
    return {"op": c["op"], "args": c["payload"], "tuple_of_singletons": bool(c["tags"].get("tup"))}


def shrink(c):
    if c["op"] == "c20.dm":
        which, prof = c["payload"]
        for i in range(len(prof)):
            yield dict(c, payload=[which, prof[:i] + prof[i + 1:]])
        for i in range(len(prof)):
            if prof[i][1] > 1:
                yield dict(c, payload=[which, prof[:i] + [[prof[i][0], prof[i][1] - 1]] + prof[i + 1:]])
        return
    lists = c["payload"]
    if len(set(len(o) for o in lists)) == 1:
        if len(lists[0]) <= 2:      # the property speaks of at least two alternatives
            return
        for x in lists[0]:
            if all(x in o for o in lists):
                yield dict(c, payload=[[a for a in o if a != x] for o in lists])
    else:
        # different lengths: drop an element from every ranking that has it
        for x in sorted(set(a for o in lists for a in o)):
            cand = [[a for a in o if a != x] for o in lists]
            if len(set(len(o) for o in cand)) > 1:
                yield dict(c, payload=cand)
