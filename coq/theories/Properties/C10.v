(* Properties/C10.v — placeholder while Proofs/Entry.v is being written *)
From Coq Require Import List NArith String.
From PrefVerif Require Import Lib.Val Lib.Dec Lib.PyStr Model.Meta Model.Entry.
Theorem C10_gate : forall c dt f ls, type_validator c dt = false -> parse_lines c dt f ls = Err TypeErr.
Proof. intros c dt f ls H. unfold parse_lines. now rewrite H. Qed.
Print Assumptions C10_gate.
