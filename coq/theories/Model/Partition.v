(* Model/Partition.v — k-alternative partitions into single-peaked axes (property C18). Executable definitions only.

   Anchors in /repo: preflibtools/properties/subdomains/ordinal/singlepeaked/k_alternative_partition.py
     k_alt_partition_approx(instance)                 -> list of axes                              (R)
     k_alternative_partition_brut_force(instance, k)  -> ONE partition (a list of axes) or None    (R)
   Neither the dynamic programme (longest_single_peaked_axis) nor the DFS (dfs / extend / place) is mirrored.
   The model is  (i)  a verified witness checker   partition_check alts profile axes,
                 (ii) a verified reference optimum min_partition alts profile  (enumeration of all set partitions
                      of alts, each block decided by SP.sp_decide on the profile restricted to the block),
                 (iii) brute_force_ok alts profile k res : the second sentence of the property as a boolean.

   What the brute force returns: `dfs` returns `axes` (the list of incomplete axes of ONE complete partition) at
   depth m and keeps the shortest such list; the final loop `for axes in partitions: axes.remove(None)` iterates
   over the AXES of that one partition.  Hence res : option (list (list N)) (not a list of partitions).

   profile  = list of strict complete rankings (flat lists, best first): the keys of instance.flatten_strict();
              multiplicities play no role in either function.
   EMPTY AXES.  The property text ("axes that together contain every alternative exactly once, each axis being
   single-peaked for the profile restricted to its alternatives") is vacuously true of an empty axis, so
   partition_check ACCEPTS empty axes (a check must not alarm where the property holds).  Neither function can
   return one (approx: an empty longest axis would leave `alternatives` unchanged and loop forever - observed by the
   watchdog; brute force: an axis is only created by a successful place([None], X)).  For the minimality clause
   this is harmless: a valid partition with exactly min_partition axes has no empty axis
   (Proofs/Partition.v: min_size_no_empty_axis), and empty axes never lower the count (valid_min_le). *)
From Coq Require Import List Arith NArith Bool.
From PrefVerif Require Import Lib.Val Lib.Perms Lib.Contig Lib.SetPartitions Model.SP.
Import ListNotations.

(* the profile restricted to the alternatives of S (each ranking keeps its own order) *)
Definition restrict_profile (S : list N) (profile : list ranking) : list ranking :=
  map (restrict_ranking S) profile.

(* one axis: the fixed scan of is_single_peaked_axis on every restricted vote, and the axis lists its own
   alternatives once (sp_check_axis with alts := axis: NoDup axis /\ scan) *)
Definition axis_ok (profile : list ranking) (axis : list N) : bool :=
  sp_check_axis axis (restrict_profile axis profile) axis.

(* witness checker: concat axes is a permutation of alts (same length, duplicate-free, mutual inclusion — this is
   "pairwise disjoint, duplicate-free axes that together contain every alternative exactly once"), every axis ok *)
Definition partition_check (alts : list N) (profile : list ranking) (axes : list (list N)) : bool :=
  valid_axis alts (concat axes) && forallb (axis_ok profile) axes.

(* a block of alternatives admits a single-peaked axis *)
Definition block_sp (profile : list ranking) (b : list N) : bool :=
  sp_decide b (restrict_profile b profile).
Definition all_blocks_sp (profile : list ranking) (p : list (list N)) : bool :=
  forallb (block_sp profile) p.

Definition list_min (d : nat) (l : list nat) : nat := fold_right Nat.min d l.

(* least number of blocks over all set partitions of alts whose blocks all admit an axis.  The default
   (length alts) is the size of the partition into singletons, which is always among the candidates. *)
Definition min_partition (alts : list N) (profile : list ranking) : nat :=
  list_min (length alts) (map (@length (list N)) (filter (all_blocks_sp profile) (set_partitions alts))).

(* second sentence of C18, given the optimum mn:  mn <= k -> Some valid partition with exactly mn axes; else None *)
Definition brute_force_ok_with (mn : nat) (alts : list N) (profile : list ranking) (k : nat)
           (res : option (list (list N))) : bool :=
  if mn <=? k then
    match res with
    | Some axes => partition_check alts profile axes && (length axes =? mn)
    | None => false
    end
  else
    match res with None => true | Some _ => false end.

Definition brute_force_ok (alts : list N) (profile : list ranking) (k : nat) (res : option (list (list N))) : bool :=
  brute_force_ok_with (min_partition alts profile) alts profile k res.

(* the partition into pairs (and one singleton when the number of alternatives is odd): ceil(m/2) blocks *)
Fixpoint pair_up (l : list N) : list (list N) :=
  match l with
  | a :: b :: r => [a; b] :: pair_up r
  | [a] => [[a]]
  | [] => []
  end.
