(* Lib/Dec.v — decimal printing / reading of Python ints (str(n), int(s)) over code-point text.
   text := list N (Unicode code points).  Only ASCII digits are modelled (DESIGN §3). *)
From Coq Require Import List NArith ZArith Decimal DecimalN DecimalPos Bool Lia.
Import ListNotations.

Definition text := list N.

Fixpoint uint_to_text (u : uint) : text :=
  match u with
  | Nil => []
  | D0 r => 48%N :: uint_to_text r | D1 r => 49%N :: uint_to_text r
  | D2 r => 50%N :: uint_to_text r | D3 r => 51%N :: uint_to_text r
  | D4 r => 52%N :: uint_to_text r | D5 r => 53%N :: uint_to_text r
  | D6 r => 54%N :: uint_to_text r | D7 r => 55%N :: uint_to_text r
  | D8 r => 56%N :: uint_to_text r | D9 r => 57%N :: uint_to_text r
  end.

Definition is_digit (c : N) : bool := (48 <=? c)%N && (c <=? 57)%N.

Fixpoint text_to_uint (t : text) : option uint :=
  match t with
  | [] => Some Nil
  | c :: r =>
    match text_to_uint r with
    | None => None
    | Some u =>
      if (c =? 48)%N then Some (D0 u) else if (c =? 49)%N then Some (D1 u)
      else if (c =? 50)%N then Some (D2 u) else if (c =? 51)%N then Some (D3 u)
      else if (c =? 52)%N then Some (D4 u) else if (c =? 53)%N then Some (D5 u)
      else if (c =? 54)%N then Some (D6 u) else if (c =? 55)%N then Some (D7 u)
      else if (c =? 56)%N then Some (D8 u) else if (c =? 57)%N then Some (D9 u)
      else None
    end
  end.

(* str(n) for a non-negative int *)
Definition show_N (n : N) : text := uint_to_text (N.to_uint n).

(* int(s) restricted to non-empty ASCII digit strings (leading zeros accepted, like int()) *)
Definition read_N (t : text) : option N :=
  match t with
  | [] => None
  | _ => option_map N.of_uint (text_to_uint t)
  end.

Lemma text_to_uint_to_text u : text_to_uint (uint_to_text u) = Some u.
Proof. induction u; simpl; try rewrite IHu; reflexivity. Qed.

Lemma uint_to_text_digits u : forallb is_digit (uint_to_text u) = true.
Proof. induction u; simpl; auto. Qed.

Lemma show_N_nonempty n : show_N n <> [].
Proof.
  unfold show_N. destruct n as [|p]; simpl; [discriminate|].
  pose proof (DecimalPos.Unsigned.to_uint_nonnil p) as H.
  destruct (Pos.to_uint p); simpl; try discriminate. now elim H.
Qed.

Theorem read_show_N n : read_N (show_N n) = Some n.
Proof.
  unfold read_N. pose proof (show_N_nonempty n) as H.
  destruct (show_N n) eqn:E; [now elim H|]. rewrite <- E. unfold show_N.
  rewrite text_to_uint_to_text. simpl. now rewrite DecimalN.Unsigned.of_to.
Qed.

Lemma show_N_digits n : forallb is_digit (show_N n) = true.
Proof. apply uint_to_text_digits. Qed.

Lemma uint_to_text_inj u v : uint_to_text u = uint_to_text v -> u = v.
Proof.
  intros H. assert (Some u = Some v) as E by (rewrite <- !text_to_uint_to_text; now rewrite H).
  now injection E.
Qed.

Theorem show_N_inj n m : show_N n = show_N m -> n = m.
Proof.
  intros H. assert (Some n = Some m) as E by (rewrite <- !read_show_N; now rewrite H). now injection E.
Qed.
