(* Model/OrdIO.v — mirror model of OrdinalInstance.write / OrdinalInstance.parse and of
   PrefLibInstance.parse_lines (preflibtools/instances/preflibinstance/ordinal.py, instance.py).
   Used by C01 (write -> parse), C10 (entry points, header_only) and C16 (autocorrect).
   Executable definitions only; the lemmas are in Proofs/OrdIO.v.

   Conventions (DESIGN §3): text = code points; ids and multiplicities are N; int() is modelled on ASCII
   digit strings only (py_int: surrounding whitespace stripped, leading zeros accepted; a sign, an
   underscore or a non-ASCII decimal digit — which CPython's int() would accept — is a ValueErr here and is
   excluded from generated inputs).  dicts are association lists in insertion order. *)
From Coq Require Import List NArith Bool String.
From PrefVerif Require Import Lib.Val Lib.Dec Lib.PyStr Model.Meta.
Import ListNotations.

Definition order := list (list N).        (* tuple of indifference classes (tuples of ids), best first *)

Record oinst := mkOinst {
  o_meta : meta;                          (* header fields, num_alternatives, num_voters, alternatives_name *)
  o_num_unique : N;                       (* num_unique_orders *)
  o_orders : list order;                  (* orders *)
  o_mult : list (order * N)               (* multiplicity, insertion order *)
}.

Fixpoint list_eqb {T} (eqb : T -> T -> bool) (a b : list T) : bool :=
  match a, b with
  | [], [] => true
  | x :: a', y :: b' => eqb x y && list_eqb eqb a' b'
  | _, _ => false
  end.
Definition class_eqb : list N -> list N -> bool := list_eqb N.eqb.
Definition order_eqb : order -> order -> bool := list_eqb class_eqb.

(* ------------------------------------------------------------------------------------------------ *)
(* write                                                                                            *)
(* ------------------------------------------------------------------------------------------------ *)

(* self.multiplicity[o]   (a missing key is a KeyError in Python: outside every well-formedness
   predicate used here; the model answers 0) *)
Definition mult_of (i : oinst) (o : order) : N :=
  match assoc_get order_eqb o (o_mult i) with Some k => k | None => 0%N end.

(* key(o1) <= key(o2) for key = (-multiplicity, -len(order)), tuples compared lexicographically *)
Definition key_le (a b : order * N) : bool :=
  (N.ltb (snd b) (snd a)) || (N.eqb (snd a) (snd b) && Nat.leb (List.length (fst b)) (List.length (fst a))).

(* list.sort is stable: insertion sort where an element is placed before the first later element whose
   key is not smaller *)
Fixpoint insert_by {T} (le : T -> T -> bool) (x : T) (l : list T) : list T :=
  match l with
  | [] => [x]
  | y :: r => if le x y then x :: l else y :: insert_by le x r
  end.
Definition stable_sort {T} (le : T -> T -> bool) (l : list T) : list T := fold_right (insert_by le) [] l.

(* the ballots in file order, each with the multiplicity that is printed *)
Definition ballots (i : oinst) : list (order * N) :=
  stable_sort key_le (map (fun o => (o, mult_of i o)) (o_orders i)).

Definition comma_sp : text := lit ", ".
(* one indifference class followed by ", " *)
Definition class_str (c : list N) : text :=
  match c with
  | [a] => show_N a ++ comma_sp
  | _ => lit "{" ++ join comma_sp (map show_N c) ++ lit "}" ++ comma_sp
  end.
(* order_str.strip(", ") *)
Definition order_str (o : order) : text := strip_chars comma_sp (flat_map class_str o).
Definition ballot_line (b : order * N) : text := show_N (snd b) ++ lit ": " ++ order_str (fst b) ++ nl.

Definition count_lines (i : oinst) : text :=
  lit "# NUMBER ALTERNATIVES: " ++ show_N (num_alternatives (o_meta i)) ++ nl ++
  lit "# NUMBER VOTERS: " ++ show_N (num_voters (o_meta i)) ++ nl ++
  lit "# NUMBER UNIQUE ORDERS: " ++ show_N (o_num_unique i) ++ nl.

(* the content of the file produced by OrdinalInstance.write.  (write(filepath) first replaces an EMPTY
   file_name by os.path.basename(filepath) on the instance itself — see with_default_file_name — and
   appends "." + data_type to a path without extension; neither concerns the content function.) *)
Definition ord_write (i : oinst) : text :=
  write_metadata (o_meta i) ++ count_lines i ++ write_alt_names (alt_names (o_meta i)) ++
  flat_map ballot_line (ballots i).

(* if not self.file_name: self.set_file_name(filepath) *)
Definition with_default_file_name (base : text) (i : oinst) : oinst :=
  match file_name (o_meta i) with
  | [] => mkOinst (set_file_name (o_meta i) base) (o_num_unique i) (o_orders i) (o_mult i)
  | _ => i
  end.

(* ------------------------------------------------------------------------------------------------ *)
(* tokenizer for   re.findall(r"\{[\d,]+?\}|[\d,]+", s)                                             *)
(* ------------------------------------------------------------------------------------------------ *)
(* Why the state machine below is the regex (ASCII digits): write D for the class [\d,].  findall scans
   from the left; at a position p it tries alternative 1, then alternative 2, and if both fail moves to
   p+1; after a match it continues behind the match (matches are never empty).
   - Alternative 1 at p needs s[p] = '{', then a non-empty run of D characters, then '}'.  Since '}' is not
     in D, the lazy quantifier can only stop at the end of the MAXIMAL run of D characters starting at p+1:
     the alternative matches iff that maximal run is non-empty and is followed by '}'.
   - Alternative 2 at p matches iff s[p] is in D, and then (greedy) takes the maximal run.
   - If s[p] = '{' and alternative 1 fails, alternative 2 fails too ('{' not in D) and the scan moves to
     p+1, where the maximal D-run R that alternative 1 had read (if non-empty) is now matched by
     alternative 2 as a bare token; the character behind R is then examined afresh.
   States: TIdle (between tokens), TRun acc (inside a bare run), TBrace acc (behind a '{', run so far acc);
   accumulators are reversed. *)
Definition is_dc (c : N) : bool := is_digit c || N.eqb c 44.     (* [\d,] *)
Definition c_lbrace : N := 123%N.
Definition c_rbrace : N := 125%N.

Inductive tstate := TIdle | TRun (acc : text) | TBrace (acc : text).

Definition flush (acc : text) (rest : list text) : list text :=
  match acc with [] => rest | _ => rev acc :: rest end.

Fixpoint tok (st : tstate) (s : text) : list text :=
  match s with
  | [] =>
    match st with
    | TIdle => []
    | TRun acc => [rev acc]
    | TBrace acc => flush acc []
    end
  | c :: r =>
    match st with
    | TIdle =>
      if N.eqb c c_lbrace then tok (TBrace []) r
      else if is_dc c then tok (TRun [c]) r
      else tok TIdle r
    | TRun acc =>
      if is_dc c then tok (TRun (c :: acc)) r
      else rev acc :: (if N.eqb c c_lbrace then tok (TBrace []) r else tok TIdle r)
    | TBrace acc =>
      if is_dc c then tok (TBrace (c :: acc)) r
      else if N.eqb c c_rbrace then
        match acc with
        | [] => tok TIdle r                                   (* "{}" matches nothing *)
        | _ => (c_lbrace :: rev acc ++ [c_rbrace]) :: tok TIdle r
        end
      else flush acc (if N.eqb c c_lbrace then tok (TBrace []) r else tok TIdle r)
    end
  end.

Definition tokenize (s : text) : list text := tok TIdle s.

(* ------------------------------------------------------------------------------------------------ *)
(* ballot line -> (multiplicity, order)                                                             *)
(* ------------------------------------------------------------------------------------------------ *)
Fixpoint rmapM {T U} (f : T -> result U) (l : list T) : result (list U) :=
  match l with
  | [] => Ok []
  | x :: r => rbind (f x) (fun y => rmap (cons y) (rmapM f r))
  end.

Definition nonempty {T} (t : list T) : bool := match t with [] => false | _ => true end.
(* [int(alt.strip()) for alt in group.split(",") if len(alt) > 0] *)
Definition ids_of (g : text) : result (list N) := rmapM py_int (filter (@nonempty N) (split_on 44 g)).
(* group[1:-1] *)
Definition inner (g : text) : text := removelast (tl g).

Definition classes_of_group (g : text) : result (list (list N)) :=
  if startswith [c_lbrace] g then rmap (fun c => [c]) (ids_of (inner g))
  else rmap (map (fun a => [a])) (ids_of g).

Definition order_of_str (s : text) : result order :=
  rmap (@List.concat (list N)) (rmapM classes_of_group (tokenize s)).

(* line is already "".join(line.split()) and non-empty *)
Definition parse_ballot (line : text) : result (N * order) :=
  match split_on 58 (strip line) with
  | [ms; os] =>                                           (* multiplicity, order_str = ….split(":") *)
    rbind (py_int ms) (fun m => rmap (fun o => (m, o)) (order_of_str os))
  | _ => Err ValueErr                                     (* too many / not enough values to unpack *)
  end.

(* if autocorrect and order in self.multiplicity: += ; else: orders.append(order); multiplicity[order] = m *)
Definition add_ballot (autocorrect : bool) (st : list order * list (order * N)) (b : N * order)
  : list order * list (order * N) :=
  let '(ords, mu) := st in
  let '(m, o) := b in
  match (if autocorrect then assoc_get order_eqb o mu else None) with
  | Some k => (ords, assoc_set order_eqb o (k + m)%N mu)
  | None => (ords ++ [o], assoc_set order_eqb o m mu)
  end.

Fixpoint ballot_loop (autocorrect : bool) (st : list order * list (order * N)) (lines : list text)
  : result (list order * list (order * N)) :=
  match lines with
  | [] => Ok st
  | l :: r =>
    let line := remove_ws l in
    match line with
    | [] => ballot_loop autocorrect st r
    | _ => rbind (parse_ballot line) (fun b => ballot_loop autocorrect (add_ballot autocorrect st b) r)
    end
  end.

(* ------------------------------------------------------------------------------------------------ *)
(* header loop                                                                                      *)
(* ------------------------------------------------------------------------------------------------ *)
Definition hash : text := lit "#".
Definition nuo_prefix : text := lit "# NUMBER UNIQUE ORDERS".

(* one header line (already stripped, starts with "#") *)
Definition header_step (autocorrect : bool) (st : meta * N) (line : text) : result (meta * N) :=
  if startswith nuo_prefix line then rmap (fun n => (fst st, n)) (py_int (drop 23 line))
  else rmap (fun m => (m, snd st)) (parse_metadata autocorrect (fst st) line).

(* i = 0; for i in range(len(lines)): …header line… else: break      — returns the state and lines[i:].
   When the loop runs to the end without `break`, i is the index of the LAST line, so lines[i:] is that
   last header line: it is read again as a ballot line (and `int("#…")` raises ValueError unless
   header_only).  An empty list of lines gives lines[0:] = []. *)
Fixpoint header_loop (autocorrect : bool) (st : meta * N) (lines : list text)
  : result ((meta * N) * list text) :=
  match lines with
  | [] => Ok (st, [])
  | l :: r =>
    let line := strip l in
    if startswith hash line then
      rbind (header_step autocorrect st line) (fun st' =>
        match r with
        | [] => Ok (st', [l])
        | _ => header_loop autocorrect st' r
        end)
    else Ok (st, lines)
  end.

Definition sum_N (l : list N) : N := fold_right N.add 0%N l.

(* parse_lines (reserved names) + OrdinalInstance.parse on a fresh instance whose data_type (and nothing
   else) has been set by the entry point: m0 = meta0 dt.  The type gate of parse_lines
   (type_validator) belongs to the entry-point model of C10. *)
Definition ord_parse (autocorrect header_only : bool) (m0 : meta) (lines : list text) : result oinst :=
  let m1 := if autocorrect then set_reserved m0 (reserved_of alt_name_prefix lines) else m0 in
  rbind (header_loop autocorrect (m1, 0%N) lines) (fun '((m, nu), rest) =>
    if header_only then Ok (mkOinst m nu [] [])
    else
      rbind (ballot_loop autocorrect ([], []) rest) (fun '(ords, mu) =>
        if autocorrect then
          Ok (mkOinst (set_num_voters (set_num_alternatives m (N.of_nat (List.length (alt_names m))))
                                      (sum_N (values mu)))
                      (N.of_nat (List.length ords)) ords mu)
        else Ok (mkOinst m nu ords mu))).

(* the three ways the entry points cut content into lines *)
Definition lines_file (s : text) : list text := readlines s.
Definition lines_str (s : text) : list text := splitlines s.
Definition lines_url (s : text) : list text := urllines s.

(* ------------------------------------------------------------------------------------------------ *)
(* well-formedness (boolean) and the view that survives a round trip                                *)
(* ------------------------------------------------------------------------------------------------ *)
(* single line, no outer whitespace; may be empty *)
Definition wf_text (t : text) : bool := forallb (fun c => negb (is_linebreak c)) t && teqb (strip t) t.

Fixpoint nodupb {T} (eqb : T -> T -> bool) (l : list T) : bool :=
  match l with
  | [] => true
  | x :: r => negb (existsb (eqb x) r) && nodupb eqb r
  end.

Definition valid_type (dt : text) : bool :=
  teqb dt (lit "soc") || teqb dt (lit "soi") || teqb dt (lit "toc") || teqb dt (lit "toi").

Definition wf_meta (m : meta) : bool :=
  wf_text (file_name m) && wf_text (title m) && wf_text (description m) && valid_type (data_type m) &&
  wf_text (modification_type m) && wf_text (relates_to m) && wf_text (related_files m) &&
  wf_text (publication_date m) && wf_text (modification_date m) &&
  forallb (fun p => wf_text (snd p)) (alt_names m) && nodupb N.eqb (keys (alt_names m)) &&
  match reserved m with [] => true | _ => false end.

Definition wf_ord (i : oinst) : bool :=
  wf_meta (o_meta i) &&
  nonempty (o_orders i) &&
  forallb (forallb nonempty) (o_orders i) &&
  forallb (fun p => N.leb 1 (snd p)) (o_mult i) &&
  list_eqb order_eqb (keys (o_mult i)) (o_orders i) &&
  nodupb order_eqb (o_orders i).

(* i with its ballots in file order: the only difference is the stable sort by (-multiplicity, -len) *)
Definition sorted_view (i : oinst) : oinst :=
  mkOinst (o_meta i) (o_num_unique i) (map fst (ballots i)) (ballots i).
