(* Proofs/PQTreeComplete.v — COMPLETENESS of the mirrored PQ-tree algorithm (Model/PQTree.v): if the family has an
   arrangement in which, for every element, the sets containing it are consecutive, the mirror returns an answer
   (so, by pq_reorder_total, Err ValueErr is returned only if no arrangement exists).
   Frontier semantics: Proofs/PQTree.v  Ord t o  ("o is one of the frontiers t represents").
   Step lemma (C): a frontier of t in which the sets containing v are consecutive is still a frontier of the tree
   returned by set_contiguous v t, and set_contiguous does not fail when t has such a frontier. *)
From Coq Require Import List Arith Bool Lia Permutation.
From PrefVerif Require Import Lib.Val Lib.Perms Model.C1P Model.PQTree Proofs.C1P Proofs.PQTree.
Import ListNotations.

Definition StepC : Prop :=
  forall f v t o, proper t = true -> length (ordering t) <= f -> Ord t o -> Interval (fun s => In v s) o ->
    exists t' st, set_contiguous f v t = Ok (t', st) /\ Ord t' o.

(* ------------------------------------------------------------------------------------------------ *)
(* the converse of Ref_flat_ret: _flatten loses no frontier *)
Lemma Forall2_map_same {X} (R : X -> X -> Prop) (g : X -> X) l : Forall (fun x => R x (g x)) l -> Forall2 R l (map g l).
Proof. induction 1; simpl; constructor; auto. Qed.

Lemma Ord_flat_ret_c t : forall o, Ord t o -> Ord (flat_ret t) o.
Proof.
  induction t as [s|k cs IH] using pq_ind'; intros o Ho; [exact Ho|].
  destruct cs as [|c [|c2 r]].
  - exact Ho.
  - inversion IH; subst. simpl. apply H1. now apply Ord_single in Ho.
  - change (Ord (Node k (map flat_ret (c :: c2 :: r))) o).
    revert o Ho. apply Ref_node. apply Forall2_map_same. exact IH.
Qed.

Lemma Ord_leaves_perm F o : Permutation F o -> Ord (Node KP (map Leaf F)) o.
Proof.
  intros HP. apply Ord_P. exists (map Leaf o). split; [now apply Permutation_map|].
  clear HP. induction o as [|s o IH]; simpl; [now apply OrdL_nil|].
  apply OrdL_cons. exists [s], o. repeat split; auto. constructor.
Qed.

(* ------------------------------------------------------------------------------------------------ *)
(* Stage A: the element loop and reorder_sets, relative to the step lemma *)
Section FromStep.
Hypothesis step : StepC.

Lemma pq_loop_complete fuel o : (forall v, Interval (fun s => In v s) o) ->
  forall elems t, proper t = true -> length (ordering t) <= fuel -> Ord t o -> 3 <= length o ->
  exists t', pq_loop fuel elems t = Ok t' /\ Ord t' o.
Proof.
  intros Hgood. induction elems as [|i rest IH]; intros t Hp Hlen Ho H3; simpl.
  - eauto.
  - destruct t as [s|k cs]; [inversion Ho; subst; simpl in H3; lia|].
    destruct (step fuel i (Node k cs) o Hp Hlen Ho (Hgood i)) as (t' & st & E & Ho').
    rewrite E. simpl.
    destruct (set_contiguous_post _ _ _ _ _ Hp E) as (_ & HAl & _ & Hperm & _).
    apply IH; auto.
    + now apply AlmostProper_flat.
    + now rewrite ordering_flat_ret, <- (Permutation_length Hperm).
    + now apply Ord_flat_ret_c.
Qed.

Theorem pq_reorder_complete_from_step elems F :
  (exists res, SetsOK F res) -> exists res', pq_reorder elems F = Ok res'.
Proof.
  intros (res & HP & Hgood). unfold pq_reorder.
  destruct (Nat.leb_spec (length F) 2) as [Hl|Hl]; [eauto|].
  assert (Hp : proper (Node KP (map Leaf F)) = true).
  { apply proper_node_iff. split; [rewrite map_length; lia|]. apply Forall_map, Forall_forall. reflexivity. }
  assert (Hleaves : ordering (Node KP (map Leaf F)) = F) by (simpl; apply ordering_leaves).
  destruct (pq_loop_complete (length F) res Hgood elems (Node KP (map Leaf F)) Hp) as (t' & E & Ho).
  - rewrite Hleaves. lia.
  - now apply Ord_leaves_perm.
  - rewrite <- (Permutation_length HP). lia.
  - rewrite E. destruct t' as [s|k cs]; [|eauto].
    inversion Ho; subst. apply Permutation_length in HP. simpl in HP. lia.
Qed.

Corollary pq_reorder_err_from_step elems F :
  pq_reorder elems F = Err ValueErr -> ~ exists res, SetsOK F res.
Proof. intros E H. destruct (pq_reorder_complete_from_step elems F H) as (r & Hr). congruence. Qed.
End FromStep.

(* ------------------------------------------------------------------------------------------------ *)
(* 0/1 words: where the ones of a concatenation of blocks can be *)
Lemma all_zero_app a b : all_zero (a ++ b) = all_zero a && all_zero b.
Proof. unfold all_zero. apply forallb_app. Qed.
Lemma all_one_app a b : all_one (a ++ b) = all_one a && all_one b.
Proof. unfold all_one. apply forallb_app. Qed.

Lemma ones_zeros_app a b :
  ones_zeros (a ++ b) = (all_one a && ones_zeros b) || (ones_zeros a && all_zero b).
Proof.
  induction a as [|[|] a IH]; simpl.
  - destruct (ones_zeros b) eqn:E; [reflexivity|]. destruct (all_zero b) eqn:E2; [|reflexivity].
    apply all_zero_ones_zeros in E2. congruence.
  - exact IH.
  - now rewrite all_zero_app.
Qed.

Lemma contig01_app a b :
  contig01 (a ++ b) = (all_zero a && contig01 b) || (contig01 a && all_zero b) || (zeros_ones a && ones_zeros b).
Proof.
  induction a as [|[|] a IH]; simpl.
  - destruct (contig01 b) eqn:E; [reflexivity|].
    destruct (all_zero b) eqn:E2; [apply all_zero_ones_zeros, ones_zeros_contig in E2; congruence|].
    destruct (ones_zeros b) eqn:E3; [apply ones_zeros_contig in E3; congruence|reflexivity].
  - rewrite ones_zeros_app. destruct (all_one a), (ones_zeros b), (ones_zeros a), (all_zero b); reflexivity.
  - exact IH.
Qed.

Lemma all_zero_concat {X} (wd : X -> list bool) l :
  all_zero (flat_map wd l) = true <-> Forall (fun x => all_zero (wd x) = true) l.
Proof.
  induction l as [|x t IH]; simpl; [split; constructor|]. rewrite all_zero_app, andb_true_iff, IH. split.
  - intros [H1 H2]. now constructor.
  - intros H. inversion H; subst. auto.
Qed.

Lemma all_zero_not_one w : w <> [] -> all_zero w = true -> all_one w = false.
Proof. destruct w as [|[|] w]; simpl; intros H1 H2; try congruence. Qed.

Section Shape.
Context {X : Type}.
Variable wd : X -> list bool.
Let az (x : X) := all_zero (wd x) = true.
Let ao (x : X) := all_one (wd x) = true.

(* the ones of the concatenation form a prefix: blocks of ones, then at most one block 1+0*, then blocks of zeros *)
Lemma shape_prefix l : Forall (fun x => wd x <> []) l -> ones_zeros (flat_map wd l) = true ->
  exists A rest, l = A ++ rest /\ Forall ao A /\
    (rest = [] \/ exists w' W3, rest = w' :: W3 /\ ones_zeros (wd w') = true /\ all_one (wd w') = false /\ Forall az W3).
Proof.
  induction 1 as [|x t Hx Ht IH]; simpl; intros H.
  - exists [], []. repeat split; auto.
  - rewrite ones_zeros_app in H. destruct (all_one (wd x)) eqn:Eo.
    + simpl in H. destruct (ones_zeros (flat_map wd t)) eqn:Et.
      * destruct (IH eq_refl) as (A & rest & -> & HA & Hr). exists (x :: A), rest. repeat split; auto.
      * simpl in H. apply andb_true_iff in H. destruct H as [_ H]. apply all_zero_ones_zeros in H. congruence.
    + simpl in H. apply andb_true_iff in H. destruct H as [H1 H2]. apply all_zero_concat in H2.
      exists [], (x :: t). repeat split; auto. right. exists x, t. auto.
Qed.

Inductive Shape : list X -> Prop :=
| Sh_none l : Forall az l -> Shape l
| Sh_one W1 w W3 : Forall az W1 -> Forall az W3 -> contig01 (wd w) = true -> all_zero (wd w) = false ->
                   Shape (W1 ++ w :: W3)
| Sh_run W1 w A R W3 : Forall az W1 -> Forall az W3 -> Forall ao A ->
                       zeros_ones (wd w) = true -> all_zero (wd w) = false ->
                       (R = [] \/ exists w', R = [w'] /\ ones_zeros (wd w') = true /\ all_one (wd w') = false /\
                                             all_zero (wd w') = false) ->
                       Shape (W1 ++ w :: A ++ R ++ W3).

Lemma Shape_cons_az x l : az x -> Shape l -> Shape (x :: l).
Proof.
  intros Hx H. destruct H as [l H|W1 w W3 H1 H3 Hc Hz|W1 w A R W3 H1 H3 HA Hw Hz HR].
  - apply Sh_none. now constructor.
  - apply (Sh_one (x :: W1)); auto.
  - apply (Sh_run (x :: W1)); auto.
Qed.

Theorem shape l : Forall (fun x => wd x <> []) l -> contig01 (flat_map wd l) = true -> Shape l.
Proof.
  induction 1 as [|x t Hx Ht IH]; simpl; intros H; [apply Sh_none; constructor|].
  rewrite contig01_app in H. destruct (all_zero (wd x)) eqn:Ez.
  - (* the block x has no one: the ones are in the rest *)
    apply Shape_cons_az; [exact Ez|]. apply IH.
    destruct (contig01 (flat_map wd t)) eqn:Ec; [reflexivity|]. simpl in H.
    apply orb_true_iff in H. destruct H as [H|H]; apply andb_true_iff in H; destruct H as [_ H].
    + apply all_zero_ones_zeros, ones_zeros_contig in H. congruence.
    + apply ones_zeros_contig in H. congruence.
  - simpl in H. apply orb_true_iff in H. destruct H as [H|H]; apply andb_true_iff in H; destruct H as [H1 H2].
    + apply all_zero_concat in H2. apply (Sh_one [] x t); auto.
    + destruct (shape_prefix t Ht H2) as (A & rest & -> & HA & Hr).
      destruct Hr as [->|(w' & W3 & -> & Ho & Hno & H3)].
      * rewrite app_nil_r. replace A with (A ++ [] ++ []) by now rewrite !app_nil_r.
        apply (Sh_run [] x A [] []); auto.
      * destruct (all_zero (wd w')) eqn:Ez'.
        -- replace (A ++ w' :: W3) with (A ++ [] ++ (w' :: W3)) by reflexivity.
           apply (Sh_run [] x A [] (w' :: W3)); auto.
        -- replace (A ++ w' :: W3) with (A ++ [w'] ++ W3) by reflexivity.
           apply (Sh_run [] x A [w'] W3); auto. right. exists w'. auto.
Qed.
End Shape.
