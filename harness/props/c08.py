"""C08 — categorical files survive write -> parse unchanged (CategoricalInstance.write / parse, parse_lines).

The extracted model (Model/CatIO.v) is the independent reader / writer.  Case kinds:
  c08.rt        an instance built by direct field assignment: checks (a)-(e) below
  c08.tokenize  the hand-written tokenizer against re.findall on the ballot pattern (f)
  c08.parse     parse (autocorrect x header_only, parse_file / parse_str) of clean and dirty content (g)
"""
import itertools
import os
import random
import re
import shutil
import tempfile

from core import proto, oracle
from .common import case, guarded, snapshot, snap_diff

ID = "C08"
RULE = ("c08.rt: instances built by direct field assignment; (a) model-parse(impl.write(i)) = content of i, "
        "(b) impl.parse(impl.write(i)) = i field by field, ballots by non-increasing multiplicity, (c) second write "
        "byte-identical, (d) impl.parse(model-write(i)) = i, (e) model-write(i) = impl.write(i) byte for byte. "
        "c08.tokenize: model tokenizer = re.findall(pattern). c08.parse: model parser = implementation on clean and "
        "dirty content for every autocorrect/header_only combination, through parse_file and parse_str. "
        "non-trivial = (rt) >= 2 ballots and some category of size != 1; (tokenize) >= 2 tokens; (parse) some "
        "repeated name or ballot line")
EXHAUSTIVE = {"quick": "every placement of <= 3 alternatives into <= 3 categories (unplaced allowed), one ballot per "
                       "file; all such ballots of one shape together in one file",
              "thorough": "the same, plus every ordering inside the categories and every ordered pair of ballots over "
                          "<= 2 alternatives / <= 3 categories with tied and distinct multiplicities"}
TRUSTED = ["modelled: CategoricalInstance.write, CategoricalInstance.parse, recompute_cardinality_param, "
           "PrefLibInstance.parse_lines / parse_metadata / write_metadata; parse_file / parse_str only through their "
           "line splitters (file.readlines with universal newlines, str.splitlines)",
           "Python's regex engine on the pattern {[\\d,]+?}|[\\d,]+|{} (the model has a hand-written state machine; "
           "compared with re.findall on every run) and on the two name patterns; the UTF-8 codec of open()"]
ASSUMPTIONS = ["digits in numeric positions are ASCII; ids, counts and multiplicities are non-negative and written "
               "without sign or underscore (int() and \\d accept more than the model's reader)",
               "write(path) first assigns basename(path) to an empty file_name; the harness applies the same assignment "
               "(\"f.cat\") to the instance it hands to the model",
               "generated names and metadata contain no leading/trailing whitespace, no lone surrogate and no line "
               "boundary, except: ~150 quick / 2500 thorough instances carry one of the eight splitlines-only boundaries "
               "(\\x0b \\x0c \\x1c \\x1d \\x1e \\x85 U+2028 U+2029) strictly inside a value; these are single-line for a "
               "file reader only and are checked through the FILE entry points only (parse_file, CategoricalInstance(path), "
               "get_parsed_instance; theorems C08_roundtrip_file / C08_sorted_idempotent_file under wf_cat_rl) - "
               "parse_str is not claimed for them"]
TIMEOUT_S = 60.0
COVER_FILES = ["instances/preflibinstance/categorical.py", "instances/preflibinstance/instance.py"]
CHUNK = 25

WORK = os.path.join(oracle.VERIF, ".work")
_MAIN_PID = os.getpid()


def _cleanup():
    """scratch directories of workers that were killed in the middle of a case (watchdog, coverage time limit)"""
    if os.getpid() != _MAIN_PID:
        return
    import glob
    for d in glob.glob(os.path.join(WORK, "c08_%d_*" % _MAIN_PID)):
        shutil.rmtree(d, ignore_errors=True)


import atexit  # noqa: E402
atexit.register(_cleanup)
PATTERN = r"{[\d,]+?}|[\d,]+|{}"
FIELDS = ["file_name", "title", "description", "data_type", "modification_type", "relates_to", "related_files",
          "publication_date", "modification_date"]
T = proto.text


# ------------------------------------------------------------------------------------------------
# instance <-> payload

def mk_payload(prefs_mult, ncat, cat_names, alt_names, meta=None, counts=None):
    """prefs_mult: list of (ballot, mult); cat_names / alt_names: list of (id, str); meta: dict field -> str."""
    meta = dict(meta or {})
    meta.setdefault("data_type", "cat")
    texts = [T(meta.get(f, "")) for f in FIELDS]
    prefs = [[list(c) for c in b] for b, _ in prefs_mult]
    mult = [[[list(c) for c in b], m] for b, m in prefs_mult]
    na, nv, nu = len(alt_names), sum(m for _, m in prefs_mult), len(prefs)
    if counts:
        na, nv, nu = counts
    return [texts, na, nv, [[a, T(n)] for a, n in alt_names], nu, ncat, [[c, T(n)] for c, n in cat_names],
            prefs, mult]


def normalise_fname(p):
    """what write() does to an empty file_name (the file is always called f.cat)"""
    if not p[0][0]:
        p = list(p)
        p[0] = [T("f.cat")] + list(p[0][1:])
    return p


def entry_of(mode):
    """mode bits: 1 = parse_str instead of parse_file; 2 = categories_name keyed by str (as from_ordinal leaves it);
    4 = parse_lines on a caller-owned list that is poisoned afterwards; 8 = (histories) recompute_cardinality_param()
    between the change and the second write; 16 = CategoricalInstance(path) (the constructor parses the file);
    32 = get_parsed_instance(path); 64 = write() to a path that already holds a LONGER file"""
    return 1 if mode & 4 else mode & 1


def build(p, strkeys=False):
    from preflibtools.instances import CategoricalInstance
    inst = CategoricalInstance()
    for f, v in zip(FIELDS, p[0]):
        setattr(inst, f, proto.untext(v))
    inst.num_alternatives, inst.num_voters = p[1], p[2]
    inst.alternatives_name = {a: proto.untext(n) for a, n in p[3]}
    inst.num_unique_preferences, inst.num_categories = p[4], p[5]
    inst.categories_name = {(str(c) if strkeys else c): proto.untext(n) for c, n in p[6]}
    inst.preferences = [tuple(tuple(c) for c in b) for b in p[7]]
    inst.multiplicity = {tuple(tuple(c) for c in b): m for b, m in p[8]}
    return inst


INNER_BREAKS = "\x0b\x0c\x1c\x1d\x1e\x85\u2028\u2029"


def has_inner_break(p):
    vals = list(p[0]) + [n for _, n in p[3]] + [n for _, n in p[6]]
    return any(ord(ch) in v for v in vals for ch in INNER_BREAKS)


def _int(x):
    if type(x) is not int:
        raise TypeError("expected a Python int, got %r" % (x,))
    if x < 0:
        raise ValueError("negative number %r in an instance field" % (x,))
    return x


def _txt(s):
    if type(s) is not str:
        raise TypeError("expected str, got %r" % (s,))
    return T(s)


def _ballot(b):
    if type(b) is not tuple or any(type(c) is not tuple for c in b):
        raise TypeError("ballot is not a tuple of tuples: %r" % (b,))
    return [[_int(a) for a in c] for c in b]


def canon(inst):
    """the instance as nested ints, same shape as the payload (strict about types: a str key is not an int key)"""
    return [[_txt(getattr(inst, f)) for f in FIELDS], _int(inst.num_alternatives), _int(inst.num_voters),
            [[_int(a), _txt(n)] for a, n in inst.alternatives_name.items()],
            _int(inst.num_unique_preferences), _int(inst.num_categories),
            [[_int(c), _txt(n)] for c, n in inst.categories_name.items()],
            [_ballot(b) for b in inst.preferences],
            [[_ballot(b), _int(m)] for b, m in inst.multiplicity.items()]]


def content(p):
    """order-insensitive view: dicts as sorted item lists, the ballot list as a multiset"""
    return [p[0], p[1], p[2], sorted(p[3]), p[4], p[5], sorted(p[6]), sorted(p[7]), sorted(p[8])]


def file_mults(p):
    d = {proto.enc(b): m for b, m in p[8]}
    return [d.get(proto.enc(b)) for b in p[7]]


# ------------------------------------------------------------------------------------------------
# implementation side

def _read(path):
    with open(path, "r", encoding="utf-8", newline="") as f:
        return f.read()


def _write_raw(path, s):
    with open(path, "w", encoding="utf-8", newline="") as f:
        f.write(s)


def _parse(d, name, s, mode, autocorrect=False, header_only=False):
    """a fresh instance parsing content s through parse_file (mode 0) or parse_str (mode 1)"""
    from preflibtools.instances import CategoricalInstance
    inst = CategoricalInstance()
    if mode & 4:
        lines = s.splitlines()
        inst.parse_lines(lines, autocorrect=autocorrect, header_only=header_only)
        lines[:] = ["# TITLE: poisoned", "# CATEGORY NAME 77: poisoned", "99: {98, 97}"]    # the list is the caller's
        lines.reverse()
    elif mode & 1 == 0:
        path = os.path.join(d, name)
        _write_raw(path, s)
        if mode & 16 and not autocorrect and not header_only:
            inst = CategoricalInstance(path)
        elif mode & 32:
            from preflibtools.instances import get_parsed_instance
            inst = get_parsed_instance(path, autocorrect=autocorrect, header_only=header_only)
        else:
            inst.parse_file(path, autocorrect=autocorrect, header_only=header_only)
    else:
        inst.parse_str(s, "cat", file_name=name, autocorrect=autocorrect, header_only=header_only)
    return inst


OLD_TAIL = "7: {1, 2}, {}, 3\n" * 4000          # a longer file already at the destination of write()


def _occupy(path, mode):
    if mode & 64:
        _write_raw(path, OLD_TAIL)


def _parse_canon(d, name, s, mode, **kw):
    return canon(_parse(d, name, s, mode, **kw))


def _rt_tail(d, out, text1, mode, mw=None):
    """checks (b)-(d) on a written file: parse it with a fresh object, write that again, parse the model's text"""
    out["text1"] = T(text1)
    os.makedirs(os.path.join(d, "in"))
    try:
        j = _parse(os.path.join(d, "in"), "f.cat", text1, mode)
    except Exception as e:  # noqa: the property says this cannot happen; reported with its class
        out["parsed1"] = [1, type(e).__name__ + ": " + str(e)[:200]]
        return out
    out["parsed1"] = [0, canon(j)]
    os.makedirs(os.path.join(d, "out"))
    path2 = os.path.join(d, "out", "f.cat")
    before = snapshot(j)
    _occupy(path2, mode)
    j.write(path2)
    out["text2"] = T(_read(path2))
    out.setdefault("purity", None)
    out["purity"] = out["purity"] or snap_diff(before, snapshot(j))
    j.write(path2)                      # and once more on the same object
    out["text3"] = T(_read(path2))
    if mw is not None:
        os.makedirs(os.path.join(d, "mw"))
        try:
            out["parsed_mw"] = [0, canon(_parse(os.path.join(d, "mw"), "f.cat", proto.untext(mw), mode))]
        except Exception as e:  # noqa
            out["parsed_mw"] = [1, type(e).__name__ + ": " + str(e)[:200]]
    return out


def _tup(b):
    return tuple(tuple(c) for c in b)


def apply_history(p, muts, add, recompute=False):
    """the payload after: multiplicity[b] += k, num_voters += k for (index, k) in muts; then optionally a new ballot"""
    q = [list(x) if isinstance(x, list) else x for x in p]
    q[8] = [[b, m] for b, m in p[8]]
    for idx, k in muts:
        q[8][idx][1] += k
        q[2] += k
    if add:
        b, m = add
        q[7] = q[7] + [b]
        q[8] = q[8] + [[b, m]]
        q[2] += m
        q[4] += 1
    if recompute:
        q[2] = sum(m for _, m in q[8])
        q[4] = len({proto.enc(b) for b in q[7]})
    return q


def _impl_hist(d, pl):
    """write -> mutate the SAME object -> write again (same path): the second file is judged like a first one"""
    p, muts, add, mode = pl
    inst = build(p, strkeys=bool(mode & 2))
    path = os.path.join(d, "f.cat")
    before = snapshot(inst)
    _occupy(path, mode)
    inst.write(path)
    out = {"write": [0], "textA": T(_read(path)), "purity": snap_diff(before, snapshot(inst))}
    keys = [_tup(b) for b, _ in p[8]]
    for idx, k in muts:
        inst.multiplicity[keys[idx]] += k
        inst.num_voters += k
    if add:
        b, m = add
        inst.preferences.append(_tup(b))
        inst.multiplicity[_tup(b)] = m
        inst.num_voters += m
        inst.num_unique_preferences += 1
    if mode & 8:
        inst.recompute_cardinality_param()
    before = snapshot(inst)
    inst.write(path)
    out["purity"] = out["purity"] or snap_diff(before, snapshot(inst))
    return _rt_tail(d, out, _read(path), mode)


def robust(p):
    """what must hold of an object that parsed the same file once or several times"""
    seen = []
    for b in p[7]:
        if b not in seen:
            seen.append(b)
    return [p[0], p[1], p[2], sorted(p[3]), p[4], p[5], sorted(p[6]), sorted(seen), sorted(p[8])]


def _impl_cycle(d, pl):
    """one object: parse(A) -> write(B) -> parse(B) -> parse(B); A is the file written from the payload"""
    from preflibtools.instances import CategoricalInstance
    p, mode = pl
    path_a = os.path.join(d, "f.cat")
    build(p, strkeys=bool(mode & 2)).write(path_a)
    text_a = _read(path_a)
    obj = CategoricalInstance()

    def parse_into(path, text):
        if mode & 4:
            lines = text.splitlines()
            obj.parse_lines(lines)
            lines[:] = ["1: 99"]
        elif mode & 1 == 0:
            obj.parse_file(path)
        else:
            obj.parse_str(text, "cat", file_name="f.cat")
    parse_into(path_a, text_a)
    out = {"A": T(text_a), "S0": canon(obj)}
    os.makedirs(os.path.join(d, "b"))
    path_b = os.path.join(d, "b", "f.cat")
    _occupy(path_b, mode)
    obj.write(path_b)
    text_b = _read(path_b)
    out["B"] = T(text_b)
    parse_into(path_b, text_b)
    out["S1"] = canon(obj)
    parse_into(path_b, text_b)
    out["S2"] = canon(obj)
    return out


def _impl_seq(d, pl, mw):
    """object lifetime: something else happens in the same process first (another instance with other categories
    is parsed / built, possibly ending in an exception), then the instance under test is round-tripped"""
    from preflibtools.instances import CategoricalInstance
    pre, p, mode = pl
    inst = build(p, strkeys=bool(mode & 2))
    os.makedirs(os.path.join(d, "pre"))
    kept = []
    if pre[0] == 0:                      # parse some content with a fresh object (may raise)
        _, ac, ho, text = pre
        try:
            kept.append(_parse(os.path.join(d, "pre"), "f.cat", proto.untext(text), mode, autocorrect=bool(ac),
                               header_only=bool(ho)))
            outcome = "parsed"
        except (ValueError, TypeError):
            outcome = "raised"
    else:                                # build another instance (same ids, other content), write it, parse it back
        other = build(pre[1])
        po = os.path.join(d, "pre", "f.cat")
        other.write(po)
        kept.append(other)
        kept.append(_parse(os.path.join(d, "pre"), "g.cat", _read(po), mode))
        outcome = "built"
    path = os.path.join(d, "f.cat")
    before = snapshot(inst)
    _occupy(path, mode)
    inst.write(path)
    out = {"write": [0], "prelude": outcome, "purity": snap_diff(before, snapshot(inst))}
    return _rt_tail(d, out, _read(path), mode, mw)


def impl(c):
    op, pl = c["op"], c["payload"]
    if op == "c08.tokenize":
        return [T(g) for g in re.findall(PATTERN, proto.untext(pl))]
    os.makedirs(WORK, exist_ok=True)
    d = tempfile.mkdtemp(prefix="c08_%d_" % (_MAIN_PID if os.getpid() != _MAIN_PID else os.getpid()), dir=WORK)
    try:
        if op == "c08.parse":
            ac, ho, mode, content_ = pl
            return guarded(_parse_canon, d, "p.cat", proto.untext(content_), mode,
                           autocorrect=bool(ac), header_only=bool(ho))
        if op == "c08.cycle":
            return _impl_cycle(d, pl)
        if op == "c08.hist":
            return _impl_hist(d, pl)
        if op == "c08.seq":
            return _impl_seq(d, pl, c["tags"].get("mw"))
        # c08.rt
        p, mode = pl
        inst = build(p, strkeys=bool(mode & 2))
        path = os.path.join(d, "f.cat")
        before = snapshot(inst)
        _occupy(path, mode)
        r = guarded(inst.write, path)
        if r[0] != 0:
            return {"write": r}
        return _rt_tail(d, {"write": [0], "purity": snap_diff(before, snapshot(inst))}, _read(path), mode,
                        c["tags"].get("mw"))
    finally:
        shutil.rmtree(d, ignore_errors=True)


# ------------------------------------------------------------------------------------------------
# model side and judgement

def oracle_requests(c, r):
    op, pl = c["op"], c["payload"]
    if op == "c08.tokenize":
        return [(op, pl), ("c08.findall", pl)]
    if op == "c08.parse":
        ac, ho, mode, content_ = pl
        return [("c08.parse", [ac, ho, mode, T("p.cat"), T("cat"), content_])]
    if op == "c08.cycle":
        p, mode = pl
        p = normalise_fname(p)
        return [("c08.write", p), ("c08.sorted_view", p)]
    if op == "c08.hist":
        p0, muts, add, mode = pl
        p0 = normalise_fname(p0)
        p = apply_history(p0, muts, add, bool(mode & 8))
    elif op == "c08.seq":
        _, p, mode = pl
        p = normalise_fname(p)
    else:
        p, mode = pl
        p = normalise_fname(p)
    reqs = [("c08.write", p), ("c08.sorted_view", p)]
    if isinstance(r, dict) and "text1" in r:
        reqs.append(("c08.parse", [0, 0, entry_of(mode), T("f.cat"), T("cat"), r["text1"]]))
    else:
        reqs.append(("c08.tokenize", []))
    if op == "c08.hist":
        reqs.append(("c08.write", p0))
    return reqs


def _show(t, lim=400):
    try:
        return repr(proto.untext(t))[:lim]
    except Exception:
        return repr(t)[:lim]


def _first_diff(a, b):
    for k, (x, y) in enumerate(zip(a, b)):
        if x != y:
            return "field %d: %r vs %r" % (k, x, y)
    return "lengths %d vs %d" % (len(a), len(b))


def _non_increasing(l):
    return all(x is not None for x in l) and all(l[k] >= l[k + 1] for k in range(len(l) - 1))


def judge(c, r, mres):
    op, pl = c["op"], c["payload"]
    if op == "c08.tokenize":
        if r != mres[0]:
            return "re.findall gives %r, the model's tokenizer %r on %s" % (
                [proto.untext(g) for g in r], [proto.untext(g) for g in mres[0]], _show(pl))
        if r != mres[1]:
            return "re.findall gives %r, the model's declarative reading of the pattern %r on %s" % (
                [proto.untext(g) for g in r], [proto.untext(g) for g in mres[1]], _show(pl))
        return None
    if op == "c08.parse":
        m = mres[0]
        if r[0] != m[0]:
            return "implementation %r, model %r" % (r[:2], m if m[0] else "parsed instance")
        if r[0] == 1:
            return None if r[1] == m[1] else "exception codes differ: implementation %r, model %r" % (r, m)
        a, b = r[1], m[1]
        if content(a) != content(b):
            return "parsed instance differs from the model's: " + _first_diff(content(a), content(b))
        if a[7] != b[7]:
            return "ballot list order differs: %r vs %r" % (a[7], b[7])
        return None
    if op == "c08.cycle":
        p, mode = pl
        p = normalise_fname(p)
        mw, sv = mres[0], mres[1]
        if mw[0] != 0:
            return {"kind": "broken-correspondence", "reason": "cycle case outside the writer's domain"}
        if r["A"] != mw[1]:
            return "(e) written file differs from the model's writer: %s vs %s" % (_show(r["A"]), _show(mw[1]))
        if content(r["S0"]) != content(p):
            return "(b) parsed object differs: " + _first_diff(content(r["S0"]), content(p))
        if r["B"] != r["A"]:
            return "(c) the object that parsed the file writes a different file: %s vs %s" % (_show(r["B"]), _show(r["A"]))
        for key in ("S1", "S2"):
            if robust(r[key]) != robust(p):
                return "history: after parsing its own output again (%s) the object holds different content: %s" % (
                    key, _first_diff(robust(r[key]), robust(p)))
        return None
    if op == "c08.hist":
        p0, muts, add, mode = pl
        p0 = normalise_fname(p0)
        p = apply_history(p0, muts, add, bool(mode & 8))
        mwa = mres[3]
        if mwa[0] != 0 or mwa[1] != r["textA"]:
            return "(e) first written file differs from the model's writer: %s vs %s" % (_show(r["textA"]), _show(mwa[1] if mwa[0] == 0 else []))
    elif op == "c08.seq":
        _, p, mode = pl
        p = normalise_fname(p)
    else:
        # c08.rt
        p, mode = pl
        p = normalise_fname(p)
    mw, sv = mres[0], mres[1]
    if r["write"][0] != 0:
        if mw[0] == 1 and r["write"][1] == proto.E_OTHER:
            return None         # KeyError on both sides (ballot without multiplicity entry): outside the domain
        return "write raised %r (model writer: %r)" % (r["write"], mw[0])
    if mw[0] != 0:
        return "implementation wrote a file where the model's writer refuses"
    expected = content(p)
    if content(sv) != expected:
        return {"kind": "broken-correspondence", "reason": "sorted_view changes the content of the instance"}
    mp = mres[2]
    # (e) byte for byte
    if mw[1] != r["text1"]:
        return "(e) %swritten file differs from the model's writer: %s vs %s" % (
            "after the object was changed, the re-" if op == "c08.hist" else "", _show(r["text1"]), _show(mw[1]))
    # (a) independent reader
    if mp[0] != 0:
        return "(a) the model's reader rejects the written file (error %r): %s" % (mp[1], _show(r["text1"]))
    if content(mp[1]) != expected:
        return "(a) independent reader sees different content: " + _first_diff(content(mp[1]), expected)
    if not _non_increasing(file_mults(mp[1])):
        return "(a) ballots are not listed by non-increasing multiplicity: %r" % (file_mults(mp[1]),)
    if mp[1] != sv:
        return {"kind": "broken-correspondence",
                "reason": "model parse of the model-identical file is not sorted_view (theorem C08_roundtrip)"}
    # (b) implementation's own reader
    p1 = r["parsed1"]
    if p1[0] != 0:
        return {"kind": "exception", "reason": "(b) parsing the written file raised " + str(p1[1])}
    if content(p1[1]) != expected:
        return "(b) re-parsed instance differs: " + _first_diff(content(p1[1]), expected)
    if not _non_increasing(file_mults(p1[1])):
        return "(b) re-parsed ballots not by non-increasing multiplicity: %r" % (file_mults(p1[1]),)
    if p1[1][7] != sv[7]:
        return "(b) re-parsed ballot order differs from the stable sort: %r vs %r" % (p1[1][7], sv[7])
    # (c) idempotent
    if r["text2"] != r["text1"]:
        return "(c) second write differs: %s vs %s" % (_show(r["text2"]), _show(r["text1"]))
    if r["text3"] != r["text1"]:
        return "(c) writing the re-parsed object a second time gives another file: %s vs %s" % (
            _show(r["text3"]), _show(r["text1"]))
    if r.get("purity"):
        return "write() changed the content of the instance it was asked to write: " + r["purity"]
    # (d) model writer as independent writer
    if "parsed_mw" in r:
        if c["tags"]["mw"] != mw[1]:
            return {"kind": "broken-correspondence", "reason": "stale model-written text in the case tags"}
        q = r["parsed_mw"]
        if q[0] != 0:
            return {"kind": "exception", "reason": "(d) parsing the model-written file raised " + str(q[1])}
        if content(q[1]) != expected:
            return "(d) instance parsed from the model-written file differs: " + _first_diff(content(q[1]), expected)
    return None


def nontrivial(c, r, m):
    op, pl = c["op"], c["payload"]
    if op == "c08.tokenize":
        return len(r) >= 2
    if op == "c08.parse":
        return bool(c["tags"].get("dirty"))
    if op == "c08.seq":
        return len(pl[1][7]) >= 1
    prefs = pl[0][7]
    if op == "c08.hist":
        return len(prefs) >= 2 and bool(pl[1])
    return len(prefs) >= 2 and any(len(cat) != 1 for b in prefs for cat in b)


def stats(c, r, m):
    op, pl = c["op"], c["payload"]
    if op == "c08.tokenize":
        return ["tokenize tokens=%s" % (len(r) if len(r) < 4 else ">=4")]
    if op == "c08.parse":
        res = "ok" if r[0] == 0 else "error%d" % r[1]
        return ["parse ac=%d ho=%d %s %s" % (pl[0], pl[1], "file" if pl[2] == 0 else "str", res)]
    if op == "c08.seq":
        return ["seq prelude=%s" % (r.get("prelude") if isinstance(r, dict) else "?")]
    prefs = pl[0][7]
    if op == "c08.cycle":
        return ["cycle %s ballots=%s" % ("file" if pl[1] == 0 else "str", len(prefs) if len(prefs) < 4 else ">=4")]
    if op == "c08.hist":
        return ["hist muts=%d add=%d recompute=%d" % (len(pl[1]), 1 if pl[2] else 0, 1 if pl[3] & 8 else 0)]
    lab = ["rt ballots=%s cats=%d" % (len(prefs) if len(prefs) < 4 else ">=4", pl[0][5])]
    kinds = set()
    for b in prefs:
        for k, cat in enumerate(b):
            pos = "only" if len(b) == 1 else "first" if k == 0 else "last" if k == len(b) - 1 else "middle"
            kinds.add("%s %s" % ("empty" if not cat else "single" if len(cat) == 1 else "multi", pos))
        if any(not b[k] and not b[k + 1] for k in range(len(b) - 1)):
            kinds.add("consecutive empties")
        if b and all(not cat for cat in b):
            kinds.add("all empty")
        if any(list(cat) != sorted(cat) for cat in b):
            kinds.add("category not in increasing order")
    if any(b1 != b2 and [sorted(x) for x in b1] == [sorted(x) for x in b2]
           for n, b1 in enumerate(prefs) for b2 in prefs[n + 1:]):
        kinds.add("ballots differing only inside a category")
    ms = [mu for _, mu in pl[0][8]]
    if len(ms) != len(set(ms)):
        kinds.add("multiplicity tie")
    if [b for b, _ in pl[0][8]] != prefs:
        kinds.add("table key order differs from list order" + (" (all multiplicities distinct)"
                                                                 if len(ms) == len(set(ms)) else ""))
    for idx, nm in ((3, "alternatives_name"), (6, "categories_name")):
        ks = [k for k, _ in pl[0][idx]]
        if ks != sorted(ks):
            kinds.add(nm + " not in ascending key order")
    if pl[1] & 2:
        kinds.add("str category keys")
    if pl[1] & 4:
        kinds.add("parse_lines on a list poisoned afterwards")
    if pl[1] & 16:
        kinds.add("read back by CategoricalInstance(path)")
    if pl[1] & 32:
        kinds.add("read back by get_parsed_instance(path)")
    if pl[1] & 64:
        kinds.add("written over a longer existing file")
    if has_inner_break(pl[0]):
        kinds.add("value with a splitlines-only boundary inside (file entry points only)")
    if pl[0][5] >= 10:
        kinds.add(">= 10 categories")
    if any(("  " in proto.untext(n) or "\t" in proto.untext(n) or "\u00a0" in proto.untext(n))
           for _, n in pl[0][3] + pl[0][6]) or any(
            ("  " in proto.untext(v) or "\t" in proto.untext(v) or "\u00a0" in proto.untext(v)) for v in pl[0][0]):
        kinds.add("double blank / tab / nbsp inside a value")
    if any(n and (chr(n[0]).isdigit() or chr(n[0]) == ":") for _, n in pl[0][6]):
        kinds.add("category name starting with a digit or colon")
    if any(not n for _, n in pl[0][3]) or any(not n for _, n in pl[0][6]):
        kinds.add("empty name")
    return lab + ["rt has " + k for k in sorted(kinds)]


def describe(c):
    op, pl = c["op"], c["payload"]
    if op == "c08.tokenize":
        return {"string": proto.untext(pl)}
    if op == "c08.parse":
        return {"autocorrect": pl[0], "header_only": pl[1], "entry": "parse_file" if pl[2] == 0 else "parse_str",
                "content": proto.untext(pl[3])}
    if op == "c08.seq":
        dd = describe({"op": "c08.rt", "payload": [pl[1], pl[2]], "tags": {}})
        dd["first, in the same process"] = (
            {"parse (autocorrect, header_only)": [pl[0][1], pl[0][2]], "content": proto.untext(pl[0][3])}
            if pl[0][0] == 0 else {"build, write and parse another instance": describe(
                {"op": "c08.rt", "payload": [pl[0][1], pl[2]], "tags": {}})})
        return dd
    p = pl[0]
    if op == "c08.hist":
        dd = describe({"op": "c08.rt", "payload": [p, pl[3]], "tags": {}})
        dd["then"] = {"multiplicity[ballot #i] += k (and num_voters += k)": pl[1], "append ballot": pl[2]}
        return dd
    return {"entry": "parse_lines (list poisoned afterwards)" if pl[1] & 4 else "parse_str" if pl[1] & 1 else
            "CategoricalInstance(path)" if pl[1] & 16 else "get_parsed_instance" if pl[1] & 32 else "parse_file",
            "written over a longer existing file": bool(pl[1] & 64),
            "categories_name keyed by str": bool(pl[1] & 2), "kind": op,
            "metadata": {f: proto.untext(v) for f, v in zip(FIELDS, p[0])},
            "num_alternatives": p[1], "num_voters": p[2], "num_unique_preferences": p[4], "num_categories": p[5],
            "alternatives_name": {a: proto.untext(n) for a, n in p[3]},
            "categories_name": {a: proto.untext(n) for a, n in p[6]},
            "preferences": p[7], "multiplicity": p[8]}


def shrink(c):
    op, pl = c["op"], c["payload"]
    tags = {k: v for k, v in c["tags"].items() if k != "mw"}
    if op == "c08.tokenize":
        for k in range(len(pl)):
            yield dict(c, payload=pl[:k] + pl[k + 1:])
        return
    if op == "c08.parse":
        lines = proto.untext(pl[3]).split("\n")
        for k in range(len(lines)):
            yield dict(c, payload=[pl[0], pl[1], pl[2], T("\n".join(lines[:k] + lines[k + 1:]))])
        return
    if op == "c08.seq":
        for c2 in shrink({"op": "c08.rt", "payload": [pl[1], pl[2]], "tags": tags}):
            yield dict(c, payload=[pl[0], c2["payload"][0], pl[2]], tags=tags)
        return
    if op == "c08.hist":
        p, muts, add, mode = pl
        for k in range(len(muts)):
            yield dict(c, payload=[p, muts[:k] + muts[k + 1:], add, mode], tags=tags)
        if add:
            yield dict(c, payload=[p, muts, [], mode], tags=tags)
        return
    p, mode = pl
    for k in range(len(p[7])):           # drop a ballot
        b = p[7][k]
        q = list(p)
        q[7] = p[7][:k] + p[7][k + 1:]
        q[8] = [e for e in p[8] if e[0] != b]
        if q[7]:
            yield dict(c, payload=[q, mode], tags=tags)
    for k in range(len(p[8])):           # lower a multiplicity
        if p[8][k][1] > 1:
            q = list(p)
            q[8] = p[8][:k] + [[p[8][k][0], 1]] + p[8][k + 1:]
            yield dict(c, payload=[q, mode], tags=tags)
    for idx in (3, 6):                   # shorten names
        for k in range(len(p[idx])):
            if p[idx][k][1]:
                q = list(p)
                q[idx] = p[idx][:k] + [[p[idx][k][0], []]] + p[idx][k + 1:]
                yield dict(c, payload=[q, mode], tags=tags)
    if any(p[0][k] for k in range(9) if k != 3):
        q = list(p)
        q[0] = [v if k == 3 else [] for k, v in enumerate(p[0])]
        yield dict(c, payload=[q, mode], tags=tags)


# ------------------------------------------------------------------------------------------------
# generators

SEPS = "#:{},; _-/\\\"'()[]=+*"
LETTERS = "abcXYZ019"
UNI = "\u00e9\u4e2d\u00df\u03a9\u0436 \u3000\u00a0\t\x1f\U0001d518\U0001f600\u0660\u0967"   # inner whitespace, astral chars, non-ASCII digits
LINEBREAKS = set("\n\r\x0b\x0c\x1c\x1d\x1e\x85\u2028\u2029")


def rand_text(rng, maxlen=12, allow_empty=True):
    """single-line text without outer whitespace (may be empty)"""
    n = rng.randint(0 if allow_empty else 1, maxlen)
    if n == 0:
        return ""
    pool = rng.choice([LETTERS, LETTERS + SEPS, LETTERS + SEPS + UNI, SEPS, "# ALTERNATIVE NAME 1: x", "__1"])
    s = "".join(rng.choice(pool) for _ in range(n))
    s = "".join(ch for ch in s if ch not in LINEBREAKS).strip()
    return s


# whitespace INSIDE a value (double blanks, tabs, U+00A0), values starting with a digit or a colon
WS_VALUES = ["a  b", "x \t y", "p\u00a0\u00a0q", "1st  place", ":  colon", "12", "2: two", "tab\there", "3\u00a0000",
             "1", "10", "21 x", ":", ":1", "a   b    c", "\u00a0".join("ab"), "1:1", "0", "Cat  1", "{1, 2}  {}"]


def rand_name(rng):
    r = rng.random()
    if r < 0.12:
        return ""
    if r < 0.3:
        return rng.choice(["X", "X__1", "X__2", "Y", "Y__1", "# CATEGORY NAME 2: Z", "1", ": x", ":"])
    if r < 0.45:
        return rng.choice(WS_VALUES)
    return rand_text(rng, 10)


def inner_break_text(rng):
    """single line for a FILE reader: one of the eight splitlines-only boundaries strictly inside"""
    a = rng.choice(["a", "x1", "Title", "1", ":", "é", "A  B"])
    b = rng.choice(["b", "9", "z}", "end", "B\tC"])
    mid = "".join(rng.choice(INNER_BREAKS) for _ in range(rng.randint(1, 2)))
    return a + rng.choice(["", " ", "m"]) + mid + rng.choice(["", " ", "n"]) + b


def with_inner_breaks(p, rng):
    q = list(p)
    q[0] = list(p[0])
    where = rng.sample(["meta", "alt", "cat", "meta"], rng.randint(1, 3))
    if "meta" in where or (not p[3] and not p[6]):
        for k in rng.sample([0, 1, 2, 4, 5, 6, 7, 8], rng.randint(1, 3)):
            q[0][k] = T(inner_break_text(rng))
    if "alt" in where and p[3]:
        q[3] = [[a, T(inner_break_text(rng)) if rng.random() < 0.6 else n] for a, n in p[3]]
    if "cat" in where and p[6]:
        q[6] = [[c, T(inner_break_text(rng)) if rng.random() < 0.6 else n] for c, n in p[6]]
    if not has_inner_break(q):
        q[0][1] = T(inner_break_text(rng))
    return q


def decouple(p, rng, how=None):
    """the same instance with the multiplicity dict keyed in another order than the preferences list"""
    q = list(p)
    tab = [list(e) for e in p[8]]
    how = how or rng.choice(["reverse", "pop", "shuffle", "list"])
    if how == "reverse":
        tab.reverse()
    elif how == "pop" and tab:                      # d[k] = d.pop(k): one key moves to the end
        tab.append(tab.pop(rng.randrange(len(tab))))
    elif how == "shuffle":
        rng.shuffle(tab)
    else:                                           # the list is reordered instead
        q[7] = list(reversed(p[7])) if rng.random() < 0.5 else rng.sample(p[7], len(p[7]))
    q[8] = tab
    return q


def rand_meta(rng):
    meta = {}
    for f in FIELDS:
        if f == "data_type":
            continue
        if rng.random() < 0.6:
            meta[f] = rand_text(rng, 14) if rng.random() < 0.8 else rng.choice(WS_VALUES)
    if rng.random() < 0.15:
        meta["title"] = rng.choice(["# NUMBER VOTERS: 7", "1: 2, 3", "# DATA TYPE: soc", "# CATEGORY NAME 1: q"])
    return meta


def placements(alts, k):
    """every way to put each alternative into one of k categories or leave it unplaced (ascending inside)"""
    for assign in itertools.product(range(k + 1), repeat=len(alts)):
        yield [[a for a, g in zip(alts, assign) if g == j] for j in range(k)]


def simple_instance(ballots_mult, k, alts, names=None):
    return mk_payload(ballots_mult, k, [(j + 1, "Cat %d" % (j + 1)) for j in range(k)],
                      [(a, (names or {}).get(a, "Alt %d" % a)) for a in alts],
                      {"file_name": "f.cat", "title": "t"})


def rand_ballot(rng, ids, k):
    pool = list(ids)
    rng.shuffle(pool)
    pool = pool[: rng.randint(0, len(pool))]
    style = rng.random()
    b = [[] for _ in range(k)]
    for a in pool:
        if style < 0.25:
            j = rng.choice([0, k - 1])            # empties in the middle
        elif style < 0.5:
            j = rng.randrange(k // 2, k)          # empties first
        else:
            j = rng.randrange(k)
        b[j].append(a)
    return b


def rand_instance(rng):
    m = rng.randint(0, 10)
    k = rng.randint(1, 5) if rng.random() < 0.93 else rng.randint(10, 12)
    big = rng.choice([1, 1, 2, 6, 18, 30])
    ids = []
    while len(ids) < m:
        a = rng.randrange(0, 10 ** big + 20)
        if a not in ids:
            ids.append(a)
    nb = rng.randint(1, 8)
    ballots = []
    for _ in range(nb * 3):
        b = rand_ballot(rng, ids, k)
        if b not in ballots:
            ballots.append(b)
        if len(ballots) >= nb:
            break
    if rng.random() < 0.3:
        for b in list(ballots):
            big_cats = [j for j, cat in enumerate(b) if len(cat) >= 2]
            if big_cats and rng.random() < 0.5:
                j = rng.choice(big_cats)
                tw = [list(cat) for cat in b]
                tw[j] = tw[j][::-1] if rng.random() < 0.5 else rng.sample(tw[j], len(tw[j]))
                if tw not in ballots:
                    ballots.append(tw)
    mstyle = rng.random()
    if mstyle < 0.25:
        mults = [rng.choice([1, 2, 3]) for _ in ballots]                 # many ties
    elif mstyle < 0.4:
        mults = rng.sample(range(1, 60), len(ballots))                   # pairwise different
    elif mstyle < 0.5:
        mults = [rng.choice([1, 7])] * len(ballots)                      # all tied
    else:
        mults = [rng.choice([1, 2, 5, 10 ** rng.randint(0, 25) + rng.randint(0, 9)]) for _ in ballots]
    named = ids if rng.random() < 0.8 else ids[: len(ids) // 2]
    alt_names = [(a, rand_name(rng)) for a in named]
    if rng.random() < 0.4:
        rng.shuffle(alt_names)                          # registered in discovery order, not ascending
    r = rng.random()
    cat_ids = (list(range(1, k + 1)) if r < 0.6 else list(range(k, 0, -1)) if r < 0.7
               else rng.sample(range(1, k + 1), k) if r < 0.8 else rng.sample(range(0, 50), k))
    if rng.random() < 0.15:
        cat_ids = cat_ids[: rng.randint(0, k)]          # fewer names than categories
    cat_names = [(c, rand_name(rng)) for c in cat_ids]
    counts = None
    if rng.random() < 0.15:
        counts = (rng.randint(0, 30), rng.randint(0, 10 ** 12), rng.randint(0, 30))   # header numbers are copied
    p = mk_payload(list(zip(ballots, mults)), k, cat_names, alt_names, rand_meta(rng), counts)
    if rng.random() < 0.4:
        p = decouple(p, rng)
    return p


def storage_order_cases():
    """hand-written: list order and dict key order decoupled, names not ascending, from_ordinal-like str keys"""
    out = []
    twins = mk_payload([([[2, 1], [3]], 7), ([[1, 2], [3]], 2)], 2, [(2, "b"), (1, "a")],
                       [(3, "z"), (1, "x"), (2, "y")], {})
    out.append((decouple(twins, None, "reverse"), 0))
    three = mk_payload([([[1], [2, 3]], 5), ([[2], [3, 1]], 3), ([[3], []], 1)], 2, [(1, "yes"), (2, "no")],
                       [(3, "c"), (1, "a"), (2, "b")], {})
    out.append((decouple(three, None, "reverse"), 1))
    q = list(three)
    q[8] = [three[8][1], three[8][2], three[8][0]]
    out.append((q, 0))
    q = list(three)
    q[7] = [three[7][2], three[7][0], three[7][1]]
    out.append((q, 4))
    for k in (10, 11, 12):                              # what from_ordinal leaves: str keys "1".."k", names Cat_k
        cats = [(j, "Cat_%d" % j) for j in range(1, k + 1)]
        b1 = [[j] for j in range(1, k + 1)]
        b2 = [[k + 1 - j] if j % 2 else [] for j in range(1, k + 1)]
        b3 = [[]] * (k - 1) + [list(range(k, 0, -1))]
        pl = mk_payload([(b1, 4), (b2, 9), (b3, 6)], k, cats, [(j, "Alternative %d" % j) for j in range(1, k + 1)], {})
        out.append((pl, 2))
        out.append((decouple(pl, None, "reverse"), 3))
        out.append((decouple(pl, None, "reverse"), 6))
    return out


def corpus_like():
    """hand-written adjacency cases (also kept in corpus/C08)"""
    out = []
    k3 = [([[], [1], [2, 3]], 2), ([[1, 2], [], []], 2), ([[], [], [1]], 1), ([[1], [], [2]], 1),
          ([[], [], []], 1), ([[1, 2, 3], [], []], 5), ([[3], [2], [1]], 5), ([[], [1, 2], []], 1)]
    out.append(mk_payload(k3, 3, [(1, ""), (2, "B"), (3, "")], [(1, ""), (2, "two"), (3, "")],
                          {"file_name": "f.cat"}))
    out.append(mk_payload([([[]], 1)], 1, [(1, "")], [], {}))
    # alternatives inside a category in non-increasing order; ballots that differ only inside a category
    out.append(mk_payload([([[3, 1], [2], [6, 5, 4]], 4)], 3, [(1, "a"), (2, "b"), (3, "c")],
                          [(k, "A%d" % k) for k in range(1, 7)], {}))
    out.append(mk_payload([([[2, 1], [3]], 7), ([[1, 2], [3]], 2)], 2, [(1, "a"), (2, "b")],
                          [(1, "x"), (2, "y"), (3, "z")], {}))
    out.append(mk_payload([([[1, 2], [3]], 2), ([[2, 1], [3]], 2), ([[3], [1, 2]], 2), ([[3], [2, 1]], 2)], 2,
                          [(1, "a"), (2, "b")], [(1, "x"), (2, "y"), (3, "z")], {}))
    out.append(mk_payload([([[7]], 3), ([[]], 3), ([[7, 8]], 3)], 1, [(1, "only")], [(7, "a"), (8, "")], {}))
    out.append(mk_payload([([[], []], 1), ([[1], []], 1), ([[], [1]], 1)], 2, [(1, "yes"), (2, "no")], [(1, "x")],
                          {"title": "", "description": "d"}))
    return out


TOK_ALPHA = "{{}},,,0123456789 a:-"


def tokenizer_strings(rng, n):
    out = ["", "{", "}", "{}", "{,}", "{{1}", "{1{2}", "{1", "1}{", "{}{}", "{1,2", "a1b{,,}c{}}", "{12{}", ",,",
           "{1,2}3", "{a}", "{1a}", "{}}", "{{}}", "}{", "1,{},{2,3},{}", "{},{},{}", "{1,}{,2}", "12{34}56{"]
    for _ in range(n):
        r = rng.random()
        if r < 0.35:
            k = rng.randint(0, 5)
            b = [[rng.randint(0, 120) for _ in range(rng.choice([0, 0, 1, 1, 2, 3]))] for _ in range(k)]
            s = ",".join("{}" if not c else str(c[0]) if len(c) == 1 else "{" + ",".join(map(str, c)) + "}" for c in b)
            if rng.random() < 0.4 and s:          # damage it
                pos = rng.randrange(len(s))
                s = s[:pos] + rng.choice(["", "{", "}", ",", "x", " "]) + s[pos + rng.randint(0, 1):]
        else:
            s = "".join(rng.choice(TOK_ALPHA) for _ in range(rng.randint(0, 14)))
        out.append(s)
    return out


def clean_content(rng):
    """a syntactically clean file body produced by hand (not through write), LF separated"""
    k = rng.randint(1, 3)
    m = rng.randint(1, 4)
    lines = ["# FILE NAME: q.cat", "# TITLE: " + rand_text(rng, 6), "# DATA TYPE: cat",
             "# NUMBER ALTERNATIVES: %d" % m, "# NUMBER VOTERS: 9", "# NUMBER UNIQUE PREFERENCES: 3",
             "# NUMBER CATEGORIES: %d" % k]
    for j in range(1, k + 1):
        lines.append("# CATEGORY NAME %d: C%d" % (j, j))
    for a in range(1, m + 1):
        lines.append("# ALTERNATIVE NAME %d: A%d" % (a, a))
    seen = []
    for _ in range(rng.randint(1, 4)):
        b = rand_ballot(rng, range(1, m + 1), k)
        if b in seen:
            continue
        seen.append(b)
        lines.append("%d: %s" % (rng.randint(1, 5), ", ".join(
            "{}" if not c else str(c[0]) if len(c) == 1 else "{" + ", ".join(map(str, c)) + "}" for c in b)))
    return lines


NAME_POOL = ["X", "X", "X__1", "X__2", "X__1__1", "Y", "", "Y__1", "Z z", "X"]


def dirty_content(rng):
    lines = []
    hdr = ["# FILE NAME: d.cat", "# TITLE: dirty", "# DESCRIPTION:", "# DATA TYPE: cat", "# MODIFICATION TYPE: original",
           "# RELATES TO:", "# RELATED FILES: a.cat,b.cat", "# PUBLICATION DATE: 2020-01-01",
           "# MODIFICATION DATE: 2021-02-02", "# NUMBER ALTERNATIVES: %d" % rng.randint(0, 9),
           "# NUMBER VOTERS: %d" % rng.randint(0, 99), "# NUMBER UNIQUE PREFERENCES: %d" % rng.randint(0, 9),
           "# NUMBER CATEGORIES: %d" % rng.randint(0, 4), "# SOMETHING ELSE: 1", "#", "# NUMBER UNIQUE PREFERENCES:7",
           "# NUMBER CATEGORIES:  2  ", "# ALTERNATIVE NAME x: y", "# CATEGORY NAME: none", "# ALTERNATIVE NAME 3:noSpace",
           "# CATEGORY NAME 9:  two spaces"]
    for _ in range(rng.randint(0, 8)):
        lines.append(rng.choice(hdr))
    ncat = rng.randint(0, 5)
    for _ in range(ncat):
        lines.append("# CATEGORY NAME %d: %s" % (rng.choice([1, 2, 3, 4, 2]), rng.choice(NAME_POOL)))
    for _ in range(rng.randint(0, 6)):
        lines.append("# ALTERNATIVE NAME %d: %s" % (rng.choice([1, 2, 3, 4, 5, 6, 2]), rng.choice(NAME_POOL)))
    rng.shuffle(lines)
    if rng.random() < 0.25:
        lines = ["  " + l + " \t" if rng.random() < 0.5 else l for l in lines]
    ballots = ["1: 1, 2", "2: {1, 2}, {}", "1:1,2", "3: {}, {}", "1: {1,2},{}", "4: 2, 1", "1: 1, 2", "10: {}, 3",
               "2: {1 , 2} , { }", "1:", "1: {,}", "007: 1", "1\t: 1\t,2", "2 :{1 ,\t2}, {\t}", "3:\u00a01, 2",
               "\u30001 : 2,{ } ", "1: {1, 2}, 3}", "1: {{1, 2}, 3", "1: 1;2", "2: {1 2}, 3"]
    body = [rng.choice(ballots) for _ in range(rng.randint(0, 7))]
    r = rng.random()
    if r < 0.08:
        body.insert(rng.randint(0, len(body)), rng.choice(["", "abc", "1: 2: 3", "x: 1", ": 1", "# TITLE: late", "1 2"]))
    elif r < 0.12:
        body.append("")
    elif r < 0.16:
        body = []
    return lines + body


def generate(tier, seed):
    rng = random.Random(1000003 * seed + 8)
    quick = tier == "quick"
    insts = []           # (payload, tags)
    # --- exhaustive placements ---
    for k in (1, 2, 3):
        for m in (0, 1, 2, 3):
            alts = list(range(1, m + 1))
            allb = list(placements(alts, k))
            for b in allb:
                insts.append((simple_instance([(b, 1)], k, alts), {"exh": 1}))
            # all of them in one file: distinct multiplicities, then heavy ties
            insts.append((simple_instance([(b, len(allb) - n) for n, b in enumerate(allb)], k, alts), {"exh": 1}))
            insts.append((decouple(simple_instance([(b, 1 + n) for n, b in enumerate(allb)], k, alts), None,
                                   "reverse"), {"exh": 1}))
            insts.append((simple_instance([(b, 1 + (n % 2)) for n, b in enumerate(allb)], k, alts), {"exh": 1}))
    for k in (1, 2, 3):
        for m in (2, 3):
            for perm in itertools.permutations(range(1, m + 1)):
                if list(perm) == sorted(perm):
                    continue
                for b in placements(list(perm), k):
                    if any(cat != sorted(cat) for cat in b):
                        insts.append((simple_instance([(b, 2)], k, sorted(perm)), {"exh": 1}))
    if not quick:
        for k in (1, 2, 3):
            allb = list(placements([1, 2], k)) + list(placements([2, 1], k))
            allb = [b for n, b in enumerate(allb) if b not in allb[:n]]
            for b1 in allb:
                for b2 in allb:
                    if b1 != b2:
                        for m1, m2 in ((1, 1), (1, 2), (2, 1)):
                            insts.append((simple_instance([(b1, m1), (b2, m2)], k, [1, 2]), {"exh": 1}))
    for p in corpus_like():
        insts.append((p, {"hand": 1}))
    # outside the quantifier, accepted by the code: a ballot with zero categories ("1: " is written and read back)
    insts.append((mk_payload([([], 3)], 0, [], [(1, "a")], {}), {"hand": 1}))
    # --- random ---
    for _ in range(700 if quick else 12000):
        insts.append((rand_instance(rng), {}))
    # values with a splitlines-only boundary inside: single-line for the FILE entry points only
    n_plain = len(insts)
    for _ in range(150 if quick else 2500):
        insts.append((with_inner_breaks(rand_instance(rng), rng), {"inner": 1}))
    for p in corpus_like()[:3]:
        insts.append((with_inner_breaks(p, rng), {"inner": 1}))
    # model-written text for check (d)
    mws = oracle.run_parallel([("c08.write", normalise_fname(p)) for p, _ in insts], nproc=8)
    out = []
    for n, ((p, tags), mw) in enumerate(zip(insts, mws)):
        tags = dict(tags)
        if isinstance(mw, list) and mw and mw[0] == 0:
            tags["mw"] = mw[1]
        mode = n % 2
        if rng.random() < 0.2:
            mode |= 2                   # categories_name keyed by str
        if rng.random() < 0.15:
            mode |= 4                   # parse_lines on a list that is poisoned afterwards
        if tags.get("inner"):
            mode &= 2                   # file entry points only
        if mode & 5 == 0:
            mode |= rng.choice([0, 16, 32])      # parse_file / constructor with path / get_parsed_instance
        if rng.random() < 0.4:
            mode |= 64                  # the destination already holds a longer file
        out.append(case("c08.rt", [p, mode], **tags))
    inner = [p for p, t in insts[n_plain:]]
    insts = insts[:n_plain]             # the histories below choose their own entry point
    for n, p in enumerate(inner[: (40 if quick else 600)]):
        out.append(case("c08.cycle", [p, 64 if n % 2 else 0]))
        if p[7] and len(p[7]) == len(p[8]):
            out.append(case("c08.hist", [p, [[0, 3 + n]], [], rng.choice([0, 16, 32]) | 64]))
    for p, mode in storage_order_cases():
        out.append(case("c08.rt", [p, mode], hand=1))
        out.append(case("c08.cycle", [p, mode]))
    # --- object lifetime: something else is parsed / built first in the same process ---
    texts = {}
    for (p, _), mw in zip(insts, mws):
        if isinstance(mw, list) and mw and mw[0] == 0 and p[6]:
            texts.setdefault(len(p[6]), []).append((p, mw[1]))
    wide = [e for k_, l in texts.items() if k_ >= 3 for e in l]
    narrow = [p for p, _ in insts if 1 <= p[5] <= 2 and len(p[7]) == len(p[8]) and p[7]]
    four = mk_payload([([[1], [2], [], [3]], 2), ([[], [], [1, 2, 3], []], 1)], 4,
                      [(1, "best"), (2, "good"), (3, "bad"), (4, "worst")], [(1, "a"), (2, "b"), (3, "c")], {})
    four_text = oracle.run([("c08.write", normalise_fname(four))])[0][1]
    two = mk_payload([([[1, 2], [3]], 3), ([[3], []], 1)], 2, [(1, "yes"), (2, "no")], [(1, "a"), (2, "b"), (3, "c")], {})
    for mode in (0, 1, 4):
        out.append(case("c08.seq", [[0, 0, 0, four_text], two, mode]))
        out.append(case("c08.seq", [[0, 1, 1, four_text], two, mode]))
        out.append(case("c08.seq", [[0, 0, 0, four_text + T("oops\n")], two, mode]))     # the first parse raises
        out.append(case("c08.seq", [[1, four], two, mode]))
    for n in range(200 if quick else 3000):
        p = narrow[rng.randrange(len(narrow))]
        mode = rng.choice([0, 1, 1, 0, 4, 2, 3])
        r = rng.random()
        if r < 0.45 and wide:
            _, text = wide[rng.randrange(len(wide))]
            pre = [0, int(rng.random() < 0.3), int(rng.random() < 0.2), text]
        elif r < 0.6 and wide:
            _, text = wide[rng.randrange(len(wide))]
            pre = [0, int(rng.random() < 0.3), 0, text + T(rng.choice(["", "abc\n", "1: 2: 3\n", "x: 1\n"]))]
        elif r < 0.75:
            pre = [0, int(rng.random() < 0.5), int(rng.random() < 0.3), T("\n".join(dirty_content(rng)) + "\n")]
        else:
            other = rand_instance(rng)
            other = list(other)
            other[3] = [[a, T(rand_name(rng))] for a, _ in p[3]] or other[3]      # same ids, other names
            pre = [1, other]
        out.append(case("c08.seq", [pre, p, mode | rng.choice([0, 64])]))
    # --- histories on one object: write -> change -> write ; parse -> write -> parse -> parse ---
    def history(p):
        nb = len(p[8])
        top = max(m for _, m in p[8])
        muts = []
        for _ in range(rng.randint(1, 3)):
            idx = rng.randrange(nb)
            muts.append([idx, rng.choice([1, top, top + 1, max(1, top - p[8][idx][1]), 10 ** 20])])
        add = []
        if rng.random() < 0.5:
            k = p[5]
            ids = [a for a, _ in p[3]] or [1, 2]
            for _ in range(5):
                b = rand_ballot(rng, ids, k)
                if b not in p[7]:
                    add = [b, rng.choice([1, top, top + 3])]
                    break
        return muts, add
    hist_src = [p for p, _ in insts if len(p[7]) >= 1 and len(p[7]) == len(p[8])]
    nh = 350 if quick else 5000
    for n in range(nh):
        p = hist_src[rng.randrange(len(hist_src))] if n % 3 else rand_instance(rng)
        muts, add = history(p)
        mode = n % 2
        consistent = p[2] == sum(m for _, m in p[8]) and p[4] == len(p[7])
        if consistent and rng.random() < 0.4:
            mode |= 8                   # recompute_cardinality_param() before the second write
        if rng.random() < 0.2:
            mode |= 2
        if rng.random() < 0.5:
            mode |= 64
        out.append(case("c08.hist", [p, muts, add, mode]))
    hand = corpus_like()
    out.append(case("c08.hist", [hand[-2], [[1, 6]], [], 0]))            # the x2 twin overtakes the x7 one
    out.append(case("c08.hist", [hand[-2], [[1, 5]], [[[1], [2, 3]], 7], 1]))
    for n in range(150 if quick else 2500):
        p = hist_src[rng.randrange(len(hist_src))] if n % 3 else rand_instance(rng)
        out.append(case("c08.cycle", [p, (n % 2) | rng.choice([0, 0, 2, 4])]))
    for p in hand:
        out.append(case("c08.cycle", [p, 0]))
        out.append(case("c08.cycle", [p, 1]))
    # --- tokenizer ---
    for s in tokenizer_strings(rng, 3000 if quick else 40000):
        out.append(case("c08.tokenize", T(s)))
    # --- parse with flags ---
    npar = 250 if quick else 4000
    for n in range(npar):
        dirty = rng.random() < 0.75
        lines = dirty_content(rng) if dirty else clean_content(rng)
        sep = "\n" if rng.random() < 0.85 else rng.choice(["\r\n", "\r"])
        s = sep.join(lines) + (sep if rng.random() < 0.8 else "")
        for ac in (0, 1):
            for ho in (0, 1):
                out.append(case("c08.parse", [ac, ho, n % 2, T(s)], dirty=int(dirty)))
    for s in ["", "\n", "# TITLE: x\n", "# TITLE: x\n# NUMBER VOTERS: 3\n", "1: 1\n\n", "1: {}, {}\n", "1: \n",
              "# ALTERNATIVE NAME 1: X\n# ALTERNATIVE NAME 2: X\n# ALTERNATIVE NAME 3: X__1\n1: 1\n1: 1\n"]:
        for ac in (0, 1):
            for ho in (0, 1):
                for mode in (0, 1):
                    out.append(case("c08.parse", [ac, ho, mode, T(s)], dirty=1))
    only = os.environ.get("C08_ONLY")          # debugging aid: restrict the campaign to some case kinds
    if only:
        out = [c for c in out if c["op"].split(".")[1] in only.split(",")]
    return out
