"""C03 — is_single_peaked (Escoffier-Lang-Ozturk) on strict complete profiles: exact verdict + valid axis.

Case  c03.sp   payload [alts, rankings, mults, mode, cores]
   rankings : flat strict rankings (distinct), in storage order;  mults : multiplicities
   mode 1   : small profile - the verdict must equal the verified reference  c03.decide  (sp_decide_correct)
   mode 0   : large profile - no reference run; expected verdict only known through `cores`
   cores    : list of small alternative sets S; if the model refutes the restriction of the profile to some S
              (c03.decide = false) the whole profile is not single-peaked (theorem sp_restrict) and the
              implementation must answer False
   Whenever the implementation answers True its axis goes through the verified checker c03.check_axis
   (check_axis_correct) - at every size."""
import itertools
import random

from . import common
from .common import case, guarded, ordinal_instance, strict, rand_perm

ID = "C03"
RULE = ("exhaustive: every non-empty set of distinct strict orders over m <= 3 alternatives, every set of <= 3 orders "
        "over m = 4 (thorough: <= 4), each in both storage orders; every 2-voter profile over 4 alternatives under two "
        "non-contiguous id maps (0 included); every 2-voter profile over 5 alternatives + a common bottom; profiles "
        "sharing best and second-best; sampled 3-4 voters over 4-6 alternatives; common-bottom alternatives added with "
        "probability 0.3 to planted profiles; random m <= 7 (thorough 8), n <= 8: mixtures of planted "
        "single-peaked votes (Conitzer / Walsh style from a hidden axis) and random votes, arbitrary ids, multiplicities; "
        "planted profiles m <= 40, n <= 30 (axis through the verified checker only); large negatives = planted profile + "
        "noise with an embedded 3-4 alternative core refuted by the reference (sp_restrict). "
        "On EVERY case the verdict is also compared with the mirror of the algorithm (op c03.elo, Model/ELO.v); volume block "
        "against the mirror: thousands of planted profiles m = 7..10, n = 2..3 (Walsh / Conitzer / correlated bottom-up) "
        "and profiles whose elimination alternates single- and two-candidate rounds; profiles with MANY distinct orders "
        "(subsets of every size above m(m-1)/2+1 of the 2^(m-1) single-peaked orders of an axis, m = 4..7, +/- one bad order). "
        "non-trivial = >= 3 alternatives and >= 2 distinct orders")
EXHAUSTIVE = {"quick": "all sets of distinct strict orders m<=3; all sets of <=3 orders m=4; both storage orders; all 2-voter "
                       "profiles m=4 under non-contiguous ids; all 2-voter profiles m=5 + common bottom",
              "thorough": "all sets of distinct strict orders m<=3; all sets of <=4 orders m=4; both storage orders"}
TRUSTED = ["is_single_peaked (Escoffier-Lang-Ozturk) is MIRRORED statement by statement (Model/ELO.v) and the mirror is "
           "proved terminating, error-free, sound and complete for every well-formed strict profile (elo_terminates, "
           "elo_no_error, elo_sound, elo_complete, elo_correct); what is trusted is the correspondence itself: that the "
           "Python function behaves like the mirror - checked on every case of every run (verdict equal at every size; "
           "the returned axis is additionally sent through the verified checker and compared with the mirror's axis as a "
           "statistic); flatten_strict is exercised through it"]
ASSUMPTIONS = ["ids are arbitrary Python ints (negative ones included); the model works on N, so a profile with negative ids is "
               "sent to the oracle relabelled by the injective shift id -> id - min id (sound: sp_decide_relabel, "
               "spw_decide_relabel; witnesses are shifted the same way before the checker)",
               "data_type = soc, every order ranks every alternative exactly once, >= 1 order, orders distinct "
               "(quantifier of C03)"]
COVER_FILES = ['properties/subdomains/ordinal/singlepeaked/singlepeakedness.py']
TIMEOUT_S = 30.0
CHUNK = 40
THEOREMS_FOR_OP = {"c03.hist": "elo_correct / sp_check_axis_correct on the orders the instance holds", "c03.sp": "sp_decide_correct / sp_check_axis_correct / sp_restrict / elo_sound / elo_complete"}


# ------------------------------------------------------------------------------------------------ generators
def conitzer(rng, axis):
    """random peak, then extend to the left or right with probability 1/2"""
    m = len(axis)
    l = r = rng.randrange(m)
    out = [axis[l]]
    while l > 0 or r < m - 1:
        if l == 0:
            r += 1
            out.append(axis[r])
        elif r == m - 1:
            l -= 1
            out.append(axis[l])
        elif rng.random() < 0.5:
            l -= 1
            out.append(axis[l])
        else:
            r += 1
            out.append(axis[r])
    return out


def walsh(rng, axis):
    """uniform over the 2^(m-1) single-peaked rankings: the last-ranked alternative is an end of the remaining interval"""
    l, r = 0, len(axis) - 1
    rev = []
    while l < r:
        if rng.random() < 0.5:
            rev.append(axis[l])
            l += 1
        else:
            rev.append(axis[r])
            r -= 1
    rev.append(axis[l])
    return rev[::-1]


def distinct(rs):
    out = []
    for r in rs:
        if r not in out:
            out.append(r)
    return out


def find_cores(rng, alts, rankings, extra=4):
    """candidate small cores: triples whose three members are each ranked last (within the triple) by some vote,
    plus a few random 4-sets; the MODEL decides whether a candidate is really refuted"""
    cores = []
    m = len(alts)
    pos = [{a: i for i, a in enumerate(r)} for r in rankings]
    trip = list(itertools.combinations(alts, 3))
    rng.shuffle(trip)
    for t in trip[:3000]:
        lasts = {max(t, key=lambda a: p[a]) for p in pos}
        if len(lasts) == 3:
            cores.append(list(t))
            break
    if m >= 4:
        for _ in range(extra):
            cores.append(rng.sample(alts, 4))
    return cores


def _shift(x, off):
    """ids are arbitrary integers for the implementation; the model works on N: every id is sent as id + off
    (off = -min id when negative ids occur) - an injective relabelling, under which the reference, the mirror and the
    checker are invariant (sp_decide_relabel / spw_decide_relabel; the mirror compares ids only for equality)"""
    if off == 0:
        return x
    if isinstance(x, list):
        return [_shift(y, off) for y in x]
    return x + off


def _off(alts):
    return max(0, -min(alts)) if alts else 0


def rounds_pattern(rankings):
    """sizes of the successive sets of last-ranked candidates when all of them are removed at every round (the
    elimination schedule of Escoffier-Lang-Ozturk, ignoring early exits); stops at a round with >= 3 candidates"""
    rs = [list(r) for r in rankings]
    pat = []
    while rs and rs[0]:
        lasts = []
        for r in rs:
            if r[-1] not in lasts:
                lasts.append(r[-1])
        pat.append(len(lasts))
        if len(lasts) >= 3:
            break
        rs = [[a for a in r if a not in lasts] for r in rs]
    return pat


def alternating(pat):
    """after the two ends are opened: a single-candidate round, later a two-candidate round, later another
    single-candidate round that is not the last one (needs >= 7 alternatives)"""
    if 2 not in pat:
        return False
    rest = pat[pat.index(2) + 1:]
    for a in range(len(rest)):
        if rest[a] == 1:
            for b in range(a + 1, len(rest)):
                if rest[b] == 2:
                    for c_ in range(b + 1, len(rest) - 1):
                        if rest[c_] == 1:
                            return True
    return False


def corr_votes(rng, axis, n, p_same):
    """single-peaked votes read bottom-up as left/right end removals; the voters copy the choices of the first one
    with probability p_same (many rounds with a single common bottom)"""
    m = len(axis)
    base = [rng.random() < 0.5 for _ in range(m)]
    out = []
    for k in range(n):
        l, r = 0, m - 1
        rev = []
        for step in range(m - 1):
            ch = base[step] if (k == 0 or rng.random() < p_same) else (rng.random() < 0.5)
            if ch:
                rev.append(axis[l])
                l += 1
            else:
                rev.append(axis[r])
                r -= 1
        rev.append(axis[l])
        out.append(rev[::-1])
    return out


def add_common_bottoms(rng, alts, votes, k):
    """append k fresh alternatives ranked last, in the same order, by every voter (nested common bottoms)"""
    extra = []
    hi = max(alts) + 50
    while len(extra) < k:
        x = rng.randrange(0, hi)
        if x not in alts and x not in extra:
            extra.append(x)
    return list(alts) + extra, [list(v) + extra for v in votes]


def common_bottom_depth(rankings):
    d = 0
    m = len(rankings[0])
    while d < m and len({tuple(r[m - 1 - d:]) for r in rankings}) == 1:
        d += 1
    return d


def common_top2(rankings):
    return len(rankings) >= 2 and len(rankings[0]) >= 3 and len({tuple(r[:2]) for r in rankings}) == 1


def relabel(idmap, rankings):
    return [[idmap[a] for a in r] for r in rankings]


# ------------------------------------------------------------------------------------------------ history cases
MAINT = ["recompute_cardinality_param", "flatten_strict", "full_profile", "vote_map", "infer_type"]


def history_expected(phases):
    """distinct orders in order of first appearance (= instance.orders) and their multiplicities"""
    orders, mult = [], {}
    for ph in phases:
        for o, mu in ph:
            k = tuple(tuple(cl) for cl in o)
            if k not in mult:
                orders.append(k)
                mult[k] = 0
            mult[k] += mu
    return [[list(cl) for cl in k] for k in orders], [mult[k] for k in orders]


def _poison(x):
    """in-place damage of a returned container (results must be fresh objects, never internal state)"""
    try:
        if isinstance(x, list):
            x.reverse()
            x.append(-7)
            if len(x) > 2:
                del x[0]
        elif isinstance(x, dict):
            for k in list(x)[:1]:
                x[k] = -7
            x[((-7,),)] = 3
        elif isinstance(x, set):
            x.add(-7)
    except Exception:
        pass


def history_build(phases, maint, how):
    """one OrdinalInstance built through the public append API in several phases, with maintenance / accessor calls
    (their results poisoned) in between.  phases[k] = [[order (list of classes), multiplicity], ...]"""
    from preflibtools.instances import OrdinalInstance
    inst = OrdinalInstance()
    for k, ph in enumerate(phases):
        h = how[k % len(how)] if how else 1
        if h == 2:
            vm = {}
            for o, mu in ph:
                t = tuple(tuple(cl) for cl in o)
                vm[t] = vm.get(t, 0) + mu
            inst.append_vote_map(vm)
        elif h == 0 and all(len(cl) == 1 for o, _ in ph for cl in o):
            for o, mu in ph:
                for _ in range(mu):
                    inst.append_order([cl[0] for cl in o])
        else:
            inst.append_order_list([[list(cl) for cl in o] for o, mu in ph for _ in range(mu)])
        for code in (maint[k] if k < len(maint) else []):
            res = getattr(inst, MAINT[code])()
            _poison(res)
    return inst


def _hist_profile(rng, m, kind, ids=None):
    """(alts, phases, maint, how): kind 'sp' planted, 'noise' planted + a random vote, '2d' two opposite monotone voters
    (+ planted ones): the run ends in case 2.(d) of the elimination"""
    lo_ = rng.choice([0, 0, -1, -m])
    alts = ids if ids is not None else rng.sample(range(lo_, lo_ + rng.choice([m, 30, 1000])), m)
    axis = rand_perm(rng, alts)
    votes = [(conitzer if rng.random() < 0.5 else walsh)(rng, axis) for _ in range(rng.randint(2, 5))]
    if kind == "2d":
        votes = [list(axis), list(axis[::-1])] + votes[:rng.randint(0, 2)]
        rng.shuffle(votes)
    elif kind == "noise":
        votes.append(rand_perm(rng, alts))
    nph = rng.randint(2, 3)
    phases = [[] for _ in range(nph)]
    for v in votes:
        phases[rng.randrange(nph)].append([strict(v), rng.choice([1, 1, 2, 300])])
    for k in range(nph):                     # every phase non-empty; some orders come back in a later phase
        if not phases[k]:
            phases[k].append([strict(rng.choice(votes)), 1])
    if rng.random() < 0.5:
        phases[-1].append([strict(votes[0]), rng.choice([1, 2])])
    maint = [[rng.randrange(len(MAINT)) for _ in range(rng.randint(0, 3))] for _ in range(nph)]
    if rng.random() < 0.6:
        maint[rng.randrange(nph - 1)].insert(0, 0)        # recompute_cardinality_param between two phases
    how = [rng.randrange(3) for _ in range(nph)]
    return [list(alts), phases, maint, how]


def generate_history(rng, n):
    out = []
    for i in range(n):
        k = i % 4
        if k == 0:          # one object, one profile
            profs = [_hist_profile(rng, rng.randint(4, 7), rng.choice(["sp", "sp", "noise"]))]
        elif k == 1:        # two different 2.(d) profiles with overlapping ids (m >= 5), then the first one again
            ids = rng.sample(range(0, 12), 8)
            m1, m2 = rng.randint(5, 7), rng.randint(5, 7)
            profs = [_hist_profile(rng, m1, "2d", ids=rng.sample(ids, m1)), _hist_profile(rng, m2, "2d", ids=rng.sample(ids, m2))]
        elif k == 2:        # a rejected profile first, then a single-peaked one on the same ids
            ids = rng.sample(range(0, 40), 6)
            profs = [_hist_profile(rng, 6, "noise", ids=list(ids)), _hist_profile(rng, 6, rng.choice(["sp", "2d"]), ids=list(ids))]
        else:               # three profiles, mixed
            profs = [_hist_profile(rng, rng.randint(4, 6), rng.choice(["sp", "2d", "noise"])) for _ in range(3)]
        out.append(case("c03.hist", [profs], hist=k))
    return out


def _hist_impl(c):
    from preflibtools.properties.subdomains.ordinal.singlepeaked import singlepeakedness as SPM
    from .common import snapshot, snap_diff
    profs = c["payload"][0]
    insts, res = [], []

    def ask(inst):
        before = snapshot(inst)
        r = guarded(SPM.is_single_peaked, inst)
        d = snap_diff(before, snapshot(inst))
        if r[0] != 0:
            return [r, d]
        v, ax = r[1]
        out = [[0, int(bool(v)), [int(a) for a in ax] if v else []], d]
        if isinstance(ax, list):
            _poison(ax)                      # the returned axis must not alias anything that matters later
        return out
    for alts, phases, maint, how in profs:
        inst = history_build(phases, maint, how)
        insts.append(inst)
        a1 = ask(inst)
        a2 = ask(inst)                       # the same question twice on one object
        res.append({"dt": str(inst.data_type), "nv": int(inst.num_voters), "nu": int(inst.num_unique_orders),
                    "m": int(inst.num_alternatives), "asks": [a1, a2]})
    for k, inst in enumerate(insts[:-1]):    # and once more after the other profiles have been processed
        res[k]["asks"].append(ask(inst))
    return res


def _hist_plan(c, r):
    plan = []
    for k, (alts, phases, maint, how) in enumerate(c["payload"][0]):
        orders, mults = history_expected(phases)
        rankings = [[cl[0] for cl in o] for o in orders]
        off = _off(alts)
        plan.append((("elo", k), "c03.elo", _shift([alts, rankings], off)))
        if isinstance(r, list) and k < len(r):
            for j, a in enumerate(r[k]["asks"]):
                if a[0][0] == 0 and a[0][1] == 1:
                    plan.append((("axis", k, j), "c03.check_axis",
                                 _shift([alts, rankings, [x for x in a[0][2] if x + off >= 0]], off)))
    return plan


def _hist_judge(c, r, mres):
    nm = {name: ans for (name, _, _), ans in zip(_hist_plan(c, r), mres)}
    for k, (alts, phases, maint, how) in enumerate(c["payload"][0]):
        orders, mults = history_expected(phases)
        me = nm[("elo", k)]
        if me[0] != 0:
            return {"kind": "broken-correspondence", "reason": "mirror error %r on profile %d" % (me, k)}
        got = r[k]
        if got["dt"] != "soc" or got["nv"] != sum(mults) or got["nu"] != len(orders) or got["m"] != len(alts):
            return {"kind": "mismatch", "theorem": "C03 quantifier (soc instance built through the public API)",
                    "reason": "profile %d: data_type %r, num_voters %r (expected %d), num_unique_orders %r (expected %d)"
                              % (k, got["dt"], got["nv"], sum(mults), got["nu"], len(orders))}
        for j, (ans, diff) in enumerate(got["asks"]):
            if diff:
                return {"kind": "mismatch", "theorem": "purity of is_single_peaked",
                        "reason": "profile %d, call %d: is_single_peaked modified the instance: %s" % (k, j + 1, diff)}
            if ans[0] != 0:
                return {"kind": "exception", "theorem": "elo_no_error",
                        "reason": "profile %d, call %d: is_single_peaked raised %r" % (k, j + 1, ans)}
            if ans[1] != me[1][0]:
                return {"kind": "mismatch", "theorem": "elo_correct",
                        "reason": "profile %d, call %d of is_single_peaked on the same object -> %r, mirror on the instance's "
                                  "orders -> %r" % (k, j + 1, bool(ans[1]), bool(me[1][0]))}
            if ans[1] == 1 and nm.get(("axis", k, j)) != 1:
                return {"kind": "mismatch", "theorem": "sp_check_axis_correct",
                        "reason": "profile %d, call %d: returned axis %r is not a valid single-peaked axis" % (k, j + 1, ans[2])}
    return None


def generate(tier, seed):
    rng = random.Random(1000003 * seed + 3)
    thorough = tier != "quick"
    out = []

    def add(alts, rankings, mults=None, mode=1, cores=(), **tags):
        rankings = [list(r) for r in rankings]
        if mults is None:
            mults = [1] * len(rankings)
        out.append(case("c03.sp", [list(alts), rankings, list(mults), mode, [list(s) for s in cores]],
                        m=len(alts), **tags))

    # ---- exhaustive
    for m in (1, 2, 3):
        alts = list(range(1, m + 1))
        perms = list(itertools.permutations(alts))
        for k in range(1, len(perms) + 1):
            for sub in itertools.combinations(perms, k):
                add(alts, sub, exh=1)
                if k > 1:
                    add(alts, sub[::-1], exh=1, rev=1)
    alts = [1, 2, 3, 4]
    perms = list(itertools.permutations(alts))
    for k in range(1, (3 if not thorough else 4) + 1):
        for sub in itertools.combinations(perms, k):
            add(alts, sub, exh=1)
            if k > 1 and (thorough or k == 2 or rng.random() < 0.25):
                add(alts, sub[::-1], exh=1, rev=1)

    # ---- exhaustive 2-voter profiles over 4 alternatives with non-contiguous ids (0 included), both storage orders
    for ids in ([0, 9, 4, 17], sorted(rng.sample(range(0, 1000), 4), reverse=True)):
        idmap = dict(zip(alts, ids))
        for sub in itertools.combinations(perms, 2):
            v = relabel(idmap, sub)
            add(ids, v, exh=1, ids=1)
            add(ids, v[::-1], exh=1, ids=1, rev=1)

    # ---- the exhaustive small block again with ids shifted by -2 (ids -1..m-2) and by -(m+1) (ids -m..-1)
    for m in (2, 3):
        base = list(range(1, m + 1))
        pm = list(itertools.permutations(base))
        for sh in (-2, -(m + 1)):
            for k in range(1, len(pm) + 1):
                for sub in itertools.combinations(pm, k):
                    add([a + sh for a in base], [[a + sh for a in r_] for r_ in sub], exh=1, neg=1)
    for sh in (-2, -5):
        for sub in itertools.combinations(perms, 2):
            add([a + sh for a in alts], [[a + sh for a in r_] for r_ in sub], exh=1, neg=1)
            add([a + sh for a in alts], [[a + sh for a in r_] for r_ in sub[::-1]], exh=1, neg=1, rev=1)
        for sub in itertools.combinations(perms, 3):
            if rng.random() < 0.3:
                add([a + sh for a in alts], [[a + sh for a in r_] for r_ in sub], exh=0, neg=1)

    # ---- every 2-voter profile over 4 alternatives plus one common bottom, e.g. (0,1,2,3,9),(3,2,1,0,9)
    idmap = dict(zip(alts, [0, 1, 2, 3]))
    for sub in itertools.combinations(perms, 2):
        v = [r + [9] for r in relabel(idmap, sub)]
        add([0, 1, 2, 3, 9], v, exh=1, sweep4=1)
        add([0, 1, 2, 3, 9], v[::-1], exh=1, sweep4=1, rev=1)

    # ---- sweep: every 2-voter profile over 5 alternatives, plus a common bottom (case 2(d) with a non-empty
    #      to_append_left when the second peak lies outside the unplaced block, e.g. (0,1,2,3,9),(3,2,1,0,9))
    base5 = [0, 1, 2, 3, 5]
    perms5 = list(itertools.permutations(base5))
    pairs5 = list(itertools.combinations(perms5, 2))
    for i, (a, b) in enumerate(pairs5):
        nb = 1 if (not thorough or i % 2 == 0) else 2
        bott = [9, 7][:nb]
        v = [list(a) + bott, list(b) + bott]
        if i % 2:
            v = v[::-1]
        add(base5 + bott, v, exh=1, sweep5=1)
        if thorough:
            add(base5 + bott, v[::-1], exh=1, sweep5=1, rev=1)

    # ---- everyone shares the same best and second-best alternative (the last round of the elimination has two
    #      unplaced alternatives and a single last-ranked one); 2-4 voters, 4-6 alternatives, arbitrary ids
    for i in range(400 if not thorough else 4000):
        m = rng.randint(4, 6)
        ids = rng.sample(range(0, rng.choice([10, 60, 10 ** 6])), m)
        top, rest = ids[:2], ids[2:]
        axis = rand_perm(rng, rest)
        n = rng.randint(2, 4)
        votes = []
        for _ in range(n):
            if i % 3 == 2 and rng.random() < 0.4:
                tail = rand_perm(rng, rest)
            else:               # tail single-peaked on axis, read from a random end or from a random peak
                tail = (conitzer if rng.random() < 0.5 else walsh)(rng, axis)
                if i % 3 == 1:
                    tail = sorted(rest, key=lambda a: abs(axis.index(a) - rng.choice([0, len(axis) - 1])))
            votes.append(top + tail)
        votes = distinct(votes)
        if rng.random() < 0.3:
            ids, votes = add_common_bottoms(rng, ids, votes, rng.randint(1, 2))
        add(rand_perm(rng, ids), votes, top2=1)

    # ---- sampled 3-4 voters over 4-6 alternatives, arbitrary ids, mostly planted, common bottoms with prob. 0.3
    for i in range(600 if not thorough else 6000):
        m = rng.randint(4, 6)
        ids = rng.sample(range(0, rng.choice([10, 60, 10 ** 6])), m)
        axis = rand_perm(rng, ids)
        n = rng.randint(3, 4)
        gen = conitzer if i % 2 == 0 else walsh
        votes = [gen(rng, axis) if rng.random() < 0.85 else rand_perm(rng, ids) for _ in range(n)]
        votes = distinct(votes)
        if rng.random() < 0.3:
            ids, votes = add_common_bottoms(rng, ids, votes, rng.randint(1, min(3, 8 - m)))
        add(rand_perm(rng, ids), votes, s34=1)

    # ---- random small (reference runs), arbitrary ids
    nrand = 1200 if not thorough else 30000
    mmax = 7 if not thorough else 8
    for i in range(nrand):
        m = rng.randint(3, mmax)
        alts = rng.sample(range(0, rng.choice([12, 100, 10 ** 9])), m)
        axis = rand_perm(rng, alts)
        n = rng.randint(1, 8)
        style = i % 6
        gen = conitzer if i % 2 == 0 else walsh
        votes = [gen(rng, axis) for _ in range(n)]
        if style in (2, 3):          # one or two noise votes
            for _ in range(1 + (style == 3)):
                votes.append(rand_perm(rng, alts))
        elif style == 4:             # a vote single-peaked on a slightly different axis
            ax2 = list(axis)
            a, b = rng.sample(range(m), 2)
            ax2[a], ax2[b] = ax2[b], ax2[a]
            votes.append(gen(rng, ax2))
        elif style == 5:             # random votes only
            votes = [rand_perm(rng, alts) for _ in range(rng.randint(1, 3))]
        rng.shuffle(votes)
        votes = distinct(votes)
        if m < mmax and rng.random() < 0.3:
            alts, votes = add_common_bottoms(rng, alts, votes, rng.randint(1, min(3, mmax - m)))
        mults = [rng.choice([1, 1, 2, 5, 17]) for _ in votes]
        add(rand_perm(rng, alts), votes, mults, style=style)
        if i % 3 == 0 and len(votes) > 1:
            add(rand_perm(rng, alts), votes[::-1], mults[::-1], style=style, rev=1)

    # ---- MANY distinct orders: a single-peaked profile over m alternatives can hold up to 2^(m-1) distinct orders (more
    #      than the single-crossing bound m(m-1)/2 + 1 from m = 4 on): the full set of single-peaked orders of a hidden
    #      axis and random subsets of every size above the bound, arbitrary ids, shuffled storage order, multiplicities;
    #      the same with one non-single-peaked order added; Walsh / Conitzer samples with many voters
    def all_sp_orders(axis):
        m_ = len(axis)
        res = []
        for bits in itertools.product([0, 1], repeat=m_ - 1):
            l, r, rev = 0, m_ - 1, []
            for b in bits:
                if b:
                    rev.append(axis[l]); l += 1
                else:
                    rev.append(axis[r]); r -= 1
            rev.append(axis[l])
            res.append(rev[::-1])
        return res
    for m in (4, 5, 6, 7):
        bound = m * (m - 1) // 2 + 1
        reps = {4: 12, 5: 8, 6: 4, 7: 1}[m] * (1 if not thorough else 4)
        sizes = list(range(bound + 1, 2 ** (m - 1) + 1))
        if m == 7:
            sizes = sorted(rng.sample(sizes, 14 if not thorough else 40)) + [2 ** (m - 1)]
        for size in sizes:
            for rep in range(reps):
                ids = rng.sample(range(0, rng.choice([m, 40, 10 ** 6])), m)
                axis = rand_perm(rng, ids)
                allo = all_sp_orders(axis)
                sub = rng.sample(allo, size)
                mults = [rng.choice([1, 1, 2, 7]) for _ in sub]
                add(rand_perm(rng, ids), sub, mults, mode=(1 if m <= 6 else 0), manyorders=1)
                # negative: replace one order by a ranking that is not single-peaked on the axis
                bad = rand_perm(rng, ids)
                if bad not in allo:
                    neg = sub[:-1] + [bad]
                    rng.shuffle(neg)
                    add(rand_perm(rng, ids), neg, [1] * len(neg), mode=(1 if m <= 6 else 0), manyorders=1)
    for i in range(400 if not thorough else 3000):
        m = rng.randint(4, 6)
        ids = rng.sample(range(0, rng.choice([m, 40, 10 ** 6])), m)
        axis = rand_perm(rng, ids)
        gen = conitzer if i % 2 == 0 else walsh
        votes = distinct([gen(rng, axis) for _ in range(rng.randint(12, 60))])
        if i % 5 == 4:
            votes.append(rand_perm(rng, ids))
            votes = distinct(votes)
        add(rand_perm(rng, ids), votes, [rng.choice([1, 2, 3]) for _ in votes], manyvoters=1)

    # ---- VOLUME against the mirror (exact verdict oracle at every size, no enumeration): planted single-peaked
    #      profiles, m = 7..10, n = 2..3, arbitrary ids incl. 0; plus profiles whose elimination schedule alternates
    #      single-candidate and two-candidate rounds (stale state across rounds needs >= 7 alternatives), e.g.
    #      axis a p s r q t b with ballots r s p a q t b / r q s p t b a
    names = dict(zip("apsrqtb", [0, 11, 5, 3, 8, 2, 7]))
    ex = [[names[c] for c in "rspaqtb"], [names[c] for c in "rqsptba"]]
    add([names[c] for c in "apsrqtb"], ex, mode=0, vol="example")
    add([names[c] for c in "apsrqtb"], ex[::-1], mode=0, vol="example", rev=1)
    nvol = 6000 if not thorough else 50000
    nalt = 2500 if not thorough else 20000
    made_alt = 0
    i = 0
    while i < nvol or made_alt < nalt:
        m = rng.randint(7, 10)
        n = rng.choice([2, 2, 3])
        lo_ = rng.choice([0, 0, 0, -1, -m, -m // 2, -10 ** 6])          # negative / mixed-sign / large negative ids
        alts_v = rng.sample(range(lo_, lo_ + rng.choice([m, 30, 10 ** 6])), m)
        axis = rand_perm(rng, alts_v)
        g = i % 3
        if g == 0:
            votes = [walsh(rng, axis) for _ in range(n)]
        elif g == 1:
            votes = [conitzer(rng, axis) for _ in range(n)]
        else:
            votes = corr_votes(rng, axis, n, rng.choice([0.3, 0.6, 0.8]))
        if rng.random() < 0.1:
            votes.append(rand_perm(rng, alts_v))          # a noise vote: mostly not single-peaked
        votes = distinct(votes)
        isalt = alternating(rounds_pattern(votes))
        if i < nvol:
            add(rand_perm(rng, alts_v), votes, mode=0, vol=("alt" if isalt else "planted"))
            made_alt += isalt
        elif isalt:
            add(rand_perm(rng, alts_v), votes, mode=0, vol="alt")
            made_alt += 1
        i += 1
        if i > 60 * (nvol + nalt):
            break

    # ---- large planted (checker only) and large negatives (embedded core)
    nlarge = 150 if not thorough else 1200
    for i in range(nlarge):
        m = rng.randint(8, 40)
        alts = rng.sample(range(1, 1000), m)
        axis = rand_perm(rng, alts)
        n = rng.randint(2, 30)
        gen = conitzer if i % 2 == 0 else walsh
        votes = distinct([gen(rng, axis) for _ in range(n)])
        nbott = rng.randint(1, 3) if rng.random() < 0.3 else 0
        if i % 2 == 0:
            if nbott:
                alts, votes = add_common_bottoms(rng, alts, votes, nbott)
            mults = [rng.choice([1, 2, 3]) for _ in votes]
            add(alts, votes, mults, mode=0, large="planted")
        else:
            noise = []
            for _ in range(rng.randint(1, 3)):
                if rng.random() < 0.5:
                    noise.append(rand_perm(rng, alts))
                else:                # a planted vote with a few displaced alternatives
                    v = gen(rng, axis)
                    for _ in range(rng.randint(1, 3)):
                        a = v.pop(rng.randrange(m))
                        v.insert(rng.randrange(m), a)
                    noise.append(v)
            allv = votes + noise
            rng.shuffle(allv)
            allv = distinct(allv)
            if nbott:
                alts, allv = add_common_bottoms(rng, alts, allv, nbott)
            add(alts, allv, [1] * len(allv), mode=0, cores=find_cores(rng, alts, allv), large="negative")
    # ---- histories on one object / sequences of instances inside one call (purity, aliasing, object lifetime)
    out.extend(generate_history(rng, 1200 if not thorough else 8000))
    return out


# ------------------------------------------------------------------------------------------------ implementation side
def impl(c):
    if c["op"] == "c03.hist":
        return _hist_impl(c)
    from preflibtools.properties.subdomains.ordinal.singlepeaked import singlepeakedness as SPM
    alts, rankings, mults, mode, cores = c["payload"]
    inst = ordinal_instance([(strict(r), mu) for r, mu in zip(rankings, mults)], data_type="soc", alts=list(alts))
    salt = common.salt_of(c["payload"])
    if salt % 3 == 0:       # call / in-place edit / call: the same object held a decoy profile of the same shape first
        inst, _ = common.prime_stale(inst, [SPM.is_single_peaked], salt // 3)
    r = guarded(SPM.is_single_peaked, inst)
    if r[0] != 0:
        return r
    v = r[1]
    if not (isinstance(v, tuple) and len(v) == 2):
        return {"crash": "is_single_peaked returned %r" % (v,)}
    verdict, axis = v
    if verdict:
        try:
            axis = [int(a) for a in axis]
        except Exception:
            return {"crash": "is_single_peaked returned True with axis %r" % (axis,)}
        return [0, 1, axis]
    return [0, 0, []]


def _restrict(S, alts, rankings):
    S = set(S)
    rs = []
    for r in rankings:
        q = [a for a in r if a in S]
        if q not in rs:
            rs.append(q)
    return [a for a in alts if a in S], rs


def oracle_requests(c, r):
    if c["op"] == "c03.hist":
        return [(o_, p_) for _, o_, p_ in _hist_plan(c, r)]
    alts, rankings, mults, mode, cores = c["payload"]
    off = _off(alts)
    reqs = []
    if mode == 1:
        reqs.append(("c03.decide", [alts, rankings]))
    for S in cores:
        a2, r2 = _restrict(S, alts, rankings)
        reqs.append(("c03.decide", [a2, r2]))
    if isinstance(r, list) and r[0] == 0 and r[1] == 1:
        reqs.append(("c03.check_axis", [alts, rankings, [a for a in r[2] if a + off >= 0]]))
    reqs.append(("c03.elo", [alts, rankings]))          # the mirror of the algorithm, always last
    return [(o_, _shift(p_, off)) for o_, p_ in reqs]


def expected(c, mres):
    """(expected verdict or None, index of first unused model answer)"""
    alts, rankings, mults, mode, cores = c["payload"]
    i = 0
    exp = None
    if mode == 1:
        exp = mres[0]
        i = 1
    core_ref = [mres[i + j] == 0 for j in range(len(cores))]
    i += len(cores)
    if exp is None and any(core_ref):
        exp = 0
    return exp, i, core_ref


def judge(c, r, mres):
    if c["op"] == "c03.hist":
        return _hist_judge(c, r, mres)
    alts, rankings, mults, mode, cores = c["payload"]
    exp, i, core_ref = expected(c, mres)
    if mode == 1 and any(core_ref) and exp == 1:
        return {"kind": "broken-correspondence", "reason": "model: a restriction is refuted but the profile is accepted"}
    if not (isinstance(r, list) and r[0] == 0):
        return {"kind": "exception", "reason": "is_single_peaked raised: %r" % (r,)}
    if exp is not None and r[1] != exp:
        why = "reference sp_decide" if mode == 1 else \
            "restriction to %r is not single-peaked (reference), hence neither is the profile (sp_restrict)" % (
                cores[core_ref.index(True)],)
        return {"kind": "mismatch", "theorem": "sp_decide_correct" if mode == 1 else "sp_restrict",
                "reason": "is_single_peaked -> %r, expected %r: %s" % (bool(r[1]), bool(exp), why)}
    if r[1] == 1:
        if len(mres) <= i + 1 or mres[i] != 1:
            return {"kind": "mismatch", "theorem": "sp_check_axis_correct",
                    "reason": "returned axis %r is not a permutation of the alternatives w.r.t. which every voter is "
                              "single-peaked" % (r[2],)}
    # the mirrored algorithm (Model/ELO.v) is deterministic in the storage order: the verdict must agree exactly,
    # at every size; the axis is only counted (stats)
    me = mres[-1]
    if me[0] != 0:
        return {"kind": "mismatch", "theorem": "elo_no_error / elo_terminates",
                "reason": "the mirror of is_single_peaked ends with error code %r on a well-formed profile while the "
                          "implementation returned %r" % (me[1], r[1:])}
    if me[1][0] != r[1]:
        return {"kind": "mismatch", "theorem": "elo mirror (Model/ELO.v): elo_sound / elo_complete",
                "reason": "is_single_peaked -> %r, its statement-by-statement mirror -> %r" % (bool(r[1]), bool(me[1][0]))}
    return None


def nontrivial(c, r, m):
    if c["op"] == "c03.hist":
        return True
    alts, rankings = c["payload"][0], c["payload"][1]
    return len(alts) >= 3 and len(rankings) >= 2


def stats(c, r, m):
    if c["op"] == "c03.hist":
        profs = c["payload"][0]
        lab = ["history: %d profile(s) in one call" % len(profs)]
        for k, (alts, phases, maint, how) in enumerate(profs):
            lab.append("history profile: %d phases" % len(phases))
            if any(0 in mk for mk in maint[:-1]):
                lab.append("history: recompute_cardinality_param between two phases")
        lab.append("history: is_single_peaked calls judged: %d" % sum(len(x["asks"]) for x in r))
        return lab
    alts, rankings, mults, mode, cores = c["payload"]
    exp, i, core_ref = expected(c, m)
    mm = len(alts)
    size = "m=%d" % mm if mm <= 8 else ("m=9-20" if mm <= 20 else "m=21-40")
    lab = []
    if mode == 1:
        lab.append("reference %s %s" % (size, "SP" if exp == 1 else "notSP"))
        lab.append("reference verdict %s" % ("SP" if exp == 1 else "notSP"))
    else:
        if cores:
            lab.append("large negative %s: %s" % (size, "core refuted" if exp == 0 else "no refuted core (verdict unchecked)"))
        else:
            lab.append("large planted %s" % size)
    if isinstance(r, list) and r[0] == 0 and r[1] == 1:
        lab.append("axis checked %s" % size)
    if mm <= 12:
        pat = rounds_pattern(rankings)
        after = pat[pat.index(2) + 1:] if 2 in pat else []
        ns = sum(1 for q in after[:-1] if q == 1)
        np_ = sum(1 for q in pat if q == 2)
        if mm >= 7:
            lab.append("m>=7: single-candidate rounds after the ends are opened: %s" % (ns if ns < 3 else ">=3"))
            lab.append("m>=7: two-candidate rounds: %s" % (np_ if np_ < 4 else ">=4"))
            if alternating(pat):
                lab.append("m>=7: alternating single / two / single rounds (%s)" %
                           ("mirror SP" if m[-1][0] == 0 and m[-1][1][0] == 1 else "mirror notSP"))
    if mm >= 4 and len(rankings) > mm * (mm - 1) // 2 + 1:
        lab.append("more than m(m-1)/2+1 distinct orders (m=%d): %s" % (mm, "SP" if m[-1][0] == 0 and m[-1][1][0] == 1 else "notSP"))
    if c["tags"].get("vol"):
        lab.append("volume vs mirror %s n=%d" % (size, len(rankings)))
    me = m[-1]
    if isinstance(r, list) and r[0] == 0 and me[0] == 0:
        lab.append("mirror verdict compared %s" % ("(large)" if mode == 0 else "(small)"))
        if r[1] == 1 and me[1][0] == 1:
            lab.append("mirror axis identical" if me[1][1] == _shift(r[2], _off(alts)) else "mirror axis DIFFERS (not an alarm)")
    if min(alts) < 0:
        lab.append("negative ids")
    verdict = "SP" if exp == 1 else ("notSP" if exp == 0 else "unknown")
    d = common_bottom_depth(rankings)
    if d >= 1 and len(rankings) >= 2 and mm >= 3:
        lab.append("common bottom (depth %s) %s" % (d if d < 3 else ">=3", verdict))
    if common_top2(rankings):
        lab.append("common best and second-best %s" % verdict)
    if c["tags"].get("sweep4"):
        lab.append("sweep 2 voters x 4 alts + common bottom: %s" % verdict)
    if c["tags"].get("sweep5"):
        lab.append("sweep 2 voters x 5 alts + common bottom: %s" % verdict)
    if len(rankings) == 2:
        lab.append("2 voters %s" % verdict)
    if c["tags"].get("rev"):
        lab.append("reversed storage order")
    if any(mu > 1 for mu in mults):
        lab.append("with multiplicities")
    return lab


def describe(c):
    if c["op"] == "c03.hist":
        return {"profiles": [{"alternatives": a, "phases ([order, multiplicity] per phase)": ph,
                              "calls after each phase": [[MAINT[x] for x in mk] for mk in mt],
                              "append method per phase (0 append_order, 1 append_order_list, 2 append_vote_map)": hw}
                             for a, ph, mt, hw in c["payload"][0]],
                "then": "is_single_peaked twice on each object (axis poisoned in between), then once more on the earlier objects"}
    alts, rankings, mults, mode, cores = c["payload"]
    return {"alternatives": alts, "orders (best first)": rankings, "multiplicities": mults,
            "reference_run": bool(mode), "candidate_cores": cores}


def shrink(c):
    if c["op"] == "c03.hist":
        profs = c["payload"][0]
        if len(profs) > 1:
            for i in range(len(profs)):
                yield dict(c, payload=[profs[:i] + profs[i + 1:]])
        for i, (a, ph, mt, hw) in enumerate(profs):
            if any(mt):
                for k in range(len(mt)):
                    if mt[k]:
                        yield dict(c, payload=[profs[:i] + [[a, ph, mt[:k] + [mt[k][1:]] + mt[k + 1:], hw]] + profs[i + 1:]])
            if len(ph) > 1:
                yield dict(c, payload=[profs[:i] + [[a, [ph[0] + ph[1]] + ph[2:], [mt[0] + mt[1]] + mt[2:], hw]] + profs[i + 1:]])
            for k in range(len(ph)):
                if len(ph[k]) > 1:
                    for t in range(len(ph[k])):
                        yield dict(c, payload=[profs[:i] + [[a, ph[:k] + [ph[k][:t] + ph[k][t + 1:]] + ph[k + 1:], mt, hw]] + profs[i + 1:]])
        return
    alts, rankings, mults, mode, cores = c["payload"]
    if len(rankings) > 1:
        for i in range(len(rankings)):
            yield dict(c, payload=[alts, rankings[:i] + rankings[i + 1:], mults[:i] + mults[i + 1:], mode, cores])
    if any(mu > 1 for mu in mults):
        yield dict(c, payload=[alts, rankings, [1] * len(mults), mode, cores])
    if len(alts) > 1:
        for a in alts:
            if any(a in S for S in cores):
                continue
            na = [x for x in alts if x != a]
            nr, nm = [], []
            for r, mu in zip(rankings, mults):
                q = [x for x in r if x != a]
                if q not in nr:
                    nr.append(q)
                    nm.append(mu)
            md = mode if mode == 1 else (1 if len(na) <= 7 else 0)
            yield dict(c, payload=[na, nr, nm, md, cores])
