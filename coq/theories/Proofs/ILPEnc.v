(* Proofs/ILPEnc.v — the ILP encodings of singlepeakedness.py are sound and complete (C11 stretch goal
   `ilp_encoding_sound`, C12 deepening).  Model: Model/ILPEnc.v (mirrored builders).  Only the solver is trusted.

   MAIN RESULTS (all sizes; NoDup alts, complete weak orders)
     ilp_sp_sound          a feasible assignment of sp_ilp decodes (decode_axis = the loop of the code) to a permutation
                           of the alternatives that passes the axis test of every order
     ilp_sp_complete       every axis passing the test is the decoding of a feasible assignment
     ilp_sp_feasible_iff   feasibility <-> SPw                                                  (C11-facing)
     ilp_votdel_sound / ilp_votdel_complete / ilp_votdel_optimum    feasible assignment of objective k <-> valid
     ilp_altdel_sound / ilp_altdel_complete / ilp_altdel_optimum    certificate of size k;  ILP optimum = min_*_del
   The two cores: pos_order_core (totality + position constraints + bounds => LeftOf is the strict order of Pos,
   Pos injective) and row_core (consecutive-ones constraints of a row <=> no ignored-free  one .. zero .. one
   on the axis). *)
From Coq Require Import List Arith NArith ZArith Bool Lia Permutation.
From PrefVerif Require Import Lib.Val Lib.Perms Lib.Contig Lib.Subsets Model.SP Model.Deletion Model.ILPEnc
                              Proofs.SP Proofs.Deletion.
Import ListNotations.
Local Open Scope Z_scope.

(* ---------------------------------------------------------------------------------------------- *)
(* 0. semantics as Prop                                                                            *)

Definition holds (s : asg) (c : cstr) : Prop := holdsb s c = true.
Definition feasible (M : ilp) (s : asg) : Prop := feasibleb M s = true.
(* k is the optimal objective value of M *)
Definition ilp_opt (M : ilp) (k : Z) : Prop :=
  (exists s, feasible M s /\ objective M s = k) /\ (forall s, feasible M s -> k <= objective M s).

Lemma feasible_iff M s : feasible M s <->
  (forall d, In d (i_vars M) -> v_lb d <= s (v_var d) <= v_ub d) /\ (forall c, In c (i_cstrs M) -> holds s c).
Proof.
  unfold feasible, feasibleb. rewrite andb_true_iff, !forallb_forall. unfold in_boundsb, holds.
  split; intros [H1 H2]; split; auto.
  - intros d Hd. specialize (H1 d Hd). apply andb_true_iff in H1. lia.
  - intros d Hd. specialize (H1 d Hd). apply andb_true_iff. lia.
Qed.

(* ---------------------------------------------------------------------------------------------- *)
(* 1. combinations                                                                                 *)

Lemma combos2_In m a b : In (a, b) (combos2 m) <-> (a < b < m)%nat.
Proof.
  unfold combos2. rewrite in_flat_map. split.
  - intros (x & Hx & H). apply in_map_iff in H. destruct H as (y & E & Hy). injection E as -> ->.
    apply in_seq in Hx, Hy. lia.
  - intros H. exists a. split; [apply in_seq; lia|]. apply in_map_iff. exists b. split; [reflexivity|].
    apply in_seq. lia.
Qed.

Lemma combos3_In m a b c : In (a, b, c) (combos3 m) <-> (a < b < c /\ c < m)%nat.
Proof.
  unfold combos3. rewrite in_flat_map. split.
  - intros (x & Hx & H). apply in_flat_map in H. destruct H as (y & Hy & H).
    apply in_map_iff in H. destruct H as (z & E & Hz). injection E as -> -> ->.
    apply in_seq in Hx, Hy, Hz. lia.
  - intros H. exists a. split; [apply in_seq; lia|]. apply in_flat_map. exists b.
    split; [apply in_seq; lia|]. apply in_map_iff. exists c. split; [reflexivity|]. apply in_seq. lia.
Qed.

(* ---------------------------------------------------------------------------------------------- *)
(* 2. set_nth and the decoding loop                                                                *)

Lemma set_nth_length {T} k (x : T) l : length (set_nth k x l) = length l.
Proof. revert k. induction l as [|y r IH]; intros [|k]; simpl; auto. Qed.

Lemma nth_set_nth_eq {T} k (x d : T) l : (k < length l)%nat -> nth k (set_nth k x l) d = x.
Proof. revert k. induction l as [|y r IH]; intros [|k] H; simpl in *; try lia; auto. apply IH. lia. Qed.

Lemma nth_set_nth_neq {T} k j (x d : T) l : j <> k -> nth j (set_nth k x l) d = nth j l d.
Proof.
  revert k j. induction l as [|y r IH]; intros [|k] [|j] H; simpl; auto; try congruence.
Qed.

Section Writes.
Variable T : Type.
Variables (q : nat -> nat) (val : nat -> T) (d : T).
Let step (ax : list T) (a : nat) := set_nth (q a) (val a) ax.

Lemma writes_length l ax : length (fold_left step l ax) = length ax.
Proof. revert ax. induction l as [|a r IH]; intros ax; simpl; [reflexivity|]. rewrite IH. apply set_nth_length. Qed.

Lemma writes_untouched l ax k : (forall b, In b l -> q b <> k) ->
  nth k (fold_left step l ax) d = nth k ax d.
Proof.
  revert ax. induction l as [|a r IH]; intros ax H; simpl; [reflexivity|].
  rewrite IH by (intros b Hb; apply H; now right). unfold step. apply nth_set_nth_neq.
  intros E. apply (H a); [now left|now symmetry].
Qed.

Lemma writes_hit l ax : NoDup l -> (forall a b, In a l -> In b l -> q a = q b -> a = b) ->
  (forall a, In a l -> (q a < length ax)%nat) ->
  forall a, In a l -> nth (q a) (fold_left step l ax) d = val a.
Proof.
  revert ax. induction l as [|x r IH]; intros ax Hnd Hinj Hlt a Ha; [contradiction|]. simpl.
  inversion Hnd as [|? ? Hx Hr]; subst. destruct Ha as [->|Ha].
  - rewrite writes_untouched.
    + unfold step. apply nth_set_nth_eq. apply Hlt. now left.
    + intros b Hb E. assert (b = a) by (apply Hinj; [now right|now left|assumption]). subst. contradiction.
  - apply IH; auto.
    + intros a' b' Ha' Hb'. apply Hinj; now right.
    + intros a' Ha'. unfold step. rewrite set_nth_length. apply Hlt. now right.
Qed.
End Writes.

(* ---------------------------------------------------------------------------------------------- *)
(* 3. sub3 through indices and through filter                                                      *)

Lemma nth_app_cons_S {T} (l1 r : list T) x d t : nth (length l1 + S t) (l1 ++ x :: r) d = nth t r d.
Proof. rewrite app_nth2_plus. reflexivity. Qed.

Lemma sub3_of_nth_plus {T} (l : list T) d i t1 t2 : (i + S t1 + S t2 < length l)%nat ->
  sub3 (nth i l d) (nth (i + S t1) l d) (nth (i + S t1 + S t2) l d) l.
Proof.
  intros Hk.
  destruct (nth_split l d (n := i)) as (l1 & r1 & E1 & L1); [lia|].
  set (x := nth i l d) in *. 
  assert (Lr1 : (S t1 + S t2 < S (length r1))%nat).
  { rewrite E1 in Hk. rewrite app_length in Hk. simpl in Hk. lia. }
  destruct (nth_split r1 d (n := t1)) as (l2 & r2 & E2 & L2); [lia|].
  assert (Lr2 : (t2 < length r2)%nat).
  { rewrite E2 in Lr1. rewrite app_length in Lr1. simpl in Lr1. lia. }
  destruct (nth_split r2 d (n := t2)) as (l3 & l4 & E3 & L3); [lia|].
  assert (Hy : nth (i + S t1) l d = nth t1 r1 d).
  { rewrite E1, <- L1. apply nth_app_cons_S. }
  assert (Hz : nth (i + S t1 + S t2) l d = nth t2 r2 d).
  { rewrite E1, <- L1. replace (length l1 + S t1 + S t2)%nat with (length l1 + S (t1 + S t2))%nat by lia.
    rewrite nth_app_cons_S. rewrite E2, <- L2. apply nth_app_cons_S. }
  exists l1, l2, l3, l4. rewrite Hy, Hz. rewrite E1 at 1. f_equal. f_equal.
  rewrite E2 at 1. f_equal. f_equal. exact E3.
Qed.

Lemma sub3_of_nth {T} (l : list T) d i j k : (i < j < k)%nat -> (k < length l)%nat ->
  sub3 (nth i l d) (nth j l d) (nth k l d) l.
Proof.
  intros Hijk Hk. replace j with (i + S (j - i - 1))%nat by lia.
  replace k with (i + S (j - i - 1) + S (k - j - 1))%nat at 1 by lia.
  apply sub3_of_nth_plus. lia.
Qed.

Lemma sub3_nth_inv {T} (l : list T) d x y z : sub3 x y z l ->
  exists i j k, (i < j < k)%nat /\ (k < length l)%nat /\ nth i l d = x /\ nth j l d = y /\ nth k l d = z.
Proof.
  intros (l1 & l2 & l3 & l4 & ->).
  exists (length l1), (length l1 + S (length l2))%nat, (length l1 + S (length l2) + S (length l3))%nat.
  repeat split; try lia.
  - rewrite !app_length. simpl. rewrite !app_length. simpl. rewrite !app_length. simpl. lia.
  - rewrite app_nth2 by lia. now rewrite Nat.sub_diag.
  - rewrite app_nth2 by lia. replace (length l1 + S (length l2) - length l1)%nat with (S (length l2)) by lia.
    simpl. rewrite app_nth2 by lia. now rewrite Nat.sub_diag.
  - rewrite app_nth2 by lia.
    replace (length l1 + S (length l2) + S (length l3) - length l1)%nat with (S (length l2 + S (length l3))) by lia.
    simpl. rewrite app_nth2 by lia. replace (length l2 + S (length l3) - length l2)%nat with (S (length l3)) by lia.
    simpl. rewrite app_nth2 by lia. now rewrite Nat.sub_diag.
Qed.

Lemma filter_eq_app_cons {T} (f : T -> bool) l a x b : filter f l = a ++ x :: b ->
  exists l1 l2, l = l1 ++ x :: l2 /\ filter f l1 = a /\ filter f l2 = b /\ f x = true.
Proof.
  revert a. induction l as [|y r IH]; intros a E; simpl in E.
  - destruct a; discriminate.
  - destruct (f y) eqn:Fy.
    + destruct a as [|a0 a]; simpl in E.
      * injection E as -> E. exists [], r. simpl. auto.
      * injection E as -> E. destruct (IH a E) as (l1 & l2 & -> & H1 & H2 & H3).
        exists (a0 :: l1), l2. simpl. rewrite Fy, H1. auto.
    + destruct (IH a E) as (l1 & l2 & -> & H1 & H2 & H3). exists (y :: l1), l2. simpl. rewrite Fy. auto.
Qed.

Lemma sub3_filter {T} (f : T -> bool) x y z l :
  sub3 x y z (filter f l) <-> sub3 x y z l /\ f x = true /\ f y = true /\ f z = true.
Proof.
  split.
  - intros (a & b & c & e & E).
    apply filter_eq_app_cons in E. destruct E as (l1 & r1 & -> & _ & E & Fx).
    apply filter_eq_app_cons in E. destruct E as (l2 & r2 & -> & _ & E & Fy).
    apply filter_eq_app_cons in E. destruct E as (l3 & l4 & -> & _ & _ & Fz).
    split; [now exists l1, l2, l3, l4|auto].
  - intros [(l1 & l2 & l3 & l4 & ->) (Fx & Fy & Fz)].
    exists (filter f l1), (filter f l2), (filter f l3), (filter f l4).
    rewrite filter_app. simpl. rewrite Fx, filter_app. simpl. rewrite Fy, filter_app. simpl. now rewrite Fz.
Qed.

(* ---------------------------------------------------------------------------------------------- *)
(* 4. what each constraint says                                                                    *)

Lemma eval_app s l1 l2 : eval s (l1 ++ l2) = eval s l1 + eval s l2.
Proof. induction l1 as [|[c v] l1 IH]; simpl; [reflexivity|]. unfold eval in *. simpl. rewrite IH. lia. Qed.

Ltac open_cstr := unfold holds, holdsb; cbn [c_lhs c_rel c_rhs eval fold_right fst snd app].

Lemma holds_trans1 s x y z :
  holds s (trans1 x y z) <-> s (LeftOf x y) + s (LeftOf y z) - s (LeftOf x z) <= 1.
Proof. unfold trans1. open_cstr. rewrite Z.leb_le. lia. Qed.

Lemma holds_total1 s a b : holds s (total1 a b) <-> s (LeftOf a b) + s (LeftOf b a) = 1.
Proof. unfold total1. open_cstr. rewrite Z.eqb_eq. lia. Qed.

Lemma holds_ordering1 s m x y :
  holds s (ordering1 m x y) <-> s (Pos x) - s (Pos y) + Z.of_nat m * s (LeftOf x y) <= Z.of_nat m.
Proof. unfold ordering1. open_cstr. rewrite Z.leb_le. lia. Qed.

Lemma holds_diffpos1 s m x y :
  holds s (diffpos1 m x y) <->
  2 * s (Pos y) - 2 * s (Pos x) - (2 * Z.of_nat m + 1) * s (LeftOf x y) >= - (2 * Z.of_nat m).
Proof. unfold diffpos1. open_cstr. rewrite Z.leb_le. lia. Qed.

Lemma holds_cons1 s relax i j k :
  holds s (cons1 relax i j k) <-> 2 * s (LeftOf i k) + 2 * s (LeftOf k j) + eval s (relax i j k) <= 2.
Proof.
  unfold cons1, holds, holdsb. cbn [c_lhs c_rel c_rhs]. rewrite eval_app, Z.leb_le.
  cbn [eval fold_right fst snd]. lia.
Qed.

(* the constraint groups *)
Definition total_sem (s : asg) (m : nat) : Prop :=
  forall a b, (a < b < m)%nat -> s (LeftOf a b) + s (LeftOf b a) = 1.
Definition pos_sem (s : asg) (m : nat) : Prop :=
  forall a b, (a < b < m)%nat ->
    holds s (ordering1 m a b) /\ holds s (diffpos1 m a b) /\ holds s (ordering1 m b a) /\ holds s (diffpos1 m b a).
Definition trans_sem (s : asg) (m : nat) : Prop :=
  forall x y z, (x < m)%nat -> (y < m)%nat -> (z < m)%nat -> x <> y -> y <> z -> x <> z ->
    s (LeftOf x y) + s (LeftOf y z) - s (LeftOf x z) <= 1.

Lemma total_cstrs_sem s m : (forall c, In c (total_cstrs m) -> holds s c) <-> total_sem s m.
Proof.
  unfold total_cstrs, total_sem. split.
  - intros H a b Hab. apply holds_total1. apply H. apply in_map_iff. exists (a, b). split; [reflexivity|].
    now apply combos2_In.
  - intros H c Hc. apply in_map_iff in Hc. destruct Hc as ([a b] & <- & Hab). apply combos2_In in Hab.
    apply holds_total1. now apply H.
Qed.

Lemma pos_cstrs_sem s m : (forall c, In c (pos_cstrs m) -> holds s c) <-> pos_sem s m.
Proof.
  unfold pos_cstrs, pos_sem. split.
  - intros H a b Hab.
    assert (Hin : forall c, In c [ordering1 m a b; diffpos1 m a b; ordering1 m b a; diffpos1 m b a] -> holds s c).
    { intros c Hc. apply H. apply in_flat_map. exists (a, b). split; [now apply combos2_In|exact Hc]. }
    repeat split; apply Hin; simpl; auto.
  - intros H c Hc. apply in_flat_map in Hc. destruct Hc as ([a b] & Hab & Hc). apply combos2_In in Hab.
    destruct (H a b Hab) as (H1 & H2 & H3 & H4). simpl in Hc.
    destruct Hc as [<-|[<-|[<-|[<-|[]]]]]; assumption.
Qed.

Lemma trans_cstrs_sem s m : (forall c, In c (trans_cstrs m) -> holds s c) <-> trans_sem s m.
Proof.
  unfold trans_cstrs, trans_sem. split.
  - intros H.
    assert (Hs : forall a b c, (a < b < c /\ c < m)%nat ->
                 forall t, In t [trans1 a b c; trans1 a c b; trans1 b a c; trans1 b c a; trans1 c a b; trans1 c b a] ->
                 holds s t).
    { intros a b c Habc t Ht. apply H. apply in_flat_map. exists (a, b, c). split; [now apply combos3_In|exact Ht]. }
    intros x y z Hx Hy Hz Hxy Hyz Hxz. apply holds_trans1.
    destruct (lt_dec x y), (lt_dec y z), (lt_dec x z); try lia.
    + apply (Hs x y z); [lia|simpl; auto].
    + apply (Hs x z y); [lia|simpl; auto].
    + apply (Hs z x y); [lia|simpl; auto 10].
    + apply (Hs y x z); [lia|simpl; auto].
    + apply (Hs y z x); [lia|simpl; auto 10].
    + apply (Hs z y x); [lia|simpl; auto 10].
  - intros H t Ht. apply in_flat_map in Ht. destruct Ht as ([[a b] c] & Habc & Ht). apply combos3_In in Habc.
    simpl in Ht. destruct Ht as [<-|[<-|[<-|[<-|[<-|[<-|[]]]]]]]; apply holds_trans1; apply H; lia.
Qed.

(* the variable declarations *)
Definition leftof_binary (s : asg) (m : nat) : Prop :=
  forall a b, (a < m)%nat -> (b < m)%nat -> s (LeftOf a b) = 0 \/ s (LeftOf a b) = 1.
Definition pos_range (s : asg) (m : nat) : Prop :=
  forall a, (a < m)%nat -> 1 <= s (Pos a) <= Z.of_nat m.

Lemma leftof_vars_sem s m :
  (forall d, In d (leftof_vars m) -> v_lb d <= s (v_var d) <= v_ub d) <-> leftof_binary s m.
Proof.
  unfold leftof_vars, leftof_binary. split.
  - intros H a b Ha Hb. assert (Hd : 0 <= s (LeftOf a b) <= 1).
    { apply (H (binary (LeftOf a b))). apply in_flat_map. exists a. split; [apply in_seq; lia|].
      apply in_map_iff. exists b. split; [reflexivity|apply in_seq; lia]. }
    lia.
  - intros H d Hd. apply in_flat_map in Hd. destruct Hd as (a & Ha & Hd). apply in_map_iff in Hd.
    destruct Hd as (b & <- & Hb). apply in_seq in Ha, Hb. simpl. destruct (H a b); lia.
Qed.

Lemma pos_vars_sem s m :
  (forall d, In d (pos_vars m) -> v_lb d <= s (v_var d) <= v_ub d) <-> pos_range s m.
Proof.
  unfold pos_vars, pos_range. split.
  - intros H a Ha. apply (H (mk_vdecl (Pos a) 1 (Z.of_nat m))). apply in_map_iff. exists a.
    split; [reflexivity|apply in_seq; lia].
  - intros H d Hd. apply in_map_iff in Hd. destruct Hd as (a & <- & Ha). apply in_seq in Ha. simpl. apply H. lia.
Qed.

Lemma binary_vars_sem (mkv : nat -> var) s n :
  (forall d, In d (map (fun v => binary (mkv v)) (seq 0 n)) -> v_lb d <= s (v_var d) <= v_ub d) <->
  (forall v, (v < n)%nat -> s (mkv v) = 0 \/ s (mkv v) = 1).
Proof.
  split.
  - intros H v Hv. assert (Hd : 0 <= s (mkv v) <= 1).
    { apply (H (binary (mkv v))). apply in_map_iff. exists v. split; [reflexivity|apply in_seq; lia]. }
    lia.
  - intros H d Hd. apply in_map_iff in Hd. destruct Hd as (v & <- & Hv). apply in_seq in Hv. simpl.
    destruct (H v); lia.
Qed.

(* ---------------------------------------------------------------------------------------------- *)
(* 5. CORE 1: totality + position constraints + bounds  =>  LeftOf is the strict order of Pos       *)

Theorem pos_order_core s m : leftof_binary s m -> pos_range s m -> total_sem s m -> pos_sem s m ->
  forall x y, (x < m)%nat -> (y < m)%nat -> x <> y ->
    (s (LeftOf x y) = 1 <-> s (Pos x) < s (Pos y)) /\ (s (LeftOf x y) = 0 <-> s (Pos y) < s (Pos x)).
Proof.
  intros Hb Hr Ht Hp.
  assert (W : forall a b, (a < b < m)%nat ->
    ((s (LeftOf a b) = 1 <-> s (Pos a) < s (Pos b)) /\ (s (LeftOf a b) = 0 <-> s (Pos b) < s (Pos a))) /\
    ((s (LeftOf b a) = 1 <-> s (Pos b) < s (Pos a)) /\ (s (LeftOf b a) = 0 <-> s (Pos a) < s (Pos b)))).
  { intros a b Hab. destruct (Hp a b Hab) as (O1 & D1 & O2 & D2).
    apply holds_ordering1 in O1, O2. apply holds_diffpos1 in D1, D2.
    pose proof (Ht a b Hab) as T. pose proof (Hr a ltac:(lia)) as Ra. pose proof (Hr b ltac:(lia)) as Rb.
    destruct (Hb a b ltac:(lia) ltac:(lia)) as [E1|E1], (Hb b a ltac:(lia) ltac:(lia)) as [E2|E2];
      rewrite E1, E2 in *; lia. }
  intros x y Hx Hy Hxy. destruct (lt_dec x y) as [L|L].
  - apply (W x y). lia.
  - apply (W y x). lia.
Qed.

Corollary pos_injective s m : leftof_binary s m -> pos_range s m -> total_sem s m -> pos_sem s m ->
  forall x y, (x < m)%nat -> (y < m)%nat -> s (Pos x) = s (Pos y) -> x = y.
Proof.
  intros Hb Hr Ht Hp x y Hx Hy E. destruct (Nat.eq_dec x y) as [|Hne]; [assumption|exfalso].
  destruct (pos_order_core s m Hb Hr Ht Hp x y Hx Hy Hne) as [H1 H0].
  destruct (Hb x y Hx Hy) as [Z0|Z1]; [apply H0 in Z0|apply H1 in Z1]; lia.
Qed.

(* conversely: any injective placement gives an assignment satisfying the three structural groups *)
Definition mk_asg (posn : nat -> nat) (dv da : nat -> bool) : asg :=
  fun v => match v with
           | LeftOf a b => if (posn a <? posn b)%nat then 1 else 0
           | Pos a => Z.of_nat (posn a) + 1
           | DelVoter v => if dv v then 1 else 0
           | DelAlt a => if da a then 1 else 0
           end.

Lemma mk_asg_structural posn dv da m :
  (forall a, (a < m)%nat -> (posn a < m)%nat) ->
  (forall a b, (a < m)%nat -> (b < m)%nat -> posn a = posn b -> a = b) ->
  let s := mk_asg posn dv da in
  leftof_binary s m /\ pos_range s m /\ total_sem s m /\ pos_sem s m /\ trans_sem s m.
Proof.
  intros Hlt Hinj s. repeat split.
  - intros a b _ _. unfold s, mk_asg. destruct (posn a <? posn b)%nat; auto.
  - unfold s, mk_asg. specialize (Hlt a H). lia.
  - unfold s, mk_asg. specialize (Hlt a H). lia.
  - intros a b Hab. unfold s, mk_asg.
    assert (posn a <> posn b) by (intros E; apply Hinj in E; lia).
    destruct (Nat.ltb_spec (posn a) (posn b)), (Nat.ltb_spec (posn b) (posn a)); lia.
  - apply holds_ordering1. unfold s, mk_asg. pose proof (Hlt a ltac:(lia)). pose proof (Hlt b ltac:(lia)).
    destruct (Nat.ltb_spec (posn a) (posn b)); lia.
  - apply holds_diffpos1. unfold s, mk_asg. pose proof (Hlt a ltac:(lia)). pose proof (Hlt b ltac:(lia)).
    destruct (Nat.ltb_spec (posn a) (posn b)); lia.
  - apply holds_ordering1. unfold s, mk_asg. pose proof (Hlt a ltac:(lia)). pose proof (Hlt b ltac:(lia)).
    destruct (Nat.ltb_spec (posn b) (posn a)); lia.
  - apply holds_diffpos1. unfold s, mk_asg. pose proof (Hlt a ltac:(lia)). pose proof (Hlt b ltac:(lia)).
    destruct (Nat.ltb_spec (posn b) (posn a)); lia.
  - intros x y z _ _ _ _ _ _. unfold s, mk_asg.
    destruct (Nat.ltb_spec (posn x) (posn y)), (Nat.ltb_spec (posn y) (posn z)), (Nat.ltb_spec (posn x) (posn z)); lia.
Qed.

(* ---------------------------------------------------------------------------------------------- *)
(* 6. the decoding loop  axis[int(pos_a.x) - 1] = alternatives[a]                                   *)

Definition posn_of (s : asg) (a : nat) : nat := (Z.to_nat (s (Pos a)) - 1)%nat.

Lemma decode_axis_spec alts s :
  pos_range s (length alts) ->
  (forall x y, (x < length alts)%nat -> (y < length alts)%nat -> s (Pos x) = s (Pos y) -> x = y) ->
  length (decode_axis alts s) = length alts /\
  forall a, (a < length alts)%nat ->
    (posn_of s a < length alts)%nat /\ nth (posn_of s a) (decode_axis alts s) 0%N = nth a alts 0%N.
Proof.
  intros Hr Hinj. unfold decode_axis. split.
  - rewrite (writes_length N (posn_of s) (fun a => nth a alts 0%N)). apply repeat_length.
  - intros a Ha. assert (Hlt : (posn_of s a < length alts)%nat).
    { unfold posn_of. specialize (Hr a Ha). lia. }
    split; [assumption|].
    apply (writes_hit N (posn_of s) (fun a => nth a alts 0%N) 0%N (seq 0 (length alts))).
    + apply seq_NoDup.
    + intros x y Hx Hy E. apply in_seq in Hx, Hy. apply Hinj; try lia.
      unfold posn_of in E. pose proof (Hr x ltac:(lia)). pose proof (Hr y ltac:(lia)). lia.
    + intros x Hx. apply in_seq in Hx. rewrite repeat_length. unfold posn_of. specialize (Hr x ltac:(lia)). lia.
    + apply in_seq. lia.
Qed.

(* ---------------------------------------------------------------------------------------------- *)
(* 7. CORE 2: the consecutive-ones constraints of a row, on an axis with a placement function      *)

Lemma filter_true {T} (l : list T) : filter (fun _ => true) l = l.
Proof. induction l; simpl; congruence. Qed.
Lemma filter_false {T} (l : list T) : filter (fun _ => false) l = [].
Proof. induction l; simpl; congruence. Qed.

Section Placement.
Variables (alts axis : list N) (posn : nat -> nat).
Let m := length alts.
Let alt (a : nat) : N := nth a alts 0%N.
Hypothesis Hnd : NoDup alts.
Hypothesis Hperm : Permutation alts axis.
Hypothesis Hpos : forall a, (a < m)%nat -> (posn a < m)%nat /\ nth (posn a) axis 0%N = alt a.

Lemma pl_axis_nodup : NoDup axis.
Proof. eapply Permutation_NoDup; eauto. Qed.
Lemma pl_axis_length : length axis = m.
Proof. symmetry. now apply Permutation_length. Qed.

Lemma pl_alt_inj a b : (a < m)%nat -> (b < m)%nat -> alt a = alt b -> a = b.
Proof. intros Ha Hb E. apply (proj1 (NoDup_nth alts 0%N) Hnd); auto. Qed.

Lemma pl_posn_inj a b : (a < m)%nat -> (b < m)%nat -> posn a = posn b -> a = b.
Proof.
  intros Ha Hb E. apply pl_alt_inj; auto. destruct (Hpos a Ha) as [_ <-], (Hpos b Hb) as [_ <-]. now rewrite E.
Qed.

Lemma pl_in_axis x : In x axis -> exists a, (a < m)%nat /\ alt a = x.
Proof.
  intros Hx. eapply Permutation_in in Hx; [|apply Permutation_sym; exact Hperm].
  apply (In_nth _ _ 0%N) in Hx. destruct Hx as (a & Ha & E). exists a. auto.
Qed.

Lemma pl_alt_in_axis a : (a < m)%nat -> In (alt a) axis.
Proof. intros Ha. eapply Permutation_in; [exact Hperm|]. apply nth_In. exact Ha. Qed.

Lemma pl_sub3 a b c : (a < m)%nat -> (b < m)%nat -> (c < m)%nat ->
  (sub3 (alt a) (alt b) (alt c) axis <-> (posn a < posn b < posn c)%nat).
Proof.
  intros Ha Hb Hc. destruct (Hpos a Ha) as [La Ea], (Hpos b Hb) as [Lb Eb], (Hpos c Hc) as [Lc Ec]. split.
  - intros H. apply (sub3_nth_inv axis 0%N) in H. destruct H as (i & j & k & Hijk & Hk & Ei & Ej & Ek).
    rewrite pl_axis_length in Hk.
    assert (Hi : i = posn a).
    { apply (proj1 (NoDup_nth axis 0%N) pl_axis_nodup); rewrite ?pl_axis_length; first [lia|congruence]. }
    assert (Hj : j = posn b).
    { apply (proj1 (NoDup_nth axis 0%N) pl_axis_nodup); rewrite ?pl_axis_length; first [lia|congruence]. }
    assert (Hk' : k = posn c).
    { apply (proj1 (NoDup_nth axis 0%N) pl_axis_nodup); rewrite ?pl_axis_length; first [lia|congruence]. }
    lia.
  - intros H. rewrite <- Ea, <- Eb, <- Ec. apply sub3_of_nth; [assumption|]. rewrite pl_axis_length. lia.
Qed.

(* an assignment whose LeftOf variables describe the placement *)
Variable s : asg.
Hypothesis Hbin : leftof_binary s m.
Hypothesis Hlf : forall x y, (x < m)%nat -> (y < m)%nat -> x <> y -> (s (LeftOf x y) = 1 <-> (posn x < posn y)%nat).

(* relaxation terms: worth 0 when the three columns are kept, at most -2 (one unit) otherwise *)
Variable relax : nat -> nat -> nat -> list (Z * var).
Variable keep : N -> bool.
Let keep3 i j k := keep (alt i) && keep (alt j) && keep (alt k).
Hypothesis Hrel : forall i j k, (i < m)%nat -> (j < m)%nat -> (k < m)%nat ->
  if keep3 i j k then eval s (relax i j k) = 0 else eval s (relax i j k) <= -2.

Lemma pl_cons1 i j k : (i < m)%nat -> (j < m)%nat -> (k < m)%nat -> i <> k -> k <> j ->
  (holds s (cons1 relax i j k) <-> (keep3 i j k = false \/ ~ (posn i < posn k < posn j)%nat)).
Proof.
  intros Hi Hj Hk Hik Hkj. rewrite holds_cons1. specialize (Hrel i j k Hi Hj Hk).
  pose proof (Hlf i k Hi Hk Hik) as L1. pose proof (Hlf k j Hk Hj Hkj) as L2.
  destruct (Hbin i k Hi Hk) as [B1|B1], (Hbin k j Hk Hj) as [B2|B2]; destruct (keep3 i j k);
    rewrite B1, B2 in *; split; intros H; try lia; try (right; lia); try (left; reflexivity);
    try (destruct H as [H|H]; [discriminate|]; exfalso; apply H; split; [apply L1|apply L2]; reflexivity).
Qed.

Variable S : list N.
Let row := map (fun x => memN x S) alts.

Lemma pl_row_nth a : (a < m)%nat -> nth a row false = memN (alt a) S.
Proof.
  intros Ha. unfold row. rewrite (nth_indep _ false (memN 0%N S)) by (rewrite map_length; exact Ha).
  apply (map_nth (fun x => memN x S)).
Qed.

Lemma pl_row_cstrs_sem :
  (forall c, In c (row_cstrs relax row) -> holds s c) <->
  (forall i j k, (i < j)%nat -> (j < m)%nat -> (k < m)%nat ->
     memN (alt i) S = true -> memN (alt j) S = true -> memN (alt k) S = false ->
     holds s (cons1 relax i j k) /\ holds s (cons1 relax j i k)).
Proof.
  assert (Lrow : length row = m) by (unfold row; apply map_length).
  unfold row_cstrs, one_pairs, zero_cols. rewrite Lrow. split.
  - intros H i j k Hij Hj Hk Mi Mj Mk.
    assert (Hin : forall c, In c [cons1 relax i j k; cons1 relax j i k] -> holds s c).
    { intros c Hc. apply H. apply in_flat_map. exists (i, j). split.
      - apply filter_In. split; [apply combos2_In; lia|]. cbn [fst snd].
        rewrite !pl_row_nth by lia. now rewrite Mi, Mj.
      - apply in_flat_map. exists k. split; [|exact Hc]. apply filter_In. split; [apply in_seq; lia|].
        rewrite pl_row_nth by lia. now rewrite Mk. }
    split; apply Hin; simpl; auto.
  - intros H c Hc. apply in_flat_map in Hc. destruct Hc as ([i j] & Hij & Hc).
    apply filter_In in Hij. destruct Hij as [Hij Mij]. apply combos2_In in Hij. cbn [fst snd] in *.
    apply in_flat_map in Hc. destruct Hc as (k & Hk & Hc). apply filter_In in Hk. destruct Hk as [Hk Mk].
    apply in_seq in Hk. rewrite !pl_row_nth in * by lia. apply andb_true_iff in Mij. destruct Mij as [Mi Mj].
    apply negb_true_iff in Mk. destruct (H i j k) as [H1 H2]; try lia; auto.
    simpl in Hc. destruct Hc as [<-|[<-|[]]]; assumption.
Qed.

Theorem row_core :
  (forall c, In c (row_cstrs relax row) -> holds s c) <->
  ones_consec (map (fun x => memN x S) (filter keep axis)).
Proof.
  rewrite pl_row_cstrs_sem, ones_consec_iff_no_tft. split.
  - intros H Hs. apply sub3_map_inv in Hs. destruct Hs as (x & y & z & Hs & Gx & Gy & Gz).
    apply sub3_filter in Hs. destruct Hs as (Hs & Kx & Ky & Kz).
    assert (Hx : In x axis) by (destruct Hs as (l1 & l2 & l3 & l4 & ->); apply in_or_app; right; now left).
    assert (Hy : In y axis).
    { destruct Hs as (l1 & l2 & l3 & l4 & ->). apply in_or_app. right. right. apply in_or_app. right. now left. }
    assert (Hz : In z axis).
    { destruct Hs as (l1 & l2 & l3 & l4 & ->). apply in_or_app. right. right. apply in_or_app. right. right.
      apply in_or_app. right. now left. }
    apply pl_in_axis in Hx, Hy, Hz. destruct Hx as (a & Ha & <-), Hy as (b & Hb & <-), Hz as (c & Hc & <-).
    apply pl_sub3 in Hs; auto.
    assert (Hab : a <> b) by (intros ->; lia). assert (Hbc : b <> c) by (intros ->; lia).
    assert (Hac : a <> c) by (intros ->; lia).
    assert (K3 : keep3 a c b = true) by (unfold keep3; now rewrite Kx, Ky, Kz).
    assert (K3' : keep3 c a b = true) by (unfold keep3; now rewrite Kx, Ky, Kz).
    destruct (lt_dec a c) as [Lac|Lac].
    + destruct (H a c b) as [H1 _]; auto. apply pl_cons1 in H1; auto.
      destruct H1 as [H1|H1]; [congruence|apply H1; lia].
    + destruct (H c a b) as [_ H2]; auto; [lia|]. apply pl_cons1 in H2; auto.
      destruct H2 as [H2|H2]; [congruence|apply H2; lia].
  - intros H i j k Hij Hj Hk Mi Mj Mk.
    assert (Hik : i <> k) by (intros ->; congruence). assert (Hkj : k <> j) by (intros ->; congruence).
    assert (G : forall a c, (a < m)%nat -> (c < m)%nat -> memN (alt a) S = true -> memN (alt c) S = true ->
                keep3 a c k = true -> ~ (posn a < posn k < posn c)%nat).
    { intros a c Ha Hc Ma Mc K3 Hp. apply H. unfold keep3 in K3. apply andb_true_iff in K3.
      destruct K3 as [K3 Kk]. apply andb_true_iff in K3. destruct K3 as [Ka Kc].
      apply (pl_sub3 a k c Ha Hk Hc) in Hp.
      assert (Hf : sub3 (alt a) (alt k) (alt c) (filter keep axis)) by (apply sub3_filter; auto).
      apply (sub3_map (fun x => memN x S)) in Hf. now rewrite Ma, Mk, Mc in Hf. }
    split; apply pl_cons1; auto; try lia.
    + destruct (keep3 i j k) eqn:K3; [right|now left]. apply G; auto; lia.
    + destruct (keep3 j i k) eqn:K3; [right|now left]. apply G; auto; lia.
Qed.
End Placement.

(* ---------------------------------------------------------------------------------------------- *)
(* 8. from rows to orders: prefix unions, dropped classes                                          *)

Lemma concat_firstn_map_filter (f : N -> bool) (o : order) k :
  concat (firstn k (map (filter f) o)) = filter f (concat (firstn k o)).
Proof.
  revert k. induction o as [|c r IH]; intros k; [now rewrite !firstn_nil|].
  destruct k as [|k]; [reflexivity|]. simpl. now rewrite filter_app, IH.
Qed.

Definition nonnil (c : list N) : bool := negb (is_nil c).

Lemma drop_nil_prefix1 (o : order) k : exists k', concat (firstn k o) = concat (firstn k' (filter nonnil o)).
Proof.
  revert k. induction o as [|c r IH]; intros k; [exists 0%nat; now rewrite !firstn_nil|].
  destruct k as [|k]; [exists 0%nat; reflexivity|]. destruct (IH k) as (k' & E). simpl.
  destruct c as [|x c]; simpl.
  - exists k'. exact E.
  - exists (S k'). simpl. now rewrite E.
Qed.

Lemma drop_nil_prefix2 (o : order) k' : exists k, concat (firstn k' (filter nonnil o)) = concat (firstn k o).
Proof.
  revert k'. induction o as [|c r IH]; intros k'; [exists 0%nat; simpl; now rewrite !firstn_nil|].
  destruct c as [|x c]; simpl.
  - destruct (IH k') as (k & E). exists (S k). simpl. exact E.
  - destruct k' as [|k']; [exists 0%nat; reflexivity|]. destruct (IH k') as (k & E). exists (S k). simpl. now rewrite E.
Qed.

Lemma sp_on_axis_drop_nil o axis : sp_on_axis o axis <-> sp_on_axis (filter nonnil o) axis.
Proof.
  unfold sp_on_axis. split; intros H k.
  - destruct (drop_nil_prefix2 o k) as (k0 & ->). apply H.
  - destruct (drop_nil_prefix1 o k) as (k0 & ->). apply H.
Qed.

Lemma fclasses_unfold f o : fclasses f o = filter nonnil (map (filter f) o).
Proof. reflexivity. Qed.

Lemma fclasses_true o : Forall (fun c => c <> []) o -> fclasses (fun _ => true) o = o.
Proof.
  intros H. rewrite fclasses_unfold. induction H as [|c r Hc _ IH]; [reflexivity|]. simpl.
  rewrite filter_true. destruct c; [congruence|]. simpl. f_equal. exact IH.
Qed.

Lemma fclasses_false o : fclasses (fun _ => false) o = [].
Proof. rewrite fclasses_unfold. induction o as [|c r IH]; [reflexivity|]. simpl. now rewrite filter_false. Qed.

Lemma consec_contig (keep : N -> bool) S axis : NoDup axis -> incl S axis ->
  (ones_consec (map (fun x => memN x S) (filter keep axis)) <-> contiguous (filter keep S) (filter keep axis)).
Proof.
  intros Hnd Hincl. rewrite (contiguous_iff_ones (filter keep S) (filter keep axis)) by now apply NoDup_filter.
  assert (E : map (fun x => memN x (filter keep S)) (filter keep axis) = map (fun x => memN x S) (filter keep axis)).
  { apply map_ext_in. intros x Hx. apply filter_In in Hx. destruct Hx as [_ Kx].
    apply eq_true_iff_eq. rewrite !memN_In, filter_In. tauto. }
  rewrite E. split; [|tauto]. intros H. split; [assumption|].
  intros x Hx. apply filter_In in Hx. apply filter_In. split; [apply Hincl|]; tauto.
Qed.

Section Orders.
Variables (alts axis : list N) (posn : nat -> nat).
Let m := length alts.
Hypothesis Hnd : NoDup alts.
Hypothesis Hperm : Permutation alts axis.
Hypothesis Hpos : forall a, (a < m)%nat -> (posn a < m)%nat /\ nth (posn a) axis 0%N = nth a alts 0%N.
Variable s : asg.
Hypothesis Hbin : leftof_binary s m.
Hypothesis Hlf : forall x y, (x < m)%nat -> (y < m)%nat -> x <> y -> (s (LeftOf x y) = 1 <-> (posn x < posn y)%nat).
Variable relax : nat -> nat -> nat -> list (Z * var).
Variable keep : N -> bool.
Hypothesis Hrel : forall i j k, (i < m)%nat -> (j < m)%nat -> (k < m)%nat ->
  if keep (nth i alts 0%N) && keep (nth j alts 0%N) && keep (nth k alts 0%N)
  then eval s (relax i j k) = 0 else eval s (relax i j k) <= -2.

(* all the rows of one order *)
Theorem order_rows_sem o : complete_on alts o ->
  ((forall k, (k < length o)%nat -> forall c, In c (row_cstrs relax (sp_matrix_row alts o k)) -> holds s c) <->
   sp_on_axis (fclasses keep o) (filter keep axis)).
Proof.
  intros (_ & _ & Hse).
  rewrite fclasses_unfold, <- sp_on_axis_drop_nil, <- prefixes_enough, map_length.
  assert (Hax : NoDup axis) by (eapply Permutation_NoDup; eauto).
  split; intros H k Hk.
  - rewrite concat_firstn_map_filter. apply consec_contig; [assumption| |].
    + intros x Hx. apply concat_firstn_incl in Hx. apply Hse in Hx. eapply Permutation_in; eauto.
    + apply (row_core alts axis posn Hnd Hperm Hpos s Hbin Hlf relax keep Hrel). exact (H k Hk).
  - apply (row_core alts axis posn Hnd Hperm Hpos s Hbin Hlf relax keep Hrel (concat (firstn (S k) o))).
    apply consec_contig; [assumption| |].
    + intros x Hx. apply concat_firstn_incl in Hx. apply Hse in Hx. eapply Permutation_in; eauto.
    + rewrite <- concat_firstn_map_filter. now apply H.
Qed.
End Orders.

(* ---------------------------------------------------------------------------------------------- *)
(* 9. placements: from a feasible assignment (decode), and from an axis (mk_asg)                    *)

Lemma forall_in_app {T} (P : T -> Prop) a b :
  (forall x, In x (a ++ b) -> P x) <-> (forall x, In x a -> P x) /\ (forall x, In x b -> P x).
Proof.
  split.
  - intros H. split; intros x Hx; apply H; apply in_or_app; auto.
  - intros [H1 H2] x Hx. apply in_app_or in Hx. destruct Hx; auto.
Qed.

Lemma flat_map_forall {A B} (f : A -> list B) l (P : B -> Prop) :
  (forall c, In c (flat_map f l) -> P c) <-> (forall x, In x l -> forall c, In c (f x) -> P c).
Proof.
  split.
  - intros H x Hx c Hc. apply H. apply in_flat_map. eauto.
  - intros H c Hc. apply in_flat_map in Hc. destruct Hc as (x & Hx & Hc). eauto.
Qed.

(* the structural part of a feasible assignment *)
Definition structural (s : asg) (m : nat) : Prop :=
  leftof_binary s m /\ pos_range s m /\ total_sem s m /\ pos_sem s m.

Theorem decode_placement alts s : NoDup alts -> structural s (length alts) ->
  let axis := decode_axis alts s in
  Permutation alts axis /\
  (forall a, (a < length alts)%nat -> (posn_of s a < length alts)%nat /\ nth (posn_of s a) axis 0%N = nth a alts 0%N) /\
  (forall x y, (x < length alts)%nat -> (y < length alts)%nat -> x <> y ->
     (s (LeftOf x y) = 1 <-> (posn_of s x < posn_of s y)%nat)).
Proof.
  intros Hnd (Hb & Hr & Ht & Hp) axis.
  destruct (decode_axis_spec alts s Hr (pos_injective s _ Hb Hr Ht Hp)) as [Hlen Hnth]. fold axis in Hlen, Hnth.
  split; [|split].
  - apply NoDup_Permutation_bis; [assumption|lia|]. intros x Hx.
    apply (In_nth _ _ 0%N) in Hx. destruct Hx as (a & Ha & <-). destruct (Hnth a Ha) as [Hlt <-].
    apply nth_In. lia.
  - exact Hnth.
  - intros x y Hx Hy Hxy. destruct (pos_order_core s _ Hb Hr Ht Hp x y Hx Hy Hxy) as [H1 _].
    rewrite H1. unfold posn_of. pose proof (Hr x Hx). pose proof (Hr y Hy). lia.
Qed.

Lemma idxN_lt l a : In a l -> (idxN l a < length l)%nat.
Proof.
  induction l as [|x r IH]; intros Hin; [contradiction|]. simpl. destruct (N.eqb a x) eqn:E; [lia|].
  apply N.eqb_neq in E. destruct Hin as [->|Hin]; [congruence|]. apply IH in Hin. lia.
Qed.

Definition posn_axis (alts axis : list N) (a : nat) : nat := idxN axis (nth a alts 0%N).

Theorem axis_placement alts axis dv da : NoDup alts -> Permutation alts axis ->
  let posn := posn_axis alts axis in
  let s := mk_asg posn dv da in
  (forall a, (a < length alts)%nat -> (posn a < length alts)%nat /\ nth (posn a) axis 0%N = nth a alts 0%N) /\
  structural s (length alts) /\ trans_sem s (length alts) /\
  (forall x y, (x < length alts)%nat -> (y < length alts)%nat -> x <> y ->
     (s (LeftOf x y) = 1 <-> (posn x < posn y)%nat)) /\
  decode_axis alts s = axis.
Proof.
  intros Hnd Hperm posn s.
  assert (Hlen : length axis = length alts) by (symmetry; now apply Permutation_length).
  assert (Hax : NoDup axis) by (eapply Permutation_NoDup; eauto).
  assert (Hpos : forall a, (a < length alts)%nat ->
            (posn a < length alts)%nat /\ nth (posn a) axis 0%N = nth a alts 0%N).
  { intros a Ha. assert (Hin : In (nth a alts 0%N) axis) by (eapply Permutation_in; [exact Hperm|now apply nth_In]).
    unfold posn, posn_axis. split; [rewrite <- Hlen; now apply idxN_lt|now apply idxN_nth]. }
  assert (Hinj : forall a b, (a < length alts)%nat -> (b < length alts)%nat -> posn a = posn b -> a = b).
  { apply (pl_posn_inj alts axis posn Hnd Hpos). }
  destruct (mk_asg_structural posn dv da (length alts) (fun a Ha => proj1 (Hpos a Ha)) Hinj)
    as (S1 & S2 & S3 & S4 & S5). fold s in S1, S2, S3, S4, S5.
  split; [exact Hpos|]. split; [exact (conj S1 (conj S2 (conj S3 S4)))|]. split; [assumption|]. split.
  - intros x y _ _ _. unfold s, mk_asg. destruct (Nat.ltb_spec (posn x) (posn y)); split; intros; try lia; discriminate.
  - destruct (decode_axis_spec alts s S2 (pos_injective s _ S1 S2 S3 S4)) as [Hdl Hdn].
    apply (nth_ext _ _ 0%N 0%N); [lia|]. intros q Hq. rewrite Hdl in Hq.
    assert (Hin : In (nth q axis 0%N) axis) by (apply nth_In; lia).
    destruct (pl_in_axis alts axis Hperm _ Hin) as (a & Ha & Ea).
    destruct (Hpos a Ha) as [Hlt Enth]. destruct (Hdn a Ha) as [_ Ed].
    assert (Eq : posn a = q).
    { apply (proj1 (NoDup_nth axis 0%N) Hax); first [lia|now rewrite Enth]. }
    assert (Ep : posn_of s a = posn a) by (unfold posn_of, s, mk_asg; lia).
    rewrite Ep, Eq in Ed. now rewrite Ed.
Qed.

(* ---------------------------------------------------------------------------------------------- *)
(* 10. is_single_peaked_ILP                                                                         *)

Lemma feasible_sp_unfold alts p s : feasible (sp_ilp alts p) s <->
  structural s (length alts) /\ trans_sem s (length alts) /\ (forall c, In c (cons_cstrs alts p) -> holds s c).
Proof.
  rewrite feasible_iff. unfold sp_ilp. cbn [i_vars i_cstrs]. unfold structural.
  rewrite !forall_in_app, leftof_vars_sem, pos_vars_sem, trans_cstrs_sem, total_cstrs_sem, pos_cstrs_sem. tauto.
Qed.

Section PlainRows.
Variables (alts axis : list N) (posn : nat -> nat) (s : asg).
Hypothesis Hnd : NoDup alts.
Hypothesis Hperm : Permutation alts axis.
Hypothesis Hpos : forall a, (a < length alts)%nat -> (posn a < length alts)%nat /\ nth (posn a) axis 0%N = nth a alts 0%N.
Hypothesis Hbin : leftof_binary s (length alts).
Hypothesis Hlf : forall x y, (x < length alts)%nat -> (y < length alts)%nat -> x <> y ->
  (s (LeftOf x y) = 1 <-> (posn x < posn y)%nat).

Lemma cons_cstrs_sem p : Forall (complete_on alts) p ->
  ((forall c, In c (cons_cstrs alts p) -> holds s c) <-> SPw_axis p axis).
Proof.
  intros Hc. unfold cons_cstrs. rewrite flat_map_forall, <- Forall_forall.
  rewrite (sp_matrix_rows (fun row => forall c, In c (row_cstrs no_relax row) -> holds s c)).
  unfold SPw_axis. rewrite Forall_forall in Hc.
  assert (Hrel : forall i j k, (i < length alts)%nat -> (j < length alts)%nat -> (k < length alts)%nat ->
            if (fun _ : N => true) (nth i alts 0%N) && (fun _ : N => true) (nth j alts 0%N) && (fun _ : N => true) (nth k alts 0%N)
            then eval s (no_relax i j k) = 0 else eval s (no_relax i j k) <= -2) by (intros; reflexivity).
  split; intros H o Ho; specialize (H o Ho); pose proof (Hc o Ho) as Hco.
  - apply (order_rows_sem alts axis posn Hnd Hperm Hpos s Hbin Hlf no_relax (fun _ => true) Hrel o Hco) in H.
    rewrite filter_true, fclasses_true in H; [exact H|]. now destruct Hco as (_ & ? & _).
  - apply (order_rows_sem alts axis posn Hnd Hperm Hpos s Hbin Hlf no_relax (fun _ => true) Hrel o Hco).
    rewrite filter_true, fclasses_true; [exact H|]. now destruct Hco as (_ & ? & _).
Qed.
End PlainRows.

Lemma SPw_axis_test alts p axis : NoDup alts -> Forall (complete_on alts) p -> Permutation alts axis ->
  (sp_axis_profile p axis = true <-> SPw_axis p axis).
Proof.
  intros Hnd Hc Hp. apply sp_axis_profile_correct; [eapply Permutation_NoDup; eauto|].
  intros o Ho. rewrite Forall_forall in Hc. destruct (Hc o Ho) as (_ & _ & Hse). eapply same_elems_perm; eauto.
Qed.

Theorem ilp_sp_sound alts p s : NoDup alts -> Forall (complete_on alts) p ->
  feasible (sp_ilp alts p) s ->
  Permutation alts (decode_axis alts s) /\ sp_axis_profile p (decode_axis alts s) = true.
Proof.
  intros Hnd Hc Hf. apply feasible_sp_unfold in Hf. destruct Hf as (Hst & _ & Hcons).
  destruct (decode_placement alts s Hnd Hst) as (Hperm & Hpos & Hlf). split; [assumption|].
  apply (SPw_axis_test alts p _ Hnd Hc Hperm).
  apply (cons_cstrs_sem alts _ (posn_of s) s Hnd Hperm Hpos (proj1 Hst) Hlf p Hc). exact Hcons.
Qed.

Theorem ilp_sp_complete alts p axis : NoDup alts -> Forall (complete_on alts) p ->
  Permutation alts axis -> sp_axis_profile p axis = true ->
  exists s, feasible (sp_ilp alts p) s /\ decode_axis alts s = axis.
Proof.
  intros Hnd Hc Hperm Hsp.
  destruct (axis_placement alts axis (fun _ => false) (fun _ => false) Hnd Hperm) as (Hpos & Hst & Htr & Hlf & Hdec).
  set (s := mk_asg (posn_axis alts axis) (fun _ => false) (fun _ => false)) in *.
  exists s. split; [|assumption]. apply feasible_sp_unfold. split; [assumption|]. split; [assumption|].
  apply (cons_cstrs_sem alts axis (posn_axis alts axis) s Hnd Hperm Hpos (proj1 Hst) Hlf p Hc).
  now apply (SPw_axis_test alts p axis Hnd Hc Hperm).
Qed.

(* feasibility of the ILP <-> weak single-peakedness: only the solver remains trusted *)
Theorem ilp_sp_feasible_iff alts p : NoDup alts -> Forall (complete_on alts) p ->
  ((exists s, feasible (sp_ilp alts p) s) <-> SPw alts p).
Proof.
  intros Hnd Hc. split.
  - intros (s & Hf). destruct (ilp_sp_sound alts p s Hnd Hc Hf) as [Hp Hsp].
    exists (decode_axis alts s). split; [assumption|]. now apply (SPw_axis_test alts p _ Hnd Hc Hp) in Hsp.
  - intros (axis & Hp & Hsp). apply (SPw_axis_test alts p axis Hnd Hc Hp) in Hsp.
    destruct (ilp_sp_complete alts p axis Hnd Hc Hp Hsp) as (s & Hf & _). eauto.
Qed.

Corollary ilp_sp_model_correct alts p : NoDup alts -> Forall (complete_on alts) p ->
  ((exists s, feasible (sp_ilp alts p) s) <-> is_single_peaked_ILP_model DTtoc alts p = Ok true).
Proof.
  intros Hnd Hc. rewrite (ilp_sp_feasible_iff alts p Hnd Hc), <- (spw_decide_correct alts p Hnd Hc).
  unfold is_single_peaked_ILP_model. simpl. split; [intros ->; reflexivity|intros E; now injection E].
Qed.

(* ---------------------------------------------------------------------------------------------- *)
(* 11. approx_SP_voter_deletion_ILP                                                                 *)

Lemma combine_app_eq {A B} (a x : list A) (b y : list B) : length a = length b ->
  combine (a ++ x) (b ++ y) = combine a b ++ combine x y.
Proof.
  revert b. induction a as [|a0 a IH]; intros [|b0 b] E; simpl in *; try discriminate; [reflexivity|].
  f_equal. apply IH. lia.
Qed.

Lemma combine_map_repeat {A B C} (g : A -> B) (i : C) l :
  combine (map g l) (repeat i (length l)) = map (fun k => (g k, i)) l.
Proof. induction l as [|x l IH]; simpl; [reflexivity|]. now rewrite IH. Qed.

Lemma enumerate_In {T} (p : list T) i v o :
  In (v, o) (combine (seq i (length p)) p) <-> exists j, v = (i + j)%nat /\ nth_error p j = Some o.
Proof.
  revert i. induction p as [|x r IH]; intros i; simpl.
  - split; [contradiction|]. intros (j & _ & E). destruct j; discriminate.
  - rewrite IH. split.
    + intros [E|(j & -> & E)].
      * injection E as <- <-. exists 0%nat. split; [lia|reflexivity].
      * exists (S j). split; [lia|exact E].
    + intros ([|j] & -> & E).
      * left. simpl in E. injection E as ->. f_equal. lia.
      * right. exists j. split; [lia|exact E].
Qed.

Lemma votdel_rows_gen alts p i :
  combine (sp_matrix alts p)
          (flat_map (fun vo => repeat (fst vo) (length (snd vo))) (combine (seq i (length p)) p))
  = flat_map (fun vo => map (fun k => (sp_matrix_row alts (snd vo) k, fst vo)) (seq 0 (length (snd vo))))
             (combine (seq i (length p)) p).
Proof.
  revert i. induction p as [|o r IH]; intros i; [reflexivity|].
  unfold sp_matrix in *. simpl. rewrite combine_app_eq.
  - rewrite IH. f_equal. rewrite <- (seq_length (length o) 0) at 2. apply combine_map_repeat.
  - now rewrite map_length, seq_length, repeat_length.
Qed.

Lemma remove_idx_from_In V i p o :
  In o (remove_idx_from V i p) <-> exists j, nth_error p j = Some o /\ mem_nat (i + j) V = false.
Proof.
  revert i. induction p as [|x r IH]; intros i; simpl.
  - split; [contradiction|]. intros (j & E & _). destruct j; discriminate.
  - destruct (mem_nat i V) eqn:Mi.
    + rewrite IH. split.
      * intros (j & E & M). exists (S j). split; [exact E|]. now replace (i + S j)%nat with (S i + j)%nat by lia.
      * intros ([|j] & E & M).
        -- rewrite Nat.add_0_r in M. congruence.
        -- exists j. split; [exact E|]. now replace (S i + j)%nat with (i + S j)%nat by lia.
    + simpl. rewrite IH. split.
      * intros [->|(j & E & M)].
        -- exists 0%nat. split; [reflexivity|]. now rewrite Nat.add_0_r.
        -- exists (S j). split; [exact E|]. now replace (i + S j)%nat with (S i + j)%nat by lia.
      * intros ([|j] & E & M).
        -- left. simpl in E. now injection E.
        -- right. exists j. split; [exact E|]. now replace (S i + j)%nat with (i + S j)%nat by lia.
Qed.

(* the objective  sum_v del_v  counts the deleted items *)
Lemma objective_count (mkv : nat -> var) s i n :
  (forall v, (i <= v < i + n)%nat -> s (mkv v) = 0 \/ s (mkv v) = 1) ->
  eval s (map (fun v => (1, mkv v)) (seq i n)) = Z.of_nat (length (filter (fun v => 0 <? s (mkv v)) (seq i n))).
Proof.
  revert i. induction n as [|n IH]; intros i H; [reflexivity|].
  cbn [seq map filter]. change (eval s ((1, mkv i) :: ?l)) with (1 * s (mkv i) + eval s l).
  rewrite IH by (intros v Hv; apply H; lia).
  destruct (H i ltac:(lia)) as [E|E]; rewrite E.
  - change (0 <? 0) with false. cbn iota. lia.
  - change (0 <? 1) with true. cbn iota. cbn [length]. rewrite Nat2Z.inj_succ. lia.
Qed.

Lemma mem_nat_filter_seq f n v : (v < n)%nat -> mem_nat v (filter f (seq 0 n)) = f v.
Proof.
  intros Hv. apply eq_true_iff_eq. rewrite mem_nat_In, filter_In, in_seq. intuition lia.
Qed.

Lemma sp_on_axis_nil : sp_on_axis [] [].
Proof. intros k. rewrite firstn_nil. apply contiguous_nil. Qed.

Section VoterRows.
Variables (alts axis : list N) (posn : nat -> nat) (s : asg).
Hypothesis Hnd : NoDup alts.
Hypothesis Hperm : Permutation alts axis.
Hypothesis Hpos : forall a, (a < length alts)%nat -> (posn a < length alts)%nat /\ nth (posn a) axis 0%N = nth a alts 0%N.
Hypothesis Hbin : leftof_binary s (length alts).
Hypothesis Hlf : forall x y, (x < length alts)%nat -> (y < length alts)%nat -> x <> y ->
  (s (LeftOf x y) = 1 <-> (posn x < posn y)%nat).

Lemma voter_order_sem v o : complete_on alts o -> s (DelVoter v) = 0 \/ s (DelVoter v) = 1 ->
  ((forall k, (k < length o)%nat -> forall c, In c (row_cstrs (voter_relax v) (sp_matrix_row alts o k)) -> holds s c)
   <-> ((0 <? s (DelVoter v)) = true \/ sp_on_axis o axis)).
Proof.
  intros Hco Hdv.
  set (keep := fun _ : N => negb (0 <? s (DelVoter v))).
  assert (Hrel : forall i j k, (i < length alts)%nat -> (j < length alts)%nat -> (k < length alts)%nat ->
            if keep (nth i alts 0%N) && keep (nth j alts 0%N) && keep (nth k alts 0%N)
            then eval s (voter_relax v i j k) = 0 else eval s (voter_relax v i j k) <= -2).
  { intros i j k _ _ _. unfold keep, voter_relax. cbn [eval fold_right fst snd].
    destruct Hdv as [E|E]; rewrite E; simpl; lia. }
  rewrite (order_rows_sem alts axis posn Hnd Hperm Hpos s Hbin Hlf (voter_relax v) keep Hrel o Hco).
  unfold keep. destruct (0 <? s (DelVoter v)); simpl.
  - rewrite filter_false, fclasses_false. split; [now left|intros _; apply sp_on_axis_nil].
  - rewrite filter_true, fclasses_true by now destruct Hco as (_ & ? & _).
    split; [now right|intros [H|H]; [discriminate|exact H]].
Qed.

Lemma votdel_cons_sem p : Forall (complete_on alts) p ->
  (forall v, (v < length p)%nat -> s (DelVoter v) = 0 \/ s (DelVoter v) = 1) ->
  ((forall c, In c (votdel_cons_cstrs alts p) -> holds s c) <->
   SPw_axis (remove_idx (decode_voters (length p) s) p) axis).
Proof.
  intros Hc Hdv. unfold votdel_cons_cstrs, row_to_voter. rewrite votdel_rows_gen, flat_map_forall.
  unfold SPw_axis, remove_idx. rewrite Forall_forall in Hc. split.
  - intros H o Ho. apply remove_idx_from_In in Ho. destruct Ho as (v & Ev & Mv). simpl in Mv.
    assert (Hv : (v < length p)%nat) by (apply nth_error_Some; congruence).
    assert (Ho : In o p) by (eapply nth_error_In; eauto).
    unfold decode_voters in Mv. rewrite mem_nat_filter_seq in Mv by assumption.
    assert (Hrows : forall k, (k < length o)%nat ->
              forall c, In c (row_cstrs (voter_relax v) (sp_matrix_row alts o k)) -> holds s c).
    { intros k Hk c Hcc. apply (H (sp_matrix_row alts o k, v)); [|exact Hcc].
      apply in_flat_map. exists (v, o). split; [apply enumerate_In; exists v; auto|].
      cbn [fst snd]. apply in_map_iff. exists k. split; [reflexivity|apply in_seq; lia]. }
    apply (voter_order_sem v o (Hc o Ho) (Hdv v Hv)) in Hrows. destruct Hrows as [E|E]; [congruence|exact E].
  - intros H [row v'] Hrv c Hcc. apply in_flat_map in Hrv. destruct Hrv as ([v o] & Hvo & Hrv).
    cbn [fst snd] in *. apply in_map_iff in Hrv. destruct Hrv as (k & E & Hk). injection E as <- <-.
    apply in_seq in Hk. apply enumerate_In in Hvo. destruct Hvo as (j & -> & Ej). simpl in *.
    assert (Hv : (j < length p)%nat) by (apply nth_error_Some; congruence).
    assert (Ho : In o p) by (eapply nth_error_In; eauto).
    assert (Hk' : (k < length o)%nat) by lia. clear Hk. revert k Hk' c Hcc. apply (proj2 (voter_order_sem j o (Hc o Ho) (Hdv j Hv))).
    destruct (0 <? s (DelVoter j)) eqn:Dj; [now left|right]. apply H.
    apply remove_idx_from_In. exists j. split; [exact Ej|]. simpl. unfold decode_voters.
    now rewrite mem_nat_filter_seq.
Qed.
End VoterRows.

Lemma feasible_votdel_unfold alts p s : feasible (votdel_ilp alts p) s <->
  structural s (length alts) /\ trans_sem s (length alts) /\
  (forall v, (v < length p)%nat -> s (DelVoter v) = 0 \/ s (DelVoter v) = 1) /\
  (forall c, In c (votdel_cons_cstrs alts p) -> holds s c).
Proof.
  rewrite feasible_iff. unfold votdel_ilp. cbn [i_vars i_cstrs]. unfold structural, voter_vars.
  rewrite !forall_in_app, leftof_vars_sem, pos_vars_sem, (binary_vars_sem DelVoter),
          trans_cstrs_sem, total_cstrs_sem, pos_cstrs_sem. tauto.
Qed.

Lemma objective_votdel alts p s : (forall v, (v < length p)%nat -> s (DelVoter v) = 0 \/ s (DelVoter v) = 1) ->
  objective (votdel_ilp alts p) s = Z.of_nat (length (decode_voters (length p) s)).
Proof.
  intros H. unfold objective, votdel_ilp, decode_voters. cbn [i_obj]. apply (objective_count DelVoter).
  intros v Hv. apply H. lia.
Qed.

Theorem ilp_votdel_sound alts p s : NoDup alts -> Forall (complete_on alts) p ->
  feasible (votdel_ilp alts p) s ->
  let V := decode_voters (length p) s in
  objective (votdel_ilp alts p) s = Z.of_nat (length V) /\
  cert_vot alts p (length V) (decode_axis alts s) V = true.
Proof.
  intros Hnd Hc Hf V. apply feasible_votdel_unfold in Hf. destruct Hf as (Hst & _ & Hdv & Hcons).
  split; [now apply objective_votdel|].
  destruct (decode_placement alts s Hnd Hst) as (Hperm & Hpos & Hlf).
  apply cert_vot_correct; [assumption|assumption|]. unfold V, decode_voters. split; [|split; [|split; [|split]]].
  - apply NoDup_filter, seq_NoDup.
  - intros i Hi. apply filter_In in Hi. destruct Hi as [Hi _]. apply in_seq in Hi. lia.
  - reflexivity.
  - exact Hperm.
  - apply (votdel_cons_sem alts _ (posn_of s) s Hnd Hperm Hpos (proj1 Hst) Hlf p Hc Hdv). exact Hcons.
Qed.

Theorem ilp_votdel_complete alts p k axis V : NoDup alts -> Forall (complete_on alts) p ->
  cert_vot alts p k axis V = true ->
  exists s, feasible (votdel_ilp alts p) s /\ objective (votdel_ilp alts p) s = Z.of_nat k /\
            decode_axis alts s = axis /\ (forall v, In v (decode_voters (length p) s) <-> In v V).
Proof.
  intros Hnd Hc Hcert. apply cert_vot_correct in Hcert; [|assumption|assumption].
  destruct Hcert as (HV & Hrange & Hk & Hperm & Hsp).
  destruct (axis_placement alts axis (fun v => mem_nat v V) (fun _ => false) Hnd Hperm) as (Hpos & Hst & Htr & Hlf & Hdec).
  set (s := mk_asg (posn_axis alts axis) (fun v => mem_nat v V) (fun _ => false)) in *.
  assert (Hdv : forall v, (v < length p)%nat -> s (DelVoter v) = 0 \/ s (DelVoter v) = 1).
  { intros v _. unfold s, mk_asg. destruct (mem_nat v V); auto. }
  assert (EV : decode_voters (length p) s = norm_idx (length p) V).
  { unfold decode_voters, norm_idx. apply filter_ext. intros v. unfold s, mk_asg. now destruct (mem_nat v V). }
  assert (Hmem : forall v, In v (decode_voters (length p) s) <-> In v V).
  { intros v. rewrite EV. unfold norm_idx. rewrite filter_In, in_seq, mem_nat_In. split; [tauto|].
    intros Hv. specialize (Hrange v Hv). split; [lia|assumption]. }
  exists s. split; [|split; [|split]]; try assumption.
  - apply feasible_votdel_unfold. split; [assumption|]. split; [assumption|]. split; [assumption|].
    apply (votdel_cons_sem alts axis (posn_axis alts axis) s Hnd Hperm Hpos (proj1 Hst) Hlf p Hc Hdv).
    now rewrite EV, remove_idx_norm.
  - rewrite objective_votdel by assumption. f_equal. rewrite <- Hk. apply Nat.le_antisymm.
    + rewrite EV. apply norm_idx_length.
    + apply NoDup_incl_length; [assumption|]. intros v Hv. now apply Hmem.
Qed.

(* the optimum of the ILP is the minimum number of distinct orders to delete *)
Theorem ilp_votdel_optimum alts p z : NoDup alts -> Forall (complete_on alts) p ->
  (ilp_opt (votdel_ilp alts p) z <-> z = Z.of_nat (min_vot_del alts p)).
Proof.
  intros Hnd Hc.
  assert (Hlow : forall s, feasible (votdel_ilp alts p) s -> Z.of_nat (min_vot_del alts p) <= objective (votdel_ilp alts p) s).
  { intros s Hf. destruct (ilp_votdel_sound alts p s Hnd Hc Hf) as [Eo Hcert]. rewrite Eo.
    apply cert_vot_valid_bound in Hcert; [|assumption|assumption]. lia. }
  assert (Hex : exists s, feasible (votdel_ilp alts p) s /\ objective (votdel_ilp alts p) s = Z.of_nat (min_vot_del alts p)).
  { destruct (min_vot_del_witness alts p) as (V & Hs & Hl & Hok).
    apply vot_del_ok_correct in Hok; [|assumption|assumption]. destruct Hok as (axis & Hperm & Hsp).
    assert (Hcert : cert_vot alts p (min_vot_del alts p) axis V = true).
    { apply cert_vot_correct; [assumption|assumption|]. split; [eapply sublist_NoDup; [exact Hs|apply seq_NoDup]|].
      split; [|auto]. intros i Hi. apply (sublist_incl _ _ Hs) in Hi. apply in_seq in Hi. lia. }
    destruct (ilp_votdel_complete alts p _ axis V Hnd Hc Hcert) as (s & Hf & Ho & _). eauto. }
  split.
  - intros [(s & Hf & Ho) Hmin]. destruct Hex as (s' & Hf' & Ho').
    pose proof (Hlow s Hf). pose proof (Hmin s' Hf'). lia.
  - intros ->. split; [exact Hex|exact Hlow].
Qed.

(* ---------------------------------------------------------------------------------------------- *)
(* 12. approx_SP_alternative_deletion_ILP                                                           *)

Lemma NoDup_map_inj_in {A B} (f : A -> B) l :
  (forall x y, In x l -> In y l -> f x = f y -> x = y) -> NoDup l -> NoDup (map f l).
Proof.
  intros Hinj Hnd. induction Hnd as [|x l Hx Hl IH]; [constructor|]. simpl. constructor.
  - intros Hin. apply in_map_iff in Hin. destruct Hin as (y & E & Hy).
    assert (y = x) by (apply Hinj; [now right|now left|assumption]). subst. contradiction.
  - apply IH. intros a b Ha Hb. apply Hinj; now right.
Qed.

Lemma filter_all {T} (f : T -> bool) l : (forall x, In x l -> f x = true) -> filter f l = l.
Proof.
  induction l as [|x l IH]; intros H; [reflexivity|]. simpl. rewrite (H x (or_introl eq_refl)). f_equal.
  apply IH. intros y Hy. apply H. now right.
Qed.

Lemma filter_none {T} (f : T -> bool) l : (forall x, In x l -> f x = false) -> filter f l = [].
Proof.
  induction l as [|x l IH]; intros H; [reflexivity|]. simpl. rewrite (H x (or_introl eq_refl)).
  apply IH. intros y Hy. apply H. now right.
Qed.

Lemma partition_perm {T} (f : T -> bool) l : Permutation l (filter (fun x => negb (f x)) l ++ filter f l).
Proof.
  induction l as [|x l IH]; [constructor|]. simpl. destruct (f x); simpl.
  - now apply Permutation_cons_app.
  - now constructor.
Qed.

Lemma decode_alts_mem alts s a : NoDup alts -> (a < length alts)%nat ->
  memN (nth a alts 0%N) (decode_alts alts s) = (0 <? s (DelAlt a)).
Proof.
  intros Hnd Ha. apply eq_true_iff_eq. unfold decode_alts, decode_alt_idx. rewrite memN_In, in_map_iff. split.
  - intros (b & E & Hb). apply filter_In in Hb. destruct Hb as [Hb Db]. apply in_seq in Hb.
    assert (b = a) by (apply (proj1 (NoDup_nth alts 0%N) Hnd); [lia|assumption|assumption]). now subst.
  - intros D. exists a. split; [reflexivity|]. apply filter_In. split; [apply in_seq; lia|assumption].
Qed.

Section AltRows.
Variables (alts axis : list N) (posn : nat -> nat) (s : asg).
Hypothesis Hnd : NoDup alts.
Hypothesis Hperm : Permutation alts axis.
Hypothesis Hpos : forall a, (a < length alts)%nat -> (posn a < length alts)%nat /\ nth (posn a) axis 0%N = nth a alts 0%N.
Hypothesis Hbin : leftof_binary s (length alts).
Hypothesis Hlf : forall x y, (x < length alts)%nat -> (y < length alts)%nat -> x <> y ->
  (s (LeftOf x y) = 1 <-> (posn x < posn y)%nat).
Hypothesis Hda : forall a, (a < length alts)%nat -> s (DelAlt a) = 0 \/ s (DelAlt a) = 1.

Lemma altdel_cons_sem p : Forall (complete_on alts) p ->
  let D := decode_alts alts s in
  ((forall c, In c (altdel_cons_cstrs alts p) -> holds s c) <-> SPw_axis (delete_alts D p) (keepN D axis)).
Proof.
  intros Hc D. unfold altdel_cons_cstrs. rewrite flat_map_forall, <- Forall_forall.
  rewrite (sp_matrix_rows (fun row => forall c, In c (row_cstrs alt_relax row) -> holds s c)).
  set (keep := fun x : N => negb (memN x D)).
  assert (Hrel : forall i j k, (i < length alts)%nat -> (j < length alts)%nat -> (k < length alts)%nat ->
            if keep (nth i alts 0%N) && keep (nth j alts 0%N) && keep (nth k alts 0%N)
            then eval s (alt_relax i j k) = 0 else eval s (alt_relax i j k) <= -2).
  { intros i j k Hi Hj Hk. unfold keep, D. rewrite !decode_alts_mem by assumption.
    unfold alt_relax. cbn [eval fold_right fst snd].
    destruct (Hda i Hi) as [Ei|Ei], (Hda j Hj) as [Ej|Ej], (Hda k Hk) as [Ek|Ek]; rewrite Ei, Ej, Ek; simpl; lia. }
  unfold SPw_axis, delete_alts. rewrite Forall_forall in Hc. split.
  - intros H o' Ho'. apply in_map_iff in Ho'. destruct Ho' as (o & <- & Ho).
    apply (order_rows_sem alts axis posn Hnd Hperm Hpos s Hbin Hlf alt_relax keep Hrel o (Hc o Ho)). now apply H.
  - intros H o Ho.
    apply (order_rows_sem alts axis posn Hnd Hperm Hpos s Hbin Hlf alt_relax keep Hrel o (Hc o Ho)).
    apply (H (delete_order D o)). now apply in_map.
Qed.
End AltRows.

Lemma feasible_altdel_unfold alts p s : feasible (altdel_ilp alts p) s <->
  structural s (length alts) /\ trans_sem s (length alts) /\
  (forall a, (a < length alts)%nat -> s (DelAlt a) = 0 \/ s (DelAlt a) = 1) /\
  (forall c, In c (altdel_cons_cstrs alts p) -> holds s c).
Proof.
  rewrite feasible_iff. unfold altdel_ilp. cbn [i_vars i_cstrs]. unfold structural, alt_vars.
  rewrite !forall_in_app, leftof_vars_sem, pos_vars_sem, (binary_vars_sem DelAlt),
          trans_cstrs_sem, total_cstrs_sem, pos_cstrs_sem. tauto.
Qed.

Lemma objective_altdel alts p s : (forall a, (a < length alts)%nat -> s (DelAlt a) = 0 \/ s (DelAlt a) = 1) ->
  objective (altdel_ilp alts p) s = Z.of_nat (length (decode_alts alts s)).
Proof.
  intros H. unfold objective, altdel_ilp, decode_alts, decode_alt_idx. cbn [i_obj]. rewrite map_length.
  apply (objective_count DelAlt). intros v Hv. apply H. lia.
Qed.

Lemma decode_alts_nodup alts s : NoDup alts -> NoDup (decode_alts alts s) /\ incl (decode_alts alts s) alts.
Proof.
  intros Hnd. unfold decode_alts, decode_alt_idx. split.
  - apply NoDup_map_inj_in; [|apply NoDup_filter, seq_NoDup]. intros x y Hx Hy E.
    apply filter_In in Hx, Hy. destruct Hx as [Hx _], Hy as [Hy _]. apply in_seq in Hx, Hy.
    apply (proj1 (NoDup_nth alts 0%N) Hnd); [lia|lia|assumption].
  - intros x Hx. apply in_map_iff in Hx. destruct Hx as (a & <- & Ha). apply filter_In in Ha.
    destruct Ha as [Ha _]. apply in_seq in Ha. apply nth_In. lia.
Qed.

Theorem ilp_altdel_sound alts p s : NoDup alts -> Forall (complete_on alts) p ->
  feasible (altdel_ilp alts p) s ->
  let D := decode_alts alts s in
  objective (altdel_ilp alts p) s = Z.of_nat (length D) /\
  cert_alt alts p (length D) (decode_axis alts s) D = true.
Proof.
  intros Hnd Hc Hf D. apply feasible_altdel_unfold in Hf. destruct Hf as (Hst & _ & Hda & Hcons).
  split; [now apply objective_altdel|].
  destruct (decode_placement alts s Hnd Hst) as (Hperm & Hpos & Hlf).
  destruct (decode_alts_nodup alts s Hnd) as [HD1 HD2].
  apply cert_alt_correct; [assumption|assumption|]. split; [exact HD1|]. split; [exact HD2|]. split; [reflexivity|].
  split; [now apply keepN_perm|].
  apply (altdel_cons_sem alts _ (posn_of s) s Hnd Hperm Hpos (proj1 Hst) Hlf Hda p Hc). exact Hcons.
Qed.

(* a certificate may carry a partial axis (the dynamic programme) or a full one (the ILP): only its restriction
   to the remaining alternatives matters; the assignment places the deleted alternatives at the right end *)
Theorem ilp_altdel_complete alts p k axis D : NoDup alts -> Forall (complete_on alts) p ->
  cert_alt alts p k axis D = true ->
  exists s, feasible (altdel_ilp alts p) s /\ objective (altdel_ilp alts p) s = Z.of_nat k /\
            keepN D (decode_axis alts s) = keepN D axis /\ (forall x, In x (decode_alts alts s) <-> In x D).
Proof.
  intros Hnd Hc Hcert. apply cert_alt_correct in Hcert; [|assumption|assumption].
  destruct Hcert as (HD & HDin & Hk & Hperm0 & Hsp).
  set (axis' := keepN D axis ++ filter (fun x => memN x D) alts).
  assert (Hperm : Permutation alts axis').
  { unfold axis'. eapply perm_trans; [apply (partition_perm (fun x => memN x D))|].
    apply Permutation_app_tail. exact Hperm0. }
  assert (Hk' : keepN D axis' = keepN D axis).
  { unfold axis', keepN. rewrite filter_app, filter_filter_and.
    rewrite (filter_none _ (filter (fun x => memN x D) alts)).
    - rewrite app_nil_r. apply filter_ext. intros x. now destruct (memN x D).
    - intros x Hx. apply filter_In in Hx. destruct Hx as [_ ->]. reflexivity. }
  set (da := fun a => memN (nth a alts 0%N) D).
  destruct (axis_placement alts axis' (fun _ => false) da Hnd Hperm) as (Hpos & Hst & Htr & Hlf & Hdec).
  set (s := mk_asg (posn_axis alts axis') (fun _ => false) da) in *.
  assert (Hda : forall a, (a < length alts)%nat -> s (DelAlt a) = 0 \/ s (DelAlt a) = 1).
  { intros a _. unfold s, mk_asg. destruct (da a); auto. }
  assert (Hmem : forall x, In x (decode_alts alts s) <-> In x D).
  { intros x. split.
    - intros Hx. destruct (decode_alts_nodup alts s Hnd) as [_ Hin]. pose proof (Hin x Hx) as Hxa.
      apply (In_nth _ _ 0%N) in Hxa. destruct Hxa as (a & Ha & <-).
      apply memN_In in Hx. rewrite decode_alts_mem in Hx by assumption.
      unfold s, mk_asg, da in Hx. apply memN_In. destruct (memN (nth a alts 0%N) D); [reflexivity|discriminate].
    - intros Hx. pose proof (HDin x Hx) as Hxa. apply (In_nth _ _ 0%N) in Hxa. destruct Hxa as (a & Ha & <-).
      apply memN_In. rewrite decode_alts_mem by assumption. unfold s, mk_asg, da.
      apply memN_In in Hx. now rewrite Hx. }
  assert (EK : forall l, keepN (decode_alts alts s) l = keepN D l).
  { intros l. apply keepN_ext. intros a _. apply Hmem. }
  assert (ED : delete_alts (decode_alts alts s) p = delete_alts D p).
  { unfold delete_alts. apply map_ext_in. intros o Ho. apply (delete_order_ext _ _ alts).
    - apply complete_on_incl. rewrite Forall_forall in Hc. now apply Hc.
    - intros a _. apply Hmem. }
  exists s. split; [|split; [|split]].
  - apply feasible_altdel_unfold. split; [assumption|]. split; [assumption|]. split; [assumption|].
    apply (altdel_cons_sem alts axis' (posn_axis alts axis') s Hnd Hperm Hpos (proj1 Hst) Hlf Hda p Hc).
    now rewrite EK, ED, Hk'.
  - rewrite objective_altdel by assumption. f_equal. rewrite <- Hk.
    apply Permutation_length. apply NoDup_Permutation; [apply (decode_alts_nodup alts s Hnd)|assumption|exact Hmem].
  - now rewrite Hdec.
  - exact Hmem.
Qed.

(* the optimum of the ILP is the minimum number of alternatives to delete *)
Theorem ilp_altdel_optimum alts p z : NoDup alts -> Forall (complete_on alts) p ->
  (ilp_opt (altdel_ilp alts p) z <-> z = Z.of_nat (min_alt_del alts p)).
Proof.
  intros Hnd Hc.
  assert (Hlow : forall s, feasible (altdel_ilp alts p) s -> Z.of_nat (min_alt_del alts p) <= objective (altdel_ilp alts p) s).
  { intros s Hf. destruct (ilp_altdel_sound alts p s Hnd Hc Hf) as [Eo Hcert]. rewrite Eo.
    apply cert_alt_valid_bound in Hcert; [|assumption|assumption]. lia. }
  assert (Hex : exists s, feasible (altdel_ilp alts p) s /\ objective (altdel_ilp alts p) s = Z.of_nat (min_alt_del alts p)).
  { destruct (min_alt_del_witness alts p) as (D & Hs & Hl & Hok).
    apply alt_del_ok_correct in Hok; [|assumption|assumption]. destruct Hok as (axis & Hperm & Hsp).
    assert (Hkeep : keepN D axis = axis).
    { apply filter_all. intros x Hx. eapply Permutation_in in Hx; [|apply Permutation_sym; exact Hperm].
      apply keepN_In in Hx. destruct Hx as [_ Hx]. apply negb_true_iff. now apply memN_false. }
    assert (Hcert : cert_alt alts p (min_alt_del alts p) axis D = true).
    { apply cert_alt_correct; [assumption|assumption|]. split; [eapply sublist_NoDup; eauto|].
      split; [now apply sublist_incl|]. split; [assumption|]. rewrite Hkeep. auto. }
    destruct (ilp_altdel_complete alts p _ axis D Hnd Hc Hcert) as (s & Hf & Ho & _). eauto. }
  split.
  - intros [(s & Hf & Ho) Hmin]. destruct Hex as (s' & Hf' & Ho').
    pose proof (Hlow s Hf). pose proof (Hmin s' Hf'). lia.
  - intros ->. split; [exact Hex|exact Hlow].
Qed.

(* ---------------------------------------------------------------------------------------------- *)
(* 13. remarks                                                                                      *)

(* the 6 * C(m,3) transitivity constraints are implied by totality + position constraints + bounds *)
Theorem trans_redundant s m : structural s m -> trans_sem s m.
Proof.
  intros (Hb & Hr & Ht & Hp) x y z Hx Hy Hz Hxy Hyz Hxz.
  destruct (pos_order_core s m Hb Hr Ht Hp x y Hx Hy Hxy) as [A1 A0].
  destruct (pos_order_core s m Hb Hr Ht Hp y z Hy Hz Hyz) as [B1 B0].
  destruct (pos_order_core s m Hb Hr Ht Hp x z Hx Hz Hxz) as [C1 C0].
  destruct (Hb x y Hx Hy) as [E1|E1], (Hb y z Hy Hz) as [E2|E2], (Hb x z Hx Hz) as [E3|E3];
    rewrite E1, E2, E3 in *; lia.
Qed.

(* the verdict of is_single_peaked_ILP, for both admissible data types, given a solver that finds a feasible
   assignment iff one exists *)
Corollary ilp_sp_verdict d alts p : d = DTsoc \/ d = DTtoc -> NoDup alts -> Forall (complete_on alts) p ->
  ((exists s, feasible (sp_ilp alts p) s) <-> is_single_peaked_ILP_model d alts p = Ok true).
Proof.
  intros Hd Hnd Hc. rewrite (ilp_sp_feasible_iff alts p Hnd Hc), <- (spw_decide_correct alts p Hnd Hc).
  unfold is_single_peaked_ILP_model. destruct Hd as [-> | ->]; simpl;
    (split; [intros ->; reflexivity|intros E; now injection E]).
Qed.
