(* Ops/C12.v — protocol entry points for property C12 (nearly-single-peaked optimisers).
   payload conventions: order = list of classes (lists of N); profile = list of orders (instance.orders);
   alts / axis / D = list of N; V = list of indices into the profile; k = int. *)
From Coq Require Import List ZArith NArith String.
From PrefVerif Require Import Lib.Val Model.SP Model.Deletion.
Import ListNotations.
Open Scope string_scope.

Definition d_alts (v : val) : list N := dlist dN v.
Definition d_order (v : val) : order := dlist (dlist dN) v.
Definition d_profile (v : val) : list order := dlist d_order v.
Definition d_idx (v : val) : list nat := dlist dnat v.

(* (alts profile) -> nat *)
Definition op_min_alt (v : val) : val := enat (min_alt_del (d_alts (dnth 0 v)) (d_profile (dnth 1 v))).
Definition op_min_vot (v : val) : val := enat (min_vot_del (d_alts (dnth 0 v)) (d_profile (dnth 1 v))).
(* (alts profile k axis D) -> bool *)
Definition op_cert_alt (v : val) : val :=
  ebool (cert_alt (d_alts (dnth 0 v)) (d_profile (dnth 1 v)) (dnat (dnth 2 v)) (d_alts (dnth 3 v)) (d_alts (dnth 4 v))).
(* (alts profile k axis V) -> bool *)
Definition op_cert_vot (v : val) : val :=
  ebool (cert_vot (d_alts (dnth 0 v)) (d_profile (dnth 1 v)) (dnat (dnth 2 v)) (d_alts (dnth 3 v)) (d_idx (dnth 4 v))).
(* (S alts profile) -> optimum of the profile restricted to the alternatives of S (lower bounds: opt_restrict_mono) *)
Definition op_core_alt (v : val) : val :=
  let S := d_alts (dnth 0 v) in
  enat (min_alt_del (restrict_alts S (d_alts (dnth 1 v))) (map (restrict_order S) (d_profile (dnth 2 v)))).
Definition op_core_vot (v : val) : val :=
  let S := d_alts (dnth 0 v) in
  enat (min_vot_del (restrict_alts S (d_alts (dnth 1 v))) (map (restrict_order S) (d_profile (dnth 2 v)))).
(* (alts profile D) -> bool ; (alts profile V) -> bool : is this deletion set sufficient? (diagnostics) *)
Definition op_alt_ok (v : val) : val :=
  ebool (alt_del_ok (d_alts (dnth 0 v)) (d_profile (dnth 1 v)) (d_alts (dnth 2 v))).
Definition op_vot_ok (v : val) : val :=
  ebool (vot_del_ok (d_alts (dnth 0 v)) (d_profile (dnth 1 v)) (d_idx (dnth 2 v))).

Definition ops : optable :=
  [ ("c12.min_alt", op_min_alt); ("c12.min_vot", op_min_vot); ("c12.cert_alt", op_cert_alt);
    ("c12.cert_vot", op_cert_vot); ("c12.core_alt", op_core_alt); ("c12.core_vot", op_core_vot);
    ("c12.alt_ok", op_alt_ok); ("c12.vot_ok", op_vot_ok) ].
