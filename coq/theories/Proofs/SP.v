(* Proofs/SP.v — specifications and lemmas for Model/SP.v (C03, C11; reused by C12, C15, C18).

   SPECIFICATIONS (Prop)
     sp_on_axis o axis    for every k, the union of the k best classes of o is contiguous on axis
     SPw_axis p axis      every order of p is sp_on_axis
     SPw alts p           exists axis, Permutation alts axis /\ SPw_axis p axis          (C11)
     SP_axis rs axis      for every ranking r of rs and every k, firstn k r is contiguous on axis
     SP alts rs           exists axis, Permutation alts axis /\ SP_axis rs axis            (C03)
     same_elems axis o    the alternatives of o are exactly those of axis
     complete_on axis o   NoDup (concat o) /\ all classes non-empty /\ same_elems axis o    (complete weak order)
     sp_C1P rows nc       some permutation of the nc columns makes the ones of every row consecutive *)
From Coq Require Import List Arith NArith Bool Lia Permutation.
From PrefVerif Require Import Lib.Val Lib.Perms Lib.Contig Model.SP.
Import ListNotations.

(* ---------------------------------------------------------------------------------------------- *)
(* specifications                                                                                  *)

Definition sp_on_axis (o : order) (axis : list N) : Prop :=
  forall k, contiguous (concat (firstn k o)) axis.
Definition SPw_axis (p : list order) (axis : list N) : Prop := forall o, In o p -> sp_on_axis o axis.
Definition SPw (alts : list N) (p : list order) : Prop :=
  exists axis, Permutation alts axis /\ SPw_axis p axis.

Definition SP_axis (rs : list ranking) (axis : list N) : Prop :=
  forall r, In r rs -> forall k, contiguous (firstn k r) axis.
Definition SP (alts : list N) (rs : list ranking) : Prop :=
  exists axis, Permutation alts axis /\ SP_axis rs axis.

Definition same_elems (axis : list N) (o : order) : Prop := forall a, In a axis <-> In a (concat o).
Definition complete_on (axis : list N) (o : order) : Prop :=
  NoDup (concat o) /\ Forall (fun c => c <> []) o /\ same_elems axis o.

Definition sp_C1P (rows : list (list bool)) (ncols : nat) : Prop :=
  exists perm, Permutation (seq 0 ncols) perm /\
               Forall (fun row => ones_consec (map (fun j => nth j row false) perm)) rows.

(* ---------------------------------------------------------------------------------------------- *)
(* 1. the scan accepts exactly the valleys (no  low .. HIGH .. low)                                *)

Fixpoint nondec (q : nat) (ps : list nat) : bool :=
  match ps with [] => true | p :: r => (q <=? p) && nondec p r end.

Lemma sp_scan_passed q ps : sp_scan q true ps = nondec q ps.
Proof.
  revert q; induction ps as [|p r IH]; intros q; simpl; [reflexivity|].
  destruct (q <? p) eqn:E1.
  - apply Nat.ltb_lt in E1. rewrite IH. replace (q <=? p) with true; [reflexivity|].
    symmetry; apply Nat.leb_le; lia.
  - apply Nat.ltb_ge in E1. destruct (p <? q) eqn:E2; simpl.
    + apply Nat.ltb_lt in E2. replace (q <=? p) with false; [reflexivity|].
      symmetry; apply Nat.leb_gt; lia.
    + apply Nat.ltb_ge in E2. rewrite IH. replace (q <=? p) with true; [reflexivity|].
      symmetry; apply Nat.leb_le; lia.
Qed.

Lemma nondec_in q ps : nondec q ps = true -> forall z, In z ps -> q <= z.
Proof.
  revert q; induction ps as [|p r IH]; intros q H z Hz; simpl in *; [contradiction|].
  apply andb_true_iff in H. destruct H as [H1 H2]. apply Nat.leb_le in H1.
  destruct Hz as [<-|Hz]; [assumption|]. specialize (IH p H2 z Hz). lia.
Qed.

Lemma nondec_no_desc q ps : nondec q ps = true ->
  forall l1 y l3 z l4, q :: ps = l1 ++ y :: l3 ++ z :: l4 -> y <= z.
Proof.
  revert q; induction ps as [|p r IH]; intros q H l1 y l3 z l4 E.
  - destruct l1 as [|a l1]; simpl in E.
    + injection E as _ E. destruct l3; discriminate.
    + injection E as _ E. destruct l1; discriminate.
  - destruct l1 as [|a l1]; simpl in E.
    + injection E as <- E. apply (nondec_in _ _ H). rewrite E. apply in_or_app. right. now left.
    + injection E as _ E. simpl in H. apply andb_true_iff in H. destruct H as [_ H].
      eapply IH; eauto.
Qed.

Lemma nondec_false q ps : nondec q ps = false ->
  exists l1 y z l4, q :: ps = l1 ++ y :: z :: l4 /\ z < y /\ (forall w, In w l1 -> w <= y).
Proof.
  revert q; induction ps as [|p r IH]; intros q H; simpl in H; [discriminate|].
  destruct (q <=? p) eqn:E; simpl in H.
  - apply Nat.leb_le in E. destruct (IH p H) as (l1 & y & z & l4 & E' & Hlt & Hle).
    exists (q :: l1), y, z, l4. split; [simpl; now rewrite E'|]. split; [assumption|].
    intros w [<-|Hw]; [|now apply Hle].
    destruct l1 as [|a l1]; simpl in E'; injection E' as -> _; [lia|].
    specialize (Hle a (or_introl eq_refl)). lia.
  - apply Nat.leb_gt in E. exists [], q, p, r. repeat split; auto. intros w [].
Qed.

Theorem sp_scan_correct : forall ps q, sp_scan q false ps = true <-> ~ peak3 (q :: ps).
Proof.
  induction ps as [|p r IH]; intros q.
  - simpl. split; [|reflexivity]. intros _ (x & y & z & (l1 & l2 & l3 & l4 & E) & _).
    destruct l1 as [|a l1]; simpl in E; injection E as _ E.
    + destruct l2; discriminate.
    + destruct l1; discriminate.
  - simpl. destruct (q <? p) eqn:E1.
    + apply Nat.ltb_lt in E1. rewrite sp_scan_passed. split.
      * intros H (x & y & z & (l1 & l2 & l3 & l4 & E) & Hxy & Hzy).
        destruct l1 as [|a l1]; simpl in E; injection E as E0 E.
        -- assert (Hyz : y <= z).
           { eapply (nondec_no_desc p r H l2 y l3 z l4). exact E. }
           lia.
        -- assert (Hyz : y <= z).
           { eapply (nondec_no_desc p r H (l1 ++ x :: l2) y l3 z l4).
             rewrite E. now rewrite <- app_assoc. }
           lia.
      * intros Hnb. destruct (nondec p r) eqn:Hn; [reflexivity|exfalso].
        destruct (nondec_false _ _ Hn) as (l1 & y & z & l4 & E & Hlt & Hle).
        apply Hnb. exists q, y, z. split.
        -- exists [], l1, [], l4. simpl. now rewrite E.
        -- split; [|assumption].
           destruct l1 as [|a l1]; simpl in E; injection E as E0 E.
           ++ lia.
           ++ specialize (Hle a (or_introl eq_refl)). lia.
    + apply Nat.ltb_ge in E1. rewrite andb_false_r. rewrite IH. split.
      * intros Hnb (x & y & z & (l1 & l2 & l3 & l4 & E) & Hxy & Hzy). apply Hnb.
        destruct l1 as [|a l1]; simpl in E; injection E as E0 E.
        -- subst x. destruct l2 as [|b l2]; simpl in E.
           ++ injection E as E _. lia.
           ++ injection E as Eb E. subst b. exists p, y, z. split; [|lia].
              exists [], l2, l3, l4. simpl. now rewrite E.
        -- exists x, y, z. split; [|lia]. exists l1, l2, l3, l4. exact E.
      * intros Hnb (x & y & z & (l1 & l2 & l3 & l4 & E) & Hxy & Hzy). apply Hnb.
        exists x, y, z. split; [|lia]. exists (q :: l1), l2, l3, l4. simpl. now rewrite E.
Qed.

Theorem sp_scan_ok_correct ps : sp_scan_ok ps = true <-> valley ps.
Proof.
  destruct ps as [|q r]; simpl.
  - split; [|reflexivity]. intros _ (x & y & z & (l1 & l2 & l3 & l4 & E) & _).
    destruct l1; discriminate.
  - apply sp_scan_correct.
Qed.

(* ---------------------------------------------------------------------------------------------- *)
(* 2. class positions and level sets                                                               *)

Lemma class_pos_cons c r a : class_pos (c :: r) a = if memN a c then 0 else S (class_pos r a).
Proof.
  unfold class_pos. simpl. destruct (memN a c); [reflexivity|].
  destruct (class_index r a); reflexivity.
Qed.

Lemma concat_firstn_incl {T} k (o : list (list T)) : incl (concat (firstn k o)) (concat o).
Proof.
  revert k; induction o as [|c r IH]; intros k x Hx.
  - now rewrite firstn_nil in Hx.
  - destruct k as [|k]; simpl in *; [contradiction|].
    apply in_app_or in Hx. apply in_or_app. destruct Hx as [Hx|Hx]; [now left|right].
    eapply IH; eauto.
Qed.

Lemma class_pos_lt o a k : In a (concat o) -> (class_pos o a < k <-> In a (concat (firstn k o))).
Proof.
  revert k; induction o as [|c r IH]; intros k Hin; [contradiction|].
  rewrite class_pos_cons. destruct k as [|k].
  - simpl. split; [lia|contradiction].
  - simpl in *. destruct (memN a c) eqn:E.
    + apply memN_In in E. split; [|lia]. intros _. apply in_or_app. now left.
    + apply memN_false in E. apply in_app_or in Hin. destruct Hin as [Hin|Hin]; [contradiction|].
      rewrite <- Nat.succ_lt_mono, (IH k Hin). split.
      * intros H. apply in_or_app. now right.
      * intros H. apply in_app_or in H. destruct H as [H|H]; [contradiction|assumption].
Qed.

Lemma level_set_prefix o axis k : same_elems axis o ->
  forall x, In x (filter (fun a => class_pos o a <? k) axis) <-> In x (concat (firstn k o)).
Proof.
  intros Hse x. rewrite filter_In, Nat.ltb_lt. split.
  - intros [Hx Hlt]. apply class_pos_lt; [now apply Hse|assumption].
  - intros Hx. assert (Hx' : In x (concat o)) by (eapply concat_firstn_incl; eauto).
    split; [now apply Hse|]. now apply class_pos_lt.
Qed.

(* ---------------------------------------------------------------------------------------------- *)
(* 3. the axis test                                                                                *)

Theorem axis_test_correct_gen o axis : same_elems axis o -> NoDup axis ->
  (sp_axis_weak o axis = true <-> sp_on_axis o axis).
Proof.
  intros Hse Hnd. unfold sp_axis_weak, sp_on_axis.
  rewrite sp_scan_ok_correct, (valley_level_sets (class_pos o) axis Hnd).
  split; intros H k; specialize (H k).
  - eapply contiguous_ext; [|exact H]. now apply level_set_prefix.
  - eapply contiguous_ext; [|exact H]. intros x. symmetry. now apply level_set_prefix.
Qed.

Theorem axis_test_correct o axis : complete_on axis o -> NoDup axis ->
  (sp_axis_weak o axis = true <-> forall k, contiguous (concat (firstn k o)) axis).
Proof. intros (_ & _ & Hse) Hnd. now apply axis_test_correct_gen. Qed.

Lemma sp_axis_profile_correct p axis : NoDup axis -> (forall o, In o p -> same_elems axis o) ->
  (sp_axis_profile p axis = true <-> SPw_axis p axis).
Proof.
  intros Hnd Hse. unfold sp_axis_profile, SPw_axis. rewrite forallb_forall.
  split; intros H o Ho.
  - apply axis_test_correct_gen; auto.
  - apply axis_test_correct_gen; auto.
Qed.

Lemma same_elems_perm axis axis' o : Permutation axis axis' -> same_elems axis o -> same_elems axis' o.
Proof.
  intros Hp Hse a. split.
  - intros Ha. apply Hse. eapply Permutation_in; [apply Permutation_sym; exact Hp|exact Ha].
  - intros Ha. apply Hse in Ha. eapply Permutation_in; eauto.
Qed.

Lemma complete_on_perm axis axis' o : Permutation axis axis' -> complete_on axis o -> complete_on axis' o.
Proof.
  intros Hp (H1 & H2 & H3). split; [assumption|]. split; [assumption|]. eapply same_elems_perm; eauto.
Qed.

(* the model of is_single_peaked_axis on an instance of type soc / toc *)
Theorem axis_test_profile_correct d p axis :
  dt_soc_toc d = true -> NoDup axis -> Forall (complete_on axis) p ->
  exists b, is_single_peaked_axis_model d p axis = Ok b /\ (b = true <-> SPw_axis p axis).
Proof.
  intros Hd Hnd Hc. unfold is_single_peaked_axis_model. rewrite Hd. eexists. split; [reflexivity|].
  apply sp_axis_profile_correct; [assumption|]. intros o Ho.
  rewrite Forall_forall in Hc. now destruct (Hc o Ho) as (_ & _ & H).
Qed.

(* ---------------------------------------------------------------------------------------------- *)
(* 4. witness checker and reference decider                                                        *)

Lemma nodupN_correct l : nodupN l = true <-> NoDup l.
Proof.
  induction l as [|a r IH]; simpl.
  - split; [constructor|reflexivity].
  - rewrite andb_true_iff, negb_true_iff, memN_false, IH. split.
    + intros [H1 H2]. now constructor.
    + intros H. inversion H; subst. auto.
Qed.

Theorem valid_axis_correct alts axis : NoDup alts -> (valid_axis alts axis = true <-> Permutation alts axis).
Proof.
  intros Hnd. unfold valid_axis. rewrite !andb_true_iff, Nat.eqb_eq, nodupN_correct, !forallb_forall. split.
  - intros [[[Hlen Hnda] Hin1] Hin2]. apply NoDup_Permutation_bis; [assumption|lia|].
    intros x Hx. apply memN_In. now apply Hin2.
  - intros Hp. repeat split.
    + symmetry. now apply Permutation_length.
    + eapply Permutation_NoDup; eauto.
    + intros x Hx. apply memN_In. eapply Permutation_in; [apply Permutation_sym; exact Hp|assumption].
    + intros x Hx. apply memN_In. eapply Permutation_in; eauto.
Qed.

(* "lists every alternative exactly once" *)
Lemma perm_iff_exactly_once (alts axis : list N) : NoDup alts ->
  (Permutation alts axis <-> NoDup axis /\ forall a, In a axis <-> In a alts).
Proof.
  intros Hnd. split.
  - intros Hp. split; [eapply Permutation_NoDup; eauto|]. intros a. split; apply Permutation_in; auto.
    now apply Permutation_sym.
  - intros [Hnda H]. apply NoDup_Permutation; auto. intros a. symmetry. apply H.
Qed.

Theorem check_axis_correct alts p axis : NoDup alts -> Forall (complete_on alts) p ->
  (spw_check_axis alts p axis = true <-> Permutation alts axis /\ SPw_axis p axis).
Proof.
  intros Hnd Hc. unfold spw_check_axis. rewrite andb_true_iff, (valid_axis_correct alts axis Hnd).
  split; intros [Hp H]; split; auto.
  - apply sp_axis_profile_correct in H; auto.
    + eapply Permutation_NoDup; eauto.
    + intros o Ho. rewrite Forall_forall in Hc. destruct (Hc o Ho) as (_ & _ & Hse).
      eapply same_elems_perm; eauto.
  - apply sp_axis_profile_correct; auto.
    + eapply Permutation_NoDup; eauto.
    + intros o Ho. rewrite Forall_forall in Hc. destruct (Hc o Ho) as (_ & _ & Hse).
      eapply same_elems_perm; eauto.
Qed.

Theorem spw_decide_correct alts p : NoDup alts -> Forall (complete_on alts) p ->
  (spw_decide alts p = true <-> SPw alts p).
Proof.
  intros Hnd Hc. unfold spw_decide, SPw.
  rewrite (exists_perm_dec N (fun r => sp_axis_profile p r = true) (sp_axis_profile p)); [|reflexivity].
  split; intros (axis & Hp & H); exists axis; split; auto.
  - apply sp_axis_profile_correct in H; auto.
    + eapply Permutation_NoDup; eauto.
    + intros o Ho. rewrite Forall_forall in Hc. destruct (Hc o Ho) as (_ & _ & Hse).
      eapply same_elems_perm; eauto.
  - apply sp_axis_profile_correct; auto.
    + eapply Permutation_NoDup; eauto.
    + intros o Ho. rewrite Forall_forall in Hc. destruct (Hc o Ho) as (_ & _ & Hse).
      eapply same_elems_perm; eauto.
Qed.

(* ---------------------------------------------------------------------------------------------- *)
(* 5. strict profiles                                                                              *)

Lemma concat_firstn_strictify k r : concat (firstn k (strictify r)) = firstn k r.
Proof.
  revert k; induction r as [|a r IH]; intros k; destruct k as [|k]; simpl; try reflexivity.
  f_equal. apply IH.
Qed.

Lemma concat_strictify r : concat (strictify r) = r.
Proof. induction r as [|a r IH]; simpl; [reflexivity|]. f_equal. apply IH. Qed.

Lemma SPw_axis_strict rs axis : SPw_axis (map strictify rs) axis <-> SP_axis rs axis.
Proof.
  unfold SPw_axis, SP_axis, sp_on_axis. split.
  - intros H r Hr k. rewrite <- concat_firstn_strictify. apply H. now apply in_map.
  - intros H o Ho k. apply in_map_iff in Ho. destruct Ho as (r & <- & Hr).
    rewrite concat_firstn_strictify. now apply H.
Qed.

(* on strict profiles the weak-order notion (C11) is C03's notion *)
Theorem strict_agree alts rs : SPw alts (map strictify rs) <-> SP alts rs.
Proof.
  unfold SPw, SP. split; intros (axis & Hp & H); exists axis; split; auto; now apply SPw_axis_strict.
Qed.

Lemma complete_on_strictify alts r : Permutation alts r -> NoDup alts -> complete_on alts (strictify r).
Proof.
  intros Hp Hnd. unfold complete_on, same_elems. rewrite concat_strictify. repeat split.
  - eapply Permutation_NoDup; eauto.
  - unfold strictify. apply Forall_forall. intros c Hc. apply in_map_iff in Hc.
    destruct Hc as (a & <- & _). discriminate.
  - apply Permutation_in; assumption.
  - apply Permutation_in. now apply Permutation_sym.
Qed.

Lemma complete_on_strict_profile alts rs : NoDup alts -> Forall (fun r => Permutation alts r) rs ->
  Forall (complete_on alts) (map strictify rs).
Proof.
  intros Hnd H. apply Forall_forall. intros o Ho. apply in_map_iff in Ho. destruct Ho as (r & <- & Hr).
  rewrite Forall_forall in H. apply complete_on_strictify; auto.
Qed.

Theorem sp_decide_correct alts rs : NoDup alts -> Forall (fun r => Permutation alts r) rs ->
  (sp_decide alts rs = true <-> SP alts rs).
Proof.
  intros Hnd H. unfold sp_decide. rewrite spw_decide_correct; auto using complete_on_strict_profile.
  apply strict_agree.
Qed.

Theorem sp_check_axis_correct alts rs axis : NoDup alts -> Forall (fun r => Permutation alts r) rs ->
  (sp_check_axis alts rs axis = true <->
   (NoDup axis /\ forall a, In a axis <-> In a alts) /\ SP_axis rs axis).
Proof.
  intros Hnd H. unfold sp_check_axis.
  rewrite check_axis_correct; auto using complete_on_strict_profile.
  rewrite SPw_axis_strict, (perm_iff_exactly_once alts axis Hnd). reflexivity.
Qed.

(* strict orders: the decision agrees with the weak-order decision on the same profile *)
Theorem sp_decide_spw alts rs : sp_decide alts rs = spw_decide alts (map strictify rs).
Proof. reflexivity. Qed.

(* ---------------------------------------------------------------------------------------------- *)
(* 6. type gates                                                                                   *)

Theorem C11_gate_axis d p axis : d <> DTsoc -> d <> DTtoc -> is_single_peaked_axis_model d p axis = Err TypeErr.
Proof. intros H1 H2. destruct d; try reflexivity; congruence. Qed.
Theorem C11_gate_pq d alts p : d <> DTsoc -> d <> DTtoc -> is_single_peaked_pq_tree_model d alts p = Err TypeErr.
Proof. intros H1 H2. destruct d; try reflexivity; congruence. Qed.
Theorem C11_gate_ilp d alts p : d <> DTsoc -> d <> DTtoc -> is_single_peaked_ILP_model d alts p = Err TypeErr.
Proof. intros H1 H2. destruct d; try reflexivity; congruence. Qed.

(* ---------------------------------------------------------------------------------------------- *)
(* 7. heredity: restriction to a subset of the alternatives                                        *)

Lemma Permutation_filter {T} (f : T -> bool) l l' :
  Permutation l l' -> Permutation (filter f l) (filter f l').
Proof.
  induction 1 as [|x l l' _ IH|x y l|l l' l'' _ IH1 _ IH2]; simpl.
  - constructor.
  - destruct (f x); [now constructor|assumption].
  - destruct (f x), (f y); try apply Permutation_refl. apply perm_swap.
  - eapply perm_trans; eauto.
Qed.

Lemma restrict_order_cons S c r :
  restrict_order S (c :: r) =
  match filter (fun a => memN a S) c with
  | [] => restrict_order S r
  | x :: fc => (x :: fc) :: restrict_order S r
  end.
Proof. unfold restrict_order. simpl. destruct (filter (fun a => memN a S) c); reflexivity. Qed.

Lemma restrict_prefix S o : forall k', exists k,
  concat (firstn k' (restrict_order S o)) = filter (fun a => memN a S) (concat (firstn k o)).
Proof.
  induction o as [|c r IH]; intros k'.
  - exists 0. unfold restrict_order. simpl. now rewrite firstn_nil.
  - rewrite restrict_order_cons. destruct (filter (fun a => memN a S) c) as [|x fc] eqn:E.
    + destruct (IH k') as (k & Hk). exists (Datatypes.S k). simpl. rewrite filter_app, E. exact Hk.
    + destruct k' as [|k'].
      * exists 0. reflexivity.
      * destruct (IH k') as (k & Hk). exists (Datatypes.S k). simpl. rewrite filter_app, E, Hk. reflexivity.
Qed.

Lemma sp_on_axis_restrict S o axis :
  sp_on_axis o axis -> sp_on_axis (restrict_order S o) (filter (fun a => memN a S) axis).
Proof.
  intros H k'. destruct (restrict_prefix S o k') as (k & ->). apply contiguous_filter. apply H.
Qed.

Theorem sp_restrict alts p S : SPw alts p -> SPw (restrict_alts S alts) (map (restrict_order S) p).
Proof.
  intros (axis & Hp & H). exists (filter (fun a => memN a S) axis). split.
  - now apply Permutation_filter.
  - intros o' Ho'. apply in_map_iff in Ho'. destruct Ho' as (o & <- & Ho).
    apply sp_on_axis_restrict. now apply H.
Qed.

Lemma restrict_strictify S r : restrict_order S (strictify r) = strictify (restrict_ranking S r).
Proof.
  induction r as [|a r IH]; [reflexivity|].
  change (strictify (a :: r)) with ([a] :: strictify r). rewrite restrict_order_cons, IH.
  unfold restrict_ranking. simpl. destruct (memN a S); reflexivity.
Qed.

Theorem sp_restrict_strict alts rs S :
  SP alts rs -> SP (restrict_alts S alts) (map (restrict_ranking S) rs).
Proof.
  intros H. apply strict_agree. apply strict_agree in H. apply (sp_restrict _ _ S) in H.
  rewrite map_map in *. erewrite map_ext; [exact H|]. intros r. simpl. symmetry. apply restrict_strictify.
Qed.

(* completeness is preserved, so the restricted profile is again in the domain of the deciders *)
Lemma concat_restrict_order S o : concat (restrict_order S o) = filter (fun a => memN a S) (concat o).
Proof.
  induction o as [|c r IH]; [reflexivity|]. rewrite restrict_order_cons. simpl. rewrite filter_app.
  destruct (filter (fun a => memN a S) c) eqn:E; simpl; now rewrite IH.
Qed.

Lemma complete_on_restrict S alts o :
  complete_on alts o -> complete_on (restrict_alts S alts) (restrict_order S o).
Proof.
  intros (H1 & H2 & H3). unfold complete_on, same_elems, restrict_alts. rewrite concat_restrict_order.
  split; [now apply NoDup_filter|]. split.
  - unfold restrict_order. apply Forall_forall. intros c Hc. apply filter_In in Hc.
    destruct Hc as [_ Hc]. destruct c; [discriminate|discriminate].
  - intros a. rewrite !filter_In. now rewrite (H3 a).
Qed.

(* ---------------------------------------------------------------------------------------------- *)
(* 8. the consecutive-ones reduction of sp_cons_ones_matrix                                        *)

Theorem sp_c1p_decide_correct rows nc : sp_c1p_decide rows nc = true <-> sp_C1P rows nc.
Proof.
  unfold sp_c1p_decide, sp_C1P. apply exists_perm_dec. intros perm.
  unfold sp_c1p_rows_check, sp_c1p_row_check. rewrite forallb_forall, Forall_forall.
  split; intros H row Hr; apply ones_consecb_correct; now apply H.
Qed.

Fixpoint idxN (l : list N) (a : N) : nat :=
  match l with [] => 0 | x :: r => if N.eqb a x then 0 else S (idxN r a) end.

Lemma idxN_nth l a d : In a l -> nth (idxN l a) l d = a.
Proof.
  induction l as [|x r IH]; intros Hin; [contradiction|]. simpl.
  destruct (N.eqb a x) eqn:E.
  - apply N.eqb_eq in E. now subst.
  - apply N.eqb_neq in E. destruct Hin as [->|Hin]; [congruence|]. now apply IH.
Qed.

Lemma idxN_seq l : NoDup l -> map (idxN l) l = seq 0 (length l).
Proof.
  induction l as [|x r IH]; intros Hnd; [reflexivity|].
  inversion Hnd as [|? ? Hx Hr]; subst. simpl. rewrite N.eqb_refl. f_equal.
  rewrite <- seq_shift, <- (IH Hr), map_map. apply map_ext_in. intros a Ha.
  destruct (N.eqb a x) eqn:E; [|reflexivity]. apply N.eqb_eq in E. subst. contradiction.
Qed.

Lemma nth_seq_id {T} (l : list T) d : map (fun j => nth j l d) (seq 0 (length l)) = l.
Proof.
  induction l as [|x r IH]; [reflexivity|]. simpl. f_equal.
  rewrite <- seq_shift, map_map. exact IH.
Qed.

Lemma row_perm alts S perm : (forall j, In j perm -> j < length alts) ->
  map (fun j => nth j (map (fun a => memN a S) alts) false) perm
  = map (fun a => memN a S) (map (fun j => nth j alts 0%N) perm).
Proof.
  intros Hlt. rewrite map_map. apply map_ext_in. intros j Hj.
  rewrite (nth_indep _ false (memN 0%N S)) by (rewrite map_length; auto).
  apply (map_nth (fun a => memN a S)).
Qed.

Lemma sp_matrix_rows (P : list bool -> Prop) alts p :
  Forall P (sp_matrix alts p) <->
  forall o, In o p -> forall k, k < length o -> P (sp_matrix_row alts o k).
Proof.
  unfold sp_matrix. rewrite Forall_forall. split.
  - intros H o Ho k Hk. apply H. apply in_flat_map. exists o. split; [assumption|].
    apply in_map. apply in_seq. lia.
  - intros H row Hr. apply in_flat_map in Hr. destruct Hr as (o & Ho & Hr).
    apply in_map_iff in Hr. destruct Hr as (k & <- & Hk). apply in_seq in Hk. apply H; [assumption|lia].
Qed.

Lemma prefixes_enough o axis :
  (forall k, k < length o -> contiguous (concat (firstn (S k) o)) axis) <-> sp_on_axis o axis.
Proof.
  split; [|intros H k _; apply H].
  intros H k. destruct k as [|k]; [apply contiguous_nil|].
  destruct (Nat.lt_ge_cases k (length o)) as [Hlt|Hge]; [now apply H|].
  destruct o as [|c r] eqn:Eo; [simpl; apply contiguous_nil|]. rewrite <- Eo in *.
  assert (Hlen : length o = S (length r)) by (subst; reflexivity).
  rewrite firstn_all2 by lia. rewrite <- (firstn_all2 (n := S (length r)) o) by lia.
  apply H. lia.
Qed.

Theorem sp_matrix_C1P alts p : NoDup alts -> (forall o, In o p -> same_elems alts o) ->
  (sp_C1P (sp_matrix alts p) (length alts) <-> SPw alts p).
Proof.
  intros Hnd Hse. split.
  - intros (perm & Hperm & Hrows).
    set (axis := map (fun j => nth j alts 0%N) perm).
    assert (Hpa : Permutation alts axis).
    { rewrite <- (nth_seq_id alts 0%N) at 1. now apply Permutation_map. }
    assert (Hlt : forall j, In j perm -> j < length alts).
    { intros j Hj. eapply Permutation_in in Hj; [|apply Permutation_sym; exact Hperm].
      apply in_seq in Hj. lia. }
    exists axis. split; [assumption|]. intros o Ho. apply prefixes_enough. intros k Hk.
    rewrite (sp_matrix_rows (fun row => ones_consec (map (fun j => nth j row false) perm))) in Hrows.
    specialize (Hrows o Ho k Hk). unfold sp_matrix_row in Hrows. rewrite (row_perm alts _ perm Hlt) in Hrows.
    apply contiguous_of_ones; [exact Hrows|].
    intros x Hx. apply concat_firstn_incl in Hx. apply (Hse o Ho) in Hx.
    eapply Permutation_in; eauto.
  - intros (axis & Hpa & Hsp).
    set (perm := map (idxN alts) axis).
    assert (Hperm : Permutation (seq 0 (length alts)) perm).
    { rewrite <- (idxN_seq alts Hnd). now apply Permutation_map. }
    assert (Hax : map (fun j => nth j alts 0%N) perm = axis).
    { unfold perm. rewrite map_map. rewrite <- (map_id axis) at 2. apply map_ext_in.
      intros a Ha. apply idxN_nth. eapply Permutation_in; [apply Permutation_sym; exact Hpa|assumption]. }
    assert (Hlt : forall j, In j perm -> j < length alts).
    { intros j Hj. eapply Permutation_in in Hj; [|apply Permutation_sym; exact Hperm].
      apply in_seq in Hj. lia. }
    exists perm. split; [assumption|].
    apply (sp_matrix_rows (fun row => ones_consec (map (fun j => nth j row false) perm))).
    intros o Ho k Hk. unfold sp_matrix_row. rewrite (row_perm alts _ perm Hlt), Hax.
    apply contiguous_iff_ones; [eapply Permutation_NoDup; eauto|]. apply (Hsp o Ho).
Qed.

(* C1P of the mirrored matrix  <->  some axis passes the axis test: a correct C1P solver decides
   weak-order single-peakedness *)
Theorem sp_matrix_correct alts p : NoDup alts -> Forall (complete_on alts) p ->
  (sp_c1p_decide (sp_matrix alts p) (length alts) = true <->
   exists axis, Permutation alts axis /\ sp_axis_profile p axis = true).
Proof.
  intros Hnd Hc. assert (Hse : forall o, In o p -> same_elems alts o).
  { intros o Ho. rewrite Forall_forall in Hc. now destruct (Hc o Ho) as (_ & _ & H). }
  rewrite sp_c1p_decide_correct, (sp_matrix_C1P alts p Hnd Hse). unfold SPw.
  split; intros (axis & Hp & H); exists axis; split; auto.
  - apply sp_axis_profile_correct; auto.
    + eapply Permutation_NoDup; eauto.
    + intros o Ho. eapply same_elems_perm; eauto.
  - apply sp_axis_profile_correct in H; auto.
    + eapply Permutation_NoDup; eauto.
    + intros o Ho. eapply same_elems_perm; eauto.
Qed.

Theorem sp_matrix_decides alts p : NoDup alts -> Forall (complete_on alts) p ->
  sp_c1p_decide (sp_matrix alts p) (length alts) = spw_decide alts p.
Proof.
  intros Hnd Hc. apply eq_true_iff_eq.
  rewrite sp_c1p_decide_correct, spw_decide_correct; auto.
  apply sp_matrix_C1P; auto.
  intros o Ho. rewrite Forall_forall in Hc. now destruct (Hc o Ho) as (_ & _ & H).
Qed.

(* ---------------------------------------------------------------------------------------------- *)
(* 9. invariance under relabeling and under reordering of the stored orders (reused by C15)        *)

Lemma insert_all_map {A B} (f : A -> B) x l :
  insert_all (f x) (map f l) = map (map f) (insert_all x l).
Proof.
  induction l as [|y ys IH]; [reflexivity|]. simpl. f_equal. rewrite IH, !map_map. reflexivity.
Qed.

Lemma perms_map {A B} (f : A -> B) l : perms (map f l) = map (map f) (perms l).
Proof.
  induction l as [|x xs IH]; [reflexivity|]. simpl. rewrite IH.
  generalize (perms xs) as L. induction L as [|q L IHL]; [reflexivity|].
  simpl. rewrite map_app, insert_all_map, IHL. reflexivity.
Qed.

Lemma existsb_map {A B} (g : B -> bool) (h : A -> B) l : existsb g (map h l) = existsb (fun x => g (h x)) l.
Proof. induction l as [|x l IH]; simpl; [reflexivity|]. now rewrite IH. Qed.

Lemma forallb_map {A B} (g : B -> bool) (h : A -> B) l : forallb g (map h l) = forallb (fun x => g (h x)) l.
Proof. induction l as [|x l IH]; simpl; [reflexivity|]. now rewrite IH. Qed.

Lemma existsb_ext {A} (g h : A -> bool) l : (forall x, g x = h x) -> existsb g l = existsb h l.
Proof. intros E. induction l as [|x l IH]; simpl; [reflexivity|]. now rewrite E, IH. Qed.

Lemma forallb_ext {A} (g h : A -> bool) l : (forall x, g x = h x) -> forallb g l = forallb h l.
Proof. intros E. induction l as [|x l IH]; simpl; [reflexivity|]. now rewrite E, IH. Qed.

Lemma forallb_perm {A} (g : A -> bool) l l' : Permutation l l' -> forallb g l = forallb g l'.
Proof.
  induction 1 as [|x l l' _ IH|x y l|l l' l'' _ IH1 _ IH2]; simpl.
  - reflexivity.
  - now rewrite IH.
  - destruct (g x), (g y); reflexivity.
  - congruence.
Qed.

Section Relabel.
Variable f : N -> N.
Hypothesis f_inj : forall x y, f x = f y -> x = y.

Definition map_order (o : order) : order := map (map f) o.

Lemma memN_map a c : memN (f a) (map f c) = memN a c.
Proof.
  apply eq_true_iff_eq. rewrite !memN_In, in_map_iff. split.
  - intros (x & E & Hx). apply f_inj in E. now subst.
  - intros H. now exists a.
Qed.

Lemma class_pos_map o a : class_pos (map_order o) (f a) = class_pos o a.
Proof.
  induction o as [|c r IH]; [reflexivity|].
  change (map_order (c :: r)) with (map f c :: map_order r).
  rewrite !class_pos_cons, memN_map, IH. reflexivity.
Qed.

Lemma sp_axis_weak_map o axis : sp_axis_weak (map_order o) (map f axis) = sp_axis_weak o axis.
Proof.
  unfold sp_axis_weak. rewrite map_map. f_equal. apply map_ext. intros a. apply class_pos_map.
Qed.

Lemma sp_axis_profile_map p axis :
  sp_axis_profile (map map_order p) (map f axis) = sp_axis_profile p axis.
Proof.
  unfold sp_axis_profile. rewrite forallb_map. apply forallb_ext. intros o. apply sp_axis_weak_map.
Qed.

Theorem spw_decide_relabel alts p : spw_decide (map f alts) (map map_order p) = spw_decide alts p.
Proof.
  unfold spw_decide. rewrite perms_map, existsb_map. apply existsb_ext. intros axis.
  apply sp_axis_profile_map.
Qed.

Lemma strictify_map r : strictify (map f r) = map_order (strictify r).
Proof. unfold strictify, map_order. rewrite !map_map. reflexivity. Qed.

Theorem sp_decide_relabel alts rs : sp_decide (map f alts) (map (map f) rs) = sp_decide alts rs.
Proof.
  unfold sp_decide. rewrite <- (spw_decide_relabel alts (map strictify rs)). f_equal.
  rewrite !map_map. apply map_ext. intros r. apply strictify_map.
Qed.
End Relabel.

Theorem spw_decide_reorder alts p p' : Permutation p p' -> spw_decide alts p = spw_decide alts p'.
Proof.
  intros Hp. unfold spw_decide. apply existsb_ext. intros axis. unfold sp_axis_profile.
  now apply forallb_perm.
Qed.

Theorem sp_decide_reorder alts rs rs' : Permutation rs rs' -> sp_decide alts rs = sp_decide alts rs'.
Proof. intros Hp. unfold sp_decide. apply spw_decide_reorder. now apply Permutation_map. Qed.

(* the order in which alternatives_name lists the alternatives does not matter either *)
Theorem spw_decide_alts_perm alts alts' p : Permutation alts alts' -> spw_decide alts p = spw_decide alts' p.
Proof.
  intros Hp. apply eq_true_iff_eq. unfold spw_decide.
  rewrite !(exists_perm_dec N (fun r => sp_axis_profile p r = true) (sp_axis_profile p)) by reflexivity.
  split; intros (axis & Hpa & H); exists axis; split; auto.
  - eapply perm_trans; [apply Permutation_sym; exact Hp|exact Hpa].
  - eapply perm_trans; eauto.
Qed.

(* duplicated orders (multiplicities) play no role *)
Theorem spw_decide_dup alts o p : spw_decide alts (o :: o :: p) = spw_decide alts (o :: p).
Proof.
  unfold spw_decide. apply existsb_ext. intros axis. unfold sp_axis_profile. simpl.
  destruct (sp_axis_weak o axis); reflexivity.
Qed.

(* ---------------------------------------------------------------------------------------------- *)
(* 10. final forms used by Properties/C03.v and Properties/C11.v                                   *)

Lemma forallb_same_elems {A} (g : A -> bool) l l' : (forall x, In x l <-> In x l') -> forallb g l = forallb g l'.
Proof.
  intros E. apply eq_true_iff_eq. rewrite !forallb_forall. split; intros H x Hx; apply H; now apply E.
Qed.

(* only the SET of stored orders matters (multiplicities, repetitions, storage order do not) *)
Theorem spw_decide_set_ext alts p p' : (forall o, In o p <-> In o p') -> spw_decide alts p = spw_decide alts p'.
Proof.
  intros E. unfold spw_decide. apply existsb_ext. intros axis. unfold sp_axis_profile.
  now apply forallb_same_elems.
Qed.

Theorem sp_decide_set_ext alts rs rs' : (forall r, In r rs <-> In r rs') -> sp_decide alts rs = sp_decide alts rs'.
Proof.
  intros E. unfold sp_decide. apply spw_decide_set_ext. intros o. rewrite !in_map_iff.
  split; intros (r & <- & Hr); exists r; (split; [reflexivity|now apply E]).
Qed.

Theorem check_axis_correct_once alts p axis : NoDup alts -> Forall (complete_on alts) p ->
  (spw_check_axis alts p axis = true <->
   (NoDup axis /\ forall a, In a axis <-> In a alts) /\
   forall o, In o p -> forall k, contiguous (concat (firstn k o)) axis).
Proof.
  intros Hnd Hc. rewrite (check_axis_correct alts p axis Hnd Hc), (perm_iff_exactly_once alts axis Hnd).
  reflexivity.
Qed.

Theorem axis_function_correct d p axis : d = DTsoc \/ d = DTtoc -> NoDup axis -> Forall (complete_on axis) p ->
  exists b, is_single_peaked_axis_model d p axis = Ok b /\
            (b = true <-> forall o, In o p -> forall k, contiguous (concat (firstn k o)) axis).
Proof. intros [->| ->]; apply axis_test_profile_correct; reflexivity. Qed.

Theorem decider_models_correct d alts p : d = DTsoc \/ d = DTtoc -> NoDup alts -> Forall (complete_on alts) p ->
  exists b, is_single_peaked_pq_tree_model d alts p = Ok b /\ is_single_peaked_ILP_model d alts p = Ok b /\
            (b = true <-> exists axis, Permutation alts axis /\
                          forall o, In o p -> forall k, contiguous (concat (firstn k o)) axis).
Proof.
  intros Hd Hnd Hc. exists (spw_decide alts p).
  unfold is_single_peaked_pq_tree_model, is_single_peaked_ILP_model.
  rewrite (sp_matrix_decides alts p Hnd Hc).
  split; [destruct Hd as [->| ->]; reflexivity|]. split; [destruct Hd as [->| ->]; reflexivity|].
  now apply spw_decide_correct.
Qed.

Lemma strict_profile_restrict S alts rs : Forall (fun r => Permutation alts r) rs ->
  Forall (fun r => Permutation (restrict_alts S alts) r) (map (restrict_ranking S) rs).
Proof.
  intros H. apply Forall_forall. intros r' Hr'. apply in_map_iff in Hr'. destruct Hr' as (r & <- & Hr).
  rewrite Forall_forall in H. apply Permutation_filter. now apply H.
Qed.

(* a refuted core refutes the whole profile (exact negatives on large inputs) *)
Theorem sp_core_refutes S alts rs core : NoDup alts -> Forall (fun r => Permutation alts r) rs ->
  (forall r, In r core <-> In r (map (restrict_ranking S) rs)) ->
  sp_decide (restrict_alts S alts) core = false -> ~ SP alts rs.
Proof.
  intros Hnd Hc Hcore Hdec HSP. apply (sp_restrict_strict _ _ S) in HSP.
  apply sp_decide_correct in HSP.
  - rewrite (sp_decide_set_ext _ _ _ Hcore) in Hdec. congruence.
  - now apply NoDup_filter.
  - now apply strict_profile_restrict.
Qed.

Theorem spw_core_refutes S alts p core : NoDup alts -> Forall (complete_on alts) p ->
  (forall o, In o core <-> In o (map (restrict_order S) p)) ->
  spw_decide (restrict_alts S alts) core = false -> ~ SPw alts p.
Proof.
  intros Hnd Hc Hcore Hdec HSP. apply (sp_restrict _ _ S) in HSP.
  apply spw_decide_correct in HSP.
  - rewrite (spw_decide_set_ext _ _ _ Hcore) in Hdec. congruence.
  - now apply NoDup_filter.
  - apply Forall_forall. intros o' Ho'. apply in_map_iff in Ho'. destruct Ho' as (o & <- & Ho).
    rewrite Forall_forall in Hc. apply complete_on_restrict. now apply Hc.
Qed.

(* the acceptance relation of the C03 correspondence: verdict = reference, and the axis of a positive
   answer passes the checker  <->  the C03 statement for the pair (verdict, axis) *)
Theorem C03_relation alts rs (verdict : bool) axis : NoDup alts -> Forall (fun r => Permutation alts r) rs ->
  (verdict = sp_decide alts rs /\ (verdict = true -> sp_check_axis alts rs axis = true))
  <->
  ((verdict = true <->
    exists ax, Permutation alts ax /\ forall r, In r rs -> forall k, contiguous (firstn k r) ax) /\
   (verdict = true ->
    (NoDup axis /\ forall a, In a axis <-> In a alts) /\
    forall r, In r rs -> forall k, contiguous (firstn k r) axis)).
Proof.
  intros Hnd Hc. pose proof (sp_decide_correct alts rs Hnd Hc) as Hd.
  pose proof (sp_check_axis_correct alts rs axis Hnd Hc) as Hk. unfold SP, SP_axis in *.
  split.
  - intros [-> H]. split; [exact Hd|]. intros Hv. apply Hk. now apply H.
  - intros [H1 H2]. split.
    + apply eq_true_iff_eq. rewrite H1. symmetry. exact Hd.
    + intros Hv. apply Hk. now apply H2.
Qed.

Theorem C11_gate d alts p axis : d <> DTsoc -> d <> DTtoc ->
  is_single_peaked_axis_model d p axis = Err TypeErr /\
  is_single_peaked_pq_tree_model d alts p = Err TypeErr /\
  is_single_peaked_ILP_model d alts p = Err TypeErr.
Proof.
  intros H1 H2. repeat split; [now apply C11_gate_axis|now apply C11_gate_pq|now apply C11_gate_ilp].
Qed.

(* boolean form of the domain predicate (for examples / computation) *)
Definition complete_onb (alts : list N) (o : order) : bool :=
  nodupN (concat o) && forallb (fun c => negb (is_nil c)) o
  && forallb (fun a => memN a (concat o)) alts && forallb (fun a => memN a alts) (concat o).

Lemma complete_onb_correct alts o : complete_onb alts o = true <-> complete_on alts o.
Proof.
  unfold complete_onb, complete_on, same_elems.
  rewrite !andb_true_iff, nodupN_correct, !forallb_forall, Forall_forall. split.
  - intros [[[H1 H2] H3] H4]. split; [assumption|]. split.
    + intros c Hc E. specialize (H2 c Hc). subst. discriminate.
    + intros a. split; intros Ha; apply memN_In; auto.
  - intros (H1 & H2 & H3). repeat split; auto.
    + intros c Hc. specialize (H2 c Hc). destruct c; [congruence|reflexivity].
    + intros a Ha. apply memN_In. now apply H3.
    + intros a Ha. apply memN_In. now apply H3.
Qed.

Lemma complete_profile_b alts p : forallb (complete_onb alts) p = true -> Forall (complete_on alts) p.
Proof.
  rewrite forallb_forall, Forall_forall. intros H o Ho. apply complete_onb_correct. now apply H.
Qed.

(* small monotonicity facts for the deletion / partition packages (C12, C18) *)
Lemma SPw_axis_incl p p' axis : incl p' p -> SPw_axis p axis -> SPw_axis p' axis.
Proof. intros Hi H o Ho. apply H. now apply Hi. Qed.

Lemma SPw_incl alts p p' : incl p' p -> SPw alts p -> SPw alts p'.
Proof. intros Hi (axis & Hp & H). exists axis. split; [assumption|]. eapply SPw_axis_incl; eauto. Qed.

Lemma SPw_axis_restrict S p axis :
  SPw_axis p axis -> SPw_axis (map (restrict_order S) p) (filter (fun a => memN a S) axis).
Proof.
  intros H o' Ho'. apply in_map_iff in Ho'. destruct Ho' as (o & <- & Ho).
  apply sp_on_axis_restrict. now apply H.
Qed.
