(* Ops/C12.v — protocol entry points for property C12 (stub until the model is built). *)
From Coq Require Import List String.
From PrefVerif Require Import Lib.Val.
Import ListNotations.

Definition ops : optable := [].
