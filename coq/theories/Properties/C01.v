(* Properties/C01.v — ordinal files survive write -> parse unchanged.  (Statements only; proofs in
   Proofs/Meta.v and Proofs/OrdIO.v.  This first version carries the non-vacuity example; the theorems are
   added as their proofs are completed.) *)
From Coq Require Import List NArith String.
From PrefVerif Require Import Lib.Val Lib.Dec Lib.PyStr Model.Meta Model.OrdIO.
Import ListNotations.
Open Scope N_scope.

(* a concrete non-trivial well-formed instance: ties first / last / only, an EMPTY alternative name, a name made
   of separators, equal multiplicities (stability of the sort matters), a big id *)
Definition ex_meta : meta :=
  mkMeta (lit "f.toi") (lit "T") [] (lit "toi") [] [] [] (lit "2020-01-01") [] 3 7
         [(1, lit "a b"); (2, []); (1000000000000000000, lit "#:{,}")] [].
Definition ex_inst : oinst :=
  mkOinst ex_meta 3
    [ [[1];[2;1000000000000000000]]; [[2;1000000000000000000;1]]; [[1000000000000000000;1];[2]] ]
    [ ([[1];[2;1000000000000000000]], 2); ([[2;1000000000000000000;1]], 3); ([[1000000000000000000;1];[2]], 2) ].

Example C01_example_wf : wf_ord ex_inst = true.
Proof. vm_compute. reflexivity. Qed.

Example C01_example_roundtrip :
  ord_parse false false (meta0 (lit "toi")) (readlines (ord_write ex_inst)) = Ok (sorted_view ex_inst)
  /\ o_orders (sorted_view ex_inst) <> o_orders ex_inst.
Proof. split; [vm_compute; reflexivity | vm_compute; discriminate]. Qed.
Print Assumptions C01_example_roundtrip.
