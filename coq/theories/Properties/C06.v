(* Properties/C06.v — scoring rules return exactly the textbook winner set (statements only).

   Vocabulary (Proofs/Scoring.v): `expand p` is the full profile (each order repeated by its multiplicity);
   `voters f P` the number of voters of P whose ballot satisfies f; count_first / count_last / count_topk k the
   textbook plurality / veto / k-approval scores recomputed voter by voter; `is_max f U a` : a ∈ U maximises f
   over U (is_min: minimises).  `wf_inst` (implied by the boolean `wf_instb`) is the DESIGN §7.0 well-formedness:
   alternatives duplicate-free, header numbers agree with the data, non-empty profile, every order non-empty with
   non-empty classes over the alternatives and without repetition, multiplicities >= 1. *)
From Coq Require Import List Arith NArith ZArith Bool Permutation.
From PrefVerif Require Import Lib.Val Model.Scoring Proofs.ScoreTable Proofs.Scoring.
Import ListNotations.

(* ---- plurality ---- *)
Theorem plurality_spec : forall i, wf_inst i -> dt_in (dt i) [Soc; Toc; Soi; Toi] = true ->
  exists w, plurality_winner i = Ok w /\
            forall a, In a w <-> is_max (count_first (expand (prof i))) (alts i) a.
Proof. exact Proofs.Scoring.plurality_spec. Qed.
Print Assumptions plurality_spec.

Theorem plurality_regroup : forall i i',
  wf_inst i -> wf_inst i' -> dt_in (dt i) [Soc; Toc; Soi; Toi] = true -> dt_in (dt i') [Soc; Toc; Soi; Toi] = true ->
  (forall x, In x (alts i) <-> In x (alts i')) -> Permutation (expand (prof i)) (expand (prof i')) ->
  exists w w', plurality_winner i = Ok w /\ plurality_winner i' = Ok w' /\ forall a, In a w <-> In a w'.
Proof. exact Proofs.Scoring.plurality_regroup. Qed.
Print Assumptions plurality_regroup.

Theorem plurality_guard : forall i, dt_in (dt i) [Soc; Toc; Soi; Toi] = false -> plurality_winner i = Err Incompatible.
Proof. exact Proofs.Scoring.plurality_guard. Qed.
Print Assumptions plurality_guard.

(* ---- veto ---- *)
Theorem veto_spec : forall i, wf_inst i -> dt_in (dt i) [Soc; Toc] = true ->
  exists w, veto_winner i = Ok w /\
            forall a, In a w <-> is_min (count_last (expand (prof i))) (alts i) a.
Proof. exact Proofs.Scoring.veto_spec. Qed.
Print Assumptions veto_spec.

Theorem veto_regroup : forall i i',
  wf_inst i -> wf_inst i' -> dt_in (dt i) [Soc; Toc] = true -> dt_in (dt i') [Soc; Toc] = true ->
  (forall x, In x (alts i) <-> In x (alts i')) -> Permutation (expand (prof i)) (expand (prof i')) ->
  exists w w', veto_winner i = Ok w /\ veto_winner i' = Ok w' /\ forall a, In a w <-> In a w'.
Proof. exact Proofs.Scoring.veto_regroup. Qed.
Print Assumptions veto_regroup.

Theorem veto_guard : forall i, dt_in (dt i) [Soc; Toc] = false -> veto_winner i = Err Incompatible.
Proof. exact Proofs.Scoring.veto_guard. Qed.
Print Assumptions veto_guard.

(* ---- k-approval (strict orders, k >= 1, k may exceed the number of alternatives) ---- *)
Theorem k_approval_spec : forall i k, wf_inst i -> all_orders strictb i = true -> 1 <= k ->
  dt_in (dt i) [Soc; Soi] = true ->
  exists w, k_approval_winner i k = Ok w /\
            forall a, In a w <-> is_max (count_topk k (expand (prof i))) (alts i) a.
Proof. exact Proofs.Scoring.k_approval_spec. Qed.
Print Assumptions k_approval_spec.

Theorem k_approval_regroup : forall i i' k,
  wf_inst i -> wf_inst i' -> all_orders strictb i = true -> all_orders strictb i' = true -> 1 <= k ->
  dt_in (dt i) [Soc; Soi] = true -> dt_in (dt i') [Soc; Soi] = true ->
  (forall x, In x (alts i) <-> In x (alts i')) -> Permutation (expand (prof i)) (expand (prof i')) ->
  exists w w', k_approval_winner i k = Ok w /\ k_approval_winner i' k = Ok w' /\ forall a, In a w <-> In a w'.
Proof. exact Proofs.Scoring.k_approval_regroup. Qed.
Print Assumptions k_approval_regroup.

Theorem k_approval_guard : forall i k, dt_in (dt i) [Soc; Soi] = false -> k_approval_winner i k = Err Incompatible.
Proof. exact Proofs.Scoring.k_approval_guard. Qed.
Print Assumptions k_approval_guard.

(* ---- approval ---- *)
Theorem approval_spec : forall i, wf_inst i -> is_approval i = Ok true -> dt_in (dt i) [Soc; Toc; Soi; Toi] = true ->
  exists w, approval_winner i = Ok w /\
            forall a, In a w <-> is_max (count_first (expand (prof i))) (alts i) a.
Proof. exact Proofs.Scoring.approval_spec. Qed.
Print Assumptions approval_spec.

Theorem approval_regroup : forall i i',
  wf_inst i -> wf_inst i' -> is_approval i = Ok true -> is_approval i' = Ok true ->
  dt_in (dt i) [Soc; Toc; Soi; Toi] = true -> dt_in (dt i') [Soc; Toc; Soi; Toi] = true ->
  (forall x, In x (alts i) <-> In x (alts i')) -> Permutation (expand (prof i)) (expand (prof i')) ->
  exists w w', approval_winner i = Ok w /\ approval_winner i' = Ok w' /\ forall a, In a w <-> In a w'.
Proof. exact Proofs.Scoring.approval_regroup. Qed.
Print Assumptions approval_regroup.

Theorem approval_guard : forall i, prof i <> [] -> dt_in (dt i) [Soc; Toc; Soi; Toi] = false ->
  approval_winner i = Err Incompatible.
Proof. exact Proofs.Scoring.approval_guard. Qed.
Print Assumptions approval_guard.

Theorem approval_guard_shape : forall i, is_approval i = Ok false -> approval_winner i = Err Incompatible.
Proof. exact Proofs.Scoring.approval_guard_shape. Qed.
Print Assumptions approval_guard_shape.
