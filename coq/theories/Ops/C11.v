(* Ops/C11.v — protocol entry points for property C11 (weak-order single-peakedness).
   payload conventions: dtype code 0 soc, 1 soi, 2 toc, 3 toi, anything else: other;
   order = list of classes (lists of N); profile = list of orders; alts / axis = list of N. *)
From Coq Require Import List ZArith NArith String.
From PrefVerif Require Import Lib.Val Model.SP.
Import ListNotations.
Open Scope string_scope.

Definition d_dt (v : val) : ord_dt :=
  match dnat v with 0 => DTsoc | 1 => DTsoi | 2 => DTtoc | 3 => DTtoi | _ => DTother end.
Definition d_alts (v : val) : list N := dlist dN v.
Definition d_order (v : val) : order := dlist (dlist dN) v.
Definition d_profile (v : val) : list order := dlist d_order v.

(* (dtype profile axis) -> result bool *)
Definition op_axis_test (v : val) : val :=
  eresult ebool (is_single_peaked_axis_model (d_dt (dnth 0 v)) (d_profile (dnth 1 v)) (d_alts (dnth 2 v))).
(* (alts profile) -> bool *)
Definition op_decide (v : val) : val :=
  ebool (spw_decide (d_alts (dnth 0 v)) (d_profile (dnth 1 v))).
(* (alts profile axis) -> bool *)
Definition op_check_axis (v : val) : val :=
  ebool (spw_check_axis (d_alts (dnth 0 v)) (d_profile (dnth 1 v)) (d_alts (dnth 2 v))).
(* (dtype alts profile) -> result bool *)
Definition op_pq_tree (v : val) : val :=
  eresult ebool (is_single_peaked_pq_tree_model (d_dt (dnth 0 v)) (d_alts (dnth 1 v)) (d_profile (dnth 2 v))).
Definition op_ilp (v : val) : val :=
  eresult ebool (is_single_peaked_ILP_model (d_dt (dnth 0 v)) (d_alts (dnth 1 v)) (d_profile (dnth 2 v))).
(* (alts profile) -> 0/1 matrix (rows) *)
Definition op_matrix (v : val) : val :=
  elist (elist ebool) (sp_matrix (d_alts (dnth 0 v)) (d_profile (dnth 1 v))).
(* (S order) -> restricted order ;  used to build embedded cores *)
Definition op_restrict (v : val) : val :=
  elist (elist eN) (restrict_order (d_alts (dnth 0 v)) (d_order (dnth 1 v))).

Definition ops : optable :=
  [ ("c11.axis_test", op_axis_test); ("c11.decide", op_decide); ("c11.check_axis", op_check_axis);
    ("c11.pq_tree", op_pq_tree); ("c11.ilp", op_ilp); ("c11.matrix", op_matrix); ("c11.restrict", op_restrict) ].
