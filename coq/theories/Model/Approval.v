(* Model/Approval.v — approval-domain recognisers (C05):
     preflibtools/properties/subdomains/dichotomous/{interval,singlecrossing,euclidean,partition}.py
   An approval instance is
     alts    : list N          = list(instance.alternatives_name)   (dict keys, insertion order)
     ballots : list (list N)   = [vote[0] for vote in instance.preferences]   (repeated entries repeated)
   (M) mirrors: the reductions instance -> 0/1 matrix, the witness translation, the Euclidean construction,
       is_part / is_2_part.
   (R) specification-level boolean witness checkers and reference deciders by enumeration.
   Executable definitions only; proofs are in Proofs/Approval.v. *)
From Coq Require Import List Arith NArith ZArith QArith Qabs Bool.
From PrefVerif Require Import Lib.Perms Model.C1P.
Import ListNotations.
Local Open Scope nat_scope.

Definition mem (a : N) (l : list N) : bool := existsb (N.eqb a) l.

(* ------------------------------------------------------------------------------------------------ *)
(* (M) instance_to_ci_matrix: one row per ballot, one column per alternative (in alternatives_name order) *)
Definition ballot_row (alts : list N) (b : list N) : list bool := map (fun a => mem a b) alts.
Definition ci_matrix (alts : list N) (ballots : list (list N)) : matrix := map (ballot_row alts) ballots.

(* is_candidate_extremal_interval: np.vstack((matrix, 1 - matrix)) *)
Definition cei_matrix (alts : list N) (ballots : list (list N)) : matrix :=
  let M := ci_matrix alts ballots in M ++ complement M.

(* is_voter_interval: np.transpose(matrix) — one row per alternative, one column per ballot *)
Definition vi_matrix (alts : list N) (ballots : list (list N)) : matrix :=
  transpose (length alts) (ci_matrix alts ballots).

(* is_voter_extremal_interval: vstack((transposed, 1 - transposed)) *)
Definition vei_matrix (alts : list N) (ballots : list (list N)) : matrix :=
  let T := vi_matrix alts ballots in T ++ complement T.

(* itertools.combinations(alternatives, 2) *)
Fixpoint pairs (l : list N) : list (N * N) :=
  match l with
  | [] => []
  | a :: t => map (pair a) t ++ pairs t
  end.

(* is_weakly_single_crossing: rows 2i / 2i+1 for the i-th pair (a, b); columns = ballots.
     if a in approved and b not in approved: M[2i, ballot] = 1
     elif b in approved and a not in approved: M[2i+1, ballot] = 1 *)
Definition wsc_entry1 (a b : N) (bl : list N) : bool := mem a bl && negb (mem b bl).
Definition wsc_entry2 (a b : N) (bl : list N) : bool :=
  if wsc_entry1 a b bl then false else mem b bl && negb (mem a bl).
Definition wsc_matrix (alts : list N) (ballots : list (list N)) : matrix :=
  flat_map (fun ab => [map (wsc_entry1 (fst ab) (snd ab)) ballots; map (wsc_entry2 (fst ab) (snd ab)) ballots])
           (pairs alts).

(* witness translation of the candidate recognisers: [alternative_names[i] for i in ordered_idx] *)
Definition order_of_perm (alts : list N) (perm : list nat) : list N := map (fun j => nth j alts 0%N) perm.

(* ------------------------------------------------------------------------------------------------ *)
(* (M) is_dichotomous_euclidean: positions and radii from the candidate-interval order *)
Fixpoint index_of (a : N) (l : list N) : nat :=          (* dict {alt: pos for pos, alt in enumerate(order)} *)
  match l with
  | [] => 0
  | y :: ys => if N.eqb a y then 0 else S (index_of a ys)
  end.
Definition alt_pos (order : list N) (a : N) : Z := Z.of_nat (index_of a order).

Definition zmin_list (p : Z) (ps : list Z) : Z := fold_left Z.min ps p.
Definition zmax_list (p : Z) (ps : list Z) : Z := fold_left Z.max ps p.

(* (position, radius) of one voter *)
Definition de_voter (order : list N) (approved : list N) : Q * Q :=
  match approved with
  | [] => (inject_Z (-1), inject_Z 0)
  | [a] => (inject_Z (alt_pos order a), inject_Z 0)
  | a :: rest =>
      let l := zmin_list (alt_pos order a) (map (alt_pos order) rest) in
      let r := zmax_list (alt_pos order a) (map (alt_pos order) rest) in
      (Qmake (l + r) 2, Qmake (r - l) 2)
  end.

Definition de_construct (ballots : list (list N)) (order : list N) : list (Q * Q) * list (N * Q) :=
  (map (de_voter order) ballots, map (fun a => (a, inject_Z (alt_pos order a))) order).

(* ------------------------------------------------------------------------------------------------ *)
(* (M) the six recognisers built on solve_consecutive_ones, with the solver as a parameter:
   solve M nc = Some column_order  for (True, ordered_idx),  None for (False, None);
   nc = matrix.shape[1] (known to numpy even when the matrix has no row) *)
Section Recognisers.
Variable solve : matrix -> nat -> option (list nat).

Definition is_candidate_interval (alts : list N) (ballots : list (list N)) : option (list N) :=
  option_map (order_of_perm alts) (solve (ci_matrix alts ballots) (length alts)).
Definition is_candidate_extremal_interval (alts : list N) (ballots : list (list N)) : option (list N) :=
  option_map (fun idx => order_of_perm alts (firstn (length alts) idx))
             (solve (cei_matrix alts ballots) (length alts)).
Definition is_voter_interval (alts : list N) (ballots : list (list N)) : option (list nat) :=
  solve (vi_matrix alts ballots) (length ballots).
Definition is_voter_extremal_interval (alts : list N) (ballots : list (list N)) : option (list nat) :=
  solve (vei_matrix alts ballots) (length ballots).
Definition is_weakly_single_crossing (alts : list N) (ballots : list (list N)) : option (list nat) :=
  solve (wsc_matrix alts ballots) (length ballots).
Definition is_dichotomous_euclidean (alts : list N) (ballots : list (list N))
  : option (list (Q * Q) * list (N * Q)) :=
  option_map (de_construct ballots) (is_candidate_interval alts ballots).
End Recognisers.

(* ------------------------------------------------------------------------------------------------ *)
(* (M) is_part / is_2_part.  Python sets are duplicate-free lists; == is mutual inclusion *)
Definition subset (s t : list N) : bool := forallb (fun x => mem x t) s.
Definition set_eq (s t : list N) : bool := subset s t && subset t s.
Definition meets (s t : list N) : bool := existsb (fun x => mem x t) s.      (* len(s & t) > 0 *)
Fixpoint to_set (l : list N) : list N :=                                     (* set(ballot[0]) *)
  match l with
  | [] => []
  | x :: t => if mem x t then to_set t else x :: to_set t
  end.

(* the inner loop over partitions: None = "return False, None"; Some new_set otherwise *)
Fixpoint part_scan (parts : list (list N)) (alt_set : list N) : option bool :=
  match parts with
  | [] => Some true
  | s :: rest =>
      if set_eq s alt_set then Some false
      else if meets alt_set s then None
      else part_scan rest alt_set
  end.

Fixpoint part_loop (ballots : list (list N)) (parts : list (list N)) : option (list (list N)) :=
  match ballots with
  | [] => Some parts
  | b :: bs =>
      match part_scan parts (to_set b) with
      | None => None
      | Some true => part_loop bs (parts ++ [to_set b])
      | Some false => part_loop bs parts
      end
  end.

(* is_part(instance): Some partition = (True, partition); None = (False, None) *)
Definition is_part (ballots : list (list N)) : option (list (list N)) := part_loop ballots [].

Definition union_all (parts : list (list N)) : list N := to_set (concat parts).   (* the union of all parts: set().union( *parts ) *)

Definition is_2_part (alts : list N) (ballots : list (list N)) : option (list (list N)) :=
  match is_part ballots with
  | Some parts =>
      if length parts =? 1 then Some parts
      else if (length parts =? 2) && set_eq (union_all parts) (to_set alts) then Some parts
      else None
  | None => None
  end.

(* ------------------------------------------------------------------------------------------------ *)
(* (R) specification-level witness checkers *)

(* order is a permutation of the list alts (multiset equality) *)
Definition count (a : N) (l : list N) : nat := length (filter (N.eqb a) l).
Definition perm_of (alts order : list N) : bool :=
  forallb (fun a => count a alts =? count a order) (alts ++ order).

(* CI: order is a permutation of ALL alternatives and every approval set is an interval of it *)
Definition ci_check (alts : list N) (ballots : list (list N)) (order : list N) : bool :=
  perm_of alts order && forallb (fun b => contig01 (map (fun a => mem a b) order)) ballots.
(* CEI: ... a prefix or a suffix *)
Definition cei_check (alts : list N) (ballots : list (list N)) (order : list N) : bool :=
  perm_of alts order && forallb (fun b => extremal01 (map (fun a => mem a b) order)) ballots.

Definition ballot_at (ballots : list (list N)) (i : nat) : list N := nth i ballots [].

(* VI: border is a permutation of the ballot indices and, for every alternative, the ballots approving
   it are consecutive *)
Definition vi_check (alts : list N) (ballots : list (list N)) (border : list nat) : bool :=
  perm_of_seq (length ballots) border &&
  forallb (fun a => contig01 (map (fun i => mem a (ballot_at ballots i)) border)) alts.
Definition vei_check (alts : list N) (ballots : list (list N)) (border : list nat) : bool :=
  perm_of_seq (length ballots) border &&
  forallb (fun a => extremal01 (map (fun i => mem a (ballot_at ballots i)) border)) alts.

(* WSC, documented reading: for every ordered pair (a, b) of alternatives the ballots approving a but
   not b are consecutive in the ballot order *)
Definition wsc_check (alts : list N) (ballots : list (list N)) (border : list nat) : bool :=
  perm_of_seq (length ballots) border &&
  forallb (fun a => forallb (fun b =>
      contig01 (map (fun i => mem a (ballot_at ballots i) && negb (mem b (ballot_at ballots i))) border))
    alts) alts.

(* DE: voter i (position x_i, radius r_i) approves exactly the alternatives a with |pos a - x_i| <= r_i.
   vpr = [(x_i, r_i)] indexed by the ballot index; ap = association alternative -> position *)
Fixpoint lookupQ (a : N) (ap : list (N * Q)) : option Q :=
  match ap with
  | [] => None
  | (k, v) :: t => if N.eqb a k then Some v else lookupQ a t
  end.
Definition within (p x r : Q) : bool := Qle_bool (Qabs (p - x)) r.
Definition de_check (alts : list N) (ballots : list (list N)) (vpr : list (Q * Q)) (ap : list (N * Q)) : bool :=
  (length vpr =? length ballots) &&
  forallb (fun bv =>
    forallb (fun a => match lookupQ a ap with
                      | Some p => Bool.eqb (within p (fst (snd bv)) (snd (snd bv))) (mem a (fst bv))
                      | None => false
                      end) alts)
    (combine ballots vpr).

(* PART: parts = the distinct approval sets (as sets, each exactly once), pairwise disjoint *)
Fixpoint pairwise {T} (r : T -> T -> bool) (l : list T) : bool :=
  match l with
  | [] => true
  | x :: t => forallb (r x) t && pairwise r t
  end.
Definition part_check (ballots : list (list N)) (parts : list (list N)) : bool :=
  forallb (fun b => existsb (fun s => set_eq s b) parts) ballots &&
  forallb (fun s => existsb (fun b => set_eq s b) ballots) parts &&
  pairwise (fun s t => negb (set_eq s t) && negb (meets s t)) parts.
(* 2PART: a partition witness with at most one part (no part: a profile without ballots), or with two parts that
   together cover all alternatives *)
Definition part2_check (alts : list N) (ballots : list (list N)) (parts : list (list N)) : bool :=
  part_check ballots parts &&
  ((length parts <=? 1) || ((length parts =? 2) && set_eq (concat parts) alts)).

(* ------------------------------------------------------------------------------------------------ *)
(* (R) reference deciders by enumeration *)
Definition ci_decide (alts : list N) (ballots : list (list N)) : bool :=
  existsb (ci_check alts ballots) (perms alts).
Definition cei_decide (alts : list N) (ballots : list (list N)) : bool :=
  existsb (cei_check alts ballots) (perms alts).
Definition vi_decide (alts : list N) (ballots : list (list N)) : bool :=
  existsb (vi_check alts ballots) (perms (seq 0 (length ballots))).
Definition vei_decide (alts : list N) (ballots : list (list N)) : bool :=
  existsb (vei_check alts ballots) (perms (seq 0 (length ballots))).
Definition wsc_decide (alts : list N) (ballots : list (list N)) : bool :=
  existsb (wsc_check alts ballots) (perms (seq 0 (length ballots))).
(* DE: try the code's construction on every candidate order (complete by de_iff_ci) *)
Definition de_decide (alts : list N) (ballots : list (list N)) : bool :=
  existsb (fun order => let w := de_construct ballots order in de_check alts ballots (fst w) (snd w))
          (perms alts).

(* PART: any two approval sets are equal or disjoint *)
Definition part_decide (ballots : list (list N)) : bool :=
  forallb (fun b1 => forallb (fun b2 => set_eq b1 b2 || negb (meets b1 b2)) ballots) ballots.
(* 2PART (the reading of the property text: AT MOST two distinct approval sets): any two approval sets are equal
   or disjoint, every approval set equals the first one (s) or one other (t), and if s and t differ they cover all
   the alternatives.  A profile without ballots has zero distinct approval sets and is a 2-partition in this
   reading; is_2_part answers False on it (two_part_no_ballots_refuted). *)
Definition part2_decide (alts : list N) (ballots : list (list N)) : bool :=
  part_decide ballots &&
  match ballots with
  | [] => true
  | s :: _ =>
      existsb (fun t => forallb (fun b => set_eq b s || set_eq b t) ballots &&
                        (set_eq s t || set_eq (s ++ t) alts)) ballots
  end.
