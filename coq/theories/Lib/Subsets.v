(* Lib/Subsets.v — verified enumeration of the k-element sublists of a list, bounded least-number search.

   DEFINITIONS
     sublist s l          s is a subsequence of l (inductive)
     subsets_k k l        all sublists of l of length k (in lexicographic order of positions)
     least f n            the least k < n with f k = true, and n when there is none (search k = 0, 1, ..)
   KEY LEMMAS
     subsets_k_iff        In s (subsets_k k l) <-> sublist s l /\ length s = k
     sublist_filter       sublist (filter f l) l
     subset_enumerated    NoDup l -> NoDup D -> incl D l ->
                          exists s, In s (subsets_k (length D) l) /\ Permutation D s
     least_le / least_true / least_min / least_iff *)
From Coq Require Import List Arith Bool Lia Permutation.
Import ListNotations.

(* ------------------------------------------------------------------------------------------ *)
(* executable definitions                                                                      *)

Fixpoint subsets_k {A} (k : nat) (l : list A) : list (list A) :=
  match k with
  | 0 => [[]]
  | S k' => match l with
            | [] => []
            | x :: r => map (cons x) (subsets_k k' r) ++ subsets_k k r
            end
  end.

Fixpoint least_from (f : nat -> bool) (k fuel : nat) : nat :=
  match fuel with
  | 0 => k
  | S fuel' => if f k then k else least_from f (S k) fuel'
  end.
Definition least (f : nat -> bool) (n : nat) : nat := least_from f 0 n.

(* ------------------------------------------------------------------------------------------ *)
(* sublists                                                                                    *)

Inductive sublist {A} : list A -> list A -> Prop :=
| sl_nil  : forall l, sublist [] l
| sl_skip : forall x s l, sublist s l -> sublist s (x :: l)
| sl_take : forall x s l, sublist s l -> sublist (x :: s) (x :: l).

Lemma sublist_refl {A} (l : list A) : sublist l l.
Proof. induction l as [|x r IH]; [apply sl_nil|now apply sl_take]. Qed.

Lemma sublist_nil_r {A} (s : list A) : sublist s [] -> s = [].
Proof. inversion 1; reflexivity. Qed.

Lemma sublist_incl {A} (s l : list A) : sublist s l -> incl s l.
Proof.
  induction 1 as [l|x s l _ IH|x s l _ IH]; intros y Hy.
  - contradiction.
  - right. now apply IH.
  - destruct Hy as [<-|Hy]; [now left|right; now apply IH].
Qed.

Lemma sublist_length {A} (s l : list A) : sublist s l -> length s <= length l.
Proof. induction 1; simpl; lia. Qed.

Lemma sublist_NoDup {A} (s l : list A) : sublist s l -> NoDup l -> NoDup s.
Proof.
  induction 1 as [l|x s l Hs IH|x s l Hs IH]; intros Hnd.
  - constructor.
  - inversion Hnd; subst. auto.
  - inversion Hnd as [|? ? Hn Hnd']; subst. constructor; [|auto].
    intros Hin. apply Hn. eapply sublist_incl; eauto.
Qed.

Lemma sublist_filter {A} (f : A -> bool) (l : list A) : sublist (filter f l) l.
Proof.
  induction l as [|x r IH]; simpl; [apply sl_nil|]. destruct (f x); [now apply sl_take|now apply sl_skip].
Qed.

Lemma sublist_map {A B} (g : A -> B) (s l : list A) : sublist s l -> sublist (map g s) (map g l).
Proof.
  induction 1 as [l|x s l _ IH|x s l _ IH]; simpl; [apply sl_nil|now apply sl_skip|now apply sl_take].
Qed.

Lemma sublist_trans {A} (a b c : list A) : sublist a b -> sublist b c -> sublist a c.
Proof.
  intros Hab Hbc. revert a Hab. induction Hbc as [l|x s l _ IH|x s l _ IH]; intros a Hab.
  - apply sublist_nil_r in Hab. subst. apply sl_nil.
  - apply sl_skip. now apply IH.
  - inversion Hab; subst.
    + apply sl_nil.
    + apply sl_skip. now apply IH.
    + apply sl_take. now apply IH.
Qed.

Lemma sublist_full_length {A} (s l : list A) : sublist s l -> length s = length l -> s = l.
Proof.
  induction 1 as [l|x s l Hs IH|x s l Hs IH]; simpl; intros E.
  - destruct l; [reflexivity|discriminate].
  - apply sublist_length in Hs. lia.
  - f_equal. apply IH. lia.
Qed.

(* ------------------------------------------------------------------------------------------ *)
(* subsets_k                                                                                   *)

Theorem subsets_k_iff {A} (k : nat) (l s : list A) :
  In s (subsets_k k l) <-> sublist s l /\ length s = k.
Proof.
  revert k s. induction l as [|x r IH]; intros k s.
  - destruct k as [|k]; simpl.
    + split.
      * intros [<-|[]]. split; [apply sl_nil|reflexivity].
      * intros [_ H]. left. destruct s; [reflexivity|discriminate].
    + split; [contradiction|]. intros [H E]. apply sublist_nil_r in H. subst. discriminate.
  - destruct k as [|k].
    + simpl. split.
      * intros [<-|[]]. split; [apply sl_nil|reflexivity].
      * intros [_ H]. left. destruct s; [reflexivity|discriminate].
    + change (subsets_k (S k) (x :: r)) with (map (cons x) (subsets_k k r) ++ subsets_k (S k) r).
      rewrite in_app_iff, in_map_iff. split.
      * intros [(s' & <- & H)|H].
        -- apply IH in H. destruct H as [H E]. split; [now apply sl_take|simpl; now rewrite E].
        -- apply IH in H. destruct H as [H E]. split; [now apply sl_skip|assumption].
      * intros [H E]. inversion H; subst.
        -- discriminate.
        -- right. apply IH. auto.
        -- left. eexists. split; [reflexivity|]. apply IH. simpl in E. split; [assumption|lia].
Qed.

Lemma subsets_k_length {A} k (l s : list A) : In s (subsets_k k l) -> length s = k.
Proof. intros H. now apply subsets_k_iff in H. Qed.

Lemma subsets_k_sublist {A} k (l s : list A) : In s (subsets_k k l) -> sublist s l.
Proof. intros H. now apply subsets_k_iff in H. Qed.

Lemma subsets_k_map {A B} (g : A -> B) k (l : list A) :
  subsets_k k (map g l) = map (map g) (subsets_k k l).
Proof.
  revert k. induction l as [|x r IH]; intros k; destruct k as [|k]; try reflexivity.
  change (subsets_k (S k) (map g (x :: r)))
    with (map (cons (g x)) (subsets_k k (map g r)) ++ subsets_k (S k) (map g r)).
  change (subsets_k (S k) (x :: r)) with (map (cons x) (subsets_k k r) ++ subsets_k (S k) r).
  rewrite map_app, !IH, !map_map. reflexivity.
Qed.

(* every duplicate-free subset of a duplicate-free list is, as a set, one of the enumerated ones *)
Theorem subset_enumerated {A} (mem : A -> list A -> bool) (l D : list A) :
  (forall a m, mem a m = true <-> In a m) ->
  NoDup l -> NoDup D -> incl D l ->
  In (filter (fun a => mem a D) l) (subsets_k (length D) l) /\ Permutation D (filter (fun a => mem a D) l).
Proof.
  intros Hmem Hl HD Hincl.
  assert (Hp : Permutation D (filter (fun a => mem a D) l)).
  { apply NoDup_Permutation; [assumption|now apply NoDup_filter|].
    intros a. rewrite filter_In, Hmem. split; [|tauto]. intros Ha. split; [now apply Hincl|assumption]. }
  split; [|assumption]. apply subsets_k_iff. split; [apply sublist_filter|].
  symmetry. now apply Permutation_length.
Qed.

(* ------------------------------------------------------------------------------------------ *)
(* bounded least-number search                                                                 *)

Lemma least_from_range f k fuel : k <= least_from f k fuel <= k + fuel.
Proof.
  revert k. induction fuel as [|n IH]; intros k; simpl; [lia|].
  destruct (f k); [lia|]. specialize (IH (S k)). lia.
Qed.

Lemma least_from_below f k fuel j : k <= j < least_from f k fuel -> f j = false.
Proof.
  revert k. induction fuel as [|n IH]; intros k; simpl; [lia|].
  destruct (f k) eqn:E; [lia|]. intros H.
  destruct (Nat.eq_dec j k) as [->|Hne]; [assumption|]. apply (IH (S k)). lia.
Qed.

Lemma least_from_true f k fuel : least_from f k fuel < k + fuel -> f (least_from f k fuel) = true.
Proof.
  revert k. induction fuel as [|n IH]; intros k; simpl; [lia|].
  destruct (f k) eqn:E; [auto|]. intros H. apply IH. lia.
Qed.

Lemma least_bound f n : least f n <= n.
Proof. unfold least. pose proof (least_from_range f 0 n). lia. Qed.

Lemma least_below f n j : j < least f n -> f j = false.
Proof. intros H. apply (least_from_below f 0 n). unfold least in H. lia. Qed.

(* any k <= n with f k = true bounds the result; k = n is allowed: least returns n by default *)
Lemma least_le f n k : f k = true -> least f n <= k.
Proof.
  intros Hk. destruct (le_lt_dec (least f n) k) as [H|H]; [assumption|].
  apply least_below in H. congruence.
Qed.

Lemma least_true f n : (exists k, k <= n /\ f k = true) -> f (least f n) = true.
Proof.
  intros (k & Hk & E). pose proof (least_le f n k E) as Hle.
  destruct (Nat.eq_dec (least f n) n) as [En|Hne].
  - assert (k = n) by lia. subst k. now rewrite En.
  - apply (least_from_true f 0 n). pose proof (least_bound f n). unfold least in *. lia.
Qed.

Theorem least_iff f n k : (exists j, j <= n /\ f j = true) ->
  (least f n = k <-> f k = true /\ forall j, j < k -> f j = false).
Proof.
  intros Hex. split.
  - intros <-. split; [now apply least_true|]. intros j. apply least_below.
  - intros [Hk Hmin]. pose proof (least_le f n k Hk) as Hle.
    destruct (Nat.eq_dec (least f n) k) as [|Hne]; [assumption|].
    assert (Hlt : least f n < k) by lia. apply Hmin in Hlt.
    rewrite (least_true f n Hex) in Hlt. discriminate.
Qed.

Lemma least_ext f g n : (forall k, k <= n -> f k = g k) -> least f n = least g n.
Proof.
  intros E. unfold least. assert (H : forall fuel k, k + fuel <= n -> least_from f k fuel = least_from g k fuel).
  { induction fuel as [|m IH]; intros k Hk; simpl; [reflexivity|].
    rewrite (E k) by lia. destruct (g k); [reflexivity|]. apply IH. lia. }
  apply H. lia.
Qed.
