(* oracle/main.ml — generic driver for the extracted model.
   stdin : one request per line   "<opname> <val>"
   stdout: one answer per line    "<val>"      (or "!ERR <message>" if the model raised)
   <val> ::= <integer> | "(" <val>* ")"                                                     *)
module M = Model
module S = Stdlib.String

let coq_string_of (s : Stdlib.String.t) : M.string =
  let n = S.length s in
  let rec go i =
    if i >= n then M.EmptyString
    else
      let c = Char.code s.[i] in
      let b k = (c lsr k) land 1 = 1 in
      M.String (M.Ascii (b 0, b 1, b 2, b 3, b 4, b 5, b 6, b 7), go (i + 1))
  in
  go 0

let digit_cons (c : char) (u   : M.uint)   : M.uint =
  match c with
  | '0' -> M.D0 u | '1' -> M.D1 u | '2' -> M.D2 u | '3' -> M.D3 u | '4' -> M.D4 u
  | '5' -> M.D5 u | '6' -> M.D6 u | '7' -> M.D7 u | '8' -> M.D8 u | '9' -> M.D9 u
  | _ -> failwith "bad digit"

(* most significant digit first, as Decimal.uint expects *)
let z_of_token (t : Stdlib.String.t) : M.z =
  let neg = S.length t > 0 && t.[0] = '-' in
  let start = if neg then 1 else 0 in
  let u = ref M.Nil in
  for i = S.length t - 1 downto start do
    u := digit_cons t.[i] !u
  done;
  M.z_of_int (if neg then M.Neg !u else M.Pos !u)

let buf_add_uint (b : Buffer.t) (u   : M.uint) : unit =
  let rec go u =
    match u with
    | M.Nil -> ()
    | M.D0 r -> Buffer.add_char b '0'; go r
    | M.D1 r -> Buffer.add_char b '1'; go r
    | M.D2 r -> Buffer.add_char b '2'; go r
    | M.D3 r -> Buffer.add_char b '3'; go r
    | M.D4 r -> Buffer.add_char b '4'; go r
    | M.D5 r -> Buffer.add_char b '5'; go r
    | M.D6 r -> Buffer.add_char b '6'; go r
    | M.D7 r -> Buffer.add_char b '7'; go r
    | M.D8 r -> Buffer.add_char b '8'; go r
    | M.D9 r -> Buffer.add_char b '9'; go r
  in
  (match u with M.Nil -> Buffer.add_char b '0' | _ -> go u)

let rec buf_add_val (b : Buffer.t) (v : M.val0) : unit =
  match v with
  | M.VI z ->
    (match M.z_to_int z with
     | M.Pos u -> buf_add_uint b u
     | M.Neg u -> Buffer.add_char b '-'; buf_add_uint b u)
  | M.VL l ->
    Buffer.add_char b '(';
    List.iteri (fun i x -> if i > 0 then Buffer.add_char b ' '; buf_add_val b x) l;
    Buffer.add_char b ')'

(* parser over a string with a cursor *)
let parse_val (s : Stdlib.String.t) (pos : int ref) : M.val0 =
  let n = S.length s in
  let skip () = while !pos < n && (s.[!pos] = ' ' || s.[!pos] = '\t') do incr pos done in
  let rec value () =
    skip ();
    if !pos >= n then failwith "unexpected end of line";
    if s.[!pos] = '(' then begin
      incr pos;
      let items = ref [] in
      let fin = ref false in
      while not !fin do
        skip ();
        if !pos >= n then failwith "missing )";
        if s.[!pos] = ')' then (incr pos; fin := true)
        else items := value () :: !items
      done;
      M.VL (List.rev !items)
    end else begin
      let st = !pos in
      while !pos < n && s.[!pos] <> ' ' && s.[!pos] <> ')' && s.[!pos] <> '(' do incr pos done;
      M.VI (z_of_token (S.sub s st (!pos - st)))
    end
  in
  value ()

let () =
  let b = Buffer.create 65536 in
  (try
     while true do
       let line = input_line stdin in
       let line = S.trim line in
       if line <> "" then begin
         (try
            let sp = try S.index line ' ' with Not_found -> S.length line in
            let name = S.sub line 0 sp in
            let pos = ref sp in
            let v = if sp >= S.length line then M.VL [] else parse_val line pos in
            let r = M.dispatch (coq_string_of name) v in
            buf_add_val b r
          with
          | Stack_overflow -> Buffer.add_string b "!ERR stack_overflow"
          | Out_of_memory -> Buffer.add_string b "!ERR out_of_memory"
          | e -> Buffer.add_string b ("!ERR " ^ Printexc.to_string e));
         Buffer.add_char b '\n';
         if Buffer.length b > 60000 then (print_string (Buffer.contents b); Buffer.clear b)
       end
     done
   with End_of_file -> ());
  print_string (Buffer.contents b);
  flush stdout
