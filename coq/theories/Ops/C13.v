(* Ops/C13.v — protocol entry points for property C13 (single-peaked on a tree). *)
From Coq Require Import List NArith String.
From PrefVerif Require Import Lib.Val Model.Tree Model.TreeAlgo.
Import ListNotations.
Open Scope string_scope.

Definition d_alts (v : val) : list N := dlist dN v.
Definition d_profile (v : val) : list (list N) := dlist (dlist dN) v.
Definition d_edges (v : val) : list edge := dlist (dpair dN dN) v.

(* payload (alts profile) -> bool : the reference decider *)
Definition op_decide (v : val) : val :=
  ebool (spt_decide (d_alts (dnth 0 v)) (d_profile (dnth 1 v))).
(* same, through the prefix-by-prefix checker (small inputs only) *)
Definition op_decide_slow (v : val) : val :=
  ebool (spt_decide_slow (d_alts (dnth 0 v)) (d_profile (dnth 1 v))).
(* payload (alts profile edges) -> bool : witness checker *)
Definition op_check (v : val) : val :=
  ebool (spt_checkf (d_alts (dnth 0 v)) (d_profile (dnth 1 v)) (d_edges (dnth 2 v))).
Definition op_check_slow (v : val) : val :=
  ebool (spt_check (d_alts (dnth 0 v)) (d_profile (dnth 1 v)) (d_edges (dnth 2 v))).
(* payload (alts edges) -> bool : spanning tree of alts? *)
Definition op_tree (v : val) : val :=
  ebool (tree_check (d_alts (dnth 0 v)) (d_edges (dnth 1 v))).

(* payload (alts profile) -> (0 (verdict edges)) | (1 4): the mirror of Trick's loop, two instantiations of the
   unspecified set iteration orders *)
Definition e_edge (e : edge) : val := VL [eN (fst e); eN (snd e)].
(* answer (verdict edges check) where check = spt_checkf alts profile edges (the mirror's own witness) *)
Definition e_algo (alts : list N) (p : list (list N)) (r : bool * list edge) : val :=
  VL [ebool (fst r); elist e_edge (snd r); ebool (spt_checkf alts p (snd r))].
Definition op_algo (v : val) : val :=
  let alts := d_alts (dnth 0 v) in let p := d_profile (dnth 1 v) in
  eresult (e_algo alts p) (trick_fwd alts p).
Definition op_algo2 (v : val) : val :=
  let alts := d_alts (dnth 0 v) in let p := d_profile (dnth 1 v) in
  eresult (e_algo alts p) (trick_bwd alts p).

Definition ops : optable :=
  [ ("c13.decide", op_decide); ("c13.decide_slow", op_decide_slow);
    ("c13.check", op_check); ("c13.check_slow", op_check_slow); ("c13.tree", op_tree);
    ("c13.algo", op_algo); ("c13.algo2", op_algo2) ].
