(* Properties/C13.v — placeholder until Proofs/Tree.v exists *)
From Coq Require Import List NArith.
From PrefVerif Require Import Model.Tree.
Import ListNotations.
Example star_not_line :
  spt_decide [1;2;3;4]%N [[1;2;3;4];[1;3;2;4];[1;4;2;3]]%N = true /\
  spt_decide [1;2;3;4]%N [[1;2;3;4];[1;2;4;3];[3;4;1;2]]%N = false.
Proof. vm_compute. split; reflexivity. Qed.
Print Assumptions star_not_line.
