(* Model/EuclidAlgo.v — MIRROR (shape M) of preflibtools' is_one_euclidean as it is in /repo after the fixes
   5a8bee2, 3211aad, 4ca33bd, 74e9e2c.  Executable definitions only; proofs in Proofs/EuclidAlgo.v.

     is_SC, sc_order = is_single_crossing(instance)                 -> sc_algo (Model/SCAlgo.v, proved mirror)
     if is_SC:
         v_1 = sc_order[0]; c_minus = v_1[0]; v_n = sc_order[-1]; c_plus = v_n[0]
         n = len(instance.orders)
         if n == 1: return True, {0: 0.0, c+n-1: rank+1 for rank, c in enumerate(v_1)}
         gamma[c] = 0 (red, C_M) if (v_1 ranks c above c_plus and v_n ranks c above c_minus) or c in {c_minus, c_plus}
                    else 3 (grey)
         for a, b in permutations(C_set, 2):                         -> colour_loop over perm2 alts
             if v_1 ranks a above b and v_n ranks b above a:
                 if gamma[a] == 1 or gamma[b] == 2: return False, None
                 grey a becomes 2 (green, C_L), grey b becomes 1 (blue, C_R)
         C_set_plus = non-grey; axis_dict[c] = number of c' in C_set_plus that c must precede
             (green < red < blue; red/red and blue/blue by v_1; green/green by reversed v_n)
         axis = C_set_plus sorted by axis_dict value, descending, stable
         preferences = every stored order restricted to C_set_plus
         status, voters, alternatives = LP(preferences, axis)         -> Section parameter lp_solve
         if feasible:
             f, g, k = runs of coloured / grey alternatives in v_1's order       -> gen_runs / groups
             x_l, x_r = min, max of voters + positions of f[0]
             delta = max |x - y| over voters + positions of C_set_plus
             y[i] = voters[i];  F_1 at the LP positions;  G_1 at x_r + 6 delta + (l/m) delta
             for i in 1..k-1: F_{i+1} pushed outwards by 8 i delta (left if left of x_l, else right),
                              G_{i+1} at x_r + (8 i + 6) delta + (l/m) delta
             return True, y
     return False, None

   Modelling notes.
   * Python iterates over SETS of alternatives (C_set, C_set_plus); the model iterates in the order of `alts`.
     The iteration order cannot change the outcome: the colouring loop fails iff some non-red alternative is
     the preferred member of one swapped pair and the other member of another one, and otherwise ends in the same
     colouring whatever the order; the axis counts come from a strict total order on C_set_plus (so there are
     no ties for the stable sort to break); every later step only uses the sets as sets.
     The soundness theorem (Proofs/EuclidAlgo.v: eucl_algo_sound) holds for every listing `alts`.
   * `.index(a) < .index(b)` is `before` (first positions); floats are exact rationals here.
   * _one_euclidean_gen_sets appends to the last run while scanning v_1 left to right; gen_runs builds the same
     runs from the right.  The first alternative of v_1 is red, so the first run is an F run.
   * delta: the maximum over ordered pairs of distinct INDICES; the model takes i < j only (|x-y| is symmetric).
   * the result (True, y) is Ok (Some (voters, alternatives)): y[i] = nth i voters, y[c+n-1] = lookup c;
     (False, None) is Ok None; an exception of the precheck is Err. *)
From Coq Require Import List Arith NArith ZArith QArith Qabs Bool.
From PrefVerif Require Import Lib.Val Model.SC Model.SCAlgo Model.Euclid Model.EuclidLP.
Import ListNotations.
Open Scope Q_scope.

Inductive colour := Red | Blue | Green | Grey.      (* gamma = 0 | 1 | 2 | 3 *)
Definition is_grey (c : colour) : bool := match c with Grey => true | _ => false end.
Definition is_blue (c : colour) : bool := match c with Blue => true | _ => false end.
Definition is_green (c : colour) : bool := match c with Green => true | _ => false end.

(* r.index(a) < r.index(b) *)
Definition before (r : list N) (a b : N) : bool := (aidx r a <? aidx r b)%nat.

Definition gamma := N -> colour.
Definition gset (g : gamma) (a : N) (c : colour) : gamma := fun x => if N.eqb x a then c else g x.

Definition gamma0 (v1 vn : list N) (c_minus c_plus : N) : gamma :=
  fun c => if (before v1 c c_plus && before vn c c_minus) || N.eqb c c_minus || N.eqb c c_plus then Red else Grey.

(* itertools.permutations(l, 2) for a duplicate-free l *)
Definition perm2 (l : list N) : list (N * N) :=
  flat_map (fun a => map (pair a) (filter (fun b => negb (N.eqb b a)) l)) l.

Definition swapped (v1 vn : list N) (a b : N) : bool := before v1 a b && before vn b a.

(* one iteration of the colouring loop; None = return False, None *)
Definition colour_step (v1 vn : list N) (st : option gamma) (ab : N * N) : option gamma :=
  match st with
  | None => None
  | Some g =>
      let a := fst ab in
      let b := snd ab in
      if swapped v1 vn a b then
        if is_blue (g a) || is_green (g b) then None
        else
          let g1 := if is_grey (g a) then gset g a Green else g in
          let g2 := if is_grey (g1 b) then gset g1 b Blue else g1 in
          Some g2
      else Some g
  end.

Definition colour_loop (v1 vn : list N) (alts : list N) (g0 : gamma) : option gamma :=
  fold_left (colour_step v1 vn) (perm2 alts) (Some g0).

(* who gets the +1 of the pair (a, b) in the axis_dict loop: true = a (a is to the left of b) *)
Definition left_of (v1 vn : list N) (g : gamma) (a b : N) : bool :=
  match g a, g b with
  | Green, Red | Red, Blue | Green, Blue => true
  | Red, Green | Blue, Red | Blue, Green => false
  | Red, Red | Blue, Blue => before v1 a b
  | Green, Green => negb (before vn a b)
  | _, _ => false                                   (* grey: not in C_set_plus *)
  end.

Definition axis_count (v1 vn : list N) (g : gamma) (plus : list N) (c : N) : nat :=
  length (filter (fun ab => if left_of v1 vn g (fst ab) (snd ab) then N.eqb (fst ab) c else N.eqb (snd ab) c)
                 (ordered_pairs plus)).

Definition memb (c : N) (l : list N) : bool := existsb (N.eqb c) l.

(* the runs of coloured (true) / grey (false) alternatives of v_1 *)
Fixpoint gen_runs (plus : N -> bool) (l : list N) : list (bool * list N) :=
  match l with
  | [] => []
  | c :: t =>
      match gen_runs plus t with
      | (b, r) :: rest => if Bool.eqb b (plus c) then (b, c :: r) :: rest else (plus c, [c]) :: (b, r) :: rest
      | [] => [(plus c, [c])]
      end
  end.
Definition f_groups (runs : list (bool * list N)) : list (list N) := map snd (filter (fun r => fst r) runs).
Definition g_groups (runs : list (bool * list N)) : list (list N) := map snd (filter (fun r => negb (fst r)) runs).

Definition qnat (k : nat) : Q := inject_Z (Z.of_nat k).

(* y for the groups F_{i+1}, G_{i+1}, F_{i+2}, ...  (i = 0: the F1 / G1 blocks of the Python code) *)
Fixpoint place_groups (alt : N -> Q) (xl xr delta : Q) (m : nat) (i : nat) (f g : list (list N)) : list (N * Q) :=
  match f with
  | [] => []
  | fi :: f' =>
      map (fun c => (c, match i with
                        | O => alt c
                        | _ => if Qltb (alt c) xl then alt c - 8 * qnat i * delta else alt c + 8 * qnat i * delta
                        end)) fi
      ++ match g with
         | [] => place_groups alt xl xr delta m (S i) f' []
         | gi :: g' =>
             map (fun lc => (snd lc, xr + (8 * qnat i + 6) * delta + (qnat (fst lc) / qnat m) * delta))
                 (combine (seq 0 (length gi)) gi)
             ++ place_groups alt xl xr delta m (S i) f' g'
         end
  end.

Definition max_abs_diff (l : list Q) : Q :=
  match map (fun xy => Qabs (fst xy - snd xy)) (ordered_pairs l) with
  | [] => 0
  | d :: ds => qmaxl d ds
  end.

Section Algo.
(* the LP of _one_euclidean_solve_lp: (restricted preferences, axis) -> (voters, alternatives) if feasible *)
Variable lp_solve : list (list N) -> list N -> option (list Q * list (N * Q)).

Definition eucl_algo (alts : list N) (orders : list (list N)) : result (option (list Q * list (N * Q))) :=
  match sc_algo alts orders with
  | Err e => Err e
  | Ok None => Ok None
  | Ok (Some sc_order) =>
      match sc_order with
      | [] => Err OtherErr                                            (* sc_order[0] : IndexError *)
      | v1 :: _ =>
          let vn := last sc_order v1 in
          match v1, vn with
          | c_minus :: _, c_plus :: _ =>
              let n := length orders in
              let m := length alts in
              if (n =? 1)%nat then
                Ok (Some ([0], map (fun rc => (snd rc, qnat (S (fst rc)))) (combine (seq 0 (length v1)) v1)))
              else
                match colour_loop v1 vn alts (gamma0 v1 vn c_minus c_plus) with
                | None => Ok None
                | Some g =>
                    let plus := filter (fun c => negb (is_grey (g c))) alts in
                    let counted := map (fun c => (c, axis_count v1 vn g plus c)) plus in
                    let axis := map fst (sort_by (fun cv => (- Z.of_nat (snd cv))%Z) counted) in
                    let prefs := map (filter (fun c => memb c plus)) orders in
                    match lp_solve prefs axis with
                    | None => Ok None
                    | Some (voters, alternatives) =>
                        let alt := fun c => match apos_lookup alternatives c with Some q => q | None => 0 end in
                        let runs := gen_runs (fun c => memb c plus) v1 in
                        let f := f_groups runs in
                        let gg := g_groups runs in
                        let tmp1 := voters ++ map alt (hd [] f) in
                        let xl := match tmp1 with [] => 0 | x :: t => qminl x t end in
                        let xr := match tmp1 with [] => 0 | x :: t => qmaxl x t end in
                        let delta := max_abs_diff (voters ++ map alt plus) in
                        Ok (Some (voters, place_groups alt xl xr delta m 0 f gg))
                    end
                end
          | _, _ => Err OtherErr                                      (* v_1[0] : IndexError *)
          end
      end
  end.

Definition eucl_algo_verdict (alts : list N) (orders : list (list N)) : bool :=
  match eucl_algo alts orders with Ok (Some _) => true | _ => false end.
End Algo.

(* the returned dict: keys 0..n-1 are the voters, key c+n-1 is alternative c *)
Definition y_dict (n : nat) (res : list Q * list (N * Q)) : list (N * Q) :=
  combine (map N.of_nat (seq 0 (length (fst res)))) (fst res)
  ++ map (fun cq => ((fst cq + N.of_nat n - 1)%N, snd cq)) (snd res).

(* ---------------------------------------------------------------------------------------------- *)
(* an executable exact instance of the LP parameter: Fourier-Motzkin with back-substitution on the strict
   homogeneous system (Model/EuclidLP.v: x_a - x_b < 0, 2 p - x_a - x_b < 0, x_a + x_b - 2 p < 0), then the
   point is scaled so that every constraint holds with the margins of the Python LP
   (x_a + 1 <= x_b,  p + 1 <= (x_a + x_b)/2,  p >= (x_a + x_b)/2 + 1). *)
Definition lp_exact (prefs : list (list N)) (axis : list N) : option (list Q * list (N * Q)) :=
  let n := length prefs in
  let sys := eucl_system axis prefs in
  match fm_solve (n + length axis) sys with
  | None => None
  | Some env =>
      let slacks := map (fun c => - eval c env) sys in
      let k := match slacks with [] => 1 | s :: t => Qred (2 / qminl s t) end in
      let env' := map (fun x => Qred (k * x)) env in
      Some (firstn n env', combine axis (skipn n env'))
  end.

(* boolean test of the LP constraints (Proofs/EuclidAlgo.v: lp_sat_b_correct) *)
Definition posq (xs : list (N * Q)) (c : N) : Q := match apos_lookup xs c with Some q => q | None => 0 end.
Definition lp_sat_b (prefs : list (list N)) (axis : list N) (vs : list Q) (xs : list (N * Q)) : bool :=
  forallb (fun ab => Qle_bool (posq xs (fst ab) + 1) (posq xs (snd ab))) (ordered_pairs axis)
  && forallb2 (fun p r => forallb (fun ab => if before r (fst ab) (snd ab)
                                              then Qle_bool (2 * p + 2) (posq xs (fst ab) + posq xs (snd ab))
                                              else Qle_bool (posq xs (fst ab) + posq xs (snd ab) + 2) (2 * p))
                                   (ordered_pairs axis)) vs prefs.

(* the instance used by the extracted mirror: the exact solver's point is accepted only if it passes the test, so the
   hypothesis of eucl_algo_sound holds for it unconditionally (lp_checked_sound) *)
Definition lp_checked (prefs : list (list N)) (axis : list N) : option (list Q * list (N * Q)) :=
  match lp_exact prefs axis with
  | Some (vs, xs) => if lp_sat_b prefs axis vs xs then Some (vs, xs) else None
  | None => None
  end.

Definition eucl_algo_exact := eucl_algo lp_checked.
