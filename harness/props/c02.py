"""C02 — incrementally built ordinal instances stay consistent with the multiset of votes added
(append_order / append_order_array / append_order_list / append_vote_map / populate_*, infer_type, vote_map,
full_profile, flatten_strict, basic.py statistics, sanity.orders)."""
import itertools
import random

from core import proto
from .common import case

ID = "C02"
COVER_FILES = ['instances/preflibinstance/ordinal.py', 'properties/basic.py']
RULE = ("a case = a history of operations on a fresh OrdinalInstance plus a regrouped twin (same multiset of votes, "
        "other batching / entry points); every public field and view is compared with the extracted model after EACH "
        "operation, and the final observables of the two twins are compared with each other. exhaustive: all histories "
        "of <= 2 operations (thorough: + all histories of 3 operations over a reduced operation universe) over "
        "alternatives {1,2}; random: histories of 1-8 operations over <= 6 alternatives with arbitrary ids, repeated "
        "votes, weak / incomplete votes, numpy arrays, populate_* with captured sampler output. "
        "non-trivial = the history uses >= 2 different entry points and some vote is added more than once")
EXHAUSTIVE = {"quick": "all histories of <= 2 operations over the 73-operation universe on alternatives {1,2}",
              "thorough": "all histories of <= 2 operations over the 73-operation universe on alternatives {1,2}; all "
                          "histories of 3 operations over a 29-operation sub-universe"}
TRUSTED = ["modelled (mirror): OrdinalInstance.append_order / append_order_array / append_order_list / append_vote_map "
           "/ infer_type / vote_map / full_profile / flatten_strict, basic.py statistics, sanity.orders; "
           "populate_* is replayed as append_vote_map of the vote map captured from the wrapped sampler "
           "(prefsampling itself is outside the model: any map of well-formed votes is covered by C02_reachable)",
           "iteration order of the Python set of alternatives in append_order_array / append_order_list is not "
           "modelled: alternatives_name is compared as a set of (id, name) pairs",
           "numpy: conversion of array entries to dict keys / str() of numpy integers in append_order_array"]
ASSUMPTIONS = ["well-formed votes: at least one class, classes non-empty, no alternative twice in a vote; vote-map "
               "multiplicities >= 1; alternative ids are positive integers",
               "the fresh instance (empty history) has data_type 'toi' while infer_type() says 'soc' "
               "(C02_fresh_type_refuted): data_type and sanity are compared only after the first operation; the "
               "basic.py statistics only on states with at least one order (they raise / disagree on the empty "
               "profile, see C02_type)"]
TIMEOUT_S = 60.0
THEOREMS_FOR_OP = {"c02.history": "C02_reachable, C02_views, C02_type, C02_sanity, C02_no_raise (observables after each "
                                   "operation); C02_regroup (final observables of the regrouped twin)"}
CHUNK = 25

DT = {"soc": 0, "soi": 1, "toc": 2, "toi": 3, None: 4}
K_ORDER, K_ARRAY, K_LIST, K_VM, K_POP, K_BARE = 0, 1, 2, 3, 4, 5


# ---------------------------------------------------------------------------------------------
# histories
def votes_of_op(op):
    k, d = op
    if k == K_ORDER:
        return [[[a] for a in d]]
    if k == K_ARRAY:
        return [[[a] for a in row] for row in d]
    if k in (K_LIST, K_BARE):
        return [o for o in d]
    if k == K_VM:
        return [o for o, m in d for _ in range(m)]
    raise ValueError(k)


def votes_of(h):
    return [v for op in h for v in votes_of_op(op)]


def is_strict_vote(o):
    return all(len(c) == 1 for c in o)


def regroup(votes, rng, nonempty):
    """another history adding the same multiset of votes: shuffled, re-batched, other entry points"""
    vs = [proto.norm(v) for v in votes]
    rng.shuffle(vs)
    h = []
    i = 0
    while i < len(vs):
        b = rng.choice([1, 1, 2, 3, 4, len(vs)])
        batch = vs[i:i + b]
        i += len(batch)
        strict = all(is_strict_vote(o) for o in batch)
        kinds = [K_LIST, K_VM]
        if strict and len(batch) == 1:
            kinds += [K_ORDER, K_ORDER]
        if strict and len(set(len(o) for o in batch)) == 1:
            kinds += [K_ARRAY, K_ARRAY]
        k = rng.choice(kinds)
        if k == K_ORDER:
            h.append([K_ORDER, [c[0] for c in batch[0]]])
        elif k == K_ARRAY:
            h.append([K_ARRAY, [[c[0] for c in o] for o in batch]])
        elif k == K_LIST:
            h.append([K_LIST, batch])
        else:
            vm = []
            for o in batch:
                for e in vm:
                    if e[0] == o:
                        e[1] += 1
                        break
                else:
                    vm.append([o, 1])
            h.append([K_VM, vm])
    if rng.random() < 0.2:
        h.insert(rng.randrange(len(h) + 1), rng.choice([[K_LIST, []], [K_VM, []], [K_ARRAY, []]]))
    if nonempty and not h:
        h.append(rng.choice([[K_LIST, []], [K_VM, []], [K_ARRAY, []]]))
    return h


def mk_case(h, seed, **tags):
    """twin is derived deterministically from the history (None when the history contains a populate call:
    the votes are then only known after the implementation ran; impl() builds the twin)"""
    if any(op[0] in (K_POP, K_BARE) for op in h):
        return case("c02.history", [h, [], seed], pop=1, **tags)
    twin = regroup(votes_of(h), random.Random(seed * 7919 + 13), nonempty=bool(h))
    return case("c02.history", [h, twin, seed], **tags)


VOTES2 = [[[1]], [[2]], [[1], [2]], [[2], [1]], [[1, 2]], [[2, 1]]]
STRICT2 = [[1], [2], [1, 2], [2, 1]]


def universe(full=True):
    u = []
    for o in STRICT2:
        u.append([K_ORDER, o])
    u.append([K_ARRAY, []])
    for o in STRICT2:
        u.append([K_ARRAY, [o]])
    for a, b in itertools.product(STRICT2, STRICT2):
        if len(a) == len(b) and (full or a == b):
            u.append([K_ARRAY, [a, b]])
    u.append([K_LIST, []])
    for o in VOTES2:
        u.append([K_LIST, [o]])
    for i, a in enumerate(VOTES2):
        for b in VOTES2[i:]:
            if full or (a == b and a in (VOTES2[2], VOTES2[4])):
                u.append([K_LIST, [a, b]])
    u.append([K_VM, []])
    for o in VOTES2:
        for k in ((1, 2) if full else (2,)):
            u.append([K_VM, [[o, k]]])
    for i, a in enumerate(VOTES2):
        for b in VOTES2[i + 1:]:
            if full:
                u.append([K_VM, [[a, 1], [b, 1]]])
    return u


def rand_vote(rng, alts, p_tie, p_inc):
    a = list(alts)
    rng.shuffle(a)
    if rng.random() < p_inc and len(a) > 1:
        a = a[: rng.randint(1, len(a))]
    out = [[a[0]]]
    for x in a[1:]:
        if rng.random() < p_tie:
            out[-1].append(x)
        else:
            out.append([x])
    return out


def rand_history(rng, i):
    m = rng.randint(1, 6)
    alts = rng.sample(range(1, rng.choice([7, 12, 40, 10 ** 6, 10 ** 18])), m)
    mode = rng.choice(["strict", "strict-complete", "weak", "mixed", "mixed"])
    p_tie = 0.0 if mode.startswith("strict") else (0.5 if mode == "weak" else 0.25)
    p_inc = 0.0 if mode == "strict-complete" else 0.4
    pool = []
    for _ in range(rng.randint(1, 5)):
        pool.append(rand_vote(rng, alts, p_tie, p_inc))

    def vote(strict=False):
        for _ in range(20):
            v = rng.choice(pool) if rng.random() < 0.7 else rand_vote(rng, alts, 0.0 if strict else p_tie, p_inc)
            if not strict or is_strict_vote(v):
                return v
        return rand_vote(rng, alts, 0.0, p_inc)

    h = []
    for _ in range(rng.randint(1, 8)):
        k = rng.choice([K_ORDER, K_ARRAY, K_LIST, K_VM, K_LIST, K_VM])
        if k == K_ORDER:
            h.append([k, [c[0] for c in vote(True)]])
        elif k == K_ARRAY:
            first = vote(True)
            rows = [first]
            for _ in range(rng.randint(0, 3)):
                v = vote(True)
                if len(v) == len(first):
                    rows.append(v)
                else:
                    rows.append(first if rng.random() < 0.5 else rand_perm_of(rng, first))
            if rng.random() < 0.05:
                rows = []
            h.append([k, [[c[0] for c in o] for o in rows]])
        elif k == K_LIST:
            h.append([k, [vote() for _ in range(rng.randint(0, 4))]])
        else:
            vm = []
            for _ in range(rng.randint(0, 3)):
                v = vote()
                if all(e[0] != v for e in vm):
                    vm.append([v, rng.randint(1, 3)])
            h.append([k, vm])
    return h, mode


def corner_history(rng):
    m = rng.randint(3, 5)
    alts = rng.sample(range(1, 9), m)
    complete = [rand_vote(rng, alts, rng.choice([0.0, 0.0, 0.5]), 0.0) for _ in range(rng.randint(1, 4))]
    while True:
        w = rand_vote(rng, alts, 0.7, 1.0)
        if not is_strict_vote(w) and sum(len(c) for c in w) < m:
            break
    strict_c = [v for v in complete if is_strict_vote(v)]
    weak_c = [v for v in complete if not is_strict_vote(v)]
    rng.shuffle(strict_c)
    rng.shuffle(weak_c)
    seq = strict_c + [w] + weak_c            # the first weak order is the incomplete one
    if rng.random() < 0.3:
        rng.shuffle(seq)
    seq = seq + [rng.choice(seq) for _ in range(rng.randint(0, 3))]
    h = []
    i = 0
    while i < len(seq):
        b = rng.randint(1, 3)
        batch = seq[i:i + b]
        i += b
        if len(batch) == 1 and is_strict_vote(batch[0]) and rng.random() < 0.5:
            h.append([K_ORDER, [c[0] for c in batch[0]]])
        elif all(is_strict_vote(v) for v in batch) and len(set(len(v) for v in batch)) == 1 and rng.random() < 0.5:
            h.append([K_ARRAY, [[c[0] for c in v] for v in batch]])
        elif rng.random() < 0.5:
            h.append([K_LIST, batch])
        else:
            vm = []
            for o in batch:
                for e in vm:
                    if e[0] == o:
                        e[1] += 1
                        break
                else:
                    vm.append([o, 1])
            h.append([K_VM, vm])
    return h


def rand_perm_of(rng, o):
    a = [c[0] for c in o]
    rng.shuffle(a)
    return [[x] for x in a]


def generate(tier, seed):
    rng = random.Random(1000003 * seed + 2)
    out = [mk_case([], 0, exh=1)]
    u = universe(True)
    for a in u:
        out.append(mk_case([a], len(out), exh=1))
    for a in u:
        for b in u:
            out.append(mk_case([a, b], len(out), exh=2))
    if tier != "quick":
        u3 = universe(False)
        for a in u3:
            for b in u3:
                for c in u3:
                    out.append(mk_case([a, b, c], len(out), exh=3))
    nrand = 1500 if tier == "quick" else 20000
    for i in range(nrand):
        h, mode = rand_history(rng, i)
        out.append(mk_case(h, rng.randrange(10 ** 9), rnd=1, mode=mode))
    # corner: the first weak (tied) order of `orders` is incomplete and is the only incomplete order (-> toi),
    # entered in every rotation / through several entry points; and histories made of vote maps only
    for i in range(120 if tier == "quick" else 1500):
        out.append(mk_case(corner_history(rng), rng.randrange(10 ** 9), rnd=1, mode="corner-first-weak-incomplete"))
    for i in range(60 if tier == "quick" else 600):
        h, _ = rand_history(rng, i)
        vs = votes_of(h)
        hh = []
        j = 0
        while j < len(vs):
            b = rng.randint(1, 3)
            vm = []
            for o in vs[j:j + b]:
                for e in vm:
                    if e[0] == o:
                        e[1] += 1
                        break
                else:
                    vm.append([o, 1])
            hh.append([K_VM, vm])
            j += b
        out.append(mk_case(hh, rng.randrange(10 ** 9), rnd=1, mode="vote-maps-only"))
    # populate_* (the sampler's vote map is captured on the implementation side)
    npop = 60 if tier == "quick" else 600
    for i in range(npop):
        h = []
        for _ in range(rng.randint(1, 3)):
            if rng.random() < 0.7:
                which = rng.choice([0, 1, 2, 3])
                na = rng.randint(1, 5)
                nv = rng.randint(1, 12)
                p3 = rng.randint(0, 30) if which == 1 else rng.randint(1, 3)
                h.append([K_POP, [which, nv, na, p3, rng.randrange(10 ** 6)]])
            else:
                hh, _ = rand_history(rng, i)
                h.extend(hh[:2])
        out.append(mk_case(h, rng.randrange(10 ** 9), rnd=1, mode="populate"))
    # append_order_list with bare alternatives instead of classes (the `isinstance(a, Iterable)` branch)
    for i in range(10 if tier == "quick" else 60):
        h, _ = rand_history(rng, i)
        pos = rng.randrange(len(h) + 1)
        alts = rng.sample(range(1, 9), rng.randint(1, 4))
        h.insert(pos, [K_BARE, [[[a] for a in alts]]])
        out.append(mk_case(h, rng.randrange(10 ** 9), rnd=1, mode="bare"))
    return out


# ---------------------------------------------------------------------------------------------
# implementation side
def _t(o):
    return tuple(tuple(c) for c in o)


def _guard(fn, *a):
    from .common import guarded
    return guarded(fn, *a)


def observe(inst, raised):
    from preflibtools.instances import sanity
    from preflibtools.properties import basic
    mult = [[o, int(k)] for o, k in inst.multiplicity.items()]
    names = [[int(a), proto.text(n)] for a, n in inst.alternatives_name.items()]
    vm = inst.vote_map()
    errs = sanity.orders(inst) if not raised else None
    has = len(inst.orders) > 0
    return proto.norm([
        mult,
        list(inst.orders),
        inst.num_voters,
        inst.num_unique_orders,
        inst.num_alternatives,
        names,
        DT.get(inst.data_type, 9),
        _guard(lambda: DT.get(inst.infer_type(), 9)),
        inst.full_profile(),
        [[o, int(k)] for o, k in vm.items()],
        [[list(o), int(k)] for o, k in inst.flatten_strict()],
        1 if basic.is_strict(inst) else 0,
        _guard(lambda: 1 if basic.is_complete(inst) else 0),
        _guard(lambda: int(basic.largest_ballot(inst))),
        _guard(lambda: int(basic.smallest_ballot(inst))),
        int(basic.max_num_indif(inst)),
        int(basic.min_num_indif(inst)),
        int(basic.largest_indif(inst)),
        int(basic.smallest_indif(inst)),
        1 if (errs is not None and len([e for e in errs if "0 appears" not in e]) == 0) else 0,
        1 if (errs is not None and len([e for e in errs if "0 appears" in e]) == 0) else 0,
        1 if raised else 0,
        list(inst.preferences),
        DT.get(inst.data_type, 9),
    ])


class _Capture:
    """wraps ordinal.generate_* (the names append through which populate_* obtains its vote map)"""

    def __init__(self, seed):
        self.seed = seed
        self.vm = None

    def __enter__(self):
        import numpy as np
        from preflibtools.instances.preflibinstance import ordinal
        self.np, self.ordinal = np, ordinal
        self.saved = {n: getattr(ordinal, n) for n in
                      ("generate_IC", "generate_IC_anon", "generate_urn", "generate_mallows", "generate_mallows_mix")}
        self.saved_rng = np.random.default_rng
        ctr = [0]

        def rng(s=None):
            ctr[0] += 1
            return self.saved_rng(self.seed * 1000 + ctr[0] if s is None else s)

        np.random.default_rng = rng       # prefsampling draws from default_rng(None): make it replayable
        np.random.seed(self.seed % (2 ** 32))

        def wrap(f):
            def g(*a, **kw):
                r = f(*a, **kw)
                self.vm = [[[list(c) for c in o], int(k)] for o, k in r.items()]
                return r
            return g
        for n, f in self.saved.items():
            setattr(ordinal, n, wrap(f))
        return self

    def __exit__(self, *exc):
        for n, f in self.saved.items():
            setattr(self.ordinal, n, f)
        self.np.random.default_rng = self.saved_rng
        return False


def apply_op(inst, op, variant):
    """returns the resolved operation (populate -> the captured vote map; bare list -> list of orders)"""
    import numpy as np
    k, d = op
    if k == K_ORDER:
        inst.append_order(tuple(d) if variant % 2 == 0 else list(d))
        return op
    if k == K_ARRAY:
        if d:
            arr = np.array(d, dtype=np.int64 if max(max(r) for r in d) < 2 ** 62 else object)
            arr = arr.reshape(len(d), len(d[0]))
        else:
            arr = np.empty((0, 0), dtype=np.int64)
        inst.append_order_array(arr)
        return op
    if k == K_LIST:
        os_ = [_t(o) for o in d]
        if variant % 3 == 1:
            os_ = tuple(os_)
        elif variant % 3 == 2:
            os_ = [tuple(list(c) for c in o) for o in d]      # classes given as lists (re-tupled by the method)
        inst.append_order_list(os_)
        return op
    if k == K_VM:
        inst.append_vote_map({_t(o): m for o, m in d})
        return op
    if k == K_POP:
        which, nv, na, p3, seed = d
        with _Capture(seed) as cap:
            if which == 0:
                inst.populate_IC(nv, na)
            elif which == 1:
                inst.populate_urn(nv, na, p3)
            elif which == 2:
                inst.populate_mallows_mix(nv, na, p3)
            else:
                inst.populate_IC_anon(nv, na)
        if cap.vm is None:
            raise RuntimeError("populate_* did not go through ordinal.generate_*")
        return [K_VM, cap.vm]
    if k == K_BARE:
        inst.append_order_list([tuple(c[0] for c in o) for o in d])
        return [K_LIST, d]
    raise ValueError(k)


def replay(h, seed):
    from preflibtools.instances import OrdinalInstance
    inst = OrdinalInstance()
    obs = [observe(inst, False)]
    resolved = []
    bare_raised = False
    for i, op in enumerate(h):
        try:
            r = apply_op(inst, op, seed + i)
        except TypeError:
            if op[0] == K_BARE:
                bare_raised = True        # not claimed by the property: the history ends here
                break
            raise
        resolved.append(r)
        obs.append(observe(inst, False))
    return resolved, obs, bare_raised


def impl(c):
    h, twin, seed = c["payload"]
    rh, obs_h, bare = replay(h, seed)
    if c["tags"].get("pop"):
        twin = regroup(votes_of(rh), random.Random(seed * 7919 + 13), nonempty=bool(rh))
    rt, obs_t, _ = replay(twin, seed + 101)
    return {"H": proto.norm(rh), "T": proto.norm(rt), "obsH": obs_h, "obsT": obs_t, "bare_raised": bare}


def oracle_requests(c, r):
    if not isinstance(r, dict) or "H" not in r:
        return [("c02.history", c["payload"][0]), ("c02.history", c["payload"][1])]
    return [("c02.history", r["H"]), ("c02.history", r["T"])]


# ---------------------------------------------------------------------------------------------
NAMES = ["multiplicity", "orders", "num_voters", "num_unique_orders", "num_alternatives", "alternatives_name",
         "data_type", "infer_type()", "full_profile()", "vote_map()", "flatten_strict()", "is_strict", "is_complete",
         "largest_ballot", "smallest_ballot", "max_num_indif", "min_num_indif", "largest_indif", "smallest_indif",
         "sanity.orders clean", "sanity: no alternative 0", "raised", "preferences",
         "data_type vs the type of the multiset of votes by definition (C02_type)"]
AS_SET = {0, 1, 5, 8, 9, 10, 22}        # compared up to order (multisets): insertion order is not named by the property
STATS = set(range(11, 19))          # basic.py statistics: only on states holding at least one order
NOT_FRESH = {6, 19}                 # data_type / sanity: only after the first operation
SPEC_TYPE = 23                      # model: spec_type(votes so far); implementation: data_type. Only with >= 1 vote


def canon(i, x):
    return sorted(x) if i in AS_SET else x


def compare_obs(step, a, b, who):
    """a: implementation, b: model"""
    if len(a) != len(b):
        return "%s step %d: observation shapes differ" % (who, step)
    has_orders = len(b[1]) > 0
    for i in range(len(a)):
        if i in STATS and not has_orders:
            continue
        if i in NOT_FRESH and step == 0:
            continue
        if i == SPEC_TYPE and not has_orders:
            continue
        if canon(i, a[i]) != canon(i, b[i]):
            return "%s after operation %d: %s: implementation %r, model %r" % (who, step, NAMES[i], a[i], b[i])
    return None


FINAL = [0, 1, 2, 3, 4, 5, 6, 7]


def judge(c, r, mres):
    for who, obs, m in (("history", r["obsH"], mres[0]), ("twin", r["obsT"], mres[1])):
        if len(obs) != len(m):
            return "%s: %d observations from the implementation, %d from the model" % (who, len(obs), len(m))
        for step, (a, b) in enumerate(zip(obs, m)):
            e = compare_obs(step, a, b, who)
            if e:
                return e
    # regrouping: the two histories add the same multiset of votes -> same final observables (implementation side)
    fa, fb = r["obsH"][-1], r["obsT"][-1]
    both_started = len(r["obsH"]) > 1 and len(r["obsT"]) > 1
    for i in FINAL:
        if i in (6,) and not both_started:
            continue
        if canon(i, fa[i]) != canon(i, fb[i]):
            return {"kind": "mismatch", "theorem": "C02_regroup",
                    "reason": "regrouped twin: %s differs: %r vs %r" % (NAMES[i], fa[i], fb[i])}
    return None


def _kinds(h):
    return set(op[0] for op in h)


def nontrivial(c, r, m):
    h = r["H"]
    vs = [proto.enc(v) for v in votes_of(h)]
    return len(_kinds(h)) >= 2 and len(set(vs)) < len(vs)


def stats(c, r, m):
    h = r["H"]
    out = ["ops=%d" % len(h)]
    final = r["obsH"][-1]
    out.append("final data_type=%s" % {0: "soc", 1: "soi", 2: "toc", 3: "toi"}.get(final[6], "?"))
    out.append("entry points=%d" % len(_kinds(h)))
    vs = [proto.enc(v) for v in votes_of(h)]
    out.append("repeated vote" if len(set(vs)) < len(vs) else "no repeated vote")
    if c["tags"].get("mode"):
        out.append("mode=" + c["tags"]["mode"])
    if c["tags"].get("exh"):
        out.append("exhaustive len=%d" % c["tags"]["exh"])
    # corners asked for by the coordinator (measured, see the evidence)
    orders = final[1]
    if orders:
        na = final[4]
        inc = [sum(len(c) for c in o) != na for o in orders]
        weak = [any(len(c) != 1 for c in o) for o in orders]
        if any(weak):
            fw = weak.index(True)
            if inc[fw] and sum(inc) == 1:
                out.append("corner: first weak order is incomplete and the only incomplete order (toi expected)")
    if h and all(op[0] == K_VM for op in h):
        out.append("corner: instance populated through vote maps only" +
                   (" (populate_*)" if any(op[0] == K_POP for op in c["payload"][0]) else ""))
    seen = set()
    bump = 0
    for op in h:
        ovs = [proto.enc(v) for v in votes_of_op(op)]
        if ovs and all(v in seen for v in ovs):
            bump += 1
        seen.update(ovs)
    if bump:
        out.append("corner: some operation only raises multiplicities of existing orders")
    if r.get("bare_raised"):
        out.append("append_order_list with bare alternatives raised TypeError (history truncated there)")
    for op in c["payload"][0]:
        if op[0] == K_POP:
            out.append("populate kind=%d" % op[1][0])
    return out


def describe(c):
    kn = {0: "append_order", 1: "append_order_array", 2: "append_order_list", 3: "append_vote_map",
          4: "populate(which,nv,na,param,seed)", 5: "append_order_list(bare alternatives)"}
    return {"history": [[kn[k], d] for k, d in c["payload"][0]],
            "twin": [[kn[k], d] for k, d in c["payload"][1]]}


def shrink(c):
    h, twin, seed = c["payload"]
    if any(op[0] in (K_POP, K_BARE) for op in h):
        for i in range(len(h)):
            yield dict(mk_case(h[:i] + h[i + 1:], seed), tags=c["tags"])
        return
    # a failure may live in the twin only: try the twin as the history
    for i in range(len(h)):
        yield mk_case(h[:i] + h[i + 1:], seed, **c["tags"])
    if twin:
        yield mk_case(twin, seed, **c["tags"])
    for i, (k, d) in enumerate(h):
        if k in (K_ARRAY, K_LIST, K_VM):
            for j in range(len(d)):
                yield mk_case(h[:i] + [[k, d[:j] + d[j + 1:]]] + h[i + 1:], seed, **c["tags"])
        if k == K_VM:
            for j in range(len(d)):
                if d[j][1] > 1:
                    yield mk_case(h[:i] + [[k, d[:j] + [[d[j][0], d[j][1] - 1]] + d[j + 1:]]] + h[i + 1:], seed,
                                  **c["tags"])
    for s2 in range(3):
        yield mk_case(h, seed + 1 + s2, **c["tags"])
