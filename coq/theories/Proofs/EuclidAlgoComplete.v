(* Proofs/EuclidAlgoComplete.v — COMPLETENESS of the mirror of is_one_euclidean (the Elkind-Faliszewski argument):
   on a 1-Euclidean profile the single-crossing precheck passes, the colouring loop never takes its failure exit,
   and the LP on the constructed axis is feasible (the axis is the left-to-right order of the coloured
   alternatives in any realising embedding that puts v_1 left of v_n).  Hence, for an LP oracle that answers None
   only on infeasible systems, the mirror answers True on every 1-Euclidean profile. *)
From Coq Require Import List Arith NArith ZArith QArith Qabs Qfield Bool Lia Lqa Permutation Sorted.
From PrefVerif Require Import Lib.Val Lib.Perms Lib.Contig Model.SP Model.SC Model.SCAlgo Model.Euclid Model.EuclidLP
                              Model.EuclidAlgo Proofs.SP Proofs.SC Proofs.SCAlgo Proofs.Euclid Proofs.EuclidLP
                              Proofs.EuclidAlgo Proofs.EuclidAlgoOrder.
Import ListNotations.
Open Scope Q_scope.

(* ============================================================================================== *)
(* 1. geometry on the line: two voters p1 < pn                                                     *)
(* ============================================================================================== *)
(* a is strictly closer than b to p1, b strictly closer than a to pn, p1 < pn: then a is left of b and the
   midpoint separates the two voters *)
Lemma swap_geometry p1 pn xa xb : p1 < pn -> qdist p1 xa < qdist p1 xb -> qdist pn xb < qdist pn xa ->
  xa < xb /\ 2 * p1 < xa + xb /\ xa + xb < 2 * pn.
Proof.
  intros Hlt H1 Hn.
  destruct (qdist_cases p1 xa) as [[? E1]|[? E1]], (qdist_cases p1 xb) as [[? E2]|[? E2]],
           (qdist_cases pn xa) as [[? E3]|[? E3]], (qdist_cases pn xb) as [[? E4]|[? E4]]; repeat split; lra.
Qed.

Section Geo.
Variable x : N -> Q.
Variables p1 pn : Q.
Variables cminus cplus : N.
Variable alts : list N.
Hypothesis Hlt : p1 < pn.
Hypothesis Hdist : forall a b, In a alts -> In b alts -> a <> b -> ~ x a == x b.
Hypothesis Hcm : In cminus alts.
Hypothesis Hcp : In cplus alts.
(* cminus / cplus are the tops of the voters at p1 / pn *)
Hypothesis Htop1 : forall d, In d alts -> d <> cminus -> qdist p1 (x cminus) < qdist p1 (x d).
Hypothesis Htopn : forall d, In d alts -> d <> cplus -> qdist pn (x cplus) < qdist pn (x d).

(* the membership test of C_M, on positions *)
Definition red0 (c : N) : Prop :=
  (qdist p1 (x c) < qdist p1 (x cplus) /\ qdist pn (x c) < qdist pn (x cminus)) \/ c = cminus \/ c = cplus.

Lemma apart a b : In a alts -> In b alts -> a <> b -> x a < x b \/ x b < x a.
Proof.
  intros Ha Hb Hne. destruct (Q_dec (x a) (x b)) as [[H|H]|H]; [now left|now right|]. exfalso. now apply (Hdist a b).
Qed.

(* an alternative between the two extreme voters is red *)
Lemma inside_red c : In c alts -> p1 <= x c -> x c <= pn -> red0 c.
Proof.
  intros Hc Hl Hr. unfold red0.
  destruct (N.eq_dec c cminus) as [->|Hm]; [right; now left|]. destruct (N.eq_dec c cplus) as [->|Hp]; [right; now right|].
  left. pose proof (Htop1 c Hc Hm) as T1. pose proof (Htopn c Hc Hp) as Tn. split.
  - destruct (apart c cplus Hc Hcp Hp) as [H|H].
    + destruct (qdist_cases p1 (x c)) as [[? E1]|[? E1]], (qdist_cases p1 (x cplus)) as [[? E2]|[? E2]]; lra.
    + exfalso. destruct (qdist_cases pn (x c)) as [[? E1]|[? E1]], (qdist_cases pn (x cplus)) as [[? E2]|[? E2]]; lra.
  - destruct (apart c cminus Hc Hcm Hm) as [H|H].
    + exfalso. destruct (qdist_cases p1 (x c)) as [[? E1]|[? E1]], (qdist_cases p1 (x cminus)) as [[? E2]|[? E2]]; lra.
    + destruct (qdist_cases pn (x c)) as [[? E1]|[? E1]], (qdist_cases pn (x cminus)) as [[? E2]|[? E2]]; lra.
Qed.

(* left role: c closer to p1 than b, b closer to pn than c *)
Definition lrole_pos (c : N) : Prop := exists b, In b alts /\ qdist p1 (x c) < qdist p1 (x b) /\ qdist pn (x b) < qdist pn (x c).
Definition rrole_pos (c : N) : Prop := exists a, In a alts /\ qdist p1 (x a) < qdist p1 (x c) /\ qdist pn (x c) < qdist pn (x a).

Lemma both_roles_red c : In c alts -> lrole_pos c -> rrole_pos c -> red0 c.
Proof.
  intros Hc (b & Hb & L1 & L2) (a & Ha & R1 & R2).
  destruct (swap_geometry p1 pn (x c) (x b) Hlt L1 L2) as (G1 & G2 & G3).
  destruct (swap_geometry p1 pn (x a) (x c) Hlt R1 R2) as (G4 & G5 & G6).
  apply inside_red; [assumption|lra|lra].
Qed.

Lemma green_left c : In c alts -> lrole_pos c -> ~ red0 c -> x c < p1.
Proof.
  intros Hc (b & Hb & L1 & L2) Hnr. destruct (swap_geometry p1 pn (x c) (x b) Hlt L1 L2) as (G1 & G2 & G3).
  destruct (Qlt_le_dec (x c) p1) as [H|H]; [assumption|]. exfalso. apply Hnr. apply inside_red; [assumption|assumption|lra].
Qed.

Lemma blue_right c : In c alts -> rrole_pos c -> ~ red0 c -> pn < x c.
Proof.
  intros Hc (a & Ha & R1 & R2) Hnr. destruct (swap_geometry p1 pn (x a) (x c) Hlt R1 R2) as (G1 & G2 & G3).
  destruct (Qlt_le_dec pn (x c)) as [H|H]; [assumption|]. exfalso. apply Hnr. apply inside_red; [assumption|lra|assumption].
Qed.

(* a non-red alternative left of p1 is left of every red one; symmetrically on the right *)
Lemma left_of_red c r : In c alts -> In r alts -> x c < p1 -> ~ red0 c -> red0 r -> x c < x r.
Proof.
  intros Hc Hr Hl Hnc Hred.
  assert (Hne : c <> r) by (intros ->; contradiction).
  destruct (apart c r Hc Hr Hne) as [H|H]; [assumption|]. exfalso.
  assert (C1 : qdist p1 (x c) < qdist p1 (x r)).
  { destruct (qdist_cases p1 (x c)) as [[? E1]|[? E1]], (qdist_cases p1 (x r)) as [[? E2]|[? E2]]; lra. }
  assert (Cn : qdist pn (x c) < qdist pn (x r)).
  { destruct (qdist_cases pn (x c)) as [[? E1]|[? E1]], (qdist_cases pn (x r)) as [[? E2]|[? E2]]; lra. }
  destruct Hred as [(R1 & Rn)|[Er|Er]]; [|subst r|subst r].
  - apply Hnc. left. split; lra.
  - assert (c <> cminus) by congruence. pose proof (Htop1 c Hc H0). lra.
  - assert (c <> cplus) by congruence. pose proof (Htopn c Hc H0). lra.
Qed.

Lemma right_of_red c r : In c alts -> In r alts -> pn < x c -> ~ red0 c -> red0 r -> x r < x c.
Proof.
  intros Hc Hr Hl Hnc Hred.
  assert (Hne : c <> r) by (intros ->; contradiction).
  destruct (apart c r Hc Hr Hne) as [H|H]; [|assumption]. exfalso.
  assert (C1 : qdist p1 (x c) < qdist p1 (x r)).
  { destruct (qdist_cases p1 (x c)) as [[? E1]|[? E1]], (qdist_cases p1 (x r)) as [[? E2]|[? E2]]; lra. }
  assert (Cn : qdist pn (x c) < qdist pn (x r)).
  { destruct (qdist_cases pn (x c)) as [[? E1]|[? E1]], (qdist_cases pn (x r)) as [[? E2]|[? E2]]; lra. }
  destruct Hred as [(R1 & Rn)|[Er|Er]]; [|subst r|subst r].
  - apply Hnc. left. split; lra.
  - assert (c <> cminus) by congruence. pose proof (Htop1 c Hc H0). lra.
  - assert (c <> cplus) by congruence. pose proof (Htopn c Hc H0). lra.
Qed.

(* two red alternatives: the one the voter at p1 prefers is the left one *)
Lemma red_red a b : In a alts -> In b alts -> red0 a -> red0 b -> qdist p1 (x a) < qdist p1 (x b) -> x a < x b.
Proof.
  intros Ha Hb Ra Rb Hab.
  assert (Hne : a <> b) by (intros ->; lra).
  destruct (apart a b Ha Hb Hne) as [H|H]; [assumption|]. exfalso.
  (* x b < x a and p1 prefers a: p1 is right of the midpoint, hence so is pn: pn prefers a too *)
  assert (M1 : x b + x a < 2 * p1) by (apply (closer_right_iff p1 (x b) (x a) H); exact Hab).
  assert (Cn : qdist pn (x a) < qdist pn (x b)) by (apply (closer_right_iff pn (x b) (x a) H); lra).
  destruct Rb as [(B1 & Bn)|[Eb|Eb]]; [|subst b|subst b].
  - destruct (N.eq_dec a cminus) as [->|Ham]; [lra|].
    assert (Hbm : b <> cminus) by (intros ->; pose proof (Htop1 a Ha Ham); lra).
    pose proof (Htop1 b Hb Hbm) as T.
    destruct (swap_geometry p1 pn (x cminus) (x b) Hlt T Bn) as (G1 & G2 & G3). lra.
  - pose proof (Htop1 a Ha Hne). lra.
  - pose proof (Htopn a Ha Hne). lra.
Qed.
End Geo.

(* ============================================================================================== *)
(* 2. the colouring on a realised profile                                                          *)
(* ============================================================================================== *)
Lemma before_closer x p r a b : vote_realised x p r -> In a r -> In b r ->
  (before r a b = true <-> closer x p a b).
Proof.
  intros Hr Ha Hb. apply vote_realised_SS in Hr. split.
  - intros H. rewrite (before_prefers r a b Ha) in H. exact (prefers_closer _ r a b Hr Hb H).
  - intros Hc. destruct (before r a b) eqn:E; [reflexivity|]. exfalso. unfold closer in Hc.
    destruct (N.eq_dec a b) as [->|Hne]; [lra|].
    pose proof (before_total r a b Ha Hb Hne E) as E'. rewrite (before_prefers r b a Hb) in E'.
    pose proof (prefers_closer _ r b a Hr Ha E') as Hc'. unfold closer in Hc'. lra.
Qed.

Lemma before_head c t d : d <> c -> before (c :: t) c d = true.
Proof.
  intros Hne. unfold before. cbn [aidx]. rewrite N.eqb_refl.
  destruct (N.eqb c d) eqn:E; [apply N.eqb_eq in E; congruence|]. reflexivity.
Qed.

Section Link.
Variable x : N -> Q.
Variables p1 pn : Q.
Variables cminus cplus : N.
Variables v1t vnt : list N.
Variable alts : list N.
Let v1 := cminus :: v1t.
Let vn := cplus :: vnt.
Hypothesis Hlt : p1 < pn.
Hypothesis Hnd : NoDup alts.
Hypothesis P1 : Permutation alts v1.
Hypothesis Pn : Permutation alts vn.
Hypothesis R1 : vote_realised x p1 v1.
Hypothesis Rn : vote_realised x pn vn.

Lemma in1 c : In c alts <-> In c v1.
Proof. split; apply Permutation_in; [exact P1|apply Permutation_sym; exact P1]. Qed.
Lemma inn c : In c alts <-> In c vn.
Proof. split; apply Permutation_in; [exact Pn|apply Permutation_sym; exact Pn]. Qed.

Lemma Lcm : In cminus alts. Proof. apply in1. now left. Qed.
Lemma Lcp : In cplus alts. Proof. apply inn. now left. Qed.

Lemma Ldist a b : In a alts -> In b alts -> a <> b -> ~ x a == x b.
Proof. intros Ha Hb. apply (realised_distinct x p1 v1 a b R1); now apply in1. Qed.

Lemma Ltop1 d : In d alts -> d <> cminus -> qdist p1 (x cminus) < qdist p1 (x d).
Proof.
  intros Hd Hne. apply (before_closer x p1 v1 cminus d R1); [now left|now apply in1|]. now apply before_head.
Qed.
Lemma Ltopn d : In d alts -> d <> cplus -> qdist pn (x cplus) < qdist pn (x d).
Proof.
  intros Hd Hne. apply (before_closer x pn vn cplus d Rn); [now left|now apply inn|]. now apply before_head.
Qed.

Let red := red0 x p1 pn cminus cplus.
Let g0 := gamma0 v1 vn cminus cplus.

Lemma g0_red c : In c alts -> (g0 c = Red <-> red c).
Proof.
  intros Hc. unfold g0, gamma0, red, red0.
  pose proof (before_closer x p1 v1 c cplus R1 (proj1 (in1 c) Hc) (proj1 (in1 cplus) Lcp)) as B1.
  pose proof (before_closer x pn vn c cminus Rn (proj1 (inn c) Hc) (proj1 (inn cminus) Lcm)) as Bn.
  unfold closer in B1, Bn. split.
  - intros H. destruct (before v1 c cplus && before vn c cminus) eqn:E.
    + apply andb_true_iff in E. left. split; [now apply B1|now apply Bn].
    + cbn [orb] in H. destruct (N.eqb c cminus) eqn:E1; [apply N.eqb_eq in E1; right; now left|].
      destruct (N.eqb c cplus) eqn:E2; [apply N.eqb_eq in E2; right; now right|]. discriminate.
  - intros [(H1 & Hn)|[E|E]]; [|subst c|subst c].
    + apply B1 in H1. apply Bn in Hn. now rewrite H1, Hn.
    + now rewrite N.eqb_refl, orb_true_r.
    + now rewrite N.eqb_refl, !orb_true_r.
Qed.

Lemma lrole_link c : In c alts -> lrole v1 vn (perm2 alts) c -> lrole_pos x p1 pn alts c.
Proof.
  intros Hc (b & Hin & Hs). apply in_perm2_iff in Hin. destruct Hin as (_ & Hb & _).
  unfold sw, swapped in Hs. cbn [fst snd] in Hs. apply andb_true_iff in Hs. destruct Hs as (S1 & S2).
  exists b. split; [assumption|]. split.
  - apply (before_closer x p1 v1 c b R1); [now apply in1|now apply in1|assumption].
  - apply (before_closer x pn vn b c Rn); [now apply inn|now apply inn|assumption].
Qed.
Lemma rrole_link c : In c alts -> rrole v1 vn (perm2 alts) c -> rrole_pos x p1 pn alts c.
Proof.
  intros Hc (a & Hin & Hs). apply in_perm2_iff in Hin. destruct Hin as (Ha & _ & _).
  unfold sw, swapped in Hs. cbn [fst snd] in Hs. apply andb_true_iff in Hs. destruct Hs as (S1 & S2).
  exists a. split; [assumption|]. split.
  - apply (before_closer x p1 v1 a c R1); [now apply in1|now apply in1|assumption].
  - apply (before_closer x pn vn c a Rn); [now apply inn|now apply inn|assumption].
Qed.

Lemma role_in_alts_l c : lrole v1 vn (perm2 alts) c -> In c alts.
Proof. intros (b & Hin & _). apply in_perm2_iff in Hin. tauto. Qed.
Lemma role_in_alts_r c : rrole v1 vn (perm2 alts) c -> In c alts.
Proof. intros (b & Hin & _). apply in_perm2_iff in Hin. tauto. Qed.

(* (i) the colouring loop cannot take its failure exit *)
Theorem colouring_succeeds : exists g, colour_loop v1 vn alts g0 = Some g /\ Inv v1 vn g0 (perm2 alts) g.
Proof.
  pose proof (colour_loop_spec v1 vn alts g0 (gamma0_range _ _ _ _)) as H.
  destruct (colour_loop v1 vn alts g0) as [g|]; [exists g; split; [reflexivity|apply H]|]. exfalso.
  destruct H as (c & Hg & Hl & Hr). pose proof (role_in_alts_l c Hl) as Hc.
  assert (Hred : red c).
  { apply (both_roles_red x p1 pn cminus cplus alts Hlt Ldist Lcm Lcp Ltop1 Ltopn c Hc);
      [now apply lrole_link|now apply rrole_link]. }
  apply (g0_red c Hc) in Hred. congruence.
Qed.

(* (ii) left_of is the left-to-right order of the positions *)
Section AxisOrder.
Variable g : gamma.
Hypothesis HI : Inv v1 vn g0 (perm2 alts) g.

Lemma colour_facts c : In c alts ->
  match g c with
  | Red => red c
  | Green => x c < p1 /\ ~ red c
  | Blue => pn < x c /\ ~ red c
  | Grey => True
  end.
Proof.
  intros Hc. destruct HI as (IR & IG & IB & _ & _). destruct (g c) eqn:E.
  - apply (g0_red c Hc), IR, E.
  - assert (Hnr : ~ red c) by (intros Hr; apply (g0_red c Hc), IR in Hr; congruence).
    split; [|assumption].
    apply (blue_right x p1 pn cminus cplus alts Hlt Ldist Lcm Lcp Ltop1 Ltopn c Hc); [|assumption].
    apply rrole_link; [assumption|]. now apply IB.
  - assert (Hnr : ~ red c) by (intros Hr; apply (g0_red c Hc), IR in Hr; congruence).
    split; [|assumption].
    apply (green_left x p1 pn cminus cplus alts Hlt Ldist Lcm Lcp Ltop1 Ltopn c Hc); [|assumption].
    apply lrole_link; [assumption|]. now apply IG.
  - exact I.
Qed.

Theorem left_of_positions a b : In a alts -> In b alts -> a <> b -> left_of v1 vn g a b = true -> x a < x b.
Proof.
  intros Ha Hb Hne. pose proof (colour_facts a Ha) as Fa. pose proof (colour_facts b Hb) as Fb. unfold left_of.
  destruct (g a) eqn:Ea, (g b) eqn:Eb; try discriminate; intros H.
  - (* red, red *)
    apply (red_red x p1 pn cminus cplus alts Hlt Ldist Ltop1 Ltopn a b Ha Hb Fa Fb).
    apply (before_closer x p1 v1 a b R1); [now apply in1|now apply in1|assumption].
  - (* red, blue *)
    destruct Fb as (Fb & Nb). exact (right_of_red x p1 pn cminus cplus alts Hlt Ldist Ltop1 Ltopn b a Hb Ha Fb Nb Fa).
  - (* blue, blue *)
    destruct Fa as (Fa & _), Fb as (Fb & _).
    assert (C : qdist p1 (x a) < qdist p1 (x b)) by (apply (before_closer x p1 v1 a b R1); [now apply in1|now apply in1|assumption]).
    destruct (qdist_cases p1 (x a)) as [[? E1]|[? E1]], (qdist_cases p1 (x b)) as [[? E2]|[? E2]]; lra.
  - (* green, red *)
    destruct Fa as (Fa & Na). exact (left_of_red x p1 pn cminus cplus alts Hlt Ldist Ltop1 Ltopn a b Ha Hb Fa Na Fb).
  - (* green, blue *) destruct Fa, Fb. lra.
  - (* green, green *)
    destruct Fa as (Fa & _), Fb as (Fb & _). apply negb_true_iff in H.
    assert (C : qdist pn (x b) < qdist pn (x a)).
    { apply (before_closer x pn vn b a Rn); [now apply inn|now apply inn|].
      apply before_total; [now apply inn|now apply inn|assumption|assumption]. }
    destruct (qdist_cases pn (x a)) as [[? E1]|[? E1]], (qdist_cases pn (x b)) as [[? E2]|[? E2]]; lra.
Qed.
End AxisOrder.
End Link.

(* ============================================================================================== *)
(* 3. feasibility of the LP on an axis that lists the coloured alternatives from left to right      *)
(* ============================================================================================== *)
Lemma scale_exists (l : list Q) : (forall s, In s l -> 0 < s) -> exists k, 0 < k /\ forall s, In s l -> 2 <= k * s.
Proof.
  induction l as [|s t IH]; intros Hpos.
  - exists 1. split; [reflexivity|intros ? []].
  - destruct IH as (k0 & Hk0 & Ht); [intros u Hu; apply Hpos; now right|].
    assert (Hs : 0 < s) by (apply Hpos; now left).
    exists (k0 + 2 / s). assert (Hd : 0 < 2 / s) by (apply Qlt_shift_div_l; lra).
    split; [lra|]. intros u [<-|Hu].
    + assert (E : (k0 + 2 / s) * s == k0 * s + 2) by (field; lra). rewrite E.
      assert (0 <= k0 * s) by (apply Qmult_le_0_compat; lra). lra.
    + specialize (Ht u Hu). assert (Hu0 : 0 < u) by (apply Hpos; now right).
      assert (E : (k0 + 2 / s) * u == k0 * u + (2 / s) * u) by ring. rewrite E.
      assert (0 <= (2 / s) * u) by (apply Qmult_le_0_compat; lra). lra.
Qed.

Lemma posf_scaled (x : N -> Q) k axis c : In c axis -> posf (map (fun a => (a, k * x a)) axis) c = k * x c.
Proof.
  unfold posf. induction axis as [|y t IH]; intros Hc; [destruct Hc|]. cbn [map apos_lookup].
  destruct (N.eqb y c) eqn:E; [apply N.eqb_eq in E; now subst|]. apply N.eqb_neq in E.
  destruct Hc as [->|Hc]; [congruence|]. now apply IH.
Qed.

Lemma Forall2_map_l {A B C} (P : C -> B -> Prop) (f : A -> C) l1 l2 :
  Forall2 P (map f l1) l2 <-> Forall2 (fun a b => P (f a) b) l1 l2.
Proof.
  revert l2. induction l1 as [|a t IH]; intros l2; cbn [map].
  - split; intros H; inversion H; constructor.
  - split; intros H; inversion H; subst; constructor; try assumption; now apply IH.
Qed.

Lemma SS_weaken_nodup {T} (R1 R2 : T -> T -> Prop) l : NoDup l ->
  (forall a b, In a l -> In b l -> a <> b -> R1 a b -> R2 a b) -> StronglySorted R1 l -> StronglySorted R2 l.
Proof.
  intros Hnd Himp H. induction H as [|x t Ht IH Hall]; [constructor|]. inversion Hnd as [|? ? Hnin Hnd']; subst. constructor.
  - apply IH; [assumption|]. intros a b Ha Hb. apply Himp; now right.
  - rewrite Forall_forall in *. intros y Hy. apply Himp; [now left|now right|intros ->; contradiction|now apply Hall].
Qed.

Theorem lp_feasible (x : N -> Q) (vpos : list Q) (orders : list (list N)) (axis : list N) (col : N -> bool) :
  StronglySorted (fun a b => x a < x b) axis ->
  (forall c, In c axis -> col c = true) ->
  Forall (fun r => forall c, In c axis -> In c r) orders ->
  Forall2 (vote_realised x) vpos orders ->
  exists vs xs, lp_sat (map (filter col) orders) axis vs xs.
Proof.
  intros Hax Hcol Hin Hre.
  set (vslack := fun (pr : Q * list N) (ab : N * N) =>
                   if before (snd pr) (fst ab) (snd ab) then x (fst ab) + x (snd ab) - 2 * fst pr
                   else 2 * fst pr - (x (fst ab) + x (snd ab))).
  set (slacks := map (fun ab => x (snd ab) - x (fst ab)) (ordered_pairs axis)
                 ++ flat_map (fun pr => map (vslack pr) (ordered_pairs axis)) (combine vpos orders)).
  assert (Hax' : forall ab, In ab (ordered_pairs axis) -> x (fst ab) < x (snd ab)).
  { apply Forall_forall. exact (proj1 (SS_pairs (fun a b => x a < x b) axis) Hax). }
  assert (Hpos : forall s, In s slacks -> 0 < s).
  { intros s Hs. unfold slacks in Hs. apply in_app_or in Hs. destruct Hs as [Hs|Hs].
    - apply in_map_iff in Hs. destruct Hs as (ab & <- & Hab). specialize (Hax' ab Hab). lra.
    - apply in_flat_map in Hs. destruct Hs as ([p r] & Hpr & Hs). apply in_map_iff in Hs. destruct Hs as ([a b] & <- & Hab).
      pose proof (Hax' _ Hab) as Hlt. cbn [fst snd] in Hlt.
      assert (Hr : In r orders) by (eapply in_combine_r; eassumption).
      pose proof (Forall2_combine _ _ _ _ _ Hre Hpr) as Hv.
      destruct (ordered_pairs_In _ _ _ Hab) as (Ha & Hb). rewrite Forall_forall in Hin.
      pose proof (Hin r Hr a Ha) as Har. pose proof (Hin r Hr b Hb) as Hbr.
      unfold vslack. cbn [fst snd]. destruct (before r a b) eqn:E.
      + apply (before_closer x p r a b Hv Har Hbr) in E. unfold closer in E. apply (closer_left_iff p _ _ Hlt) in E. lra.
      + assert (Hne : a <> b) by (intros ->; lra).
        pose proof (before_total r a b Har Hbr Hne E) as E'.
        apply (before_closer x p r b a Hv Hbr Har) in E'. unfold closer in E'. apply (closer_right_iff p _ _ Hlt) in E'. lra. }
  destruct (scale_exists slacks Hpos) as (k & Hk & Hs).
  exists (map (Qmult k) vpos), (map (fun a => (a, k * x a)) axis). split.
  - apply Forall_forall. intros [a b] Hab. cbn [fst snd]. destruct (ordered_pairs_In _ _ _ Hab) as (Ha & Hb).
    rewrite (posf_scaled x k axis a Ha), (posf_scaled x k axis b Hb).
    assert (H2 : 2 <= k * (x b - x a)).
    { apply Hs. unfold slacks. apply in_or_app. left. apply in_map_iff. exists (a, b). split; [reflexivity|assumption]. }
    lra.
  - apply Forall2_map_l, Forall2_map_r. apply Forall2_of_combine; [eapply Forall2_length; eassumption|].
    intros p r Hpr. apply Forall_forall. intros [a b] Hab. cbn [fst snd]. destruct (ordered_pairs_In _ _ _ Hab) as (Ha & Hb).
    rewrite (posf_scaled x k axis a Ha), (posf_scaled x k axis b Hb).
    rewrite (before_filter col r a b (Hcol a Ha) (Hcol b Hb)).
    assert (H2 : 2 <= k * vslack (p, r) (a, b)).
    { apply Hs. unfold slacks. apply in_or_app. right. apply in_flat_map. exists (p, r). split; [assumption|].
      apply in_map_iff. exists (a, b). split; [reflexivity|assumption]. }
    unfold vslack in H2. cbn [fst snd] in H2. destruct (before r a b); lra.
Qed.

(* ============================================================================================== *)
(* 4. completeness of the mirror                                                                   *)
(* ============================================================================================== *)
Definition lp_complete (lp : list (list N) -> list N -> option (list Q * list (N * Q))) : Prop :=
  forall prefs axis, NoDup axis -> Forall (fun r => Permutation axis r) prefs ->
    (exists vs xs, lp_sat prefs axis vs xs) -> lp prefs axis <> None.

Lemma qdist_opp p y : qdist (- p) (- y) == qdist p y.
Proof. unfold qdist. assert (E : - p - - y == - (p - y)) by ring. rewrite E. apply Qabs_opp. Qed.

Lemma realised_mirror x p r : vote_realised x p r -> vote_realised (fun c => - x c) (- p) r.
Proof. intros H i j a b Hij Hi Hj. unfold closer. rewrite !qdist_opp. exact (H i j a b Hij Hi Hj). Qed.

Lemma realised_Qeq x p p' r : p == p' -> vote_realised x p r -> vote_realised x p' r.
Proof.
  intros E H i j a b Hij Hi Hj. specialize (H i j a b Hij Hi Hj). unfold closer, qdist in *. now rewrite <- E.
Qed.

(* the core: an embedding in which v_1 is left of v_n *)
Lemma complete_core lp alts orders (x : N -> Q) (vpos : list Q) cminus v1t cplus vnt p1 pn :
  lp_complete lp -> NoDup alts -> Forall (fun r => Permutation alts r) orders ->
  Forall2 (vote_realised x) vpos orders ->
  Permutation alts (cminus :: v1t) -> Permutation alts (cplus :: vnt) ->
  vote_realised x p1 (cminus :: v1t) -> vote_realised x pn (cplus :: vnt) -> p1 < pn ->
  exists g, colour_loop (cminus :: v1t) (cplus :: vnt) alts (gamma0 (cminus :: v1t) (cplus :: vnt) cminus cplus) = Some g /\
            exists y, post lp alts orders (cminus :: v1t) (cplus :: vnt) g = Ok (Some y).
Proof.
  intros Hlpc Hnd Hrk Hre P1 Pn R1 Rn Hlt.
  destruct (colouring_succeeds x p1 pn cminus cplus v1t vnt alts Hlt P1 Pn R1 Rn) as (g & Ecl & HI).
  exists g. split; [exact Ecl|]. unfold post.
  set (v1 := cminus :: v1t) in *. set (vn := cplus :: vnt) in *.
  set (plus := filter (fun c => negb (is_grey (g c))) alts).
  rewrite axis_is_sort. fold plus.
  set (kc := fun c => (- Z.of_nat (axis_count v1 vn g plus c))%Z).
  assert (Hndp : NoDup plus) by (apply NoDup_filter; assumption).
  assert (Hpa : forall c, In c plus -> In c alts) by (intros c Hc; apply filter_In in Hc; tauto).
  assert (Hmem : forall c, In c plus -> member v1 vn g c).
  { intros c Hc. apply filter_In in Hc. destruct Hc as (Hc & Hgc). repeat split.
    - intros E. rewrite E in Hgc. discriminate.
    - eapply Permutation_in; eassumption.
    - eapply Permutation_in; eassumption. }
  assert (Hanti : forall a b, In a plus -> In b plus -> a <> b -> left_of v1 vn g a b = negb (left_of v1 vn g b a)).
  { intros a b Ha Hb. apply left_of_antisym; auto. }
  assert (Haxp : Permutation plus (sort_by kc plus)) by apply sort_by_perm.
  assert (Hsorted : StronglySorted (fun a b => x a < x b) (sort_by kc plus)).
  { apply (SS_weaken_nodup (fun a b => (kc a <= kc b)%Z)); [eapply Permutation_NoDup; eassumption| |apply sort_by_sorted].
    intros a b Ha Hb Hne Hk. apply (Permutation_in _ (Permutation_sym Haxp)) in Ha, Hb.
    destruct (left_of v1 vn g a b) eqn:Eab.
    - exact (left_of_positions x p1 pn cminus cplus v1t vnt alts Hlt P1 Pn R1 Rn g HI a b (Hpa a Ha) (Hpa b Hb) Hne Eab).
    - exfalso. rewrite (Hanti a b Ha Hb Hne) in Eab. apply negb_false_iff in Eab.
      pose proof (cnt_strict v1 vn g plus b a Hndp Hmem Hb Ha (not_eq_sym Hne) Eab) as Hc. unfold kc in Hk.
      rewrite !(axis_count_closed v1 vn g plus _ Hndp Hanti), (proj2 (memb_In a plus) Ha), (proj2 (memb_In b plus) Hb) in Hk. lia. }
  assert (Hfeas : exists vs xs, lp_sat (map (filter (fun c => memb c plus)) orders) (sort_by kc plus) vs xs).
  { apply (lp_feasible x vpos orders (sort_by kc plus) (fun c => memb c plus) Hsorted).
    - intros c Hc. apply memb_In. eapply Permutation_in; [apply Permutation_sym; exact Haxp|exact Hc].
    - eapply Forall_impl; [|exact Hrk]. cbn beta. intros r Hr c Hc. eapply Permutation_in; [exact Hr|].
      apply Hpa. eapply Permutation_in; [apply Permutation_sym; exact Haxp|exact Hc].
    - exact Hre. }
  assert (Hwfp : Forall (fun r => Permutation (sort_by kc plus) r) (map (filter (fun c => memb c plus)) orders)).
  { apply Forall_map. eapply Forall_impl; [|exact Hrk]. cbn beta. intros r Hr.
    eapply Permutation_trans; [apply Permutation_sym; exact Haxp|].
    assert (E : plus = filter (fun c => memb c plus) alts).
    { unfold plus at 1. apply filter_ext_in. intros c Hc. destruct (negb (is_grey (g c))) eqn:Eg.
      - symmetry. apply memb_In. apply filter_In. now split.
      - symmetry. destruct (memb c plus) eqn:Em; [|reflexivity]. apply memb_In, filter_In in Em. destruct Em. congruence. }
    rewrite E at 1. now apply Permutation_filter. }
  pose proof (Hlpc _ _ (Permutation_NoDup Haxp Hndp) Hwfp Hfeas) as Hne.
  destruct (lp (map (filter (fun c => memb c plus)) orders) (sort_by kc plus)) as [[voters alternatives]|]; [|congruence].
  eexists. reflexivity.
Qed.

Theorem eucl_algo_complete lp alts orders :
  lp_complete lp -> wf_profile alts orders -> orders <> [] -> alts <> [] -> Euclidean orders ->
  exists y, eucl_algo lp alts orders = Ok (Some y).
Proof.
  intros Hlpc Hwf Hone Hane HE. pose proof Hwf as (Hnd & Hndo & Hrk).
  destruct (eucl_algo_complete_partial alts orders Hwf HE) as (sc_order & Esc).
  destruct HE as (x & vpos & Hre). unfold realises in Hre.
  rewrite eucl_algo_post, Esc.
  pose proof (sc_algo_sound alts orders sc_order Hwf Esc) as Hw.
  apply (sc_witness_check_perm alts orders sc_order Hndo) in Hw. destruct Hw as (Hperm & _).
  destruct sc_order as [|v1 seqt]; [apply Permutation_sym, Permutation_nil in Hperm; congruence|]. cbv zeta.
  assert (Hin : forall r, In r (v1 :: seqt) -> In r orders).
  { intros r Hr. eapply Permutation_in; [apply Permutation_sym; exact Hperm|exact Hr]. }
  assert (Hpr : forall r, In r (v1 :: seqt) -> Permutation alts r).
  { intros r Hr. rewrite Forall_forall in Hrk. apply Hrk. now apply Hin. }
  pose proof (Hpr v1 (or_introl eq_refl)) as P1. pose proof (Hpr _ (last_In v1 seqt v1)) as Pn.
  destruct (Forall2_In_r _ _ _ v1 Hre (Hin v1 (or_introl eq_refl))) as (p1 & _ & R1).
  destruct (Forall2_In_r _ _ _ _ Hre (Hin _ (last_In v1 seqt v1))) as (pn & _ & Rn).
  destruct v1 as [|cminus v1t] eqn:Ev1.
  { apply Permutation_sym, Permutation_nil in P1. congruence. }
  rewrite <- Ev1 in *.
  destruct (last (v1 :: seqt) v1) as [|cplus vnt] eqn:Evn.
  { apply Permutation_sym, Permutation_nil in Pn. congruence. }
  destruct (length orders =? 1)%nat eqn:En; [eexists; reflexivity|]. apply Nat.eqb_neq in En.
  assert (Hneq : v1 <> cplus :: vnt).
  { assert (Hnds : NoDup (v1 :: seqt)) by (eapply Permutation_NoDup; eassumption).
    apply NoDup_cons_iff in Hnds. destruct Hnds as (Hnin & _). intros E. apply Hnin.
    assert (Hs : seqt <> []).
    { intros Es. apply Permutation_length in Hperm. rewrite Es in Hperm. cbn in Hperm. congruence. }
    pose proof (last_in_tail v1 seqt v1 Hs) as Hl. rewrite Evn, <- E in Hl. exact Hl. }
  rewrite Ev1 in *.
  destruct (Q_dec p1 pn) as [[Hlt|Hgt]|Heq].
  - destruct (complete_core lp alts orders x vpos cminus v1t cplus vnt p1 pn Hlpc Hnd Hrk Hre P1 Pn R1 Rn Hlt)
      as (g & Ecl & y & Ey).
    rewrite Ecl. exists y. exact Ey.
  - assert (Hre' : Forall2 (vote_realised (fun c => - x c)) (map Qopp vpos) orders).
    { apply Forall2_map_l. eapply Forall2_impl; [|exact Hre]. cbn beta. intros p r _ _ H. now apply realised_mirror. }
    destruct (complete_core lp alts orders (fun c => - x c) (map Qopp vpos) cminus v1t cplus vnt (- p1) (- pn)
                Hlpc Hnd Hrk Hre' P1 Pn (realised_mirror _ _ _ R1) (realised_mirror _ _ _ Rn) ltac:(lra))
      as (g & Ecl & y & Ey).
    rewrite Ecl. exists y. exact Ey.
  - exfalso. apply Hneq. apply (realised_Qeq x pn p1 _ (Qeq_sym _ _ Heq)) in Rn.
    apply before_ext; [eapply Permutation_NoDup; eassumption|eapply Permutation_trans; [apply Permutation_sym; exact P1|exact Pn]|].
    intros a b Ha Hb.
    assert (Ha' : In a (cplus :: vnt)) by (eapply Permutation_in; [|exact Ha]; eapply Permutation_trans; [apply Permutation_sym; exact P1|exact Pn]).
    assert (Hb' : In b (cplus :: vnt)) by (eapply Permutation_in; [|exact Hb]; eapply Permutation_trans; [apply Permutation_sym; exact P1|exact Pn]).
    pose proof (before_closer x p1 _ a b R1 Ha Hb) as B1. pose proof (before_closer x p1 _ a b Rn Ha' Hb') as Bn.
    destruct (before (cminus :: v1t) a b) eqn:E1, (before (cplus :: vnt) a b) eqn:En'; try reflexivity.
    + pose proof (proj2 Bn (proj1 B1 eq_refl)). discriminate.
    + pose proof (proj2 B1 (proj1 Bn eq_refl)). discriminate.
Qed.

(* ============================================================================================== *)
(* 5. the mirror's verdict is exact for every sound and complete LP oracle                         *)
(* ============================================================================================== *)
Definition lp_sound_spec (lp : list (list N) -> list N -> option (list Q * list (N * Q))) : Prop :=
  forall prefs axis vs xs, lp prefs axis = Some (vs, xs) -> lp_sat prefs axis vs xs.

Theorem eucl_algo_verdict_exact lp alts orders :
  lp_sound_spec lp -> lp_complete lp -> wf_profile alts orders -> orders <> [] -> alts <> [] ->
  eucl_algo_verdict lp alts orders = eucl_decide alts orders.
Proof.
  intros Hs Hc Hwf Ho Ha. pose proof Hwf as (Hnd & _ & Hrk). unfold eucl_algo_verdict.
  destruct (eucl_algo lp alts orders) as [[[vs xs]|]|e] eqn:E.
  - symmetry. apply (eucl_decide_correct alts orders Hnd Hrk).
    eapply planted_sound. eapply (eucl_algo_sound lp Hs); eassumption.
  - destruct (eucl_decide alts orders) eqn:Ed; [|reflexivity]. exfalso.
    apply (eucl_decide_correct alts orders Hnd Hrk) in Ed.
    destruct (eucl_algo_complete lp alts orders Hc Hwf Ho Ha Ed) as (y & Ey). congruence.
  - exfalso. exact (eucl_algo_no_error lp alts orders Hwf Ho Ha e E).
Qed.

Corollary eucl_algo_iff lp alts orders :
  lp_sound_spec lp -> lp_complete lp -> wf_profile alts orders -> orders <> [] -> alts <> [] ->
  ((exists y, eucl_algo lp alts orders = Ok (Some y)) <-> Euclidean orders).
Proof.
  intros Hs Hc Hwf Ho Ha. split.
  - intros ([vs xs] & E). eapply planted_sound. eapply (eucl_algo_sound lp Hs); eassumption.
  - now apply eucl_algo_complete.
Qed.
