(* Proofs/EuclidLPSolve.v — the executable LP oracle of the extracted mirror (Model/EuclidAlgo.v: lp_exact / lp_checked) is
   sound and complete on well-formed inputs:  fm_solve returns a point of the solution set whenever the strict
   homogeneous system is feasible; scaled by 2 / (smallest slack) it meets the margins of the Python LP. *)
From Coq Require Import List Arith NArith ZArith QArith Qabs Qfield Bool Lia Lqa Permutation Sorted.
From PrefVerif Require Import Lib.Val Lib.Perms Lib.Contig Model.SP Model.SC Model.SCAlgo Model.Euclid Model.EuclidLP
                              Model.EuclidAlgo Proofs.SP Proofs.SC Proofs.SCAlgo Proofs.Euclid Proofs.EuclidLP
                              Proofs.EuclidAlgo Proofs.EuclidAlgoOrder Proofs.EuclidAlgoComplete.
Import ListNotations.
Open Scope Q_scope.

(* ============================================================================================== *)
(* 1. Fourier-Motzkin with back-substitution                                                       *)
(* ============================================================================================== *)
Lemma pick_between_spec L U : (forall l u, In l L -> In u U -> l < u) ->
  (forall l, In l L -> l < pick_between L U) /\ (forall u, In u U -> pick_between L U < u).
Proof.
  intros H. unfold pick_between. destruct L as [|l0 L], U as [|u0 U].
  - split; intros ? [].
  - destruct (qminl_spec u0 U) as (_ & Hmn). split; [intros ? []|].
    intros u Hu. rewrite Qred_correct. specialize (Hmn u Hu). lra.
  - destruct (qmaxl_spec l0 L) as (_ & Hmx). split; [|intros ? []].
    intros l Hl. rewrite Qred_correct. specialize (Hmx l Hl). lra.
  - destruct (qmaxl_spec l0 L) as (Hmxi & Hmx). destruct (qminl_spec u0 U) as (Hmni & Hmn).
    pose proof (H _ _ Hmxi Hmni) as Hlt. split.
    + intros l Hl. rewrite Qred_correct. specialize (Hmx l Hl). lra.
    + intros u Hu. rewrite Qred_correct. specialize (Hmn u Hu). lra.
Qed.

Lemma fm_point es sys e0 : sat es (fm_step sys) ->
  (forall l, In l (lower_bounds es sys) -> l < e0) -> (forall u, In u (upper_bounds es sys) -> e0 < u) ->
  sat (e0 :: es) sys.
Proof.
  unfold fm_step. intros H Hlo Hup. apply sat_app in H. destruct H as (Hz & _).
  unfold sat in Hz. rewrite Forall_map, Forall_forall in Hz.
  unfold sat. rewrite Forall_forall. intros c Hin. rewrite eval_cons.
  destruct (sign_cases c) as [Hs|[Hs|Hs]].
  - assert (H0 : eval (tlq c) es < 0) by (apply Hz; apply filter_In; now split).
    apply is_zero_iff in Hs. rewrite Hs. lra.
  - assert (Hu : e0 < - eval (tlq c) es / hdq c).
    { apply Hup. unfold upper_bounds. apply in_map_iff. exists c. split; [reflexivity|]. apply filter_In. now split. }
    apply is_pos_iff in Hs. now apply upper_ok.
  - assert (Hl : eval (tlq c) es / (- hdq c) < e0).
    { apply Hlo. unfold lower_bounds. apply in_map_iff. exists c. split; [reflexivity|]. apply filter_In. now split. }
    apply is_neg_iff in Hs. now apply lower_ok.
Qed.

Lemma fm_bounds_lt es sys : sat es (fm_step sys) ->
  forall l u, In l (lower_bounds es sys) -> In u (upper_bounds es sys) -> l < u.
Proof.
  unfold fm_step. intros H l u Hl Hu. apply sat_app in H. destruct H as (_ & Hc). unfold sat in Hc. rewrite Forall_forall in Hc.
  unfold lower_bounds, upper_bounds in *. apply in_map_iff in Hl, Hu. destruct Hl as (q & <- & Hq), Hu as (p & <- & Hp).
  assert (Hpq : eval (combine_pn p q) es < 0).
  { apply Hc. apply in_flat_map. exists p. split; [assumption|]. now apply in_map. }
  apply filter_In in Hp, Hq. destruct Hp as (_ & Hpp), Hq as (_ & Hqn).
  apply is_pos_iff in Hpp. apply is_neg_iff in Hqn.
  unfold combine_pn in Hpq. rewrite eval_ladd, !eval_scale in Hpq. now apply lu_ok.
Qed.

Theorem fm_solve_sound n : forall sys env, fm_solve n sys = Some env -> length env = n /\ sat env sys.
Proof.
  induction n as [|n IH]; intros sys env H; cbn [fm_solve] in H; destruct (existsb all_zero sys); try discriminate.
  - destruct sys; [|discriminate]. injection H as <-. split; [reflexivity|constructor].
  - destruct (fm_solve n (simplify (fm_step sys))) as [es|] eqn:E; [|discriminate]. injection H as <-.
    destruct (IH _ _ E) as (Hlen & Hs). apply (proj1 (simplify_sat _ _)) in Hs.
    destruct (pick_between_spec _ _ (fm_bounds_lt es sys Hs)) as (Hlo & Hup).
    split; [cbn; now rewrite Hlen|]. now apply fm_point.
Qed.

Theorem fm_solve_complete n : forall sys, fm_feasible n sys = true -> exists env, fm_solve n sys = Some env.
Proof.
  induction n as [|n IH]; intros sys H; cbn [fm_feasible fm_solve] in *; destruct (existsb all_zero sys); try discriminate.
  - destruct sys; [now exists []|discriminate].
  - destruct (IH _ H) as (es & E). rewrite E. eexists. reflexivity.
Qed.
