(* Lib/Contig.v — contiguity of a set of alternatives on an axis, consecutive ones in a 0/1 row, and the
   lemma "valley <-> every lower level set is contiguous" (used by C03, C11, C12, C18).

   DEFINITIONS (binding for the other packages)
     memN a l            boolean membership in a list of N
     contiguous S axis   the elements of S occupy consecutive positions of axis:
                           exists l1 mid l2, axis = l1 ++ mid ++ l2 /\ (forall x, In x mid <-> In x S)
                         (S is read as a SET: order and repetitions in S do not matter;  S = [] is contiguous on
                          every axis (mid = []);  if some element of S is not on the axis, S is not contiguous)
     contiguousb S axis  its boolean version (correct when NoDup axis: contiguousb_correct)
     ones_consec bl      the 0/1 row bl is  false^a true^b false^c
     ones_consecb bl     boolean version (ones_consecb_correct)
     sub3 x y z l        x .. y .. z occur in this order in l
     peak3 ps            ps (list nat) contains  lo .. HI .. lo   (x < y > z in this order)
     valley ps           ~ peak3 ps   ("non-increasing, then non-decreasing")
   KEY LEMMAS
     contiguous_iff_ones   NoDup axis -> (contiguous S axis <-> ones_consec (map (memN^~ S) axis) /\ incl S axis)
     valley_level_sets     NoDup axis -> (valley (map pos axis) <->
                                          forall k, contiguous (filter (fun a => pos a <? k) axis) axis)
     contiguous_ext, contiguous_nil, contiguous_filter, contiguous_map_inj, contiguousb_correct *)
From Coq Require Import List Arith NArith Bool Lia Permutation.
Import ListNotations.

(* ------------------------------------------------------------------------------------------ *)
(* executable definitions                                                                      *)

Definition memN (a : N) (l : list N) : bool := existsb (N.eqb a) l.

Fixpoint drop_false (l : list bool) : list bool :=
  match l with false :: r => drop_false r | _ => l end.
Fixpoint drop_true (l : list bool) : list bool :=
  match l with true :: r => drop_true r | _ => l end.
(* false* true* false* *)
Definition ones_consecb (l : list bool) : bool := forallb negb (drop_true (drop_false l)).

Definition contiguousb (S axis : list N) : bool :=
  ones_consecb (map (fun a => memN a S) axis) && forallb (fun s => memN s axis) S.

(* ------------------------------------------------------------------------------------------ *)
(* specifications                                                                              *)

Definition contiguous (S axis : list N) : Prop :=
  exists l1 mid l2, axis = l1 ++ mid ++ l2 /\ forall x, In x mid <-> In x S.

Definition ones_consec (l : list bool) : Prop :=
  exists a b c, l = repeat false a ++ repeat true b ++ repeat false c.

Definition sub3 {T} (x y z : T) (l : list T) : Prop :=
  exists l1 l2 l3 l4, l = l1 ++ x :: l2 ++ y :: l3 ++ z :: l4.
Definition peak3 (l : list nat) : Prop := exists x y z, sub3 x y z l /\ x < y /\ z < y.
Definition valley (l : list nat) : Prop := ~ peak3 l.

(* ------------------------------------------------------------------------------------------ *)
(* basic facts                                                                                 *)

Lemma memN_In a l : memN a l = true <-> In a l.
Proof.
  unfold memN. rewrite existsb_exists. split.
  - intros (x & Hin & E). apply N.eqb_eq in E. now subst.
  - intros H. exists a. split; [assumption|apply N.eqb_refl].
Qed.

Lemma memN_false a l : memN a l = false <-> ~ In a l.
Proof.
  rewrite <- memN_In. destruct (memN a l); intuition congruence.
Qed.

Lemma NoDup_app_disj {T} (l1 l2 : list T) : NoDup (l1 ++ l2) -> forall x, In x l1 -> In x l2 -> False.
Proof.
  induction l1 as [|a l1 IH]; simpl; intros H x H1 H2; [contradiction|].
  inversion H as [|? ? Hn Hnd]; subst. destruct H1 as [<-|H1].
  - apply Hn. apply in_or_app. now right.
  - eapply IH; eauto.
Qed.

Lemma NoDup_app_l {T} (l1 l2 : list T) : NoDup (l1 ++ l2) -> NoDup l1.
Proof.
  induction l1 as [|a l1 IH]; simpl; intros H; [constructor|].
  inversion H as [|? ? Hn Hnd]; subst. constructor; [|now apply IH].
  intros Hin. apply Hn. apply in_or_app. now left.
Qed.

Lemma NoDup_app_r {T} (l1 l2 : list T) : NoDup (l1 ++ l2) -> NoDup l2.
Proof.
  induction l1 as [|a l1 IH]; simpl; intros H; [assumption|].
  inversion H; subst. now apply IH.
Qed.

Lemma map_const_repeat {T U} (f : T -> U) (b : U) (l : list T) :
  (forall x, In x l -> f x = b) -> map f l = repeat b (length l).
Proof.
  induction l as [|a l IH]; simpl; intros H; [reflexivity|].
  rewrite (H a (or_introl eq_refl)). f_equal. apply IH. intros x Hx. apply H. now right.
Qed.

(* ------------------------------------------------------------------------------------------ *)
(* sub3                                                                                        *)

Lemma sub3_cons {T} (a x y z : T) l : sub3 x y z l -> sub3 x y z (a :: l).
Proof. intros (l1 & l2 & l3 & l4 & ->). now exists (a :: l1), l2, l3, l4. Qed.

Lemma sub3_map {T U} (f : T -> U) x y z l : sub3 x y z l -> sub3 (f x) (f y) (f z) (map f l).
Proof.
  intros (l1 & l2 & l3 & l4 & ->). exists (map f l1), (map f l2), (map f l3), (map f l4).
  rewrite map_app. simpl. rewrite map_app. simpl. rewrite map_app. reflexivity.
Qed.

Lemma sub3_map_inv {T U} (f : T -> U) u v w l :
  sub3 u v w (map f l) -> exists x y z, sub3 x y z l /\ f x = u /\ f y = v /\ f z = w.
Proof.
  intros (p1 & p2 & p3 & p4 & E).
  apply map_eq_app in E. destruct E as (l1 & r1 & -> & E1 & E).
  apply map_eq_cons in E. destruct E as (x & r2 & -> & Ex & E).
  apply map_eq_app in E. destruct E as (l2 & r3 & -> & E2 & E).
  apply map_eq_cons in E. destruct E as (y & r4 & -> & Ey & E).
  apply map_eq_app in E. destruct E as (l3 & r5 & -> & E3 & E).
  apply map_eq_cons in E. destruct E as (z & l4 & -> & Ez & E4).
  exists x, y, z. split; [|auto]. now exists l1, l2, l3, l4.
Qed.

(* ------------------------------------------------------------------------------------------ *)
(* consecutive ones in a boolean row:  repeat-form  <->  boolean test  <->  no  true..false..true  *)

Lemma drop_false_repeat a l : drop_false (repeat false a ++ l) = drop_false l.
Proof. induction a; simpl; auto. Qed.

Lemma drop_true_repeat a l : drop_true (repeat true a ++ l) = drop_true l.
Proof. induction a; simpl; auto. Qed.

Lemma drop_true_falses c : drop_true (repeat false c) = repeat false c.
Proof. destruct c; reflexivity. Qed.

Lemma forallb_negb_repeat c : forallb negb (repeat false c) = true.
Proof. induction c; simpl; auto. Qed.

Lemma ones_consec_b l : ones_consec l -> ones_consecb l = true.
Proof.
  intros (a & b & c & ->). unfold ones_consecb. rewrite drop_false_repeat.
  destruct b as [|b].
  - simpl. replace (drop_false (repeat false c)) with (@nil bool); [reflexivity|].
    rewrite <- (app_nil_r (repeat false c)). now rewrite drop_false_repeat.
  - change (drop_false (repeat true (S b) ++ repeat false c)) with (repeat true (S b) ++ repeat false c).
    rewrite drop_true_repeat, drop_true_falses. apply forallb_negb_repeat.
Qed.

Lemma allfalse_drop_false l : forallb negb l = true -> drop_false l = [].
Proof.
  induction l as [|[|] l IH]; simpl; intros H; try reflexivity; try discriminate. now apply IH.
Qed.

Lemma ones_consecb_tail x l : ones_consecb (x :: l) = true -> ones_consecb l = true.
Proof.
  unfold ones_consecb. destruct x; simpl; [|auto].
  intros H. destruct l as [|[|] l]; simpl in *; auto.
  rewrite (allfalse_drop_false l H). reflexivity.
Qed.

Lemma drop_true_has_true l2 l3 l4 : In true (drop_true (l2 ++ false :: l3 ++ true :: l4)).
Proof.
  induction l2 as [|[|] l2 IH]; simpl.
  - right. apply in_or_app. right. now left.
  - exact IH.
  - right. apply in_or_app. right. right. apply in_or_app. right. now left.
Qed.

Lemma ones_consecb_no_tft l : ones_consecb l = true -> ~ sub3 true false true l.
Proof.
  intros H (l1 & l2 & l3 & l4 & ->).
  induction l1 as [|a l1 IH].
  - simpl in H. unfold ones_consecb in H. simpl in H.
    rewrite forallb_forall in H. specialize (H true (drop_true_has_true l2 l3 l4)). discriminate.
  - apply IH. eapply ones_consecb_tail. exact H.
Qed.

Lemma no_tft_ones_consec l : ~ sub3 true false true l -> ones_consec l.
Proof.
  induction l as [|x r IH]; intros H.
  - exists 0, 0, 0. reflexivity.
  - assert (Hr : ~ sub3 true false true r) by (intros Hs; apply H; now apply sub3_cons).
    destruct (IH Hr) as (a & b & c & ->). destruct x.
    + destruct a as [|a].
      * exists 0, (S b), c. reflexivity.
      * destruct b as [|b].
        -- exists 0, 1, (S a + c). simpl. f_equal. f_equal. now rewrite repeat_app.
        -- exfalso. apply H. exists [], [], (repeat false a), (repeat true b ++ repeat false c).
           reflexivity.
    + exists (S a), b, c. reflexivity.
Qed.

Theorem ones_consecb_correct l : ones_consecb l = true <-> ones_consec l.
Proof.
  split; [|apply ones_consec_b]. intros H. apply no_tft_ones_consec. now apply ones_consecb_no_tft.
Qed.

Theorem ones_consec_iff_no_tft l : ones_consec l <-> ~ sub3 true false true l.
Proof.
  split; [|apply no_tft_ones_consec]. intros H. apply ones_consecb_no_tft. now apply ones_consec_b.
Qed.

(* ------------------------------------------------------------------------------------------ *)
(* contiguous                                                                                  *)

Lemma contiguous_nil axis : contiguous [] axis.
Proof. exists [], [], axis. split; [reflexivity|]. intros x. split; intros []. Qed.

Lemma contiguous_ext S S' axis : (forall x, In x S <-> In x S') -> contiguous S axis -> contiguous S' axis.
Proof.
  intros E (l1 & mid & l2 & -> & H). exists l1, mid, l2. split; [reflexivity|].
  intros x. rewrite H. apply E.
Qed.

Lemma contiguous_incl S axis : contiguous S axis -> incl S axis.
Proof.
  intros (l1 & mid & l2 & -> & H) x Hx. apply in_or_app. right. apply in_or_app. left. now apply H.
Qed.

Lemma contiguous_all axis : contiguous axis axis.
Proof. exists [], axis, []. split; [now rewrite app_nil_r|]. intros x; reflexivity. Qed.

Lemma contiguous_filter (f : N -> bool) S axis :
  contiguous S axis -> contiguous (filter f S) (filter f axis).
Proof.
  intros (l1 & mid & l2 & -> & H). exists (filter f l1), (filter f mid), (filter f l2).
  split; [now rewrite !filter_app|]. intros x. rewrite !filter_In, H. reflexivity.
Qed.

(* this direction does not need NoDup *)
Lemma contiguous_of_ones S axis :
  ones_consec (map (fun a => memN a S) axis) -> incl S axis -> contiguous S axis.
Proof.
  intros (a & b & c & E) Hincl.
  apply map_eq_app in E. destruct E as (l1 & r & -> & E1 & E).
  apply map_eq_app in E. destruct E as (mid & l2 & -> & E2 & E3).
  exists l1, mid, l2. split; [reflexivity|]. intros x. split.
  - intros Hx. apply memN_In. apply (repeat_spec b true). rewrite <- E2.
    apply (in_map (fun a0 => memN a0 S)) in Hx. exact Hx.
  - intros Hx. assert (Hax := Hincl x Hx).
    apply in_app_or in Hax. destruct Hax as [Hax|Hax].
    + exfalso. assert (Hm : memN x S = false).
      { apply (repeat_spec a false). rewrite <- E1.
        apply (in_map (fun a0 => memN a0 S)) in Hax. exact Hax. }
      apply memN_false in Hm. now apply Hm.
    + apply in_app_or in Hax. destruct Hax as [Hax|Hax]; [assumption|].
      exfalso. assert (Hm : memN x S = false).
      { apply (repeat_spec c false). rewrite <- E3.
        apply (in_map (fun a0 => memN a0 S)) in Hax. exact Hax. }
      apply memN_false in Hm. now apply Hm.
Qed.

Theorem contiguous_iff_ones S axis : NoDup axis ->
  (contiguous S axis <-> ones_consec (map (fun a => memN a S) axis) /\ incl S axis).
Proof.
  intros Hnd. split.
  - intros Hc. split; [|now apply contiguous_incl].
    destruct Hc as (l1 & mid & l2 & -> & H).
    exists (length l1), (length mid), (length l2). rewrite !map_app. f_equal; [|f_equal].
    + apply map_const_repeat. intros x Hx. apply memN_false. intros HS. apply H in HS.
      eapply (NoDup_app_disj l1 (mid ++ l2)); eauto. apply in_or_app. now left.
    + apply map_const_repeat. intros x Hx. apply memN_In. now apply H.
    + apply map_const_repeat. intros x Hx. apply memN_false. intros HS. apply H in HS.
      apply NoDup_app_r in Hnd. eapply (NoDup_app_disj mid l2); eauto.
  - intros [H1 H2]. now apply contiguous_of_ones.
Qed.

Theorem contiguousb_correct S axis : NoDup axis -> (contiguousb S axis = true <-> contiguous S axis).
Proof.
  intros Hnd. rewrite (contiguous_iff_ones S axis Hnd). unfold contiguousb.
  rewrite andb_true_iff, ones_consecb_correct, forallb_forall.
  split; intros [H1 H2]; split; auto.
  - intros x Hx. apply memN_In. now apply H2.
  - intros x Hx. apply memN_In. now apply H2.
Qed.

(* relabeling by an injective map *)
Lemma contiguous_map (f : N -> N) S axis :
  contiguous S axis -> contiguous (map f S) (map f axis).
Proof.
  intros (l1 & mid & l2 & -> & H). exists (map f l1), (map f mid), (map f l2).
  split; [now rewrite !map_app|]. intros y. rewrite !in_map_iff. split.
  - intros (x & <- & Hx). exists x. split; [reflexivity|]. now apply H.
  - intros (x & <- & Hx). exists x. split; [reflexivity|]. now apply H.
Qed.

Lemma contiguous_map_inj (f : N -> N) S axis : (forall x y, f x = f y -> x = y) ->
  (contiguous (map f S) (map f axis) <-> contiguous S axis).
Proof.
  intros Hinj. split; [|apply contiguous_map].
  intros (p1 & pm & p2 & E & H).
  apply map_eq_app in E. destruct E as (l1 & r & -> & E1 & E).
  apply map_eq_app in E. destruct E as (mid & l2 & -> & E2 & E3).
  exists l1, mid, l2. split; [reflexivity|]. intros x. split.
  - intros Hx. assert (Hy : In (f x) (map f S)).
    { apply H. rewrite <- E2. now apply in_map. }
    apply in_map_iff in Hy. destruct Hy as (x' & E & Hx'). apply Hinj in E. now subst.
  - intros Hx. assert (Hy : In (f x) pm) by (apply H; now apply in_map).
    rewrite <- E2 in Hy. apply in_map_iff in Hy. destruct Hy as (x' & E & Hx').
    apply Hinj in E. now subst.
Qed.

(* ------------------------------------------------------------------------------------------ *)
(* valley <-> every lower level set contiguous                                                 *)

Lemma valley_iff_levels_ones {T} (pos : T -> nat) (axis : list T) :
  valley (map pos axis) <-> forall k, ones_consec (map (fun a => pos a <? k) axis).
Proof.
  split.
  - intros Hv k. apply ones_consec_iff_no_tft. intros Hs.
    apply sub3_map_inv in Hs. destruct Hs as (x & y & z & Hs & Ex & Ey & Ez).
    apply Nat.ltb_lt in Ex, Ez. apply Nat.ltb_ge in Ey.
    apply Hv. exists (pos x), (pos y), (pos z). split; [now apply sub3_map|lia].
  - intros H (px & py & pz & Hs & Hxy & Hzy).
    apply sub3_map_inv in Hs. destruct Hs as (x & y & z & Hs & <- & <- & <-).
    specialize (H (pos y)). apply ones_consec_iff_no_tft in H. apply H.
    apply (sub3_map (fun a => pos a <? pos y)) in Hs.
    replace (pos x <? pos y) with true in Hs by (symmetry; apply Nat.ltb_lt; lia).
    replace (pos z <? pos y) with true in Hs by (symmetry; apply Nat.ltb_lt; lia).
    rewrite Nat.ltb_irrefl in Hs. exact Hs.
Qed.

Lemma memN_filter (g : N -> bool) axis a : In a axis -> memN a (filter g axis) = g a.
Proof.
  intros Hin. destruct (g a) eqn:E.
  - apply memN_In. apply filter_In. auto.
  - apply memN_false. rewrite filter_In. intros [_ H]. congruence.
Qed.

Theorem valley_level_sets (pos : N -> nat) (axis : list N) : NoDup axis ->
  (valley (map pos axis) <-> forall k, contiguous (filter (fun a => pos a <? k) axis) axis).
Proof.
  intros Hnd. rewrite valley_iff_levels_ones.
  split; intros H k; specialize (H k).
  - apply contiguous_iff_ones; [assumption|]. split.
    + erewrite map_ext_in; [exact H|]. intros a Ha. first [exact (memN_filter (fun a0 => pos a0 <? k) axis a Ha) | symmetry; exact (memN_filter (fun a0 => pos a0 <? k) axis a Ha)].
    + intros x Hx. apply filter_In in Hx. tauto.
  - apply contiguous_iff_ones in H; [|assumption]. destruct H as [H _].
    erewrite map_ext_in in H; [exact H|]. intros a Ha. first [exact (memN_filter (fun a0 => pos a0 <? k) axis a Ha) | symmetry; exact (memN_filter (fun a0 => pos a0 <? k) axis a Ha)].
Qed.
