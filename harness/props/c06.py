"""C06 — scoring rules: plurality, veto, k-approval, Borda, Copeland, approval, satisfaction approval.

Observables compared (and nothing else): the returned winner SET (sorted list) and, for an instance type outside a
rule's documented domain, the exception class.  The judge is the extracted model Model/Scoring.v, whose winner sets
are characterised by the theorems of Properties/C06.v."""
import itertools
import random

from .common import case, guarded, ordinal_instance, weak_orders, rand_weak_order, rand_perm

ID = "C06"
COVER_FILES = ['aggregation/singlewinner.py', 'properties/decorators.py']
RULE = ("exhaustive: every profile over m <= 3 alternatives with <= 3 distinct ballots (as sets of ballots) and "
        "multiplicities in {1,2}, for each of soc/soi/toc/toi with ballots of the matching shape, every rule applied "
        "to every profile (so every rule x every data type, guards included; k = 1..m+2 for k-approval); plus the same "
        "profiles under the foreign type labels cat/wmd on a sample; random: m <= 8, <= 9 distinct ballots, "
        "multiplicities <= 50, tie-heavy generators (rotations with equal multiplicities, order + reverse, equal "
        "multiplicities, shared first choices, first-place majorities, single alternative, approval profiles with "
        "forced equal satisfaction scores). histories (550 quick / 7000 thorough, ~10% of the random cases): ONE OrdinalInstance object filled through append_order / append_order_array / append_order_list / append_vote_map, every rule called, ballots repeating existing orders appended (only multiplicities move, majority flipped), rules called again on the same object, interleaved rule A / append / rule B / rule A, then in-place edits of the multiplicity table + recompute_cardinality_param that keep all three counters (voters moved to another ballot, two multiplicities swapped) and every rule again; each answer judged against the model on the instance's current multiplicity table. call sequences (300 quick): a call that raises inside a decorated body (missing k, k=0, str k, empty instance, unexpected keyword; not judged) followed IN THE SAME PROCESS by every rule on out-of-domain / in-domain instances (judged: guards and winners); storage order (500 quick): instance.orders permuted in place and / or the multiplicity dict rebuilt in another key order with the same content, then every rule. categorical gate cases (600 quick): real CategoricalInstance objects with 1 / 2 / 3 categories, complete or not, with and without an empty second category, accepted and rejected by is_approval, every rule (all must refuse except satisfaction approval on the accepted ones), each with its matching ordinal instance. non-trivial = >= 2 alternatives, >= 2 distinct ballots, some multiplicity > 1")
EXHAUSTIVE = {"quick": "m<=3, n<=3 distinct ballots, multiplicities<=2, soc/soi/toc/toi, all 7 rules, k=1..m+2",
              "thorough": "m<=3, n<=3 distinct ballots, multiplicities<=2 (and m<=3, n<=2, multiplicities<=3), "
                          "soc/soi/toc/toi, all 7 rules, k=1..m+2"}
TRUSTED = ["modelled (mirror): singlewinner.py plurality/veto/k_approval/borda/copeland/approval/"
           "satisfaction_approval winners, decorators.py, basic.py is_approval/is_complete/smallest_ballot, "
           "pairwisecomparisons.py borda_scores/copeland_scores; fractions.Fraction is modelled by Coq's Qc "
           "(normalised rationals)"]
ASSUMPTIONS = ["instance.orders and instance.multiplicity hold the same distinct orders (parser / append_* invariant; C02); their storage orders may differ (c06.perm cases)",
               "orders have at least one class and no empty class; alternatives of the ballots are listed in "
               "alternatives_name; multiplicities >= 1; num_alternatives and num_voters agree with the data",
               "k-approval: k is an int >= 1",
               "an OrdinalInstance merely LABELLED 'cat' is not judged on approval_winner / satisfaction_approval_winner; real "
               "CategoricalInstance objects are (c06.cat): approval_winner must refuse them, satisfaction_approval_winner "
               "scores those is_approval accepts, as /repo documents "
               "(is_approval's own guard admits 'cat' because real CategoricalInstances are in its domain)"]
TIMEOUT_S = 20.0
CHUNK = 200

DT = ["soc", "soi", "toc", "toi", "cat", "wmd"]
RULES = ["plurality", "veto", "borda", "copeland", "approval", "sav"]      # then k-approval for each k in ks
DOMAIN = {"plurality": {0, 1, 2, 3}, "veto": {0, 2}, "kapp": {0, 1}, "borda": {0, 2}, "copeland": {0}}
THEOREMS_FOR_OP = {"c06.all": "R_spec / R_guard of Properties/C06.v for each rule R",
                   "c06.plurality": "plurality_spec, plurality_guard", "c06.veto": "veto_spec, veto_guard",
                   "c06.kapp": "k_approval_spec, k_approval_guard", "c06.borda": "borda_spec, borda_guard",
                   "c06.copeland": "copeland_spec, copeland_guard", "c06.approval": "approval_spec, approval_guard",
                   "c06.sav": "sav_spec, sav_guard"}


# ------------------------------------------------------------------------------------------------ payloads
def merge(prof):
    """merge equal ballots (a multiplicity dict cannot hold a key twice)"""
    out = []
    for o, k in prof:
        o = [list(c) for c in o]
        for e in out:
            if e[0] == o:
                e[1] += k
                break
        else:
            out.append([o, k])
    return out


def inst_payload(dt, alts, prof):
    prof = merge(prof)
    return [dt, list(alts), len(alts), sum(k for _, k in prof), prof]


def all_case(dt, alts, prof, **tags):
    m = len(alts)
    return case("c06.all", [inst_payload(dt, alts, prof), list(range(1, m + 3))], **tags)


def build(ip):
    dt, alts, _n_alt, _n_vot, prof = ip
    return ordinal_instance([(o, k) for o, k in prof], data_type=DT[dt], alts=alts)


# ------------------------------------------------------------------------------------------------ shapes
def ballots_of(dt, alts):
    """all ballots of the shape that data type dt announces, over the alternatives alts"""
    alts = list(alts)
    if dt == 0:
        return [[[a] for a in p] for p in itertools.permutations(alts)]
    if dt == 1:
        return [[[a] for a in p] for r in range(1, len(alts) + 1) for p in itertools.permutations(alts, r)]
    if dt == 2:
        return [w for w in weak_orders(alts)]
    out = []
    for r in range(1, len(alts) + 1):
        for sub in itertools.combinations(alts, r):
            out.extend(weak_orders(sub))
    return out


def rand_ballot(rng, dt, alts, p_tie=0.4):
    if dt == 0:
        return [[a] for a in rand_perm(rng, alts)]
    if dt == 1:
        p = rand_perm(rng, alts)
        return [[a] for a in p[: rng.randint(1, len(p))]]
    if dt == 2:
        return rand_weak_order(rng, alts, p_tie=p_tie, complete=True)
    return rand_weak_order(rng, alts, p_tie=p_tie, complete=False)


def approval_ballot(rng, dt, alts):
    """dt 3 (toi): a single class; dt 2 (toc): approved class + the rest (or one class = everything)"""
    alts = list(alts)
    s = rng.sample(alts, rng.randint(1, len(alts)))
    if dt == 3:
        return [sorted(s)] if rng.random() < 0.5 else [s]
    rest = [a for a in alts if a not in s]
    return [s, rest] if rest else [s]


# ------------------------------------------------------------------------------------------------ generators
def gen_exhaustive(tier):
    out = []
    for m in (1, 2, 3):
        alts = list(range(1, m + 1))
        for dt in (0, 1, 2, 3):
            bl = ballots_of(dt, alts)
            for n in (1, 2, 3):
                for combo in itertools.combinations(bl, n):
                    for mults in itertools.product((1, 2), repeat=n):
                        out.append(all_case(dt, alts, list(zip(combo, mults)), exh=1))
            if tier == "thorough":
                for n in (1, 2):
                    for combo in itertools.combinations(bl, n):
                        for mults in itertools.product((1, 2, 3), repeat=n):
                            if 3 in mults:
                                out.append(all_case(dt, alts, list(zip(combo, mults)), exh=1))
    return out


def tie_profile(rng, dt, alts):
    """profiles built so that several alternatives have exactly equal scores"""
    m = len(alts)
    kind = rng.choice(["rot", "rev", "eqmult", "shared", "majority", "split", "plain"])
    c = rng.randint(1, 50)
    base = rand_perm(rng, alts)
    prof = []
    if kind == "rot":          # all rotations, equal multiplicities: every positional score ties
        for r in range(m):
            p = base[r:] + base[:r]
            prof.append((shape(rng, dt, p), c))
    elif kind == "rev":
        prof = [(shape(rng, dt, base), c), (shape(rng, dt, base[::-1]), c)]
    elif kind == "eqmult":
        prof = [(rand_ballot(rng, dt, alts), c) for _ in range(rng.randint(2, 6))]
    elif kind == "shared":     # several distinct orders with the same first choice
        top = base[0]
        for _ in range(rng.randint(2, 5)):
            rest = rand_perm(rng, base[1:])
            prof.append((shape(rng, dt, [top] + rest), rng.randint(1, 50)))
        for _ in range(rng.randint(0, 3)):
            prof.append((rand_ballot(rng, dt, alts), rng.randint(1, 50)))
    elif kind == "majority":   # a first-place majority, spread over several orders
        top = base[0]
        tot = 0
        for _ in range(rng.randint(1, 3)):
            k = rng.randint(1, 50)
            tot += k
            prof.append((shape(rng, dt, [top] + rand_perm(rng, base[1:])), k))
        rem = max(1, tot - rng.randint(0, 2))      # the others get tot-2 .. tot voters: majority, tie or just not
        for _ in range(rng.randint(1, 3)):
            if rem <= 0:
                break
            k = rng.randint(1, rem)
            rem -= k
            prof.append((rand_ballot(rng, dt, alts), k))
    elif kind == "split":      # one ballot's voters split over two ballots that differ at the bottom only
        k1, k2 = rng.randint(1, 25), rng.randint(1, 25)
        other = base[:-2] + base[-2:][::-1] if m >= 2 else base
        prof = [(shape(rng, dt, base), k1 + k2), (shape(rng, dt, base[::-1]), k1), (shape(rng, dt, other[::-1]), k2)]
    else:
        prof = [(rand_ballot(rng, dt, alts), rng.randint(1, 50)) for _ in range(rng.randint(1, 9))]
    if rng.random() < 0.3:     # a small perturbation: ties become near-ties
        prof.append((rand_ballot(rng, dt, alts), rng.randint(1, 2)))
    rng.shuffle(prof)
    return kind, prof[:9]


def shape(rng, dt, perm):
    """turn a ranking into a ballot of the shape of dt (ties / truncation added for the weak / incomplete types)"""
    if dt == 0:
        return [[a] for a in perm]
    if dt == 1:
        return [[a] for a in perm[: rng.randint(1, len(perm))]] if rng.random() < 0.5 else [[a] for a in perm]
    out = [[perm[0]]]
    for x in perm[1:]:
        if rng.random() < 0.3:
            out[-1].append(x)
        else:
            out.append([x])
    if dt == 3 and len(out) > 1 and rng.random() < 0.5:
        out = out[: rng.randint(1, len(out))]
    return out


def sav_tie_profile(rng, dt, alts):
    """approval profile in which two alternatives get the same satisfaction score through different sums
    (e.g. s ballots of size s against one singleton ballot), possibly perturbed"""
    alts = list(alts)
    m = len(alts)
    a, b = rng.sample(alts, 2)
    others = [x for x in alts if x not in (a, b)]
    prof = []
    mode = rng.choice(["s_times_1_over_s", "mixed", "random"])
    if mode == "s_times_1_over_s" and len(others) >= 2:
        s = rng.randint(2, min(7, len(others) + 1))
        c = rng.randint(1, 4)
        combos = list(itertools.combinations(others, s - 1))
        rng.shuffle(combos)
        reps = combos[: rng.randint(1, min(len(combos), s))]
        # a appears in len(reps) ballots of size s with multiplicities summing to s*c  => score c
        left = s * c
        for idx, sub in enumerate(reps):
            k = left if idx == len(reps) - 1 else rng.randint(1, max(1, left - (len(reps) - 1 - idx)))
            left -= k
            if k > 0:
                prof.append(([a] + list(sub), k))
        prof.append(([b], c))
    elif mode == "mixed" and len(others) >= 1:
        # a: k1/s1 + k2/s2, b: the same total written as one fraction when possible
        for _ in range(rng.randint(2, 5)):
            s = rng.randint(1, min(7, len(others) + 1))
            sub = rng.sample(others, s - 1)
            k = rng.randint(1, 12)
            prof.append(([a] + sub, k))
            sub2 = rng.sample(others, s - 1)
            prof.append(([b] + sub2, k))
    else:
        for _ in range(rng.randint(2, 9)):
            s = rng.sample(alts, rng.randint(1, m))
            prof.append((s, rng.randint(1, 12)))
    if rng.random() < 0.25:
        prof.append((rng.sample(alts, rng.randint(1, m)), 1))
    out = []
    for s, k in prof:
        if dt == 3:
            out.append(([list(s)], k))
        else:
            rest = [x for x in alts if x not in s]
            out.append(([list(s), rest] if rest else [list(s)], k))
    rng.shuffle(out)
    return mode, out[:10]


def sav_scores(prof):
    """exact satisfaction scores and, per alternative, the multiset of (multiplicity, size) terms (generator-side
    selection of inputs only; never used for judging)"""
    from fractions import Fraction
    sc, terms = {}, {}
    for s, k in prof:
        for a in s:
            sc[a] = sc.get(a, 0) + Fraction(k, len(s))
            terms.setdefault(a, []).append((k, len(s)))
    return sc, terms


def diff_denominator_tie(prof):
    """two best alternatives tie exactly although their scores are sums of different terms"""
    sc, terms = sav_scores(prof)
    if not sc:
        return False
    best = max(sc.values())
    w = [a for a in sc if sc[a] == best]
    for a, b in itertools.combinations(w, 2):
        ta, tb = sorted(terms[a]), sorted(terms[b])
        if ta != tb and len({d for _, d in ta} | {d for _, d in tb}) >= 2:
            return True
    return False


SAV_SEED_TIES = [   # 1/2 + 1/3 + 2/3 = 1/2 + 2/3 + 1/3 = 3/2 (alternatives 1 and 3), and a variant
    [([1, 3], 1), ([1, 2, 4], 1), ([1, 3, 4], 2), ([2, 3, 4], 1)],
    [([1], 1), ([2], 2), ([1, 2, 3], 1), ([1, 3, 4], 3)],
]


def gen_sav_exact_ties(rng, count):
    """approval profiles with an exact tie between sums over different denominators; each one is emitted in both
    insertion orders and in both forms (incomplete one-class toi, complete two-class toc)"""
    out = []
    found = []
    for base in SAV_SEED_TIES:
        found.append((4, base))
    tries = 0
    while len(found) < count and tries < 200000:
        tries += 1
        m = rng.choice([3, 4, 4, 5, 5, 6, 7, 8])
        alts = list(range(1, m + 1))
        prof = []
        for _ in range(rng.randint(3, 6)):
            s = rng.sample(alts, rng.randint(1, min(m, 4)))
            if not any(set(s) == set(t) for t, _ in prof):
                prof.append((s, rng.randint(1, 4)))
        if diff_denominator_tie(prof):
            found.append((m, prof))
    for m, prof in found:
        alts = list(range(1, m + 1))
        c = rng.choice([1, 1, 2, 3, 7])                 # scaling all multiplicities keeps the tie
        perm = rand_perm(rng, alts)
        ren = dict(zip(alts, perm)) if rng.random() < 0.5 else {a: a for a in alts}
        prof = [([ren[a] for a in s], k * c) for s, k in prof]
        for order in (prof, prof[::-1]):
            out.append(all_case(3, alts, [([list(s)], k) for s, k in order], gen="sav-exact-tie-diff-denoms"))
            two = []
            for s, k in order:
                rest = [x for x in alts if x not in s]
                two.append(([list(s), rest] if rest else [list(s)], k))
            out.append(all_case(2, alts, two, gen="sav-exact-tie-diff-denoms"))
    return out


def gen_soi_kapp(rng, count):
    """soi profiles with ballots of different lengths, alternatives covered by different numbers of voters:
    k-approval with k >= m counts every listed alternative (k = m..m+2 are among the ks of every case)"""
    out = []
    for _ in range(count):
        m = rng.randint(2, 8)
        alts = list(range(1, m + 1))
        prof = []
        for _ in range(rng.randint(2, 8)):
            p = rand_perm(rng, alts)
            prof.append(([[a] for a in p[: rng.randint(1, m)]], rng.choice([1, 1, 2, 3, rng.randint(1, 50)])))
        out.append(all_case(1, alts, prof, gen="soi-mixed-lengths"))
    return out



# ------------------------------------------------------------------------------------------------ histories
# One OrdinalInstance object lives through a whole history: it is filled through the public append API, every rule is
# asked, ballots that REPEAT existing orders are appended (only multiplicities move), the rules are asked again on
# the same object.  Every answer is judged against the model evaluated on the instance's CURRENT multiplicity table
# (snapshot taken just before the call).  actions: [0, method, [[order, count], ...]] | [1, [[rule, k], ...]]
# (empty selection = every rule, k = 1..m+2); rule 0..5 = RULES, 6 = k-approval.
HIST_METHODS = ["append_order", "append_order_array", "append_order_list", "append_vote_map"]


def hist_apply(inst, method, ballots):
    import numpy as np
    if method == 3:
        inst.append_vote_map({tuple(tuple(c) for c in o): k for o, k in ballots})
        return
    rows = [o for o, k in ballots for _ in range(k)]
    strict_rows = all(len(c) == 1 for o in rows for c in o)
    if method == 0 and strict_rows:
        for o in rows:
            inst.append_order([c[0] for c in o])
    elif method == 1 and strict_rows and len({len(o) for o in rows}) == 1 and all(a < 2 ** 62 for o in rows for c in o for a in c):
        inst.append_order_array(np.array([[c[0] for c in o] for o in rows]))
    else:
        inst.append_order_list([tuple(tuple(c) for c in o) for o in rows])


def hist_snapshot(inst):
    dt = DT.index(inst.data_type) if inst.data_type in DT else 5
    return [dt, [int(a) for a in inst.alternatives_name], int(inst.num_alternatives), int(inst.num_voters),
            [[[[int(a) for a in c] for c in o], int(k)] for o, k in inst.multiplicity.items()]]


EDIT_MODES = ["in-place edit: all voters but one of a ballot moved to another ballot (multiplicity table + "
              "recompute_cardinality_param; num_voters, num_unique_orders, num_alternatives unchanged)",
              "in-place edit: multiplicities of two ballots swapped (same counters)"]


def hist_edit(inst, mode, x, y):
    """voters change their mind: the public multiplicity table is edited in place, then the documented
    recompute_cardinality_param(); the number of voters, of distinct orders and of alternatives stay what they were"""
    kx, ky = tuple(tuple(c) for c in x), tuple(tuple(c) for c in y)
    if kx == ky or kx not in inst.multiplicity or ky not in inst.multiplicity:
        return
    if mode == 0:
        d = inst.multiplicity[kx] - 1
        inst.multiplicity[kx] -= d
        inst.multiplicity[ky] += d
    else:
        inst.multiplicity[kx], inst.multiplicity[ky] = inst.multiplicity[ky], inst.multiplicity[kx]
    inst.recompute_cardinality_param()


def hist_run(actions, call_rule, default_sel):
    """-> [[snapshot, [[rule, k, result], ...]], ...], one entry per call action; the instance is never rebuilt"""
    from preflibtools.instances import OrdinalInstance
    inst = OrdinalInstance()
    out = []
    for act in actions:
        if act[0] == 0:
            hist_apply(inst, act[1], act[2])
        elif act[0] == 2:
            hist_edit(inst, act[1], act[2], act[3])
        else:
            snap = hist_snapshot(inst)
            sel = act[1] or default_sel(len(snap[1]))
            out.append([snap, [[r, k, call_rule(inst, r, k)] for r, k in sel]])
    return out


def _default_sel(m):
    return [[r, 0] for r in range(6)] + [[6, k] for k in range(1, m + 3)]


def _call_rule(inst, r, k):
    from preflibtools.aggregation import singlewinner as W
    fns = [W.plurality_winner, W.veto_winner, W.borda_winner, W.copeland_winner, W.approval_winner,
           W.satisfaction_approval_winner]
    return _win(W.k_approval_winner, inst, k) if r == 6 else _win(fns[r], inst)


def gen_history_actions(rng, shape_dt, n_rules, pick_sel):
    """initial profile through the append API, call, append repeats of existing ballots so that a different ballot
    holds the majority, interleaved calls (rule A, append, rule B, rule A), second flip, call everything"""
    m = rng.randint(2, 5)
    alts = list(range(0, m)) if rng.random() < 0.3 else list(range(1, m + 1))
    weak = shape_dt in (2, 3)
    methods = [2, 3] if weak else [0, 1, 2, 3]
    ballots = []
    for _ in range(rng.randint(2, 4)):
        b = rand_ballot(rng, shape_dt, alts)
        if b not in ballots:
            ballots.append(b)
    counts = [rng.randint(1, 3) for _ in ballots]
    actions = []
    cut = rng.randint(1, len(ballots))
    for part in (list(zip(ballots, counts))[:cut], list(zip(ballots, counts))[cut:]):
        if part:
            actions.append([0, rng.choice(methods), [[o, k] for o, k in part]])
    A, B = pick_sel(rng, m), pick_sel(rng, m)
    actions.append([1, [] if rng.random() < 0.6 else A])
    total = sum(counts)
    order_idx = sorted(range(len(ballots)), key=lambda j: counts[j])          # smallest multiplicity first
    for rnd, j in enumerate(order_idx[:2]):
        meth = 3 if total > 40 else rng.choice(methods)
        add = total + 1 if meth != 3 or rng.random() < 0.5 else rng.choice([total + 1, 10 * total, 2 ** 53 + 1])
        rep = [[ballots[j], add]]
        extra = rng.choice(ballots)
        if rng.random() < 0.3 and extra != ballots[j]:
            rep.append([extra, 1])
        actions.append([0, meth, rep])
        counts[j] += add
        total = sum(counts) + 1
        if rnd == 0:
            actions.append([1, B])
            actions.append([1, A])
        else:
            actions.append([1, []])
    if len(ballots) >= 2:
        hi = max(range(len(ballots)), key=lambda j: counts[j])
        others = [j for j in range(len(ballots)) if j != hi]
        actions.append([2, 0, ballots[hi], ballots[rng.choice(others)]])
        actions.append([1, []])
        a, b = rng.sample(range(len(ballots)), 2)
        actions.append([2, 1, ballots[a], ballots[b]])
        actions.append([1, []])
    return actions


def _pick_sel06(rng, m):
    r = rng.choice([0, 1, 2, 3, 3, 3, 4, 5, 6])
    return [[r, rng.randint(1, m + 1) if r == 6 else 0]]


def gen_histories(rng, count):
    out = []
    for _ in range(count):
        shape_dt = rng.choice([0, 0, 0, 1, 2, 3])
        out.append(case("c06.hist", gen_history_actions(rng, shape_dt, 7, _pick_sel06), gen="history"))
    return out


def _targets(c):
    return c["payload"][2] if c["op"] == "c06.seq" else [c["payload"][0]]


def oracle_requests(c, r):
    if c["op"] in ("c06.seq", "c06.perm"):
        return [("c06.all", [t, list(range(1, len(t[1]) + 3))]) for t in _targets(c)]
    if c["op"] == "c06.cat":
        return [("c06.all", c["payload"])]
    if c["op"] != "c06.hist":
        return [(c["op"], c["payload"])]
    if not isinstance(r, list):
        return []
    reqs = []
    for snap, res in r:
        ks = sorted({k for rr, k, _ in res if rr == 6})
        reqs.append(("c06.all", [snap, ks]))
    return reqs


def judge_history(c, r, mres, names, n_fixed, theorem):
    if len(mres) != len(r):
        return {"kind": "broken-correspondence", "reason": "history: %d call steps, %d model answers" % (len(r), len(mres))}
    for step, ((snap, res), m) in enumerate(zip(r, mres)):
        ks = sorted({k for rr, k, _ in res if rr == n_fixed})
        for rr, k, ri in res:
            mi = m[rr] if rr < n_fixed else m[n_fixed + ks.index(k)]
            if ri[:2] != _canon(mi):
                nm = names[rr] + (" k=%d" % k if rr == n_fixed else "")
                return {"kind": "mismatch", "theorem": theorem,
                        "reason": "history, call step %d on the same instance object: %s on the current table "
                                  "(%s, multiplicities %r): implementation %r, model %r"
                                  % (step + 1, nm, DT[snap[0]], [k2 for _, k2 in snap[4]], ri, _canon(mi))}
    return None


def history_stats(c, r, mres, names, n_fixed):
    out = ["history: %d appends, %d call steps" % (sum(1 for a in c["payload"] if a[0] == 0),
                                                    sum(1 for a in c["payload"] if a[0] == 1))]
    for a in c["payload"]:
        if a[0] == 0:
            out.append("history: " + HIST_METHODS[a[1]])
        elif a[0] == 2:
            out.append("history: " + EDIT_MODES[a[1]][:60])
    seen = {}
    changed = set()
    if isinstance(r, list):
        for (snap, res), m in zip(r, mres):
            ks = sorted({k for rr, k, _ in res if rr == n_fixed})
            for rr, k, _ in res:
                mi = m[rr] if rr < n_fixed else m[n_fixed + ks.index(k)]
                key = (rr, k)
                val = tuple(sorted(mi[1])) if mi[0] == 0 else ("refused", mi[1])
                if key in seen and seen[key] != val and mi[0] == 0:
                    changed.add(names[rr])
                seen[key] = val
    for nm in sorted(changed):
        out.append("history: %s winner set changed between two calls on the same object" % nm)
    if not changed:
        out.append("history: no winner set changed")
    return out


def shrink_history(c):
    acts = c["payload"]
    for i in range(len(acts)):
        rest = acts[:i] + acts[i + 1:]
        if any(a[0] == 1 for a in rest) and any(a[0] == 0 for a in rest) and rest[0][0] == 0:
            yield dict(c, payload=rest)
    for i, a in enumerate(acts):
        if a[0] == 0:
            for j, (o, k) in enumerate(a[2]):
                if k > 1:
                    nb = a[2][:j] + [[o, k - 1]] + a[2][j + 1:]
                    yield dict(c, payload=acts[:i] + [[0, a[1], nb]] + acts[i + 1:])
                if len(a[2]) > 1:
                    yield dict(c, payload=acts[:i] + [[0, a[1], a[2][:j] + a[2][j + 1:]]] + acts[i + 1:])
        elif a[0] == 1 and not a[1]:
            for sel in _default_sel(3)[:6]:
                yield dict(c, payload=acts[:i] + [[1, [sel]]] + acts[i + 1:])


# ------------------------------------------------------------------------------------------------ call sequences
# c06.seq: [kind, ip1, [target, ...]] — in ONE worker process: first a call that raises inside a decorated body
# (its outcome is outside the property and is NOT judged), then every rule on fresh instances built from the targets
# (mostly types outside the rules' domains: the R_guard theorems demand PreferenceIncompatibleError whatever
# happened before).  c06.perm: [ip, perm_orders, perm_mult] — the public `orders` list permuted in place and / or the
# `multiplicity` dict rebuilt with the same content in another key order, then every rule (the profile as a multiset
# of ballots is unchanged, so R_spec / R_regroup give the same winners).
FAIL_KINDS = ["k_approval without k", "k_approval k=0", "k_approval k>m", "plurality on an empty instance",
              "k_approval with a str k", "borda on an empty instance", "copeland on an empty instance",
              "approval on an empty instance", "veto with an unexpected keyword"]


def failing_call(kind, ip):
    from preflibtools.aggregation import singlewinner as W
    from preflibtools.instances import OrdinalInstance
    empty = OrdinalInstance()
    empty.data_type = "soc"
    try:
        if kind == 0:
            W.k_approval_winner(build(ip))
        elif kind == 1:
            W.k_approval_winner(build(ip), 0)
        elif kind == 2:
            W.k_approval_winner(build(ip), len(ip[1]) + 3)
        elif kind == 3:
            W.plurality_winner(empty)
        elif kind == 4:
            W.k_approval_winner(build(ip), "2")
        elif kind == 5:
            W.borda_winner(empty)
        elif kind == 6:
            W.copeland_winner(empty)
        elif kind == 7:
            W.approval_winner(empty)
        else:
            W.veto_winner(build(ip), weights=None)
    except Exception:      # whatever this call does is outside the property; only the calls after it are judged
        pass


def all_rules(inst_builder, m):
    from preflibtools.aggregation import singlewinner as W
    fns = [W.plurality_winner, W.veto_winner, W.borda_winner, W.copeland_winner, W.approval_winner,
           W.satisfaction_approval_winner]
    res = [_win(f, inst_builder()) for f in fns]
    for k in range(1, m + 3):
        res.append(_win(W.k_approval_winner, inst_builder(), k))
    return res


def build_permuted(ip, po, pm):
    inst = build(ip)
    if po:
        inst.orders[:] = [inst.orders[j] for j in po]          # in place: `preferences` stays the same list object
    if pm:
        items = list(inst.multiplicity.items())
        inst.multiplicity = {items[j][0]: items[j][1] for j in pm}
    return inst


def gen_sequences(rng, count):
    out = []
    for _ in range(count):
        m = rng.randint(2, 4)
        alts = list(range(0, m)) if rng.random() < 0.2 else list(range(1, m + 1))
        _, prof1 = tie_profile(rng, 0, alts)
        ip1 = inst_payload(0, alts, prof1)
        targets = []
        for dt in rng.sample([1, 2, 3, 3, 0, 4, 5], rng.randint(2, 4)):      # mostly out-of-domain types
            shape_dt = dt if dt <= 3 else rng.choice([0, 1, 2, 3])
            _, prof = tie_profile(rng, shape_dt, alts)
            targets.append(inst_payload(dt, alts, prof))
        out.append(case("c06.seq", [rng.randrange(len(FAIL_KINDS)), ip1, targets], gen="sequence"))
    return out


def gen_permuted(rng, count):
    out = []
    while len(out) < count:
        m = rng.randint(2, 6)
        alts = list(range(0, m)) if rng.random() < 0.2 else list(range(1, m + 1))
        dt = rng.choice([0, 0, 2, 2, 1, 3])
        prof = []
        for _ in range(rng.randint(2, 6)):
            b = rand_ballot(rng, dt, alts)
            if all(b != o for o, _ in prof):
                prof.append((b, rng.choice([1, 2, 3, 5, 8, 13, rng.randint(1, 50)])))
        ip = inst_payload(dt, alts, prof)
        n = len(ip[4])
        if n < 2:
            continue
        mode = rng.choice(["orders-reversed", "orders-shuffled", "multiplicity-rebuilt", "both"])
        ident = list(range(n))
        sh1, sh2 = ident[:], ident[:]
        rng.shuffle(sh1)
        rng.shuffle(sh2)
        po = ident[::-1] if mode == "orders-reversed" else (sh1 if mode in ("orders-shuffled", "both") else [])
        pm = sh2 if mode in ("multiplicity-rebuilt", "both") else []
        out.append(case("c06.perm", [ip, po, pm], gen="storage-order " + mode))
    return out


# ------------------------------------------------------------------------------------------------ categorical instances
# c06.cat: [ip, ks] with ip[0] = 4 ("cat"): a REAL CategoricalInstance (preferences = tuples of num_categories
# categories, some possibly empty).  Every ordinal rule must refuse it (R_guard); approval_winner must refuse it
# whether or not is_approval accepts it (approval_guard: type outside soc/toc/soi/toi); satisfaction_approval_winner
# is guarded by is_approval only (sav_guard / sav_guard_shape) — the model's gate on a "cat" instance is exactly
# /repo's: num_categories == 1, or num_categories == 2 and every ballot lists all alternatives.
def build_categorical(ip):
    from preflibtools.instances import CategoricalInstance
    _dt4, alts, n_alt, n_vot, prof = ip
    c = CategoricalInstance()
    ncat = len(prof[0][0])
    c.num_categories = ncat
    c.categories_name = {j + 1: "Category %d" % (j + 1) for j in range(ncat)}
    c.alternatives_name = {a: "Alternative " + str(a) for a in alts}
    c.num_alternatives = n_alt
    for o, k in prof:
        t = tuple(tuple(cl) for cl in o)
        c.preferences.append(t)
        c.multiplicity[t] = k
    c.num_voters = n_vot
    c.num_unique_preferences = len(c.preferences)
    return c


def gen_categorical(rng, count):
    out = []
    while len(out) < count:
        m = rng.randint(2, 5)
        alts = list(range(0, m)) if rng.random() < 0.2 else list(range(1, m + 1))
        ncat = rng.choice([1, 1, 2, 2, 2, 3])
        kind = rng.choice(["complete", "complete", "incomplete", "mixed"])
        prof = []
        for _ in range(rng.randint(1, 5)):
            a = rand_perm(rng, alts)
            complete = kind == "complete" or (kind == "mixed" and rng.random() < 0.5)
            if not complete and m > 1:
                a = a[: rng.randint(1, m - 1)]
            if ncat == 1:
                cats = [a]
            else:
                first = rng.randint(1, len(a))              # the second category is empty when first == len(a)
                cuts = sorted([first] + [rng.randint(first, len(a)) for _ in range(ncat - 2)])
                cats, prev = [], 0
                for cpos in cuts:
                    cats.append(a[prev:cpos])
                    prev = cpos
                cats.append(a[prev:])
            if all(cats != o for o, _ in prof):
                prof.append((cats, rng.randint(1, 9)))
        ip = inst_payload(4, alts, prof)
        accepted = ncat == 1 or (ncat == 2 and all(sum(len(cl) for cl in o) == m for o, _ in ip[4]))
        label = "cat %d categor%s, %s (is_approval %s)" % (ncat, "y" if ncat == 1 else "ies", kind,
                                                           "accepts" if accepted else "rejects")
        out.append(case("c06.cat", [ip, list(range(1, m + 3))], gen=label, real_cat=1))
        # the matching ordinal instance (empty categories dropped), where the approval rules must score
        oprof = [([cl for cl in o if cl], k) for o, k in ip[4]]
        strict = all(len(cl) == 1 for o, _ in oprof for cl in o)
        compl = all(sum(len(cl) for cl in o) == m for o, _ in oprof)
        odt = {(True, True): 0, (True, False): 1, (False, True): 2, (False, False): 3}[(strict, compl)]
        out.append(all_case(odt, alts, oprof, gen="ordinal twin of a cat instance"))
    return out[:count]


BIG_MULTS = [2 ** 53 - 1, 2 ** 53, 2 ** 53 + 1, 2 ** 53 + 3, 2 ** 53 + 7, 2 ** 53 + 101, 2 ** 63 - 1, 2 ** 63 + 1,
             2 ** 64 + 1, 10 ** 30 + 7]
HUGE_IDS = [10 ** 18, 2 ** 64 + 1, 10 ** 18 + 1, 2 ** 63, 2 ** 53 + 1]


def exotic_payload(rng, ip, p=0.2):
    """legitimate but under-sampled values: the alternative id 0, huge ids, multiplicities beyond 2**53 / 2**63 /
    2**64 (each with probability p, independently).  Relabelings are bijections, so ballots stay distinct."""
    dt, alts, _, _, prof = ip
    alts = list(alts)
    tags = []
    ren = {}
    if rng.random() < p and 0 not in alts:
        ren[rng.choice(alts)] = 0
        tags.append("zero-id")
    if rng.random() < p:
        free = [a for a in alts if a not in ren]
        rng.shuffle(free)
        ids = [h for h in HUGE_IDS if h not in alts]
        rng.shuffle(ids)
        for a, h in zip(free[: rng.randint(1, 2)], ids):
            ren[a] = h
        tags.append("huge-id")
    if ren:
        alts = [ren.get(a, a) for a in alts]
        prof = [[[[ren.get(a, a) for a in c] for c in o], k] for o, k in prof]
    if rng.random() < p:
        mode = rng.choice(["scale", "near", "replace"])
        B = rng.choice(BIG_MULTS)
        if mode == "scale":          # keeps every tie, majority and exact half of the original profile
            prof = [[o, k * B] for o, k in prof]
        elif mode == "near":         # scores that differ only in the lowest bits of a > 53-bit number (or not at all)
            prof = [[o, rng.choice([B, B, B + 1, B - 1, B + 2])] for o, k in prof]
        else:
            prof = [[o, rng.choice(BIG_MULTS + [1, 2, k])] for o, k in prof]
        tags.append("big-mult-" + mode)
    return inst_payload(dt, alts, prof), tags


def exoticise(rng, cases):
    out = []
    for c in cases:
        if c["op"] != "c06.all":
            out.append(c)
            continue
        ip, tags = exotic_payload(rng, c["payload"][0])
        if tags:
            c = case("c06.all", [ip, c["payload"][1]], **dict(c["tags"], exotic="+".join(tags)))
        out.append(c)
    return out


def gen_big_ties(rng, count):
    """two first choices whose totals are 2**53 and 2**53+1 (must NOT tie) or both 2**53+1 (must tie), the totals
    being reached as sums over several ballots in either order"""
    out = []
    for j in range(count):
        m = rng.randint(2, 4)
        alts = rng.sample([0, 1, 2, 3, 4, 5, 10 ** 18, 2 ** 64 + 1], m)
        dt = rng.choice([0, 0, 1, 2, 3])
        B = rng.choice([2 ** 53, 2 ** 53, 2 ** 63, 2 ** 64, 10 ** 30 + 6])
        ta, tb = rng.choice([(B, B + 1), (B + 1, B + 1), (B + 1, B), (B + 1, B + 2), (B + 2, B + 2)])
        a, b = alts[0], alts[1]
        prof = []
        for top, tot in ((a, ta), (b, tb)):
            parts = [tot] if rng.random() < 0.4 else rng.choice([[tot - 1, 1], [1, tot - 1], [tot - 2, 1, 1], [1, 1, tot - 2]])
            for k in parts:
                rest = rand_perm(rng, [x for x in alts if x != top])
                prof.append((shape(rng, dt, [top] + rest), k))
        if rng.random() < 0.5:
            prof = prof[::-1]
        out.append(all_case(dt, alts, prof, gen="big-first-place-ties"))
    return out


def gen_random(tier, seed):
    out = exoticise(random.Random(1000003 * seed + 606), _gen_random(tier, seed))
    out.extend(gen_histories(random.Random(1000003 * seed + 6006), 550 if tier == "quick" else 7000))
    out.extend(gen_categorical(random.Random(1000003 * seed + 66), 600 if tier == "quick" else 6000))
    out.extend(gen_sequences(random.Random(1000003 * seed + 60006), 300 if tier == "quick" else 3000))
    out.extend(gen_permuted(random.Random(1000003 * seed + 600006), 500 if tier == "quick" else 6000))
    return out


def _gen_random(tier, seed):
    rng = random.Random(1000003 * seed + 6)
    out = []
    out.extend(gen_big_ties(rng, 300 if tier == "quick" else 3000))
    out.extend(gen_sav_exact_ties(rng, 150 if tier == "quick" else 1500))
    out.extend(gen_soi_kapp(rng, 400 if tier == "quick" else 5000))
    n = 2500 if tier == "quick" else 40000
    for i in range(n):
        m = rng.choice([1, 2, 2, 3, 3, 4, 4, 5, 5, 6, 7, 8])
        alts = rng.sample(range(1, 40), m) if rng.random() < 0.3 else list(range(1, m + 1))
        dt = rng.choice([0, 0, 0, 0, 1, 1, 2, 2, 3])
        kind, prof = tie_profile(rng, dt, alts)
        out.append(all_case(dt, alts, prof, gen=kind))
    n = 1200 if tier == "quick" else 20000
    for i in range(n):
        m = rng.choice([2, 3, 3, 4, 4, 5, 6, 7, 8])
        alts = list(range(1, m + 1))
        dt = rng.choice([2, 3])
        if rng.random() < 0.8:
            mode, prof = sav_tie_profile(rng, dt, alts)
        else:
            mode, prof = "approval-random", [(approval_ballot(rng, dt, alts), rng.randint(1, 50))
                                             for _ in range(rng.randint(1, 8))]
        out.append(all_case(dt, alts, prof, gen="sav-" + mode))
    # foreign type labels (cat, wmd) on ordinal data: every rule must refuse
    n = 150 if tier == "quick" else 1500
    for i in range(n):
        m = rng.randint(1, 5)
        alts = list(range(1, m + 1))
        shape_dt = rng.choice([0, 1, 2, 3])
        _, prof = tie_profile(rng, shape_dt, alts)
        out.append(all_case(rng.choice([4, 5]), alts, prof, gen="foreign"))
    return out


def generate(tier, seed):
    return gen_exhaustive(tier) + gen_random(tier, seed)


# ------------------------------------------------------------------------------------------------ implementation side
def _win(fn, *a):
    r = guarded(fn, *a)
    if r[0] == 0:
        v = r[1]
        if not isinstance(v, (set, frozenset, list, tuple)):
            return [1, 5, [ord(ch) for ch in ("not a collection: %r" % (v,))[:80]]]
        return [0, sorted(int(x) for x in set(v))]
    return r


def impl(c):
    from preflibtools.aggregation import singlewinner as W
    fns = {"plurality": W.plurality_winner, "veto": W.veto_winner, "borda": W.borda_winner,
           "copeland": W.copeland_winner, "approval": W.approval_winner, "sav": W.satisfaction_approval_winner}
    op, pl = c["op"], c["payload"]
    if op == "c06.hist":
        return hist_run(pl, _call_rule, _default_sel)
    if op == "c06.seq":
        kind, ip1, targets = pl
        failing_call(kind, ip1)
        return [all_rules(lambda t=t: build(t), len(t[1])) for t in targets]
    if op == "c06.perm":
        ip, po, pm = pl
        return [all_rules(lambda: build_permuted(ip, po, pm), len(ip[1]))]
    if op == "c06.cat":
        ip, ks = pl
        res = [_win(fns[r], build_categorical(ip)) for r in RULES]
        return res + [_win(W.k_approval_winner, build_categorical(ip), k) for k in ks]
    if op == "c06.all":
        ip, ks = pl
        res = []
        for r in RULES:
            res.append(_win(fns[r], build(ip)))      # a fresh instance per call: no rule sees another's side effects
        for k in ks:
            res.append(_win(W.k_approval_winner, build(ip), k))
        return res
    name = op.split(".")[1]
    if name == "kapp":
        return _win(W.k_approval_winner, build(pl[0]), pl[1])
    return _win(fns[name], build(pl))


# ------------------------------------------------------------------------------------------------ judging
def _canon(m):
    """model answer -> same shape as _win"""
    if m[0] == 0:
        return [0, sorted(m[1])]
    return [1, m[1]]


def _skip(rule, dt):
    # 'cat' on an OrdinalInstance for the two approval rules: outside what the property quantifies over
    return dt == 4 and rule in ("approval", "sav")


def _names(c):
    if c["op"] in ("c06.all", "c06.cat"):
        return RULES + ["kapp k=%d" % k for k in c["payload"][1]]
    return [c["op"].split(".")[1]]


def _dt(c):
    pl = c["payload"]
    if c["op"] in ("c06.all", "c06.kapp", "c06.cat"):
        return pl[0][0]
    return pl[0]


def judge(c, r, mres):
    if c["op"] == "c06.hist":
        return judge_history(c, r, mres, RULES + ["kapp"], 6,
                             "R_spec / R_regroup of Properties/C06.v on the current multiplicity table")
    if c["op"] in ("c06.seq", "c06.perm"):
        ts = _targets(c)
        if not isinstance(r, list) or len(r) != len(ts) or len(mres) != len(ts):
            return {"kind": "broken-correspondence", "reason": "result arity"}
        ctx = ("after the call '%s' in the same process, " % FAIL_KINDS[c["payload"][0]]) if c["op"] == "c06.seq" \
            else ("with %s (same ballots and multiplicities), " % c["tags"].get("gen", "permuted storage order"))
        for t, ri, mi in zip(ts, r, mres):
            sub = {"op": "c06.all", "payload": [t, list(range(1, len(t[1]) + 3))], "tags": {}}
            j = judge(sub, ri, [mi])
            if j:
                j["reason"] = ctx + j["reason"]
                return j
        return None
    m = mres[0]
    if c["op"] not in ("c06.all", "c06.cat"):
        r, m = [r], [m]
    names = _names(c)
    if len(r) != len(names) or len(m) != len(names):
        return {"kind": "broken-correspondence", "reason": "result arity %d/%d, expected %d" % (len(r), len(m), len(names))}
    dt = _dt(c)
    for nm, ri, mi in zip(names, r, m):
        if _skip(nm, dt) and c["op"] != "c06.cat":
            continue
        if ri[:2] != _canon(mi):
            what = "winner set" if mi[0] == 0 and ri[0] == 0 else "refusal / exception class"
            return {"kind": "mismatch",
                    "reason": "%s on a %s instance: %s differs: implementation %r, model %r"
                              % (nm, DT[dt], what, ri, _canon(mi)),
                    "theorem": THEOREMS_FOR_OP.get("c06." + nm.split(" ")[0], "")}
    return None


def _prof(c):
    pl = c["payload"]
    if c["op"] == "c06.seq":
        return pl[2][0]
    ip = pl[0] if c["op"] in ("c06.all", "c06.kapp", "c06.perm", "c06.cat") else pl
    return ip


def nontrivial(c, r, m):
    if c["op"] == "c06.hist":
        return True
    ip = _prof(c)
    return len(ip[1]) >= 2 and len(ip[4]) >= 2 and any(k > 1 for _, k in ip[4])


def stats(c, r, m):
    if c["op"] == "c06.hist":
        return history_stats(c, r, m, RULES + ["kapp"], 6)
    if c["op"] == "c06.seq":
        out = ["sequence: first call = " + FAIL_KINDS[c["payload"][0]]]
        for t, mi in zip(c["payload"][2], m):
            ref = sum(1 for x in mi if x[0] == 1)
            out.append("sequence: then every rule on a %s instance (%d of %d answers must be refusals)"
                       % (DT[t[0]], ref, len(mi)))
        return out
    if c["op"] == "c06.perm":
        ip = c["payload"][0]
        return [c["tags"].get("gen", "storage-order"), "storage-order on type=%s" % DT[ip[0]],
                "storage-order: multiplicities %s" % ("differ" if len({k for _, k in ip[4]}) > 1 else "all equal")]
    ip = _prof(c)
    out = ["type=%s" % DT[ip[0]], "m=%d" % len(ip[1]), "ballots=%s" % (len(ip[4]) if len(ip[4]) <= 3 else ">3")]
    if c["tags"].get("gen"):
        out.append("gen=" + c["tags"]["gen"])
    flat = [a for a in ip[1]]
    if 0 in flat:
        out.append("ids: contain the alternative 0")
    if any(a >= 10 ** 18 for a in flat):
        out.append("ids: huge (>= 10**18, incl. 2**64+1)")
    mx = max([k for _, k in ip[4]] + [0])
    if mx > 2 ** 53:
        out.append("multiplicities: some > 2**53" + (" (> 2**63)" if mx > 2 ** 63 else ""))
        first = {}
        for o, k in ip[4]:
            for a in o[0]:
                first[a] = first.get(a, 0) + k
        vals = sorted(first.values())
        if any(x != y and float(x) == float(y) for x, y in zip(vals, vals[1:])):
            out.append("first-place totals differ only beyond the 53rd bit (must NOT tie)")
        if any(x == y and x > 2 ** 53 for x, y in zip(vals, vals[1:])):
            out.append("first-place totals equal and > 2**53 (must tie)")
    if ip[0] == 1:
        cover = {}
        for o, k in ip[4]:
            for cl in o:
                cover[cl[0]] = cover.get(cl[0], 0) + k
        lens = {len(o) for o, _ in ip[4]}
        if len(set(cover.values())) > 1 or len(cover) < len(ip[1]):
            out.append("soi: alternatives listed by different numbers of voters (k-approval k=m..m+2 applied)")
        if len(lens) > 1:
            out.append("soi: ballot lengths differ")
    if ip[0] in (2, 3):
        try:
            if diff_denominator_tie([(o[0], k) for o, k in ip[4]]):
                out.append("approval-shaped: exact top tie between sums over different denominators (%s)"
                           % ("two-class complete" if ip[0] == 2 else "one-class incomplete"))
        except Exception:
            pass
    mm = m[0] if c["op"] in ("c06.all", "c06.cat") else [m[0]]
    for nm, mi in zip(_names(c), mm):
        nm = nm.split(" ")[0]
        if mi[0] == 0:
            w = len(mi[1])
            out.append("%s: %s" % (nm, "unique winner" if w == 1 else ("%d-way tie" % w if w <= 3 else ">3-way tie")))
        else:
            out.append("%s: refused(%d)" % (nm, mi[1]))
    return out


def describe_history(c, names):
    out = []
    for a in c["payload"]:
        if a[0] == 0:
            out.append({HIST_METHODS[a[1]]: [{"order": o, "times": k} for o, k in a[2]]})
        elif a[0] == 2:
            out.append({EDIT_MODES[a[1]]: {"from": a[2], "to": a[3]}})
        else:
            out.append({"call": "every rule" if not a[1] else [names[r] + (" k=%d" % k if k else "") for r, k in a[1]]})
    return {"op": c["op"], "history_on_one_instance_object": out}


def describe(c):
    if c["op"] == "c06.cat":
        ip = c["payload"][0]
        return {"op": c["op"], "instance_class": "CategoricalInstance", "num_categories": len(ip[4][0][0]),
                "alternatives": ip[1], "preferences": [{"categories": o, "multiplicity": k} for o, k in ip[4]],
                "results_are": RULES + ["k_approval(k=%d)" % k for k in c["payload"][1]]}
    if c["op"] == "c06.hist":
        return describe_history(c, RULES + ["kapp"])
    if c["op"] == "c06.seq":
        return {"op": c["op"], "first_call_not_judged": FAIL_KINDS[c["payload"][0]],
                "then_every_rule_on": [{"data_type": DT[t[0]], "alternatives": t[1],
                                        "ballots": [{"order": o, "multiplicity": k} for o, k in t[4]]}
                                       for t in c["payload"][2]]}
    if c["op"] == "c06.perm":
        ip, po, pm = c["payload"]
        return {"op": c["op"], "data_type": DT[ip[0]], "alternatives": ip[1],
                "ballots": [{"order": o, "multiplicity": k} for o, k in ip[4]],
                "instance.orders permuted in place to positions": po, "multiplicity dict rebuilt in key order": pm}
    ip = _prof(c)
    d = {"op": c["op"], "data_type": DT[ip[0]], "alternatives": ip[1],
         "ballots": [{"order": o, "multiplicity": k} for o, k in ip[4]]}
    if c["op"] == "c06.all":
        d["results_are"] = RULES + ["k_approval(k=%d)" % k for k in c["payload"][1]]
    if c["op"] == "c06.kapp":
        d["k"] = c["payload"][1]
    return d


def _with_inst(c, ip):
    if c["op"] == "c06.all":
        return dict(c, payload=[ip, c["payload"][1]])
    if c["op"] == "c06.kapp":
        return dict(c, payload=[ip, c["payload"][1]])
    return dict(c, payload=ip)


def shrink(c):
    if c["op"] == "c06.hist":
        yield from shrink_history(c)
        return
    if c["op"] == "c06.seq":
        kind, ip1, ts = c["payload"]
        if len(ts) > 1:
            for t in ts:
                yield dict(c, payload=[kind, ip1, [t]])
        return
    if c["op"] == "c06.cat":
        ip, ks = c["payload"]
        prof = ip[4]
        if len(prof) > 1:
            for i in range(len(prof)):
                yield dict(c, payload=[inst_payload(4, ip[1], prof[:i] + prof[i + 1:]), ks])
        for i in range(len(prof)):
            if prof[i][1] > 1:
                yield dict(c, payload=[inst_payload(4, ip[1], prof[:i] + [(prof[i][0], 1)] + prof[i + 1:]), ks])
        return
    if c["op"] == "c06.perm":
        ip, po, pm = c["payload"]
        if po and pm:
            yield dict(c, payload=[ip, po, []])
            yield dict(c, payload=[ip, [], pm])
        return
    dt, alts, _, _, prof = _prof(c)
    # drop a ballot
    if len(prof) > 1:
        for i in range(len(prof)):
            yield _with_inst(c, inst_payload(dt, alts, prof[:i] + prof[i + 1:]))
    # remove an alternative everywhere (keeps completeness / strictness of every ballot)
    if len(alts) > 1:
        for x in alts:
            np = []
            for o, k in prof:
                o2 = [[a for a in cl if a != x] for cl in o]
                o2 = [cl for cl in o2 if cl]
                if o2:
                    np.append((o2, k))
            if np:
                yield _with_inst(c, inst_payload(dt, [a for a in alts if a != x], np))
    # lower multiplicities
    for i in range(len(prof)):
        k = prof[i][1]
        for k2 in sorted({1, k // 2, k - 1}):
            if 1 <= k2 < k:
                yield _with_inst(c, inst_payload(dt, alts, prof[:i] + [(prof[i][0], k2)] + prof[i + 1:]))
    # single rule instead of all
    if c["op"] == "c06.all":
        ip, ks = c["payload"]
        for r in RULES:
            yield {"op": "c06." + r, "payload": ip, "tags": dict(c["tags"])}
        for k in ks:
            yield {"op": "c06.kapp", "payload": [ip, k], "tags": dict(c["tags"])}
