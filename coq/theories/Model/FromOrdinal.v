(* Model/FromOrdinal.v — mirror model of CategoricalInstance.from_ordinal, factorise_instance and
   recompute_cardinality_param (preflibtools/instances/preflibinstance/categorical.py)  — property C17.
   Executable definitions only; the lemmas are in Proofs/FromOrdinal.v.

   Conventions
   * alternatives and multiplicities are N; an order is the tuple of its indifference classes
     (best first), a categorical ballot is the tuple of its categories;
   * the loop variable `order_index` is represented by the suffix `order[order_index:]` that is still
     to be consumed (`order_index >= len(order)`  <->  the suffix is []);
   * dicts are association lists in insertion order (`multiplicity`);
   * a relative truncator is a float t; the only thing the code does with it (after the
     normalisation, which the harness repeats with the same float arithmetic) is
     `int(ceil(len(order) * t))`.  The model therefore receives each relative truncator as the TABLE
     n |-> int(ceil(n * t)) for n = 0, 1, ... (a list of integers, entry n for an order with n
     indifference classes); the theorems hold for arbitrary tables.  Note that `len(order)` is the
     number of indifference CLASSES, not of alternatives. *)
From Coq Require Import String List Arith NArith Bool.
From PrefVerif Require Import Lib.Val Lib.Dec Lib.PyStr.
Import ListNotations.
Open Scope N_scope.

Definition category := list N.
Definition order  := list (list N).      (* indifference classes, best first *)
Definition ballot := list category.      (* categories, first category first *)

(* ---- tuple equality / dict operations ---------------------------------------------------- *)
Fixpoint list_eqb {T} (e : T -> T -> bool) (a b : list T) : bool :=
  match a, b with
  | [], [] => true
  | x :: a', y :: b' => e x y && list_eqb e a' b'
  | _, _ => false
  end.
Definition cat_eqb : category -> category -> bool := list_eqb N.eqb.
Definition ballot_eqb : ballot -> ballot -> bool := list_eqb cat_eqb.

(* `b in d` / d[b] *)
Fixpoint lookup (b : ballot) (d : list (ballot * N)) : option N :=
  match d with
  | [] => None
  | (k, v) :: d' => if ballot_eqb b k then Some v else lookup b d'
  end.
(* d[b] += n  (b is a key of d) *)
Fixpoint add_to (b : ballot) (n : N) (d : list (ballot * N)) : list (ballot * N) :=
  match d with
  | [] => []
  | (k, v) :: d' => if ballot_eqb b k then (k, v + n) :: d' else (k, v) :: add_to b n d'
  end.
(* `b in l` for a list *)
Fixpoint mem (b : ballot) (l : list ballot) : bool :=
  match l with
  | [] => false
  | x :: l' => ballot_eqb b x || mem b l'
  end.
(* len(set(l)) is the length of any duplicate-free list with the same elements *)
Fixpoint dedup (l : list ballot) : list ballot :=
  match l with
  | [] => []
  | x :: l' => if mem x l' then dedup l' else x :: dedup l'
  end.
Definition sumN (l : list N) : N := fold_right N.add 0 l.
Definition lenN {T} (l : list T) : N := N.of_nat (length l).

(* ---- (a) size truncators ----------------------------------------------------------------- *)
(* while len(alts) < truncation_point and order_index < len(order):
       alts.extend(order[order_index]); order_index += 1                                          *)
Fixpoint take_while_lt (t : N) (alts : list N) (rest : order) : list N * order :=
  match rest with
  | [] => (alts, [])
  | c :: rest' => if lenN alts <? t then take_while_lt t (alts ++ c) rest' else (alts, rest)
  end.

(* for truncation_point in size_truncators: ...; pref.append(tuple(alts));
       if order_index >= len(order): break                                                       *)
Fixpoint size_loop (ts : list N) (rest : order) : ballot * order :=
  match ts with
  | [] => ([], rest)
  | t :: ts' =>
      let '(alts, rest') := take_while_lt t [] rest in
      match rest' with
      | [] => ([alts], [])
      | _ :: _ => let '(cats, r) := size_loop ts' rest' in (alts :: cats, r)
      end
  end.

(* if order_index < len(order): pref.append(tuple(a for indif_class in order[order_index:] for a in indif_class)) *)
Definition append_rest (cats : ballot) (rest : order) : ballot :=
  match rest with
  | [] => cats
  | _ :: _ => cats ++ [concat rest]
  end.

Definition size_pref (ts : list N) (o : order) : ballot :=
  let '(cats, rest) := size_loop ts o in append_rest cats rest.

(* ---- (c) numbers of indifference classes --------------------------------------------------- *)
(* for k in range(order_index, min(len(order), order_index + num)): alts.extend(order[k])
   order_index += num          — returns the category and order[order_index:] *)
Fixpoint take_classes (num : N) (rest : order) : list N * order :=
  match rest with
  | [] => ([], [])
  | c :: rest' =>
      if num =? 0 then ([], rest)
      else let '(alts, r) := take_classes (N.pred num) rest' in (c ++ alts, r)
  end.

(* no `break` here: every num yields a category, empty once the order is exhausted *)
Fixpoint classes_loop (ns : list N) (rest : order) : ballot * order :=
  match ns with
  | [] => ([], rest)
  | num :: ns' =>
      let '(alts, rest') := take_classes num rest in
      let '(cats, r) := classes_loop ns' rest' in (alts :: cats, r)
  end.

Definition classes_pref (ns : list N) (o : order) : ballot :=
  let '(cats, rest) := classes_loop ns o in append_rest cats rest.

(* ---- parameters ---------------------------------------------------------------------------- *)
(* Python truthiness of `None | list` *)
Definition truthy {T} (p : option (list T)) : bool :=
  match p with Some (_ :: _) => true | _ => false end.
Definition olist {T} (p : option (list T)) : list T :=
  match p with Some l => l | None => [] end.
Definition is_none {T} (p : option T) : bool := match p with None => true | Some _ => false end.

(* [int(ceil(len(order) * t)) for t in relative_size_truncators], each t given as its table *)
Definition rel_sizes (rst : list (list N)) (o : order) : list N :=
  map (fun tab => nth (length o) tab 0) rst.

(* body of `for order, multiplicity in instance.multiplicity.items()`; `st` is the current value of
   the VARIABLE size_truncators, which the relative branch overwrites — the new value is returned *)
Definition order_pref (nic : option (list N)) (rst : option (list (list N)))
           (st : option (list N)) (o : order) : ballot * option (list N) :=
  if truthy st || truthy rst then
    let st' := if truthy rst then Some (rel_sizes (olist rst) o) else st in
    (size_pref (olist st') o, st')
  else if truthy nic then (classes_pref (olist nic) o, st)
  else ([], st).

Fixpoint prefs_loop (nic : option (list N)) (rst : option (list (list N)))
         (st : option (list N)) (src : list (order * N)) : list ballot :=
  match src with
  | [] => []
  | (o, _) :: src' =>
      let '(p, st') := order_pref nic rst st o in p :: prefs_loop nic rst st' src'
  end.

(* the unpadded ballots, one per source order, in the order of instance.multiplicity *)
Definition fo_raw (nic st : option (list N)) (rst : option (list (list N)))
           (src : list (order * N)) : list ballot := prefs_loop nic rst st src.

(* max(len(pref) for pref in preferences) — ValueError on an empty sequence *)
Definition max_len (raw : list ballot) : result N :=
  match raw with
  | [] => Err ValueErr
  | _ :: _ => Ok (fold_right N.max 0 (map lenN raw))
  end.

(* while len(preference) < num_categories: preference.append(tuple()) *)
Definition pad (k : N) (p : ballot) : ballot := p ++ repeat [] (N.to_nat k - length p).

(* the padded ballots, one per source order *)
Definition fo_ballots (nic st : option (list N)) (rst : option (list (list N)))
           (src : list (order * N)) : list ballot :=
  let raw := fo_raw nic st rst src in
  map (pad (get 0 (max_len raw))) raw.

(* if preference in multiplicity: multiplicity[preference] += m
   else: preferences.append(preference); multiplicity[preference] = m *)
Fixpoint acc_loop (items : list (ballot * N)) (prefs : list ballot) (mult : list (ballot * N))
  : list ballot * list (ballot * N) :=
  match items with
  | [] => (prefs, mult)
  | (b, m) :: items' =>
      match lookup b mult with
      | Some _ => acc_loop items' prefs (add_to b m mult)
      | None => acc_loop items' (prefs ++ [b]) (mult ++ [(b, m)])
      end
  end.

(* categories_name[str(k + 1)] = "Cat_" + str(k + 1) for k in range(num_categories) *)
Fixpoint cat_names_from (k : N) (n : nat) : list (text * text) :=
  match n with
  | O => []
  | S n' => (show_N (k + 1), lit "Cat_"%string ++ show_N (k + 1)) :: cat_names_from (k + 1) n'
  end.

Record ord_src := {
  os_num_alternatives : N;
  os_alternatives_name : list (N * text);
  os_multiplicity : list (order * N)          (* instance.multiplicity.items() *)
}.

Record cat_inst := {
  ci_num_alternatives : N;
  ci_alternatives_name : list (N * text);
  ci_preferences : list ballot;
  ci_multiplicity : list (ballot * N);
  ci_num_categories : N;
  ci_categories_name : list (text * text);
  ci_num_unique_preferences : N;
  ci_num_voters : N
}.

(* recompute_cardinality_param *)
Definition recompute_cardinality_param (c : cat_inst) : cat_inst :=
  {| ci_num_alternatives := ci_num_alternatives c;
     ci_alternatives_name := ci_alternatives_name c;
     ci_preferences := ci_preferences c;
     ci_multiplicity := ci_multiplicity c;
     ci_num_categories := ci_num_categories c;
     ci_categories_name := ci_categories_name c;
     ci_num_unique_preferences := lenN (dedup (ci_preferences c));
     ci_num_voters := sumN (map snd (ci_multiplicity c)) |}.

Definition count_none (nic st : option (list N)) (rst : option (list (list N))) : nat :=
  (if is_none nic then 1 else 0) + (if is_none st then 1 else 0) + (if is_none rst then 1 else 0).

(* everything from_ordinal does with its instance and its three truncation parameters *)
Definition from_ordinal_params (src : ord_src) (nic st : option (list N)) (rst : option (list (list N)))
  : result cat_inst :=
  if (count_none nic st rst <? 2)%nat then Err ValueErr
  else if (count_none nic st rst =? 3)%nat then Err ValueErr
  else
    let raw := fo_raw nic st rst (os_multiplicity src) in
    match max_len raw with
    | Err e => Err e
    | Ok k =>
        let '(prefs, mult) := acc_loop (combine (map (pad k) raw) (map snd (os_multiplicity src))) [] [] in
        Ok (recompute_cardinality_param
              {| ci_num_alternatives := os_num_alternatives src;
                 ci_alternatives_name := os_alternatives_name src;
                 ci_preferences := prefs;
                 ci_multiplicity := mult;
                 ci_num_categories := k;
                 ci_categories_name := cat_names_from 0 (N.to_nat k);
                 ci_num_unique_preferences := lenN prefs;
                 ci_num_voters := 0 |})
    end.

(* from_ordinal(instance, num_indif_classes, size_truncators, relative_size_truncators, category_name).
   `category_name` ("List of category names", None or a list of str) is documented but the current code
   never reads it: it is IGNORED ENTIRELY — neither the number of categories (always the maximum
   unpadded ballot length) nor categories_name (always "Cat_<k>") depends on it.  The model takes
   the argument and drops it, so that every theorem is quantified over it. *)
Definition from_ordinal (src : ord_src) (nic st : option (list N)) (rst : option (list (list N)))
           (category_name : option (list text)) : result cat_inst :=
  from_ordinal_params src nic st rst.

(* ---- factorise_instance -------------------------------------------------------------------- *)
Fixpoint fact_loop (bs : list ballot) (mult : list (ballot * N)) (new : list ballot)
  : list ballot * list (ballot * N) :=
  match bs with
  | [] => (new, mult)
  | b :: bs' =>
      match lookup b mult with
      | None => fact_loop bs' (mult ++ [(b, 1)]) (new ++ [b])
      | Some _ => fact_loop bs' (add_to b 1 mult) (if mem b new then new else new ++ [b])
      end
  end.

(* (preferences, multiplicity) -> (preferences, multiplicity) *)
Definition factorise_instance (reset_multiplicity : bool) (prefs : list ballot) (mult : list (ballot * N))
  : list ballot * list (ballot * N) :=
  fact_loop prefs (if reset_multiplicity then [] else mult) [].

(* ---- a checker for conversion results (executable; proved sound and complete in Proofs/FromOrdinal.v) ----
   Used by the harness in the relative mode, where the property claims the partition / padding /
   conservation clauses but no particular category sizes. *)
(* cat = c ++ rest  ->  Some rest *)
Fixpoint strip_prefix (c cat : list N) : option (list N) :=
  match c with
  | [] => Some cat
  | x :: c' =>
      match cat with
      | [] => None
      | y :: cat' => if N.eqb x y then strip_prefix c' cat' else None
      end
  end.

(* consume whole leading classes of o that spell out cat; what is left of o *)
Fixpoint fill (o : order) (cat : list N) {struct o} : option order :=
  match cat with
  | [] => Some o
  | _ :: _ =>
      match o with
      | [] => None
      | c :: o' => match strip_prefix c cat with Some rest => fill o' rest | None => None end
      end
  end.

Fixpoint partition_check (o : order) (b : ballot) : bool :=
  match b with
  | [] => match o with [] => true | _ :: _ => false end
  | cat :: b' => match fill o cat with Some o' => partition_check o' b' | None => false end
  end.

(* all ways of picking one element from each list *)
Fixpoint choices {T} (cands : list (list T)) : list (list T) :=
  match cands with
  | [] => [[]]
  | c :: cs => flat_map (fun x => map (cons x) (choices cs)) c
  end.

Fixpoint wsum_b (b : ballot) (items : list (ballot * N)) : N :=
  match items with
  | [] => 0
  | (k, m) :: items' => (if ballot_eqb b k then m else 0) + wsum_b b items'
  end.

Fixpoint nodupb (l : list ballot) : bool :=
  match l with
  | [] => true
  | x :: l' => negb (mem x l') && nodupb l'
  end.

(* assign : the ballot chosen for each source order *)
Definition assignment_ok (prefs : list ballot) (mult : list (ballot * N)) (ms : list N)
           (assign : list ballot) : bool :=
  forallb (fun b => mem b assign &&
                    match lookup b mult with
                    | Some v => N.eqb v (wsum_b b (combine assign ms))
                    | None => false
                    end) prefs.

Definition conv_check (src : list (order * N)) (prefs : list ballot) (mult : list (ballot * N)) (k : N)
  : bool :=
  nodupb prefs && nodupb (map fst mult)
  && forallb (fun b => mem b (map fst mult)) prefs && forallb (fun b => mem b prefs) (map fst mult)
  && forallb (fun b => lenN b =? k) prefs
  && existsb (assignment_ok prefs mult (map snd src))
             (choices (map (fun om => filter (partition_check (fst om)) prefs) src)).

(* no non-empty category after an empty one: the empty categories of a ballot are trailing (padding) *)
Fixpoint all_empty (b : ballot) : bool :=
  match b with [] => true | c :: b' => match c with [] => all_empty b' | _ :: _ => false end end.
Fixpoint trailing_ok (b : ballot) : bool :=
  match b with
  | [] => true
  | c :: b' => match c with [] => all_empty b' | _ :: _ => trailing_ok b' end
  end.
