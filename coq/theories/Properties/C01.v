(* Properties/C01.v — ordinal preference files survive write -> parse unchanged.
   Statements only; the proofs are in Proofs/Meta.v and Proofs/OrdIO.v.

   Model (Model/OrdIO.v, Model/Meta.v): ord_write = OrdinalInstance.write (content of the file),
   ord_parse au ho m0 = PrefLibInstance.parse_lines + OrdinalInstance.parse started from the header m0 the
   entry point prepared, readlines / splitlines = the line cutting of parse_file / parse_str.

   wf_ord i (boolean, Model/OrdIO.v): at least one order; every class non-empty; multiplicities >= 1; the keys
   of the multiplicity table are the order list, duplicate-free; the nine metadata fields and all names are
   free of the ten line boundaries of str.splitlines and satisfy strip s = s (they MAY BE EMPTY); data_type is
   one of soc / soi / toc / toi; alternative ids are distinct; reserved_names is empty (fresh instance).
   The three counts are NOT required to agree with the ballots: they are copied out and read back.

   sorted_view i = i with o_orders / o_mult listed in file order, i.e. stably sorted by
   (-multiplicity, -len(order)); C01_sorted_view says that nothing else changes. *)
From Coq Require Import List NArith String Permutation.
From PrefVerif Require Import Lib.Val Lib.Dec Lib.PyStr Model.Meta Model.OrdIO Proofs.Meta Proofs.OrdIO.
Import ListNotations.
Open Scope N_scope.

(* ---- non-vacuity: a concrete well-formed instance with ties first / last / only, an EMPTY alternative name,
   a name made of separator characters, equal multiplicities of equal length (stability matters), a big id ---- *)
Definition ex_meta : meta :=
  mkMeta (lit "f.toi") (lit "T") [] (lit "toi") [] [] [] (lit "2020-01-01") [] 3 7
         [(1, lit "a b"); (2, []); (1000000000000000000, lit "#:{,}")] [].
Definition ex_inst : oinst :=
  mkOinst ex_meta 3
    [ [[1];[2;1000000000000000000]]; [[2;1000000000000000000;1]]; [[1000000000000000000;1];[2]] ]
    [ ([[1];[2;1000000000000000000]], 2); ([[2;1000000000000000000;1]], 3); ([[1000000000000000000;1];[2]], 2) ].

Example C01_example_wf : wf_ord ex_inst = true.
Proof. vm_compute. reflexivity. Qed.

Example C01_example_roundtrip :
  ord_parse false false (meta0 (lit "toi")) (readlines (ord_write ex_inst)) = Ok (sorted_view ex_inst)
  /\ o_orders (sorted_view ex_inst) <> o_orders ex_inst.
Proof. split; [vm_compute; reflexivity | vm_compute; discriminate]. Qed.

(* why "at least one order" is in the quantifier: in a file without ballots every line is a header line, the
   loop variable of the header loop stays on the LAST line, and lines[i:] hands that header line to the ballot
   parser, which raises ValueError *)
Example C01_example_no_order_fails :
  ord_parse false false (meta0 (lit "soc")) (readlines (ord_write (mkOinst ex_meta 0 [] []))) = Err ValueErr.
Proof. vm_compute. reflexivity. Qed.

(* ---- C01_roundtrip: parse_file(write(i)) is i, up to the stated stable sort of the order list;
   dt0 is the data type taken from the file extension (overwritten by the DATA TYPE line) ---- *)
Theorem C01_roundtrip : forall i dt0, wf_ord i = true ->
  ord_parse false false (meta0 dt0) (readlines (ord_write i)) = Ok (sorted_view i).
Proof. exact C01_roundtrip_proof. Qed.
Print Assumptions C01_roundtrip.

(* the same through parse_str (str.splitlines) *)
Theorem C01_roundtrip_str : forall i dt0, wf_ord i = true ->
  ord_parse false false (meta0 dt0) (splitlines (ord_write i)) = Ok (sorted_view i).
Proof. exact C01_roundtrip_str_proof. Qed.
Print Assumptions C01_roundtrip_str.

(* the same from any initial header without names (parse_file stores the basename of the path in file_name
   before parsing; parse_str stores its file_name argument) *)
Theorem C01_roundtrip_any_initial : forall i m0, wf_ord i = true -> alt_names m0 = [] -> reserved m0 = [] ->
  ord_parse false false m0 (readlines (ord_write i)) = Ok (sorted_view i)
  /\ ord_parse false false m0 (splitlines (ord_write i)) = Ok (sorted_view i).
Proof. exact C01_roundtrip_any_initial_proof. Qed.
Print Assumptions C01_roundtrip_any_initial.

(* what sorted_view keeps: data type and every metadata field, names, the three counts (first two lines), the
   order list up to the stable sort (a permutation of it), the table with the same keys and, as a function
   order -> multiplicity, the same table *)
Theorem C01_sorted_view : forall i, wf_ord i = true ->
  o_meta (sorted_view i) = o_meta i /\
  o_num_unique (sorted_view i) = o_num_unique i /\
  o_orders (sorted_view i) = map fst (stable_sort key_le (map (fun o => (o, mult_of i o)) (o_orders i))) /\
  Permutation (o_orders (sorted_view i)) (o_orders i) /\
  keys (o_mult (sorted_view i)) = o_orders (sorted_view i) /\
  Permutation (o_mult (sorted_view i)) (o_mult i) /\
  (forall o, assoc_get order_eqb o (o_mult (sorted_view i)) = assoc_get order_eqb o (o_mult i)).
Proof. exact C01_sorted_view_proof. Qed.
Print Assumptions C01_sorted_view.

(* ---- C01_sorted: the ballots of the file (ballots i, printed one per line after the header) carry
   non-increasing multiplicities; so does the order list of the re-parsed instance ---- *)
Theorem C01_sorted : forall i, wf_ord i = true ->
  ord_write i = write_metadata (o_meta i) ++ count_lines i ++ write_alt_names (alt_names (o_meta i))
                ++ flat_map ballot_line (ballots i)
  /\ non_increasing (map snd (ballots i))
  /\ non_increasing (map (mult_of (sorted_view i)) (o_orders (sorted_view i))).
Proof. exact C01_sorted_proof. Qed.
Print Assumptions C01_sorted.

(* ---- C01_idempotent: writing the re-parsed instance reproduces the file byte for byte ---- *)
Theorem C01_idempotent : forall i, wf_ord i = true -> ord_write (sorted_view i) = ord_write i.
Proof. exact C01_idempotent_proof. Qed.
Print Assumptions C01_idempotent.

Theorem C01_idempotent_parsed : forall i dt0 j, wf_ord i = true ->
  ord_parse false false (meta0 dt0) (readlines (ord_write i)) = Ok j -> ord_write j = ord_write i.
Proof. exact C01_idempotent_parsed_proof. Qed.
Print Assumptions C01_idempotent_parsed.

(* ---- C01_ties: for EVERY arrangement of non-empty classes (first / last / only class tied, singletons, any
   ids, also the empty order) and every multiplicity, the tokenizer + class construction invert the ballot
   printer; cstr o is the printed order without blanks ---- *)
Theorem C01_ties : forall o k, Forall (fun c => c <> []) o ->
  tokenize (remove_ws (order_str o)) = tokenize (cstr o) /\
  order_of_str (remove_ws (order_str o)) = Ok o /\
  parse_ballot (remove_ws (ballot_line (o, k))) = Ok (k, o).
Proof. exact C01_ties_proof. Qed.
Print Assumptions C01_ties.

(* ---- shared header lemmas restated (Proofs/Meta.v): the autocorrect suffix search never runs out of fuel ---- *)
Theorem C01_corrected_name_total : forall au name vals resv, exists t, corrected_name au name vals resv = Ok t.
Proof. exact corrected_name_ok. Qed.
Print Assumptions C01_corrected_name_total.
