(* Proofs/ELO.v — correctness of the mirror of is_single_peaked (Model/ELO.v) on well-formed strict profiles:
   termination within the fuel, no Python error, soundness (a returned axis is a valid single-peaked axis),
   completeness (Escoffier-Lang-Ozturk).

   Notation: better v a b := a is ranked above b in the vote v (idxN v a < idxN v b).
   State geometry: O_L = to_append_left ++ left_axis (outside -> inside), O_R = right_axis (inside -> outside),
   P = placed = O_L ++ O_R, R = the alternatives not yet placed.  The final axis is O_L ++ M ++ O_R for the
   arrangement M of R produced by the later rounds.
   Soundness invariant (LC): for every vote v and every placed alternative c, all alternatives to the left of c are
   worse than c for v, or all alternatives to the right of c are worse (whatever M will be).  At the end this is
   exactly "no valley", i.e. v is single-peaked on the axis. *)
From Coq Require Import List Arith NArith Bool Lia Permutation.
From PrefVerif Require Import Lib.Val Lib.Perms Lib.Contig Model.SP Model.ELO Proofs.SP.
Import ListNotations.

(* ---------------------------------------------------------------------------------------------- *)
(* generic list facts                                                                              *)

Lemma memN_app a l1 l2 : memN a (l1 ++ l2) = memN a l1 || memN a l2.
Proof. unfold memN. apply existsb_app. Qed.

Lemma last_indep {T} (l : list T) d d' : l <> [] -> last l d = last l d'.
Proof.
  induction l as [|a l IH]; intros H; [congruence|]. destruct l as [|b l]; [reflexivity|].
  change (last (b :: l) d = last (b :: l) d'). apply IH. discriminate.
Qed.

Lemma app_last_split {T} (l : list T) d : l <> [] -> l = removelast l ++ [last l d].
Proof. intros H. now apply app_removelast_last. Qed.

Lemma snoc_eq_split {T} (l pre post : list T) x c :
  l ++ [x] = pre ++ c :: post ->
  (post = [] /\ c = x /\ pre = l) \/ (exists post0, post = post0 ++ [x] /\ l = pre ++ c :: post0).
Proof.
  intros E. destruct (exists_last (l := c :: post)) as (q & z & Eq); [discriminate|].
  rewrite Eq in E. rewrite app_assoc in E. apply app_inj_tail in E. destruct E as [E ->].
  destruct post as [|p post].
  - left. destruct q as [|q1 q]; simpl in Eq.
    + injection Eq as ->. rewrite app_nil_r in E. auto.
    + injection Eq as _ Eq. destruct q; discriminate.
  - right. destruct q as [|q1 q]; simpl in Eq; [discriminate|].
    injection Eq as -> Eq. exists q. split; [|assumption].
    destruct (exists_last (l := p :: post)) as (q' & z' & Eq'); [discriminate|].
    rewrite Eq' in *. apply app_inj_tail in Eq. destruct Eq as [-> ->]. reflexivity.
Qed.

Lemma cons_eq_split {T} (l pre post : list T) x c :
  x :: l = pre ++ c :: post ->
  (pre = [] /\ c = x /\ post = l) \/ (exists pre0, pre = x :: pre0 /\ l = pre0 ++ c :: post).
Proof.
  intros E. destruct pre as [|p pre]; simpl in E.
  - injection E as E1 E2. subst. left. auto.
  - injection E as E1 E2. subst. right. eauto.
Qed.

Lemma NoDup_split_unique {T} (l1 l2 l1' l2' : list T) b :
  NoDup (l1 ++ b :: l2) -> l1 ++ b :: l2 = l1' ++ b :: l2' -> l1 = l1' /\ l2 = l2'.
Proof.
  revert l1'; induction l1 as [|a l1 IH]; intros l1' Hnd E.
  - destruct l1' as [|a' l1']; simpl in E.
    + injection E as E. auto.
    + injection E as E1 E2. subst a'. exfalso. simpl in Hnd. apply NoDup_cons_iff in Hnd.
      destruct Hnd as [Hn _]. apply Hn. rewrite E2. apply in_or_app. right. now left.
  - destruct l1' as [|a' l1']; simpl in E.
    + injection E as E1 E2. subst a. exfalso. simpl in Hnd. apply NoDup_cons_iff in Hnd.
      destruct Hnd as [Hn _]. apply Hn. apply in_or_app. right. now left.
    + injection E as E1 E2. subst a'. simpl in Hnd. apply NoDup_cons_iff in Hnd. destruct Hnd as [_ Hnd].
      destruct (IH l1' Hnd E2) as [-> ->]. auto.
Qed.

Lemma NoDup_snoc {T} (l : list T) x : NoDup l -> ~ In x l -> NoDup (l ++ [x]).
Proof.
  induction l as [|a l IH]; intros Hnd Hn; simpl; [constructor; [intros []|constructor]|].
  inversion Hnd; subst. constructor.
  - intros H. apply in_app_or in H. destruct H as [H|[->|[]]]; [contradiction|]. apply Hn. now left.
  - apply IH; auto. intros H. apply Hn. now right.
Qed.

Lemma filter_filter {T} (f g : T -> bool) l : filter f (filter g l) = filter (fun a => g a && f a) l.
Proof.
  induction l as [|a l IH]; simpl; [reflexivity|]. destruct (g a); simpl; [|assumption].
  destruct (f a); simpl; now rewrite IH.
Qed.

Lemma filter_partition_perm {T} (f : T -> bool) l :
  Permutation l (filter f l ++ filter (fun a => negb (f a)) l).
Proof.
  induction l as [|a l IH]; simpl; [constructor|]. destruct (f a); simpl.
  - now constructor.
  - eapply perm_trans; [apply perm_skip; exact IH|]. apply Permutation_middle.
Qed.

Lemma filter_length_lt {T} (f g : T -> bool) l x :
  In x l -> f x = true -> g x = false -> (forall a, g a = true -> f a = true) ->
  length (filter g l) < length (filter f l).
Proof.
  intros Hin Hf Hg Himp. induction l as [|a l IH]; [contradiction|]. simpl.
  assert (Hle : length (filter g l) <= length (filter f l)).
  { clear -Himp. induction l as [|b l IH]; simpl; [lia|].
    destruct (g b) eqn:E; [rewrite (Himp b E); simpl; lia|]. destruct (f b); simpl; lia. }
  destruct Hin as [->|Hin].
  - rewrite Hf, Hg. simpl. lia.
  - specialize (IH Hin). destruct (g a) eqn:E; [rewrite (Himp a E); simpl; lia|].
    destruct (f a); simpl; lia.
Qed.

(* ---------------------------------------------------------------------------------------------- *)
(* Python list primitives                                                                          *)

Lemma py_index_ok v a : In a v -> py_index v a = Ok (idxN v a).
Proof.
  induction v as [|b v IH]; intros Hin; [contradiction|]. simpl.
  destruct (N.eqb a b) eqn:E; [reflexivity|].
  apply N.eqb_neq in E. destruct Hin as [->|Hin]; [congruence|]. now rewrite IH.
Qed.

Lemma idxN_inj v a b : In a v -> In b v -> idxN v a = idxN v b -> a = b.
Proof. intros Ha Hb E. rewrite <- (idxN_nth v a 0%N Ha), <- (idxN_nth v b 0%N Hb). now rewrite E. Qed.

Lemma idxN_app_l v w a : In a v -> idxN (v ++ w) a = idxN v a.
Proof.
  induction v as [|b v IH]; intros Hin; [contradiction|]. simpl.
  destruct (N.eqb a b) eqn:E; [reflexivity|]. apply N.eqb_neq in E.
  destruct Hin as [->|Hin]; [congruence|]. now rewrite IH.
Qed.

Lemma idxN_lt v a : In a v -> idxN v a < length v.
Proof.
  induction v as [|b v IH]; intros Hin; [contradiction|]. simpl.
  destruct (N.eqb a b) eqn:E; [lia|]. apply N.eqb_neq in E.
  destruct Hin as [->|Hin]; [congruence|]. specialize (IH Hin). lia.
Qed.

Lemma idxN_app_r v w a : ~ In a v -> idxN (v ++ w) a = length v + idxN w a.
Proof.
  induction v as [|b v IH]; intros Hn; [reflexivity|]. simpl.
  destruct (N.eqb a b) eqn:E.
  - apply N.eqb_eq in E. subst. exfalso. apply Hn. now left.
  - rewrite IH; [reflexivity|]. intros H. apply Hn. now right.
Qed.

Lemma filter_all_true {T} (f : T -> bool) l : (forall b, In b l -> f b = true) -> filter f l = l.
Proof.
  induction l as [|a l IH]; intros H; [reflexivity|]. simpl. rewrite (H a (or_introl eq_refl)).
  f_equal. apply IH. intros b Hb. apply H. now right.
Qed.

Lemma py_remove_filter x l : NoDup l -> py_remove x l = filter (fun a => negb (N.eqb a x)) l.
Proof.
  induction l as [|a l IH]; intros Hnd; [reflexivity|]. inversion Hnd as [|? ? Hn Hnd']; subst. simpl.
  destruct (N.eqb x a) eqn:E.
  - apply N.eqb_eq in E. subst. rewrite N.eqb_refl. simpl.
    symmetry. apply filter_all_true. intros b Hb. apply negb_true_iff. apply N.eqb_neq. intros ->. contradiction.
  - rewrite N.eqb_sym, E. simpl. now rewrite IH.
Qed.

Lemma py_remove_if_filter x l : NoDup l -> py_remove_if x l = filter (fun a => negb (N.eqb a x)) l.
Proof.
  intros Hnd. unfold py_remove_if. destruct (memN x l) eqn:E; [now apply py_remove_filter|].
  apply memN_false in E. symmetry. apply filter_all_true. intros b Hb.
  apply negb_true_iff. apply N.eqb_neq. intros ->. contradiction.
Qed.

Lemma removelast_filter l d : NoDup l -> l <> [] ->
  removelast l = filter (fun a => negb (N.eqb a (last l d))) l.
Proof.
  intros Hnd Hne. rewrite (app_last_split l d Hne) at 2. rewrite filter_app. simpl.
  rewrite N.eqb_refl. simpl. rewrite app_nil_r. symmetry. apply filter_all_true.
  intros b Hb. apply negb_true_iff. apply N.eqb_neq. intros ->.
  rewrite (app_last_split l d Hne) in Hnd. eapply NoDup_app_disj; [exact Hnd|exact Hb|now left].
Qed.

(* ---------------------------------------------------------------------------------------------- *)
(* votes: better, worst element of a filtered vote                                                 *)

Definition better (v : list N) (a b : N) : Prop := idxN v a < idxN v b.

Definition unplaced (P : list N) (a : N) : bool := negb (memN a P).

Lemma unplaced_true P a : unplaced P a = true <-> ~ In a P.
Proof. unfold unplaced. rewrite negb_true_iff. apply memN_false. Qed.

Lemma unplaced_insert P P' x : (forall a, In a P' <-> In a P \/ a = x) ->
  forall a, unplaced P' a = unplaced P a && negb (N.eqb a x).
Proof.
  intros H a. apply eq_true_iff_eq. rewrite andb_true_iff, negb_true_iff, !unplaced_true, N.eqb_neq, H. tauto.
Qed.

Lemma filter_last_split (f : N -> bool) v l' x : filter f v = l' ++ [x] ->
  exists v1 v2, v = v1 ++ x :: v2 /\ f x = true /\ (forall r, In r v2 -> f r = false) /\ filter f v1 = l'.
Proof.
  revert l'; induction v as [|a v IH]; intros l' E; simpl in E.
  - destruct l'; discriminate.
  - destruct (f a) eqn:Fa.
    + destruct (filter f v) as [|b fl] eqn:Efl.
      * destruct l' as [|c l']; simpl in E; [|destruct l'; discriminate].
        injection E as ->. exists [], v. repeat split; auto.
        intros r Hr. destruct (f r) eqn:Fr; [|reflexivity]. exfalso.
        assert (Hin : In r (filter f v)) by (apply filter_In; auto). rewrite Efl in Hin. contradiction.
      * destruct l' as [|c l']; simpl in E; [injection E as _ E; discriminate|].
        injection E as -> E. destruct (IH l' E) as (v1 & v2 & -> & Fx & Hv2 & Ev1).
        exists (c :: v1), v2. repeat split; auto. simpl. now rewrite Fa, Ev1.
    + destruct (IH l' E) as (v1 & v2 & -> & Fx & Hv2 & Ev1).
      exists (a :: v1), v2. repeat split; auto. simpl. now rewrite Fa.
Qed.

(* the last element of the filtered vote is the worst among the filtered alternatives *)
Lemma filter_last_worst (f : N -> bool) v x d : NoDup v -> filter f v <> [] -> last (filter f v) d = x ->
  In x v /\ f x = true /\ forall r, In r v -> f r = true -> r <> x -> better v r x.
Proof.
  intros Hnd Hne El.
  assert (E : filter f v = removelast (filter f v) ++ [x]) by (rewrite <- El; now apply app_last_split).
  destruct (filter_last_split f v _ x E) as (v1 & v2 & -> & Fx & Hv2 & _).
  split; [apply in_or_app; right; now left|]. split; [assumption|].
  intros r Hr Fr Hne'. unfold better.
  assert (Hx1 : ~ In x v1). { intros H. eapply NoDup_app_disj; [exact Hnd|exact H|now left]. }
  apply in_app_or in Hr. destruct Hr as [Hr|[->|Hr]].
  - rewrite (idxN_app_l v1 _ r Hr), (idxN_app_r v1 _ x Hx1). pose proof (idxN_lt v1 r Hr). lia.
  - congruence.
  - rewrite (Hv2 r Hr) in Fr. discriminate.
Qed.

(* ---------------------------------------------------------------------------------------------- *)
(* pop_all                                                                                         *)

Lemma pop_all_spec ps lc0 : (forall p, In p ps -> p <> []) ->
  exists lc, pop_all ps lc0 = Ok (map (@removelast N) ps, lc) /\
    incl lc0 lc /\ (forall p, In p ps -> In (last p 0%N) lc) /\
    (forall x, In x lc -> In x lc0 \/ exists p, In p ps /\ last p 0%N = x) /\
    (NoDup lc0 -> NoDup lc).
Proof.
  revert lc0; induction ps as [|p ps IH]; intros lc0 Hne.
  - exists lc0. simpl. repeat split; auto using incl_refl. intros p [].
  - assert (Hp : p <> []) by (apply Hne; now left).
    destruct p as [|a p'] eqn:Ep; [congruence|]. rewrite <- Ep in *.
    set (lc1 := if memN (last p a) lc0 then lc0 else lc0 ++ [last p a]).
    destruct (IH lc1) as (lc & E & Hincl & Hall & Hfrom & Hnd).
    { intros q Hq. apply Hne. now right. }
    exists lc. split.
    + simpl. rewrite Ep. cbn [py_pop rbind]. rewrite <- Ep. fold lc1. rewrite E. reflexivity.
    + assert (Hl : last p a = last p 0%N) by (now apply last_indep).
      assert (H01 : incl lc0 lc1).
      { unfold lc1. destruct (memN (last p a) lc0); [apply incl_refl|]. now apply incl_appl, incl_refl. }
      assert (Hin1 : In (last p 0%N) lc1).
      { unfold lc1. rewrite <- Hl. destruct (memN (last p a) lc0) eqn:Em; [now apply memN_In|].
        apply in_or_app. right. now left. }
      split; [eapply incl_tran; eauto|]. split; [|split].
      * intros q [<-|Hq]; [now apply Hincl|now apply Hall].
      * intros x Hx. destruct (Hfrom x Hx) as [H1|(q & Hq & Eq)].
        -- unfold lc1 in H1. destruct (memN (last p a) lc0); [now left|].
           apply in_app_or in H1. destruct H1 as [H1|[<-|[]]]; [now left|].
           right. exists p. split; [now left|now rewrite Hl].
        -- right. exists q. split; [now right|assumption].
      * intros Hnd0. apply Hnd. unfold lc1. destruct (memN (last p a) lc0) eqn:Em; [assumption|].
        apply memN_false in Em. now apply NoDup_snoc.
Qed.

(* ---------------------------------------------------------------------------------------------- *)
(* the soundness invariant LC                                                                      *)

Definition cond (v : list N) (pre : list N) (c : N) (rest : list N) : Prop :=
  (forall p, In p pre -> better v c p) \/ (forall d, In d rest -> better v c d).

Definition LC (v : list N) (ol rl or_ : list N) : Prop :=
  (forall pre c post, ol = pre ++ c :: post -> cond v pre c (post ++ rl ++ or_)) /\
  (forall pre c post, or_ = pre ++ c :: post -> cond v post c (ol ++ rl ++ pre)).

Lemma cond_incl v pre pre' c rest rest' :
  incl pre' pre -> incl rest' rest -> cond v pre c rest -> cond v pre' c rest'.
Proof. intros H1 H2 [H|H]; [left|right]; intros q Hq; apply H; auto. Qed.

Lemma LC_add_left v ol rl rl' or_ x :
  (forall d, In d rl' -> In d rl) -> In x rl ->
  LC v ol rl or_ -> cond v ol x (rl' ++ or_) -> LC v (ol ++ [x]) rl' or_.
Proof.
  intros Hsub Hx [HL HR] Hc. split.
  - intros pre c post E. apply snoc_eq_split in E. destruct E as [(-> & -> & ->)|(post0 & -> & ->)].
    + exact Hc.
    + eapply cond_incl; [apply incl_refl| |apply (HL pre c post0 eq_refl)].
      intros d Hd. rewrite <- app_assoc in Hd. apply in_app_or in Hd. apply in_or_app.
      destruct Hd as [Hd|Hd]; [now left|right]. simpl in Hd. destruct Hd as [<-|Hd].
      * apply in_or_app. now left.
      * apply in_app_or in Hd. apply in_or_app. destruct Hd as [Hd|Hd]; [left; now apply Hsub|now right].
  - intros pre c post E. eapply cond_incl; [apply incl_refl| |apply (HR pre c post E)].
    intros d Hd. rewrite <- app_assoc in Hd. apply in_app_or in Hd. apply in_or_app.
    destruct Hd as [Hd|Hd]; [now left|right]. simpl in Hd. destruct Hd as [<-|Hd].
    + apply in_or_app. now left.
    + apply in_app_or in Hd. apply in_or_app. destruct Hd as [Hd|Hd]; [left; now apply Hsub|now right].
Qed.

Lemma LC_add_right v ol rl rl' or_ x :
  (forall d, In d rl' -> In d rl) -> In x rl ->
  LC v ol rl or_ -> cond v or_ x (ol ++ rl') -> LC v ol rl' (x :: or_).
Proof.
  intros Hsub Hx [HL HR] Hc. split.
  - intros pre c post E. eapply cond_incl; [apply incl_refl| |apply (HL pre c post E)].
    intros d Hd. apply in_app_or in Hd. apply in_or_app.
    destruct Hd as [Hd|Hd]; [now left|right]. apply in_app_or in Hd. apply in_or_app.
    destruct Hd as [Hd|Hd]; [left; now apply Hsub|]. destruct Hd as [<-|Hd]; [now left|now right].
  - intros pre c post E. apply cons_eq_split in E. destruct E as [(-> & -> & ->)|(pre0 & -> & ->)].
    + eapply cond_incl; [apply incl_refl| |exact Hc]. intros d Hd. rewrite app_nil_r in Hd. exact Hd.
    + eapply cond_incl; [apply incl_refl| |apply (HR pre0 c post eq_refl)].
      intros d Hd. apply in_app_or in Hd. apply in_or_app.
      destruct Hd as [Hd|Hd]; [now left|right]. apply in_app_or in Hd. apply in_or_app.
      destruct Hd as [Hd|Hd]; [left; now apply Hsub|]. destruct Hd as [<-|Hd]; [now left|now right].
Qed.

(* at the end (nothing left to place) LC is "no valley" *)
Lemma LC_valley v ol or_ : NoDup (ol ++ or_) -> LC v ol [] or_ -> valley (map (idxN v) (ol ++ or_)).
Proof.
  intros Hnd [HL HR] (pa & pb & pc & H3 & Hab & Hcb).
  apply sub3_map_inv in H3. destruct H3 as (a & b & c & (l1 & l2 & l3 & l4 & E) & <- & <- & <-).
  assert (Hb : In b (ol ++ or_)).
  { rewrite E. apply in_or_app. right. right. apply in_or_app. right. now left. }
  assert (E' : ol ++ or_ = (l1 ++ a :: l2) ++ b :: (l3 ++ c :: l4)).
  { rewrite E. rewrite <- app_assoc. reflexivity. }
  apply in_app_or in Hb. destruct Hb as [Hb|Hb].
  - apply in_split in Hb. destruct Hb as (pre & post & ->).
    assert (E2 : (pre ++ b :: post) ++ or_ = pre ++ b :: (post ++ or_)) by (now rewrite <- app_assoc).
    rewrite E2 in E', Hnd. destruct (NoDup_split_unique _ _ _ _ _ Hnd E') as [-> E3].
    destruct (HL _ b post eq_refl) as [H|H].
    + assert (Ha : In a (l1 ++ a :: l2)) by (apply in_or_app; right; now left).
      specialize (H a Ha). unfold better in H. lia.
    + assert (Hc : In c (post ++ [] ++ or_)).
      { simpl. rewrite E3. apply in_or_app. right. now left. }
      specialize (H c Hc). unfold better in H. lia.
  - apply in_split in Hb. destruct Hb as (pre & post & ->).
    assert (E2 : ol ++ pre ++ b :: post = (ol ++ pre) ++ b :: post) by (now rewrite <- app_assoc).
    rewrite E2 in E', Hnd. destruct (NoDup_split_unique _ _ _ _ _ Hnd E') as [E3 ->].
    destruct (HR pre b _ eq_refl) as [H|H].
    + assert (Hc : In c (l3 ++ c :: l4)) by (apply in_or_app; right; now left).
      specialize (H c Hc). unfold better in H. lia.
    + assert (Ha : In a (ol ++ [] ++ pre)).
      { simpl. rewrite E3. apply in_or_app. right. now left. }
      specialize (H a Ha). unfold better in H. lia.
Qed.

Lemma class_pos_strictify v a : class_pos (strictify v) a = idxN v a.
Proof.
  induction v as [|b v IH]; [reflexivity|].
  change (strictify (b :: v)) with ([b] :: strictify v). rewrite class_pos_cons. simpl.
  unfold memN. simpl. rewrite orb_false_r. destruct (N.eqb a b); [reflexivity|]. now rewrite IH.
Qed.

Lemma valley_sp_axis_weak v axis : valley (map (idxN v) axis) -> sp_axis_weak (strictify v) axis = true.
Proof.
  intros H. unfold sp_axis_weak. apply sp_scan_ok_correct.
  erewrite map_ext; [exact H|]. intros a. apply class_pos_strictify.
Qed.

Lemma sp_axis_weak_valley v axis : sp_axis_weak (strictify v) axis = true -> valley (map (idxN v) axis).
Proof.
  unfold sp_axis_weak. intros H. apply sp_scan_ok_correct in H.
  erewrite map_ext; [exact H|]. intros a. symmetry. apply class_pos_strictify.
Qed.

(* ---------------------------------------------------------------------------------------------- *)
(* the loop over the voters when there is a single last candidate                                  *)

Ltac ltb_cases :=
  repeat match goal with
  | |- context [?a <? ?b] =>
      let E := fresh "E" in destruct (a <? b) eqn:E; [apply Nat.ltb_lt in E|apply Nat.ltb_ge in E]; simpl
  end.

Section SingleLoop.
Variables x xi xj : N.

(* x is strictly between the two ends for v, the end on the right being the better one: x must go to the left *)
Definition forces_left (v : list N) : Prop := better v x xi /\ better v xj x.
Definition forces_right (v : list N) : Prop := better v x xj /\ better v xi x.

Definition voter_ok (v : list N) : Prop :=
  In x v /\ In xi v /\ In xj v /\ x <> xi /\ x <> xj /\ xi <> xj /\ (better v x xi \/ better v x xj).

Lemma single_loop_spec vs c0 : c0 <= 2 -> (forall v, In v vs -> voter_ok v) ->
  exists c contra, single_loop vs x (Some xi) (Some xj) c0 = Ok (c, contra) /\
    (contra = false ->
       c <= 2 /\ (c0 <> 0 -> c = c0) /\
       (forall v, In v vs -> (c = 2 -> better v x xj) /\ (c <> 2 -> better v x xi)) /\
       (c = 1 -> c0 = 1 \/ exists v, In v vs /\ forces_left v) /\
       (c = 2 -> c0 = 2 \/ exists v, In v vs /\ forces_right v) /\
       (c = 0 -> c0 = 0)) /\
    (contra = true ->
       (c0 = 1 \/ exists v, In v vs /\ forces_left v) /\ (c0 = 2 \/ exists v, In v vs /\ forces_right v)).
Proof.
  revert c0; induction vs as [|v vs IH]; intros c0 Hc0 Hok.
  - exists c0, false. simpl. split; [reflexivity|]. split; [|discriminate]. intros _.
    split; [assumption|]. split; [auto|]. split; [intros w []|].
    split; [intros Hc; now left|]. split; [intros Hc; now left|auto].
  - destruct (Hok v (or_introl eq_refl)) as (Hx & Hxi & Hxj & N1 & N2 & N3 & Hab).
    assert (Hok' : forall w, In w vs -> voter_ok w) by (intros w Hw; apply Hok; now right).
    assert (D1 : idxN v x <> idxN v xi) by (intros E; apply N1; eapply idxN_inj; eauto).
    assert (D2 : idxN v x <> idxN v xj) by (intros E; apply N2; eapply idxN_inj; eauto).
    assert (D3 : idxN v xi <> idxN v xj) by (intros E; apply N3; eapply idxN_inj; eauto).
    unfold better in Hab.
    cbn [single_loop py_index_opt]. rewrite (py_index_ok v x Hx), (py_index_ok v xi Hxi), (py_index_ok v xj Hxj).
    cbn [rbind].
    destruct ((idxN v x <? idxN v xi) && (idxN v xj <? idxN v x)) eqn:B1.
    + apply andb_true_iff in B1. destruct B1 as [B1 B1']. apply Nat.ltb_lt in B1, B1'.
      assert (Hfl : forces_left v) by (split; assumption).
      destruct (c0 =? 2) eqn:Ec.
      * apply Nat.eqb_eq in Ec. exists c0, true. split; [reflexivity|]. split; [discriminate|].
        intros _. split; [right; exists v; split; [now left|assumption]|now left].
      * apply Nat.eqb_neq in Ec. destruct (IH 1) as (c & contra & E & Hf & Ht); [lia|assumption|].
        exists c, contra. split; [exact E|]. split.
        -- intros Hcf. destruct (Hf Hcf) as (H1 & H2 & H3 & H4 & H5 & H6).
           assert (c = 1) by (apply H2; lia). subst c.
           split; [lia|]. split; [intros; lia|]. split; [|split; [|split; [intros; lia|intros; lia]]].
           ++ intros w [<-|Hw]; [split; [intros; lia|intros; exact B1]|apply (H3 w Hw)].
           ++ intros _. right. exists v. split; [now left|assumption].
        -- intros Hct. destruct (Ht Hct) as [H1 H2]. split.
           ++ right. exists v. split; [now left|assumption].
           ++ destruct H2 as [H2|(w & Hw & H2)]; [lia|]. right. exists w. split; [now right|assumption].
    + destruct ((idxN v x <? idxN v xj) && (idxN v xi <? idxN v x)) eqn:B2.
      * apply andb_true_iff in B2. destruct B2 as [B2 B2']. apply Nat.ltb_lt in B2, B2'.
        assert (Hfr : forces_right v) by (split; assumption).
        destruct (c0 =? 1) eqn:Ec.
        -- apply Nat.eqb_eq in Ec. exists c0, true. split; [reflexivity|]. split; [discriminate|].
           intros _. split; [now left|right; exists v; split; [now left|assumption]].
        -- apply Nat.eqb_neq in Ec. destruct (IH 2) as (c & contra & E & Hf & Ht); [lia|assumption|].
           exists c, contra. split; [exact E|]. split.
           ++ intros Hcf. destruct (Hf Hcf) as (H1 & H2 & H3 & H4 & H5 & H6).
              assert (c = 2) by (apply H2; lia). subst c.
              split; [lia|]. split; [intros; lia|]. split; [|split; [intros; lia|split; [|intros; lia]]].
              ** intros w [<-|Hw]; [split; [intros; exact B2|intros; lia]|apply (H3 w Hw)].
              ** intros _. right. exists v. split; [now left|assumption].
           ++ intros Hct. destruct (Ht Hct) as [H1 H2]. split.
              ** destruct H1 as [H1|(w & Hw & H1)]; [lia|]. right. exists w. split; [now right|assumption].
              ** right. exists v. split; [now left|assumption].
      * destruct ((idxN v x <? idxN v xi) && (idxN v x <? idxN v xj)) eqn:B3.
        -- apply andb_true_iff in B3. destruct B3 as [B3 B3']. apply Nat.ltb_lt in B3, B3'.
           destruct (IH c0) as (c & contra & E & Hf & Ht); [lia|assumption|].
           exists c, contra. split; [exact E|]. split.
           ++ intros Hcf. destruct (Hf Hcf) as (H1 & H2 & H3 & H4 & H5 & H6).
              split; [assumption|]. split; [assumption|]. split; [|split; [|split]].
              ** intros w [<-|Hw]; [split; intros; assumption|apply (H3 w Hw)].
              ** intros Hc. destruct (H4 Hc) as [?|(w & Hw & ?)]; [now left|right; exists w; split; [now right|assumption]].
              ** intros Hc. destruct (H5 Hc) as [?|(w & Hw & ?)]; [now left|right; exists w; split; [now right|assumption]].
              ** assumption.
           ++ intros Hct. destruct (Ht Hct) as [H1 H2]. split.
              ** destruct H1 as [?|(w & Hw & ?)]; [now left|right; exists w; split; [now right|assumption]].
              ** destruct H2 as [?|(w & Hw & ?)]; [now left|right; exists w; split; [now right|assumption]].
        -- exfalso. apply andb_false_iff in B1, B2, B3.
           repeat match goal with H : _ \/ _ |- _ => destruct H end;
           repeat match goal with H : (_ <? _) = false |- _ => apply Nat.ltb_ge in H end; lia.
Qed.
End SingleLoop.

(* ---------------------------------------------------------------------------------------------- *)
(* forced_position                                                                                 *)

Lemma fp_get_set_same d k s : fp_get (fp_set d k s) k = Some s.
Proof.
  induction d as [|[k' s'] d IH]; simpl; [now rewrite N.eqb_refl|].
  destruct (N.eqb k k') eqn:E; simpl; [now rewrite N.eqb_refl|]. now rewrite E.
Qed.

Lemma fp_get_set_other d k s k' : k <> k' -> fp_get (fp_set d k s) k' = fp_get d k'.
Proof.
  intros Hne. induction d as [|[k0 s0] d IH]; simpl.
  - destruct (N.eqb k' k) eqn:E; [apply N.eqb_eq in E; congruence|reflexivity].
  - destruct (N.eqb k k0) eqn:E; simpl.
    + apply N.eqb_eq in E. subst k0. destruct (N.eqb k' k) eqn:E'; [apply N.eqb_eq in E'; congruence|reflexivity].
    + destruct (N.eqb k' k0); [reflexivity|assumption].
Qed.

Definition fset (forced : list (N * side)) (a b : N) : Prop :=
  fp_get forced a = Some SLeft /\ fp_get forced b = Some SRight.
Definition funset (forced : list (N * side)) (x y : N) : Prop :=
  fp_get forced x = None /\ fp_get forced y = None.
Definition FI0 (forced : list (N * side)) (x y : N) : Prop :=
  funset forced x y \/ fset forced x y \/ fset forced y x.

Lemma fset_after a b forced : a <> b -> fset (fp_set (fp_set forced a SLeft) b SRight) a b.
Proof.
  intros Hne. split.
  - rewrite fp_get_set_other by congruence. apply fp_get_set_same.
  - apply fp_get_set_same.
Qed.

Lemma fset_after' a b forced : a <> b -> fset (fp_set (fp_set forced b SRight) a SLeft) a b.
Proof.
  intros Hne. split.
  - apply fp_get_set_same.
  - rewrite fp_get_set_other by congruence. apply fp_get_set_same.
Qed.

Lemma fset_excl forced a b : fset forced a b -> fset forced b a -> False.
Proof. intros [H1 _] [_ H2]. congruence. Qed.

(* ---------------------------------------------------------------------------------------------- *)
(* the loop over the voters when there are two last candidates                                     *)

Section PairLoop.
Variable all_prefs : list (list N).
Variables tal left right : list N.
Variables xi xj : N.

(* the body of the loop after "swap to put x in the lower position" *)
Definition pair_step (rec : N -> N -> list (N * side) -> result pair_out)
    (p : list N) (ix iy ixi ixj : nat) (x y : N) (forced : list (N * side)) : result pair_out :=
  if (ix <? ixj) && (iy <? ix) && (ixi <? iy) then
    let mid := filter (not_placed tal left right) p in
    let ax := tal ++ left ++ mid ++ right in
    Ok (PO_axis ax (sp_axis_profile (map strictify all_prefs) ax))
  else if (ix <? ixi) && (iy <? ix) && (ixj <? iy) then
    let mid := rev (filter (not_placed tal left right) p) in
    let ax := tal ++ left ++ mid ++ right in
    Ok (PO_axis ax (sp_axis_profile (map strictify all_prefs) ax))
  else if (ix <? ixi) && (ixj <? ix) && (iy <? ixj) then
    if is_side (fp_get forced x) SRight || is_side (fp_get forced y) SLeft then Ok PO_contra
    else rec x y (fp_set (fp_set forced x SLeft) y SRight)
  else if (ix <? ixj) && (ixi <? ix) && (iy <? ixi) then
    if is_side (fp_get forced x) SLeft || is_side (fp_get forced y) SRight then Ok PO_contra
    else rec x y (fp_set (fp_set forced x SRight) y SLeft)
  else if (ix <? ixi) && (ix <? ixj) then rec x y forced
  else Err ValueErr.

Lemma pair_loop_cons p rest x y forced :
  pair_loop all_prefs tal left right (Some xi) (Some xj) (p :: rest) x y forced =
  rbind (py_index p x) (fun ix0 => rbind (py_index p y) (fun iy0 =>
  rbind (py_index p xi) (fun ixi => rbind (py_index p xj) (fun ixj =>
  if ix0 <? iy0
  then pair_step (pair_loop all_prefs tal left right (Some xi) (Some xj) rest) p iy0 ix0 ixi ixj y x forced
  else pair_step (pair_loop all_prefs tal left right (Some xi) (Some xj) rest) p ix0 iy0 ixi ixj x y forced)))).
Proof.
  cbn [pair_loop py_index_opt]. destruct (py_index p x) as [ix0|]; [|reflexivity].
  destruct (py_index p y) as [iy0|]; [|reflexivity]. destruct (py_index p xi) as [ixi|]; [|reflexivity].
  destruct (py_index p xj) as [ixj|]; [|reflexivity]. cbn [rbind]. destruct (ix0 <? iy0); reflexivity.
Qed.

(* a placed left, b placed right is compatible with v *)
Definition good (v : list N) (a b : N) : Prop := better v a xi /\ better v b xj.
(* v requires a on the left and b on the right (cases 2.(c)) *)
Definition reqc (v : list N) (a b : N) : Prop := better v a xi /\ better v xj a /\ better v b xj.
Definition reqci (v : list N) (a b : N) : Prop := better v b xj /\ better v xi b /\ better v a xi.
Definition req (v : list N) (a b : N) : Prop := reqc v a b \/ reqci v a b.
(* cases 2.(d): z the lower, w the upper of the two last candidates *)
Definition drev (v : list N) (z w : N) : Prop := better v z xj /\ better v w z /\ better v xi w.
Definition dfwd (v : list N) (z w : N) : Prop := better v z xi /\ better v w z /\ better v xj w.

Definition pvoter_ok (x y : N) (v : list N) : Prop :=
  In x v /\ In y v /\ In xi v /\ In xj v /\
  x <> xi /\ x <> xj /\ y <> xi /\ y <> xj /\ xi <> xj /\
  (better v x xi \/ better v x xj) /\ (better v y xi \/ better v y xj).

Definition is_perm2 (a b x y : N) : Prop := (a = x /\ b = y) \/ (a = y /\ b = x).

Definition mid_of (v : list N) : list N := filter (not_placed tal left right) v.

Definition pair_spec (Q : N -> N -> Prop) (vs : list (list N)) (x y : N) (forced : list (N * side))
                     (out : pair_out) : Prop :=
  match out with
  | PO_cont x' y' forced' =>
      is_perm2 x' y' x y /\ FI0 forced' x y /\
      (forall a b, is_perm2 a b x y -> fset forced a b -> fset forced' a b) /\
      (funset forced' x y -> forall v, In v vs -> good v x y /\ good v y x) /\
      (forall a b, is_perm2 a b x y -> fset forced' a b -> forall v, In v vs -> good v a b) /\
      (forall a b, is_perm2 a b x y -> fset forced' a b -> Q a b \/ exists v, In v vs /\ req v a b)
  | PO_contra =>
      exists a b, is_perm2 a b x y /\ (Q a b \/ exists v, In v vs /\ req v a b) /\ (exists v, In v vs /\ req v b a)
  | PO_axis ax ok =>
      ok = sp_axis_profile (map strictify all_prefs) ax /\
      exists v z w, In v vs /\ is_perm2 z w x y /\
        ((drev v z w /\ ax = tal ++ left ++ mid_of v ++ right) \/
         (dfwd v z w /\ ax = tal ++ left ++ rev (mid_of v) ++ right))
  end.

Lemma is_perm2_sym a b x y : is_perm2 a b x y -> is_perm2 a b y x.
Proof. unfold is_perm2. tauto. Qed.

Lemma FI0_sym forced x y : FI0 forced x y -> FI0 forced y x.
Proof. unfold FI0, funset. tauto. Qed.

Lemma pair_spec_sym Q vs x y forced out : pair_spec Q vs x y forced out -> pair_spec Q vs y x forced out.
Proof.
  destruct out as [x' y' forced'| |ax ok]; simpl.
  - intros (H1 & H2 & H3 & H4 & H5 & H6). split; [now apply is_perm2_sym|]. split; [now apply FI0_sym|].
    split; [intros a b Hp; apply H3; now apply is_perm2_sym|]. split.
    + intros [U1 U2] v Hv. destruct (H4 (conj U2 U1) v Hv). tauto.
    + split; intros a b Hp; [apply H5|apply H6]; now apply is_perm2_sym.
  - intros (a & b & Hp & H). exists a, b. split; [now apply is_perm2_sym|assumption].
  - intros (H1 & v & z & w & Hv & Hp & H). split; [assumption|]. exists v, z, w.
    split; [assumption|]. split; [now apply is_perm2_sym|assumption].
Qed.

Lemma is_side_left o : is_side o SLeft = true <-> o = Some SLeft.
Proof. destruct o as [[|]|]; simpl; split; congruence. Qed.
Lemma is_side_right o : is_side o SRight = true <-> o = Some SRight.
Proof. destruct o as [[|]|]; simpl; split; congruence. Qed.

Lemma fset_perm_unique forced a b a' b' x y : x <> y ->
  is_perm2 a b x y -> is_perm2 a' b' x y -> fset forced a b -> fset forced a' b' -> a = a' /\ b = b'.
Proof.
  intros Hne [[-> ->]|[-> ->]] [[-> ->]|[-> ->]] F1 F2; auto; exfalso; eapply fset_excl; eauto.
Qed.

(* recording "a0 left, b0 right" in forced_position (cases 2.(c)) *)
Lemma forced_step forced forced1 a0 b0 z w :
  a0 <> b0 -> is_perm2 a0 b0 z w -> FI0 forced z w ->
  fset forced1 a0 b0 -> (forall k, k <> a0 -> k <> b0 -> fp_get forced1 k = fp_get forced k) ->
  (is_side (fp_get forced a0) SRight || is_side (fp_get forced b0) SLeft = true -> fset forced b0 a0) /\
  (is_side (fp_get forced a0) SRight || is_side (fp_get forced b0) SLeft = false ->
     FI0 forced1 z w /\ forall a b, is_perm2 a b z w -> fset forced a b -> fset forced1 a b).
Proof.
  intros Hne Hp HFI F1 Hoth. split.
  - intros Ec. apply orb_true_iff in Ec.
    assert (HFI' : funset forced a0 b0 \/ fset forced a0 b0 \/ fset forced b0 a0).
    { destruct Hp as [[-> ->]|[-> ->]]; [exact HFI|]. unfold FI0, funset in *. tauto. }
    destruct HFI' as [[U1 U2]|[[G1 G2]|F]]; [| |exact F].
    + rewrite U1, U2 in Ec. simpl in Ec. destruct Ec; discriminate.
    + rewrite G1, G2 in Ec. simpl in Ec. destruct Ec; discriminate.
  - intros Ec. apply orb_false_iff in Ec. destruct Ec as [Ec1 Ec2]. split.
    + destruct Hp as [[-> ->]|[-> ->]]; unfold FI0; tauto.
    + intros a b Hab [Ga Gb].
      assert (Hab' : is_perm2 a b a0 b0).
      { destruct Hp as [[-> ->]|[-> ->]]; [exact Hab|]. unfold is_perm2 in *. tauto. }
      destruct Hab' as [[-> ->]|[-> ->]]; [exact F1|].
      rewrite Ga in Ec2. discriminate.
Qed.

Lemma pair_step_spec (Q : N -> N -> Prop) rec v vs z w forced :
  z <> w -> pvoter_ok z w v -> idxN v w < idxN v z -> FI0 forced z w ->
  (forall a b, is_perm2 a b z w -> fset forced a b -> Q a b) ->
  (forall forced1 (Q1 : N -> N -> Prop), FI0 forced1 z w ->
     (forall a b, is_perm2 a b z w -> fset forced1 a b -> Q1 a b) ->
     exists out, rec z w forced1 = Ok out /\ pair_spec Q1 vs z w forced1 out) ->
  exists out, pair_step rec v (idxN v z) (idxN v w) (idxN v xi) (idxN v xj) z w forced = Ok out /\
              pair_spec Q (v :: vs) z w forced out.
Proof.
  intros Hzw (Hz & Hw & Hxi & Hxj & N1 & N2 & N3 & N4 & N5 & Hbz & Hbw) Hlow HFI HQ Hrec.
  assert (D1 : idxN v z <> idxN v xi) by (intros E; apply N1; eapply idxN_inj; eauto).
  assert (D2 : idxN v z <> idxN v xj) by (intros E; apply N2; eapply idxN_inj; eauto).
  assert (D3 : idxN v w <> idxN v xi) by (intros E; apply N3; eapply idxN_inj; eauto).
  assert (D4 : idxN v w <> idxN v xj) by (intros E; apply N4; eapply idxN_inj; eauto).
  assert (D5 : idxN v xi <> idxN v xj) by (intros E; apply N5; eapply idxN_inj; eauto).
  unfold better in Hbz, Hbw. unfold pair_step.
  (* what happens when v requires (a0 left, b0 right) and the loop goes on with forced1 *)
  assert (Hgo : forall a0 b0 forced1, is_perm2 a0 b0 z w -> req v a0 b0 -> good v a0 b0 ->
            fset forced1 a0 b0 -> FI0 forced1 z w ->
            (forall a b, is_perm2 a b z w -> fset forced a b -> fset forced1 a b) ->
            exists out, rec z w forced1 = Ok out /\ pair_spec Q (v :: vs) z w forced out).
  { intros a0 b0 forced1 Hp Hreq Hgood F1 HFI1 Hmono.
    destruct (Hrec forced1 (fun a b => Q a b \/ req v a b) HFI1) as (out & Eo & Hs).
    { intros a b Hab Fab. destruct (fset_perm_unique forced1 a b a0 b0 z w Hzw Hab Hp Fab F1) as [-> ->].
      now right. }
    exists out. split; [exact Eo|]. destruct out as [x' y' forced'| |ax ok]; simpl in *.
    - destruct Hs as (H1 & H2 & H3 & H4 & H5 & H6). split; [assumption|]. split; [assumption|].
      split; [intros a b Hab Fab; apply H3; auto|]. split; [|split].
      + intros [U1 U2]. exfalso. destruct (H3 a0 b0 Hp F1) as [G1 G2].
        destruct Hp as [[-> ->]|[-> ->]]; congruence.
      + intros a b Hab Fab u [<-|Hu]; [|now apply (H5 a b Hab Fab)].
        destruct (fset_perm_unique forced' a b a0 b0 z w Hzw Hab Hp Fab (H3 a0 b0 Hp F1)) as [-> ->].
        exact Hgood.
      + intros a b Hab Fab. destruct (H6 a b Hab Fab) as [[HQ'|Hr]|(u & Hu & Hr)].
        * now left.
        * right. exists v. split; [now left|assumption].
        * right. exists u. split; [now right|assumption].
    - destruct Hs as (a & b & Hab & H1 & (u & Hu & H2)). exists a, b. split; [assumption|]. split.
      + destruct H1 as [[HQ'|Hr]|(u' & Hu' & Hr)].
        * now left.
        * right. exists v. split; [now left|assumption].
        * right. exists u'. split; [now right|assumption].
      + exists u. split; [now right|assumption].
    - destruct Hs as (H1 & u & z' & w' & Hu & Hp' & H2). split; [assumption|].
      exists u, z', w'. split; [now right|]. split; assumption. }
  destruct ((idxN v z <? idxN v xj) && (idxN v w <? idxN v z) && (idxN v xi <? idxN v w)) eqn:B1.
  { apply andb_true_iff in B1. destruct B1 as [B1 B1c]. apply andb_true_iff in B1. destruct B1 as [B1a B1b].
    apply Nat.ltb_lt in B1a, B1b, B1c.
    eexists. split; [reflexivity|]. split; [reflexivity|].
    exists v, z, w. split; [now left|]. split; [left; auto|]. left. split; [|reflexivity].
    repeat split; assumption. }
  destruct ((idxN v z <? idxN v xi) && (idxN v w <? idxN v z) && (idxN v xj <? idxN v w)) eqn:B2.
  { apply andb_true_iff in B2. destruct B2 as [B2 B2c]. apply andb_true_iff in B2. destruct B2 as [B2a B2b].
    apply Nat.ltb_lt in B2a, B2b, B2c.
    eexists. split; [reflexivity|]. split; [reflexivity|].
    exists v, z, w. split; [now left|]. split; [left; auto|]. right. split; [|reflexivity].
    repeat split; assumption. }
  destruct ((idxN v z <? idxN v xi) && (idxN v xj <? idxN v z) && (idxN v w <? idxN v xj)) eqn:B3.
  { (* case 2.(c): z left, w right *)
    apply andb_true_iff in B3. destruct B3 as [B3 B3c]. apply andb_true_iff in B3. destruct B3 as [B3a B3b].
    apply Nat.ltb_lt in B3a, B3b, B3c.
    assert (Hreq : req v z w) by (left; repeat split; assumption).
    assert (Hgood : good v z w) by (split; assumption).
    assert (Hp : is_perm2 z w z w) by (left; auto).
    set (forced1 := fp_set (fp_set forced z SLeft) w SRight).
    assert (F1 : fset forced1 z w) by (now apply fset_after).
    assert (Hoth : forall k, k <> z -> k <> w -> fp_get forced1 k = fp_get forced k).
    { intros k K1 K2. unfold forced1. rewrite !fp_get_set_other by congruence. reflexivity. }
    destruct (forced_step forced forced1 z w z w Hzw Hp HFI F1 Hoth) as [Ht Hf].
    destruct (is_side (fp_get forced z) SRight || is_side (fp_get forced w) SLeft) eqn:Ec.
    - eexists. split; [reflexivity|]. exists w, z. split; [right; auto|]. split.
      + left. apply HQ; [right; auto|]. now apply Ht.
      + exists v. split; [now left|assumption].
    - destruct (Hf eq_refl) as [HFI1 Hmono]. now apply (Hgo z w forced1). }
  destruct ((idxN v z <? idxN v xj) && (idxN v xi <? idxN v z) && (idxN v w <? idxN v xi)) eqn:B4.
  { (* case 2.(c) inverse: w left, z right *)
    apply andb_true_iff in B4. destruct B4 as [B4 B4c]. apply andb_true_iff in B4. destruct B4 as [B4a B4b].
    apply Nat.ltb_lt in B4a, B4b, B4c.
    assert (Hreq : req v w z) by (right; repeat split; assumption).
    assert (Hgood : good v w z) by (split; assumption).
    assert (Hp : is_perm2 w z z w) by (right; auto).
    set (forced1 := fp_set (fp_set forced z SRight) w SLeft).
    assert (F1 : fset forced1 w z) by (apply fset_after'; congruence).
    assert (Hoth : forall k, k <> w -> k <> z -> fp_get forced1 k = fp_get forced k).
    { intros k K1 K2. unfold forced1. rewrite !fp_get_set_other by congruence. reflexivity. }
    assert (Hwz : w <> z) by congruence.
    destruct (forced_step forced forced1 w z z w Hwz Hp HFI F1 Hoth) as [Ht Hf].
    rewrite orb_comm.
    destruct (is_side (fp_get forced w) SRight || is_side (fp_get forced z) SLeft) eqn:Ec.
    - eexists. split; [reflexivity|]. exists z, w. split; [left; auto|]. split.
      + left. apply HQ; [left; auto|]. now apply Ht.
      + exists v. split; [now left|assumption].
    - destruct (Hf eq_refl) as [HFI1 Hmono]. now apply (Hgo w z forced1). }
  destruct ((idxN v z <? idxN v xi) && (idxN v z <? idxN v xj)) eqn:B5.
  { (* case 2.(b) *)
    apply andb_true_iff in B5. destruct B5 as [B5a B5b]. apply Nat.ltb_lt in B5a, B5b.
    assert (G1 : good v z w) by (split; unfold better; lia).
    assert (G2 : good v w z) by (split; unfold better; lia).
    destruct (Hrec forced Q HFI HQ) as (out & Eo & Hs).
    exists out. split; [exact Eo|]. destruct out as [x' y' forced'| |ax ok]; simpl in *.
    - destruct Hs as (H1 & H2 & H3 & H4 & H5 & H6). split; [assumption|]. split; [assumption|].
      split; [assumption|]. split; [|split].
      + intros U u [<-|Hu]; [split; assumption|now apply H4].
      + intros a b Hab Fab u [<-|Hu]; [|now apply (H5 a b Hab Fab)].
        destruct Hab as [[-> ->]|[-> ->]]; assumption.
      + intros a b Hab Fab. destruct (H6 a b Hab Fab) as [HQ'|(u & Hu & Hr)]; [now left|].
        right. exists u. split; [now right|assumption].
    - destruct Hs as (a & b & Hab & H1 & (u & Hu & H2)). exists a, b. split; [assumption|]. split.
      + destruct H1 as [HQ'|(u' & Hu' & Hr)]; [now left|]. right. exists u'. split; [now right|assumption].
      + exists u. split; [now right|assumption].
    - destruct Hs as (H1 & u & z' & w' & Hu & Hp' & H2). split; [assumption|].
      exists u, z', w'. split; [now right|]. split; assumption. }
  exfalso. apply andb_false_iff in B1, B2, B3, B4, B5.
  repeat match goal with H : _ \/ _ |- _ => destruct H end;
  repeat match goal with H : (_ && _) = false |- _ => apply andb_false_iff in H; destruct H end;
  repeat match goal with H : (_ <? _) = false |- _ => apply Nat.ltb_ge in H end; lia.
Qed.

Lemma pair_loop_spec vs : forall (Q : N -> N -> Prop) x y forced,
  x <> y -> (forall v, In v vs -> pvoter_ok x y v) -> FI0 forced x y ->
  (forall a b, is_perm2 a b x y -> fset forced a b -> Q a b) ->
  exists out, pair_loop all_prefs tal left right (Some xi) (Some xj) vs x y forced = Ok out /\
              pair_spec Q vs x y forced out.
Proof.
  induction vs as [|v vs IH]; intros Q x y forced Hxy Hok HFI HQ.
  - exists (PO_cont x y forced). split; [reflexivity|]. simpl.
    split; [left; auto|]. split; [assumption|]. split; [auto|]. split; [intros _ v []|].
    split; [intros a b _ _ v []|]. intros a b Hab Fab. left. now apply HQ.
  - destruct (Hok v (or_introl eq_refl)) as (Hx & Hy & Hxi & Hxj & N1 & N2 & N3 & N4 & N5 & Hbx & Hby).
    rewrite pair_loop_cons.
    rewrite (py_index_ok v x Hx), (py_index_ok v y Hy), (py_index_ok v xi Hxi), (py_index_ok v xj Hxj).
    cbn [rbind].
    assert (Dxy : idxN v x <> idxN v y) by (intros E; apply Hxy; eapply idxN_inj; eauto).
    destruct (idxN v x <? idxN v y) eqn:Esw.
    + apply Nat.ltb_lt in Esw.
      destruct (pair_step_spec Q (pair_loop all_prefs tal left right (Some xi) (Some xj) vs) v vs y x forced)
        as (out & Eo & Hs); auto.
      * repeat split; auto.
      * now apply FI0_sym.
      * intros a b Hab. apply HQ. now apply is_perm2_sym.
      * intros forced1 Q1 HFI1 HQ1. apply IH; auto.
        -- intros u Hu. destruct (Hok u (or_intror Hu)) as (A1 & A2 & A3 & A4 & A5 & A6 & A7 & A8 & A9 & A10 & A11).
           repeat split; auto.
      * exists out. split; [exact Eo|]. apply pair_spec_sym. exact Hs.
    + apply Nat.ltb_ge in Esw.
      destruct (pair_step_spec Q (pair_loop all_prefs tal left right (Some xi) (Some xj) vs) v vs x y forced)
        as (out & Eo & Hs); auto.
      * repeat split; auto.
      * lia.
      * intros forced1 Q1 HFI1 HQ1. apply IH; auto.
        intros u Hu. apply Hok. now right.
      * exists out. split; [exact Eo|exact Hs].
Qed.
End PairLoop.
