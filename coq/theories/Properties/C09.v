(* Properties/C09.v — matching (weighted digraph, .wmd) files survive write -> parse unchanged.
   Statements only; the proofs are in Proofs/WmdIO.v (+ WmdSort.v, WmdGraph.v, Meta.v).

   Model: Model/WmdIO.v (MatchingInstance.write / .parse, WeightedDiGraph, PrefLibInstance.parse_lines).
   The weight type W is abstract; the four hypotheses on its codec
       show_w = "{}".format(weight) (= repr of a float),  read_w = float(token)
   are facts about CPython that are NOT proved here (tested by the harness on every generated weight):
       H_read_show      float(repr(w)) == w  (bit-identical)
       H_show_nonempty  repr(w) is not empty
       H_show_no_comma  repr(w) contains no ","
       H_show_no_space  repr(w) contains no whitespace character: none of Python's 29 str.isspace code points,
                        which include U+0020 and all ten str.splitlines boundaries (linebreak_is_space).

   wf_core_rl W i  (Proofs/WmdIO.v; hypothesis of the file-path theorems)  :=  data_type "wmd"
     /\ every one of the nine header fields and every alternative name v satisfies  wf_field_rl v :=
           strip v = v  (no leading / trailing whitespace; v may be EMPTY)  /\  v contains no "\n" and no "\r";
        every other character is allowed: '#', ':', ',', digits, whole fake header or edge lines, and the eight
        str.splitlines boundaries that a file reader does not treat as line ends (\x0b \x0c \x1c \x1d \x1e \x85 U+2028
        U+2029) strictly inside a value; the keys of alternatives_name are distinct           [wf_fields_rl, wf_names_rl]
     /\ node_mapping is a dict (distinct keys) of duplicate-free sets whose elements are nodes   [wf_nmap];
        node ids are integers of EITHER SIGN (Z); the keys of alternatives_name are N: only non-negative ids
        can carry a name (the header pattern is (\d+)), so "named alternatives are non-negative" holds by type
     /\ the keys of the weight table are distinct and are exactly the stored edges  [wf_weights]
     /\ num_edges = number of stored edges  /\  there is at least one edge.
   wf_core W i is the same with wf_field v := wf_field_rl v /\ none of the ten str.splitlines boundaries in v; it is
     needed for parse_str only (C09_roundtrip_str, C10) and implies wf_core_rl (C09_wf_core_weaken).
   wf_wmd_rl W show_w read_w i := wf_core_rl W i /\ every weight w stored in i satisfies good_w w, i.e. the four codec
     facts for that w (the pointwise form: C09_roundtrip_pointwise needs no hypothesis on other weights).

   WHAT IS EXCLUDED, AND WHY (each class has a witness below on which the round trip really fails in the model; the
   harness runs the same witnesses on the implementation, label "excluded class ..."):
     (1) "\n" or "\r" inside a value: the reader cuts the line there (C09_newline_refuted, C09_cr_refuted: ValueError;
         C09_newline_silent_refuted: parse succeeds and silently truncates the value);
     (2) leading / trailing whitespace of a value: line.strip() / [k:].strip() removes it (C09_outer_space_refuted,
         C09_name_trailing_ff_refuted);
     (3) num_edges different from the number of edges: the writer copies the field, the parser recomputes it, so
         the second file differs from the first (C09_wrong_num_edges_refuted) - reading decision of DESIGN 7.0;
     (4) no edge at all: ValueError (C09_needs_an_edge) - the quantifier says "at least one edge";
     (5) a name on a negative node id: not expressible (keys are N) - the pattern (\d+) cannot read it back;
     (6) a stored neighbour without weight entry: write raises KeyError (wmd_write_ok); weight entries without edge,
         duplicate dict keys: not states of a WeightedDiGraph (add_node / add_edge preserve wf_nmap: build_wf);
     (7) weights whose token violates the codec facts (trusted, tested: CPython repr / float).

   same_content_rl W show_w read_w i i'  (Proofs/WmdIO.v)  :=
        w_meta i' = w_meta i with num_voters := num_alternatives (and the autocorrect scratch set empty):
          every header field, alternatives_name (same keys, names, order) and num_alternatives are unchanged
     /\ (forall n m, m in neighbours i' n  <->  m in neighbours i n)                 same set of directed edges
     /\ (forall k, weights i' [k] = weights i [k])                                    same weights (as elements of W)
     /\ (forall e, e in edges() of i' <-> e in edges() of i)                          edges() as (n1, n2, w) triples
     /\ (forall n, n is a node of i' <-> n is incident to an edge of i)               isolated nodes are lost
     /\ num_edges i' = number of stored edges of i' = num_edges i
     /\ wf_wmd_rl W show_w read_w i'.
   (same_content: the same with wf_wmd i' as last clause.) *)
From Coq Require Import List NArith ZArith Bool String Permutation Sorted.
From PrefVerif Require Import Lib.Val Lib.Dec Lib.DecZ Lib.PyStr Model.Meta Model.WmdIO.
From PrefVerif Require Import Proofs.Meta Proofs.WmdSort Proofs.WmdGraph Proofs.WmdIO.
Import ListNotations.
Open Scope string_scope.
Open Scope N_scope.

Print wf_field_rl.
Print wf_fields_rl.
Print wf_names_rl.
Print wf_core_rl.
Print good_w.
Print wf_wmd_rl.
Print wf_core.
Print wf_field.
Print wf_nmap.
Print wf_weights.
Print same_content_rl.
Print reparsed_meta.
Print incident.

Section C09.
  Variable W : Type.
  Variable show_w : W -> text.
  Variable read_w : text -> option W.
  Hypothesis H_read_show : forall w, read_w (show_w w) = Some w.
  Hypothesis H_show_nonempty : forall w, show_w w <> [].
  Hypothesis H_show_no_comma : forall w, forallb (fun c => negb (N.eqb c 44)) (show_w w) = true.
  Hypothesis H_show_no_space : forall w, forallb (fun c => negb (is_space c)) (show_w w) = true.

  (* write, read the file back with parse_file: the parse succeeds and the instance has the same content *)
  Theorem C09_roundtrip : forall i : winst W, wf_core_rl W i ->
    exists i', wmd_parse W read_w false false (meta0 (lit "wmd")) (readlines (wmd_write W show_w i)) = Ok i'
               /\ same_content_rl W show_w read_w i i'.
  Proof. exact (codec_roundtrip_rl W show_w read_w H_read_show H_show_nonempty H_show_no_comma H_show_no_space). Qed.

  (* writing the re-parsed instance reproduces the file byte for byte (code point for code point) *)
  Theorem C09_idempotent : forall i i' : winst W, wf_core_rl W i ->
    wmd_parse W read_w false false (meta0 (lit "wmd")) (readlines (wmd_write W show_w i)) = Ok i' ->
    wmd_write W show_w i' = wmd_write W show_w i.
  Proof. exact (codec_idempotent_rl W show_w read_w H_read_show H_show_nonempty H_show_no_comma H_show_no_space). Qed.

  (* the re-parsed instance explicitly (the graph rebuilt by add_edge along the sorted edge list), through
     parse_file (readlines) and - under the stronger wf_core: no str.splitlines boundary inside a value - through
     parse_str (splitlines) *)
  Theorem C09_roundtrip_file : forall i : winst W, wf_core_rl W i ->
    wmd_parse W read_w false false (meta0 (lit "wmd")) (readlines (wmd_write W show_w i)) = Ok (reparsed W i).
  Proof. exact (codec_roundtrip_readlines_rl W show_w read_w H_read_show H_show_nonempty H_show_no_comma H_show_no_space). Qed.

  Theorem C09_roundtrip_str : forall i : winst W, wf_core W i ->
    wmd_parse W read_w false false (meta0 (lit "wmd")) (splitlines (wmd_write W show_w i)) = Ok (reparsed W i).
  Proof. exact (codec_roundtrip_splitlines W show_w read_w H_read_show H_show_nonempty H_show_no_comma H_show_no_space). Qed.

  (* header_only = True on the written file: same header fields, names and counts, num_edges as printed in the
     header, num_voters = num_alternatives, empty graph (used by C10) *)
  Theorem C09_header_only : forall i : winst W, wf_core_rl W i ->
    wmd_parse W read_w false true (meta0 (lit "wmd")) (readlines (wmd_write W show_w i)) =
    Ok (mkW (reparsed_meta (w_meta i)) (w_num_edges i) [] []).
  Proof. exact (codec_header_only_rl W show_w read_w H_read_show H_show_nonempty H_show_no_comma H_show_no_space). Qed.
End C09.

(* the pointwise form: only the weights stored in the instance have to be printed / read back faithfully *)
Theorem C09_roundtrip_pointwise : forall W show_w read_w (i : winst W), wf_wmd_rl W show_w read_w i ->
  wmd_parse W read_w false false (meta0 (lit "wmd")) (readlines (wmd_write W show_w i)) = Ok (reparsed W i)
  /\ same_content_rl W show_w read_w i (reparsed W i)
  /\ wmd_write W show_w (reparsed W i) = wmd_write W show_w i.
Proof.
  intros W show_w read_w i H. split; [exact (roundtrip_readlines_rl W show_w read_w i H)|].
  split; [exact (reparsed_same_content_rl W show_w read_w i H)|exact (write_reparsed_rl W show_w read_w i H)].
Qed.

(* the hypothesis of the file-path theorems is weaker than the one needed for parse_str *)
Theorem C09_wf_core_weaken : forall W (i : winst W), wf_core W i -> wf_core_rl W i.
Proof. exact wf_core_weaken. Qed.

(* no written line is mis-classified by the header loop, whatever '#', ':', ',' or digits the values contain *)
Theorem C09_lines_classified : forall W show_w read_w (i : winst W), wf_wmd_rl W show_w read_w i ->
  Forall hdr_ok (meta_lines (w_meta i) ++ [count_alts_line (num_alternatives (w_meta i))] ++
                 alt_name_lines (alt_names (w_meta i))) /\
  (is_hash_line (strip (count_edges_line (w_num_edges i))) = true /\
   startswith (lit "# NUMBER EDGES") (strip (count_edges_line (w_num_edges i))) = true /\
   py_int (drop 15 (strip (count_edges_line (w_num_edges i)))) = Ok (w_num_edges i)) /\
  Forall (fun l => is_hash_line (strip (l ++ nl)%list) = false) (elines W show_w (sorted_weights W i)).
Proof. exact lines_classified. Qed.
Print hdr_ok.

(* the instantiation that is extracted and run by the harness (Ops/C09.v): a weight is its raw token; tok_ok t =
   the token is non-empty and contains neither "," nor whitespace *)
Print tok_ok.
Theorem C09_roundtrip_tokens : forall i : twinst,
  wf_core_rl text i -> Forall (fun e => tok_ok (snd e) = true) (w_weights i) ->
  exists i', wmd_parse_tok false false (meta0 (lit "wmd")) (readlines (wmd_write_tok i)) = Ok i'
             /\ same_content_rl text tok_show tok_read i i'.
Proof. intros i H F. apply tok_roundtrip_rl. now split. Qed.

Theorem C09_idempotent_tokens : forall i i' : twinst,
  wf_core_rl text i -> Forall (fun e => tok_ok (snd e) = true) (w_weights i) ->
  wmd_parse_tok false false (meta0 (lit "wmd")) (readlines (wmd_write_tok i)) = Ok i' ->
  wmd_write_tok i' = wmd_write_tok i.
Proof. intros i i' H F. apply tok_idempotent_rl. now split. Qed.

(* the sort used by the writer sorts *)
Theorem C09_sort_sorts : forall l, StronglySorted Z.le (isort_Z l) /\ Permutation l (isort_Z l).
Proof. intros l. split; [apply isort_Z_sorted|apply isort_Z_perm]. Qed.

(* node ids are printed and read back exactly, whatever their sign *)
Theorem C09_node_id_codec : forall z, py_int_Z (show_Z z) = Ok z.
Proof. exact py_int_show_Z. Qed.

(* parse_lines refuses every declared type other than wmd *)
Theorem C09_type_gate : forall W read_w ac ho m ls,
  teqb (data_type m) (lit "wmd") = false -> wmd_parse W read_w ac ho m ls = Err TypeErr.
Proof. intros W read_w ac ho m ls H. unfold wmd_parse. now rewrite H. Qed.

Print Assumptions C09_roundtrip.
Print Assumptions C09_idempotent.
Print Assumptions C09_roundtrip_file.
Print Assumptions C09_roundtrip_str.
Print Assumptions C09_header_only.
Print Assumptions C09_roundtrip_pointwise.
Print Assumptions C09_wf_core_weaken.
Print Assumptions C09_lines_classified.
Print Assumptions C09_roundtrip_tokens.
Print Assumptions C09_idempotent_tokens.
Print Assumptions C09_sort_sorts.
Print Assumptions C09_node_id_codec.
Print Assumptions C09_type_gate.

(* ---- non-vacuity: W := N with decimal printing satisfies the four hypotheses, and a concrete instance with a
   self-loop, antiparallel edges, an isolated node, an empty name, unsorted insertion order is well-formed ---- *)
Example C09_codec_N :
  (forall w, read_N (show_N w) = Some w) /\ (forall w, show_N w <> []) /\
  (forall w, forallb (fun c => negb (N.eqb c 44)) (show_N w) = true) /\
  (forall w, forallb (fun c => negb (is_space c)) (show_N w) = true).
Proof.
  split; [exact read_show_N|]. split; [exact show_N_nonempty|].
  split; intros w; apply show_N_all; intros c H; apply (digit_facts c H).
Qed.

Definition ex_meta : meta :=
  mkMeta (lit "ex.wmd") (lit "A title, with: separators # {}") [] (lit "wmd") (lit "synthetic") [] (lit "a.wmd,b.wmd")
         (lit "2024-01-01") (lit "2024-01-02") 3 17
         [(2, lit "second one"); (1, []); (3, lit "c")] [].
(* negative source, negative target, negative self-loop, antiparallel edges, isolated node 3 *)
Definition ex_inst : winst N :=
  mkW ex_meta 3 [(-2, [-2; 1]); (1, [-2]); (3, [])]%Z
      [((-2, -2)%Z, 0); ((1, -2)%Z, 7); ((-2, 1)%Z, 1000000000000000000000)].

Example C09_ex_wf : wf_core N ex_inst.
Proof.
  unfold wf_core, ex_inst, ex_meta. cbn [w_meta w_nodes w_weights w_num_edges data_type alt_names].
  split; [reflexivity|]. split.
  { unfold wf_fields, wf_field, wf_value. cbn [file_name title description data_type modification_type relates_to
      related_files publication_date modification_date]. repeat split; vm_compute; reflexivity. }
  split.
  { split.
    - repeat constructor; vm_compute; reflexivity.
    - repeat constructor; cbn; intuition discriminate. }
  split.
  { split; [repeat constructor; cbn; intuition discriminate|]. split.
    - intros n. unfold nbrs. cbn [assoc_get].
      destruct (Z.eqb n (-2)); [repeat constructor; cbn; intuition discriminate|].
      destruct (Z.eqb n 1); [repeat constructor; cbn; intuition discriminate|].
      destruct (Z.eqb n 3); constructor.
    - intros n m. unfold nbrs. cbn [assoc_get keys map fst].
      destruct (Z.eqb n (-2)); [cbn; intuition|]. destruct (Z.eqb n 1); [cbn; intuition|].
      destruct (Z.eqb n 3); cbn; intuition. }
  split.
  { split; [repeat constructor; cbn; intuition discriminate|].
    intros n m. unfold nbrs. cbn [w_nodes w_weights assoc_get keys map fst]. split.
    - intros [H|[H|[H|[]]]]; injection H as <- <-; cbn; auto.
    - destruct (Z.eqb_spec n (-2)) as [->|]; [cbn; intuition (subst; auto)|].
      destruct (Z.eqb_spec n 1) as [->|]; [cbn; intuition (subst; auto)|].
      destruct (Z.eqb n 3); cbn; intuition. }
  split; [reflexivity|discriminate].
Qed.

(* the theorems applied to it: the file is read back; node 3 (isolated) is gone, everything else is there *)
Example C09_ex_roundtrip :
  wmd_parse N read_N false false (meta0 (lit "wmd")) (readlines (wmd_write N show_N ex_inst)) =
  Ok (mkW (set_num_voters ex_meta 3) 3 [(-2, [-2; 1]); (1, [-2])]%Z
          [((-2, -2)%Z, 0); ((-2, 1)%Z, 1000000000000000000000); ((1, -2)%Z, 7)]).
Proof. vm_compute. reflexivity. Qed.

(* the hypothesis "at least one edge" cannot be dropped: with no edge the last header line is taken for an
   edge line (the loop variable of the header loop keeps its last value) and parsing raises ValueError.
   The witness satisfies every other clause of wf_core. *)
Definition ex_noedge : winst N := mkW ex_meta 0 [(1, []); (-2, [])]%Z [].

Theorem C09_needs_an_edge : exists i : winst N,
  (data_type (w_meta i) = lit "wmd" /\ wf_fields (w_meta i) /\ wf_names (alt_names (w_meta i)) /\
   wf_nmap (w_nodes i) /\ wf_weights N i /\ w_num_edges i = N.of_nat (List.length (all_edges (w_nodes i)))) /\
  all_edges (w_nodes i) = [] /\
  wmd_parse N read_N false false (meta0 (lit "wmd")) (readlines (wmd_write N show_N i)) = Err ValueErr.
Proof.
  exists ex_noedge. split; [|split; [reflexivity|vm_compute; reflexivity]].
  destruct C09_ex_wf as (H1 & H2 & H3 & _). unfold ex_noedge. cbn [w_meta w_nodes w_weights w_num_edges] in *.
  split; [exact H1|]. split; [exact H2|]. split; [exact H3|]. split.
  { split; [repeat constructor; cbn; intuition discriminate|]. split.
    - intros n. unfold nbrs. cbn [assoc_get]. destruct (Z.eqb n 1); [constructor|]. destruct (Z.eqb n (-2)); constructor.
    - intros n m. unfold nbrs. cbn [assoc_get keys map fst].
      destruct (Z.eqb n 1); [cbn; intuition|]. destruct (Z.eqb n (-2)); cbn; intuition. }
  split; [|reflexivity].
  split; [constructor|]. intros n m. unfold nbrs. cbn [w_nodes w_weights assoc_get keys map fst]. split; [intros []|].
  destruct (Z.eqb n 1); [cbn; intuition|]. destruct (Z.eqb n (-2)); cbn; intuition.
Qed.
Print Assumptions C09_needs_an_edge.

(* ---- the excluded classes really fail: witnesses (ex_inst with one field changed); rt = write, then parse_file ---- *)
Open Scope list_scope.
Definition rt (i : winst N) : result (winst N) :=
  wmd_parse N read_N false false (meta0 (lit "wmd")) (readlines (wmd_write N show_N i)).
Definition with_meta (m : meta) : winst N := mkW m (w_num_edges ex_inst) (w_nodes ex_inst) (w_weights ex_inst).

(* (1) "\n" / "\r" strictly inside a value that strip() leaves alone: the reader cuts the line, the rest is taken
   for an edge line -> ValueError *)
Theorem C09_newline_refuted :
  let v := lit "a" ++ [10] ++ lit "b" in strip v = v /\ rt (with_meta (set_title ex_meta v)) = Err ValueErr.
Proof. split; vm_compute; reflexivity. Qed.
Theorem C09_cr_refuted :
  let v := lit "a" ++ [13] ++ lit "b" in strip v = v /\ rt (with_meta (set_title ex_meta v)) = Err ValueErr.
Proof. split; vm_compute; reflexivity. Qed.
Theorem C09_name_newline_refuted :
  let v := lit "x" ++ [10] ++ lit "y" in strip v = v /\ rt (with_meta (set_alt_names ex_meta [(1, v)])) = Err ValueErr.
Proof. split; vm_compute; reflexivity. Qed.
(* ... or, when the rest happens to look like a header line, the parse succeeds and the value is silently cut *)
Theorem C09_newline_silent_refuted :
  let v := lit "a" ++ [10] ++ lit "# b" in
  strip v = v /\ rmap (fun i' => title (w_meta i')) (rt (with_meta (set_title ex_meta v))) = Ok (lit "a").
Proof. split; vm_compute; reflexivity. Qed.
(* (2) outer whitespace of a value is stripped by the parser: " a" comes back as "a", "x\x0c" as "x" *)
Theorem C09_outer_space_refuted :
  rmap (fun i' => title (w_meta i')) (rt (with_meta (set_title ex_meta (lit " a")))) = Ok (lit "a").
Proof. vm_compute. reflexivity. Qed.
Theorem C09_name_trailing_ff_refuted :
  rmap (fun i' => alt_names (w_meta i')) (rt (with_meta (set_alt_names ex_meta [(1, lit "x" ++ [12])]))) = Ok [(1, lit "x")].
Proof. vm_compute. reflexivity. Qed.
(* (3) num_edges that is not the number of edges (5 for 3 edges): the parser recomputes it, the second file differs *)
Theorem C09_wrong_num_edges_refuted :
  let i := mkW ex_meta 5 (w_nodes ex_inst) (w_weights ex_inst) in
  rmap (fun i' => (w_num_edges i', teqb (wmd_write N show_N i') (wmd_write N show_N i))) (rt i) = Ok (3, false).
Proof. vm_compute. reflexivity. Qed.
(* (4) no edge: C09_needs_an_edge above *)
Print Assumptions C09_newline_refuted.
Print Assumptions C09_wrong_num_edges_refuted.

(* inside the weakened hypothesis: '#', ':', ',' , a fake NUMBER EDGES line as title, a fake edge line as name, a
   form feed and U+2028 strictly inside values *)
Definition ex_tricky : winst N :=
  with_meta (mkMeta (lit "# NUMBER EDGES: 99") (lit "# ALTERNATIVE NAME 1: zz") (lit ": ,# {") (lit "wmd") (lit "1, 2, 0.5")
                    (lit "Ward" ++ [12] ++ lit "4") (lit "St Mary" ++ [8232] ++ lit "(annex)") (lit "#") (lit ":")
                    3 17 [(2, lit "# NUMBER ALTERNATIVES: 7"); (1, lit "-2, 1, 9"); (3, lit "a" ++ [133; 11] ++ lit "b")] []).
Example C09_ex_tricky :
  wf_fields_rl (w_meta ex_tricky) /\ wf_names_rl (alt_names (w_meta ex_tricky)) /\
  rmap (fun i' => w_meta i') (rt ex_tricky) = Ok (set_num_voters (w_meta ex_tricky) 3) /\
  rmap (fun i' => teqb (wmd_write N show_N i') (wmd_write N show_N ex_tricky)) (rt ex_tricky) = Ok true.
Proof.
  split.
  { unfold wf_fields_rl, wf_field_rl, wf_value. cbn [ex_tricky with_meta w_meta file_name title description data_type
      modification_type relates_to related_files publication_date modification_date]. repeat split; vm_compute; reflexivity. }
  split.
  { split.
    - repeat constructor; vm_compute; reflexivity.
    - repeat constructor; cbn; intuition discriminate. }
  split; vm_compute; reflexivity.
Qed.
