"""Line protocol shared with coq/oracle/main.ml:  <val> ::= <integer> | "(" <val>* ")"."""
import hashlib


def enc(x):
    if isinstance(x, bool):
        return "1" if x else "0"
    if isinstance(x, int):
        return str(x)
    if isinstance(x, (list, tuple)):
        return "(" + " ".join(enc(y) for y in x) + ")"
    # numpy ints and the like
    try:
        return str(int(x))
    except Exception:
        raise TypeError(f"cannot encode {x!r}")


def dec(s):
    s = s.strip()
    if s.startswith("!ERR"):
        return {"oracle_error": s[5:]}
    out, stack, i, n = None, [], 0, len(s)
    while i < n:
        c = s[i]
        if c == "(":
            stack.append([])
            i += 1
        elif c == ")":
            top = stack.pop()
            if stack:
                stack[-1].append(top)
            else:
                out = top
            i += 1
        elif c == " ":
            i += 1
        else:
            j = i
            while j < n and s[j] not in " ()":
                j += 1
            v = int(s[i:j])
            if stack:
                stack[-1].append(v)
            else:
                out = v
            i = j
    return out


def norm(x):
    """tuples -> lists, bools -> ints, numpy ints -> ints (the shape the decoder produces)."""
    if isinstance(x, bool):
        return 1 if x else 0
    if isinstance(x, int):
        return x
    if isinstance(x, (list, tuple)):
        return [norm(y) for y in x]
    if isinstance(x, dict) and "oracle_error" in x:
        return x
    return int(x)


def text(s):
    """str -> list of code points"""
    return [ord(c) for c in s]


def untext(l):
    return "".join(chr(c) for c in l)


def sha(op, payload):
    return hashlib.sha256((op + " " + enc(payload)).encode()).hexdigest()


OK = 0
ERR = 1
E_TYPE, E_INCOMPAT, E_VALUE, E_FUEL, E_OTHER = 1, 2, 3, 4, 5


def ok(x):
    return [0, x]


def err(code):
    return [1, code]
