(* Properties/C20.v — ranking distances are true distances; distance matrix matches the profile.
   Statements only; every proof is `exact <lemma of Proofs/Distances.v>`.

   Model (Model/Distances.v): rankings are `list N`; `idx o x` is `o.index(x)` (position of the first
   occurrence, `length o` when absent); `kendall_tau`, `spearman_footrule`, `sertel` return
   `Ok value | Err ValueErr`; the two normalised distances return the exact pair (numerator, denominator)
   that the code divides; `distance_matrix zero d profile` is the generic matrix builder and
   `expand_profile` is `full_profile()`.
   Hypotheses of the quantifier "strict rankings of the same set": `NoDup o1` and `Permutation o1 o2`;
   "at least two alternatives" (`2 <= length o1`) is only needed for the denominators to be positive. *)
From Coq Require Import List Arith NArith Bool Permutation.
From PrefVerif Require Import Lib.Val Model.Distances Proofs.Distances.
Import ListNotations.

(* ---- what `idx` means ------------------------------------------------------------------------- *)

Theorem idx_position : forall (l : list N) (i : nat) (d : N),
  NoDup l -> i < length l -> idx l (nth i l d) = i.
Proof. exact Proofs.Distances.idx_nth. Qed.
Print Assumptions idx_position.

(* "a before b in o"  <->  idx o a < idx o b *)
Theorem idx_before_iff : forall (o : list N) (a b : N), NoDup o ->
  ((In a o /\ In b o /\ idx o a < idx o b) <-> exists l1 l2 l3, o = l1 ++ a :: l2 ++ b :: l3).
Proof. exact Proofs.Distances.idx_before_iff. Qed.
Print Assumptions idx_before_iff.

(* ---- Kendall tau ------------------------------------------------------------------------------ *)

(* = the number of ordered pairs (a,b) of alternatives with a before b in o1 and b before a in o2 *)
Theorem kt_spec : forall o1 o2 : list N, NoDup o1 -> Permutation o1 o2 ->
  kendall_tau o1 o2 =
  Ok (length (filter (fun ab => (idx o1 (fst ab) <? idx o1 (snd ab)) && (idx o2 (snd ab) <? idx o2 (fst ab)))
                     (list_prod o1 o1))).
Proof. exact Proofs.Distances.kt_spec. Qed.
Print Assumptions kt_spec.

Theorem kt_zero_iff : forall o1 o2 : list N, NoDup o1 -> Permutation o1 o2 ->
  (kendall_tau o1 o2 = Ok 0 <-> o1 = o2).
Proof. exact Proofs.Distances.kt_zero_iff. Qed.
Print Assumptions kt_zero_iff.

Theorem kt_sym : forall o1 o2 : list N, NoDup o1 -> Permutation o1 o2 ->
  kendall_tau o1 o2 = kendall_tau o2 o1.
Proof. exact Proofs.Distances.kt_sym. Qed.
Print Assumptions kt_sym.

Theorem kt_triangle : forall a b c : list N, NoDup a -> Permutation a b -> Permutation b c ->
  exists dab dbc dac, kendall_tau a b = Ok dab /\ kendall_tau b c = Ok dbc /\ kendall_tau a c = Ok dac /\
                      dac <= dab + dbc.
Proof. exact Proofs.Distances.kt_triangle. Qed.
Print Assumptions kt_triangle.

Theorem kt_length_mismatch : forall o1 o2 : list N, length o1 <> length o2 ->
  kendall_tau o1 o2 = Err ValueErr.
Proof. exact Proofs.Distances.kt_length_mismatch. Qed.
Print Assumptions kt_length_mismatch.

(* ---- Spearman footrule ------------------------------------------------------------------------ *)

(* the numerator is the sum over the alternatives x of |position of x in o1 - position of x in o2| *)
Theorem footrule_num_spec : forall o1 o2 : list N, NoDup o1 ->
  footrule_num o1 o2 = list_sum (map (fun x => (idx o1 x - idx o2 x) + (idx o2 x - idx o1 x)) o1).
Proof. exact Proofs.Distances.footrule_num_sum. Qed.
Print Assumptions footrule_num_spec.

Theorem footrule_sym : forall o1 o2 : list N, NoDup o1 -> Permutation o1 o2 ->
  spearman_footrule o1 o2 = spearman_footrule o2 o1.
Proof. exact Proofs.Distances.footrule_sym. Qed.
Print Assumptions footrule_sym.

Theorem footrule_zero_iff : forall o1 o2 : list N, NoDup o1 -> Permutation o1 o2 ->
  ((exists den, spearman_footrule o1 o2 = Ok (0, den)) <-> o1 = o2).
Proof. exact Proofs.Distances.footrule_zero_iff. Qed.
Print Assumptions footrule_zero_iff.

(* numerator <= floor(n^2 / 2), the denominator used by the code *)
Theorem footrule_bound : forall o1 o2 : list N, NoDup o1 -> Permutation o1 o2 ->
  footrule_num o1 o2 <= (length o1 * length o1) / 2.
Proof. exact Proofs.Distances.footrule_bound. Qed.
Print Assumptions footrule_bound.

(* ... and floor(n^2 / 2) is exactly the largest possible numerator: the reversed ranking attains it *)
Theorem footrule_bound_tight : forall o : list N, NoDup o ->
  footrule_num o (rev o) = (length o * length o) / 2.
Proof. exact Proofs.Distances.footrule_bound_tight. Qed.
Print Assumptions footrule_bound_tight.

(* the value num/den lies in [0, 1] *)
Theorem footrule_range : forall o1 o2 : list N, NoDup o1 -> Permutation o1 o2 -> 2 <= length o1 ->
  exists num den, spearman_footrule o1 o2 = Ok (num, den) /\ 0 < den /\ num <= den.
Proof. exact Proofs.Distances.footrule_range. Qed.
Print Assumptions footrule_range.

Theorem footrule_length_mismatch : forall o1 o2 : list N, length o1 <> length o2 ->
  spearman_footrule o1 o2 = Err ValueErr.
Proof. exact Proofs.Distances.footrule_length_mismatch. Qed.
Print Assumptions footrule_length_mismatch.

(* ---- Sertel ----------------------------------------------------------------------------------- *)

(* symmetric on all pairs of lists (both sides are Err ValueErr when the lengths differ) *)
Theorem sertel_sym : forall o1 o2 : list N, sertel o1 o2 = sertel o2 o1.
Proof. exact Proofs.Distances.sertel_sym. Qed.
Print Assumptions sertel_sym.

Theorem sertel_zero_iff : forall o1 o2 : list N, Permutation o1 o2 ->
  ((exists den, sertel o1 o2 = Ok (0, den)) <-> o1 = o2).
Proof. exact Proofs.Distances.sertel_zero_iff. Qed.
Print Assumptions sertel_zero_iff.

Theorem sertel_range : forall o1 o2 : list N, length o1 = length o2 -> 2 <= length o1 ->
  exists num den, sertel o1 o2 = Ok (num, den) /\ 0 < den /\ num <= den.
Proof. exact Proofs.Distances.sertel_range. Qed.
Print Assumptions sertel_range.

(* the loop index j of the code: the lists agree before j and differ at j; (len - 1 - j) is never negative *)
Theorem sertel_first_diff : forall (o1 o2 : list N) (j : nat), first_diff o1 o2 = Some j ->
  j < length o1 /\ j < length o2 /\ firstn j o1 = firstn j o2 /\ nth j o1 0%N <> nth j o2 0%N.
Proof. exact Proofs.Distances.first_diff_Some. Qed.
Print Assumptions sertel_first_diff.

Theorem sertel_j_le : forall o1 o2 : list N, sertel_j o1 o2 <= length o1 - 1.
Proof. exact Proofs.Distances.sertel_j_le. Qed.
Print Assumptions sertel_j_le.

Theorem sertel_length_mismatch : forall o1 o2 : list N, length o1 <> length o2 ->
  sertel o1 o2 = Err ValueErr.
Proof. exact Proofs.Distances.sertel_length_mismatch. Qed.
Print Assumptions sertel_length_mismatch.

(* ---- distance_matrix / full_profile ----------------------------------------------------------- *)

Theorem dm_spec : forall (T D : Type) (zero : D) (d : T -> T -> D) (profile : list T),
  length (distance_matrix zero d profile) = length profile /\
  (forall i, i < length profile -> length (nth i (distance_matrix zero d profile) []) = length profile) /\
  (forall i, i < length profile -> nth i (nth i (distance_matrix zero d profile) []) zero = zero) /\
  (forall i j dflt, i < length profile -> j < length profile -> i <> j ->
     nth j (nth i (distance_matrix zero d profile) []) zero = d (nth i profile dflt) (nth j profile dflt)) /\
  ((forall a b, In a profile -> In b profile -> d a b = d b a) ->
   forall i j, i < length profile -> j < length profile ->
     nth j (nth i (distance_matrix zero d profile) []) zero =
     nth i (nth j (distance_matrix zero d profile) []) zero).
Proof. exact (@Proofs.Distances.dm_spec). Qed.
Print Assumptions dm_spec.

(* num_voters = sum of the multiplicities *)
Theorem expand_profile_length : forall (T : Type) (p : list (T * N)),
  length (expand_profile p) = list_sum (map (fun om => N.to_nat (snd om)) p).
Proof. exact (@Proofs.Distances.expand_length). Qed.
Print Assumptions expand_profile_length.

(* every order occurs in the full profile exactly as many times as its multiplicity *)
Theorem expand_profile_count : forall (T : Type) (dec : forall x y : T, {x = y} + {x <> y})
    (p : list (T * N)) (o : T) (k : N),
  NoDup (map fst p) -> In (o, k) p -> count_occ dec (expand_profile p) o = N.to_nat k.
Proof. exact (@Proofs.Distances.expand_count). Qed.
Print Assumptions expand_profile_count.

Theorem expand_profile_count_other : forall (T : Type) (dec : forall x y : T, {x = y} + {x <> y})
    (p : list (T * N)) (o : T),
  ~ In o (map fst p) -> count_occ dec (expand_profile p) o = 0.
Proof. exact (@Proofs.Distances.expand_count_notin). Qed.
Print Assumptions expand_profile_count_other.

(* the three matrices of an instance of strict complete orders over `alts`, any multiplicities:
   n x n with n = number of voters, symmetric, zero diagonal, entry (i,j) = distance of ballots i and j
   (for Kendall tau: the number of discordant pairs of the two ballots) *)
Theorem dm_instance : forall (alts : list N) (p : list (list N * N)),
  (NoDup alts /\ Forall (fun om => Permutation alts (fst om)) p) ->
  let prof := expand_profile p in
  let n := list_sum (map (fun om => N.to_nat (snd om)) p) in
  let Mk := distance_matrix (Ok 0) kendall_tau prof in
  let Mf := distance_matrix (Ok (0, 1)) spearman_footrule prof in
  let Ms := distance_matrix (Ok (0, 1)) sertel prof in
  length prof = n /\
  length Mk = n /\ length Mf = n /\ length Ms = n /\
  forall i j, i < n -> j < n ->
    length (nth i Mk []) = n /\ length (nth i Mf []) = n /\ length (nth i Ms []) = n /\
    nth j (nth i Mk []) (Ok 0) = nth i (nth j Mk []) (Ok 0) /\
    nth j (nth i Mf []) (Ok (0, 1)) = nth i (nth j Mf []) (Ok (0, 1)) /\
    nth j (nth i Ms []) (Ok (0, 1)) = nth i (nth j Ms []) (Ok (0, 1)) /\
    nth i (nth i Mk []) (Ok 0) = Ok 0 /\
    nth i (nth i Mf []) (Ok (0, 1)) = Ok (0, 1) /\
    nth i (nth i Ms []) (Ok (0, 1)) = Ok (0, 1) /\
    (i <> j ->
      nth j (nth i Mk []) (Ok 0) = Ok (discordant_pairs (nth i prof []) (nth j prof [])) /\
      nth j (nth i Mf []) (Ok (0, 1)) = spearman_footrule (nth i prof []) (nth j prof []) /\
      nth j (nth i Ms []) (Ok (0, 1)) = sertel (nth i prof []) (nth j prof [])).
Proof. exact Proofs.Distances.dm_instance. Qed.
Print Assumptions dm_instance.

(* ---- non-vacuity: the hypotheses are satisfiable and the functions compute what is claimed ----- *)

Example ex_hypotheses : NoDup [3;1;2;5;4]%N /\ Permutation [3;1;2;5;4]%N [1;2;3;4;5]%N.
Proof. apply rankings_ok_sound. vm_compute. reflexivity. Qed.

Example ex_hypotheses_triple :
  NoDup [7;20;3;11]%N /\ Permutation [7;20;3;11]%N [3;7;11;20]%N /\ Permutation [3;7;11;20]%N [20;11;7;3]%N.
Proof.
  split; [apply (rankings_ok_sound [7;20;3;11]%N [3;7;11;20]%N); vm_compute; reflexivity|].
  split; [apply (rankings_ok_sound [7;20;3;11]%N [3;7;11;20]%N); vm_compute; reflexivity|].
  apply (rankings_ok_sound [3;7;11;20]%N [20;11;7;3]%N); vm_compute; reflexivity.
Qed.

(* discordant pairs (3,1) (3,2) (5,4) *)
Example ex_kt : kendall_tau [3;1;2;5;4]%N [1;2;3;4;5]%N = Ok 3.
Proof. vm_compute. reflexivity. Qed.

Example ex_kt_reverse : kendall_tau [1;2;3;4]%N [4;3;2;1]%N = Ok 6.
Proof. vm_compute. reflexivity. Qed.

(* triangle inequality, strict and tight instances: 2 <= 3 + 5 and 6 = 2 + 4 *)
Example ex_kt_triangle :
  kendall_tau [7;20;3;11]%N [3;7;11;20]%N = Ok 3 /\ kendall_tau [3;7;11;20]%N [20;7;11;3]%N = Ok 5 /\
  kendall_tau [7;20;3;11]%N [20;7;11;3]%N = Ok 2 /\
  kendall_tau [1;2;3;4]%N [2;1;4;3]%N = Ok 2 /\ kendall_tau [2;1;4;3]%N [4;3;2;1]%N = Ok 4.
Proof. vm_compute. repeat split; reflexivity. Qed.

(* the footrule bound floor(n^2/2) is attained by the reversed ranking, for odd and even n *)
Example ex_footrule_max :
  spearman_footrule [1;2;3;4;5]%N [5;4;3;2;1]%N = Ok (12, 12) /\
  spearman_footrule [1;2;3;4]%N [4;3;2;1]%N = Ok (8, 8).
Proof. vm_compute. split; reflexivity. Qed.

Example ex_footrule : spearman_footrule [3;1;2;5;4]%N [1;2;3;4;5]%N = Ok (6, 12).
Proof. vm_compute. reflexivity. Qed.

Example ex_sertel :
  sertel [1;2;3]%N [1;3;2]%N = Ok (1, 2) /\ sertel [1;2;3]%N [3;1;2]%N = Ok (2, 2) /\
  sertel [1;2;3]%N [1;2;3]%N = Ok (0, 2).
Proof. vm_compute. repeat split; reflexivity. Qed.

Example ex_length_mismatch :
  kendall_tau [1;2;3]%N [1;2]%N = Err ValueErr /\ spearman_footrule [1;2]%N [2;1;3]%N = Err ValueErr /\
  sertel []%N [1]%N = Err ValueErr.
Proof. vm_compute. repeat split; reflexivity. Qed.

(* an instance with multiplicities 2 and 1: 3 voters *)
Example ex_dm :
  distance_matrix (Ok 0) kendall_tau (expand_profile [([1;2;3]%N, 2%N); ([3;2;1]%N, 1%N)]) =
  [[Ok 0; Ok 0; Ok 3]; [Ok 0; Ok 0; Ok 3]; [Ok 3; Ok 3; Ok 0]].
Proof. vm_compute. reflexivity. Qed.

Example ex_dm_hypothesis :
  NoDup [1;2;3]%N /\
  Forall (fun om => Permutation [1;2;3]%N (fst om)) [([1;2;3]%N, 2%N); ([3;2;1]%N, 1%N)].
Proof.
  split; [apply nodupb_sound; vm_compute; reflexivity|].
  repeat constructor; apply (rankings_ok_sound [1;2;3]%N); vm_compute; reflexivity.
Qed.
