"""C15 — results do not depend on alternative labels or on ballot storage order.

Purely METAMORPHIC on the implementation (no reference decider is run, so the sizes go far beyond the brute-force
references): every case carries a base input and 2-3 TWINS of it
   (i)   relabelled by a random bijection to non-contiguous positive integers: 2/3 far apart (sample of 1..10^6), 1/3
         from a SMALL range (random subset of 1..4m or 1..m*m), where arithmetic encodings of pairs of labels collide;
         the single-crossing near-miss generator uses 16 such relabellings per base profile (0 included),
   (ii)  storage order of ballots / alternatives shuffled, members of tie classes shuffled, and the instance rebuilt
         through the public API (append_order_list of the expanded, shuffled ballot list: a different construction
         history of the same multiset of ballots),
   (iii) both.
   Storage of the re-stored twins is DECOUPLED (round 5): the ballot list instance.orders and the multiplicity dict get
   different orders by in-place operations (list reversed / sorted / shuffled; dict rebuilt in reverse; a key popped and
   re-inserted), alternatives_name is in arbitrary (non-ascending) order, multiplicities are pairwise different in a third
   of the cases, and ids / multiplicities are numpy.int64 in two of the eight storage kinds.
   HISTORIES (flag 4096 on 30% of the ordinal cases, a third of the approval cases): one instance object per variant
   serves all calls, every function is asked twice, a semantic snapshot (common.snapshot) is taken around every call,
   every returned object is destroyed in place after copying, and two other profiles over the same ids are put through the
   same functions before the pair under test.
All variants of a case are run in the SAME worker call. Demanded (the observables C15 names):
   * equal verdicts of every exact recogniser and equal optima of every optimiser on all variants,
   * winner sets and score tables of a twin = image of the base's under the twin's bijection,
   * every witness valid ON ITS OWN VARIANT, by the verified checkers of the sibling models (c03.check_axis,
     c11.check_axis, c04.check, c13.check, c05.*_check, c12.cert_*, c18.check, c19.check): one oracle request per witness.
   Witnesses themselves are never compared.

ops
   c15.ord   [dt, alts, orders, mults, twins, flags, axes, ks]    ordinal profile (orders = lists of classes)
             twin = [fimg, bperm, aperm, mode, cshuf]: fimg[i] = new label of alts[i]; bperm / aperm = storage order of
             ballots / alternatives (index permutations); mode 0 = fields assigned directly, mode s >= 1 = built by
             OrdinalInstance.append_order_list(expanded ballots shuffled with seed s); cshuf s >= 1 = members of every
             indifference class shuffled with seed s
   c15.app   [alts, ballots, twins, ncat]    approval profile; twin = [fimg, bperm, aperm, cshuf]
   c15.mat   [nc, rows, twins]               0/1 matrix; twin = [colperm, rowperm]
   c15.eucl  [alts, profile, mults, twins]   is_one_euclidean, labels 1..m only (its output keys are computed from
             the labels); twin = [fimg (a permutation of 1..m), bperm].  Until /repo commits 5a8bee2..74e9e2c this
             function had open findings and the set was constant-seeded with KF-C15-eucl-* entries; it is now an
             ordinary seed-dependent part of the campaign with no suppression (props/c15_known.py can regenerate
             sha-256 lists should a finding ever have to be recorded again)
"""
import random

from core import proto
from .common import case, guarded, ordinal_instance, rand_perm, rand_weak_order
from .common import guarded as _guarded
from . import c03, c04, c05, c06, c07, c11, c12, c13, c14, c18, c19

ID = "C15"
RULE = ("metamorphic, implementation only: base input + 2-3 twins (relabelled to non-contiguous labels / storage order "
        "shuffled and rebuilt through append_order_list / both); seeded generators: planted single-peaked (Conitzer, "
        "Walsh), single-crossing (swap walks), tree, weak single-plateaued, tie-heavy scoring profiles, interval / "
        "partition approval profiles and planted C1P matrices, each with and without noise, m <= 30, n <= 60 (PQ-tree, "
        "conflict sets: m <= 10; ILPs and deletion / partition optimisers m <= 7, few); 1-Euclidean: label "
        "permutations of 1..m and storage orders (extremes moved to the middle, reversed, shuffled), m <= 7, n <= 8; "
        "a case is non-trivial when some twin differs from the base in labels AND in storage order; re-stored twins have "
        "the ballot list and the multiplicity dict in different orders (8 storage kinds incl. numpy.int64 ids / "
        "multiplicities); 30% of the ordinal cases are histories on one object (asked twice, snapshots, poisoned results, "
        "decoy profiles first)")
EXHAUSTIVE = {"quick": "", "thorough": ""}
TRUSTED = ["(R)/(M) as in C03-C07, C11-C14, C18, C19: C15 runs no reference decider; it compares the implementation "
           "with itself on equivalent inputs and validates witnesses with the verified checkers of those properties",
           "k_alt_partition_approx is neither an exact decider nor an optimiser: not compared (its validity is C18)",
           "mirrored algorithms whose invariance is a THEOREM of Properties/C15.v (the implementation is tied to them by the "
           "correspondences of C03/C04/C12/C13/C18/C19, not by C15): is_single_peaked (elo_verdict_*), is_single_crossing "
           "(sc_algo_verdict_*), is_single_peaked_on_tree (trick_verdict_invariant), k_alternative_deletion "
           "(elp_optimum_*), k_alternative_partition_brut_force (bf_algo_size_*), is_one_euclidean (eucl_algo_verdict_*: "
           "for every LP oracle that is sound and complete - the exact-LP hypothesis of eucl_algo_sound / "
           "eucl_algo_complete; eucl_algo_exact_verdict_perm for the extracted Fourier-Motzkin oracle without it); the "
           "real LP is CBC / python-mip in floating point: trusted, observed by the correspondence only",
           "is_part / is_2_part: partitions are compared as SETS OF SETS (is_part_relabel, is_part_reorder); the order of "
           "the parts and of their members is storage order by design (is_part_list_order_refuted) and is not compared"]
ASSUMPTIONS = ["relabellings are injective maps to positive integers (is_one_euclidean: permutations of 1..m; the "
               "single-crossing near-miss generator also uses the id 0, as the C04 campaign does)",
               "theorems about mirrors assume the owners' well-formedness of the profile (duplicate-free alternatives, "
               "every order a permutation of them, at least one order; for sc_algo / eucl_algo also distinct orders)",
               "twins hold the same multiset of ballots over the same alternatives; instance.orders lists the keys "
               "of instance.multiplicity AS A SET (C02 invariant) - the two orders are deliberately different in the "
               "re-stored twins; categorical ballots are entries of instance.preferences",
               "numpy.int64 ids / multiplicities are used because the unchanged tree accepts them in every function C15 "
               "covers (measured: the campaign is green on /repo)",
               "histories are not run for the matrix and 1-Euclidean ops (their adapters build their own objects)"]
TIMEOUT_S = 240.0       # CBC runs with threads = -1 (set by /repo) in up to 16 workers: a loaded machine needs the margin
CHUNK = 10
THEOREMS_FOR_OP = {
    "c15.ord": "Properties/C15.v: sp_decide_relabel/_reorder, spw_decide_*, sc_decide_relabel/_perm, sc_algo_verdict_perm, "
               "spt_decide_relabel/_profile_perm, trick_verdict_invariant, min_*_del_relabel/_reorder, "
               "min_partition_relabel/_profile_perm, *_winner_relabel, winner_sets_relabel, *_regroup, "
               "pairwise/copeland/borda_scores_relabel, table_entry_relabel, has_condorcet_relabel/_regroup, "
               "*_check_axis_relabel, sc_witness_check_relabel, spt_check_relabel, cert_*_relabel, partition_check_relabel",
    "c15.app": "Properties/C15.v: approval_deciders_relabel/_reorder/_alts_perm, de_decide_reorder, approval_checks_relabel, "
               "is_part_relabel, is_2_part_relabel, is_part_reorder",
    "c15.mat": "Properties/C15.v: c1p_decide_rows_perm, c1p_decide_cols_perm",
    "c15.eucl": "Properties/C15.v: Euclidean_perm, Euclidean_relabel_inj, eucl_decide_perm/_relabel, eucl_algo_verdict_perm/"
                "_relabel, eucl_algo_exact_verdict_perm, eucl_check_relabel",
}

DT = ["soc", "soi", "toc", "toi"]
(F_SP, F_PQ, F_ILP, F_SC, F_SCC, F_TREE, F_RULES, F_TABLES, F_DELILP, F_DELDP, F_PARTBF, F_AXIS, F_HIST) = (
    1, 2, 4, 8, 16, 32, 64, 128, 256, 512, 1024, 2048, 4096)
EUCL_SEED = 15_000_015
RULES9 = ["plurality", "veto", "borda", "copeland", "approval", "sav", "fallback", "bucklin"]   # + k-approval per k


# =================================================================================================== variants
def _cshuffle(order, cshuf, idx):
    if not cshuf:
        return [list(cl) for cl in order]
    rr = random.Random(cshuf * 1000003 + idx)
    out = []
    for cl in order:
        cl = list(cl)
        rr.shuffle(cl)
        out.append(cl)
    return out


def _dedupe(orders, mults):
    out, ms = [], []
    for o, k in zip(orders, mults):
        if o in out:
            ms[out.index(o)] += k
        else:
            out.append(o)
            ms.append(k)
    return out, ms


N_KINDS = 8


def _decouple_plan(dict_orders, dict_mults, cshuf):
    """storage of a twin with the ballot LIST decoupled from the multiplicity DICT (same content):
    kind 0 coupled; 1 list reversed; 2 list sorted; 3 list shuffled; 4 dict rebuilt in reverse order; 5 first key popped
    and re-inserted + list reversed; 6 multiplicities numpy.int64; 7 ids and multiplicities numpy.int64 + list reversed.
    Returns (orders in LIST order, multiplicities aligned with it, kind)"""
    kind = cshuf % N_KINDS if cshuf else 0
    lst = list(range(len(dict_orders)))
    if kind in (1, 5, 7):
        lst.reverse()
    elif kind == 2:
        lst.sort(key=lambda i: dict_orders[i])
    elif kind == 3:
        random.Random(cshuf).shuffle(lst)
    return [dict_orders[i] for i in lst], [dict_mults[i] for i in lst], kind


def variants_ord(pl):
    """[(alts, orders, mults, build, f)]: the base and its twins as they are STORED: orders = instance.orders (LIST order),
    mults aligned with it; build = None (fields assigned directly, list and dict in the same order) or a dict
    {"exp": shuffled expanded ballot list handed to append_order_list | None, "dict": [(order, mult)] in multiplicity KEY
    order, "kind": decoupling kind, "seed": its seed}"""
    dt, alts, orders, mults, twins = pl[:5]
    out = [(list(alts), [[list(c) for c in o] for o in orders], list(mults), None, {a: a for a in alts})]
    for fimg, bperm, aperm, mode, cshuf in twins:
        f = dict(zip(alts, fimg))
        a2 = [f[alts[i]] for i in aperm]
        o2 = [_cshuffle([[f[a] for a in cl] for cl in orders[i]], cshuf, i) for i in bperm]
        m2 = [mults[i] for i in bperm]
        exp = None
        if mode:
            exp = [o for o, k in zip(o2, m2) for _ in range(k)]
            random.Random(mode).shuffle(exp)
            o2, m2 = _dedupe(exp, [1] * len(exp))
        lo, lm, kind = _decouple_plan(o2, m2, cshuf)
        build = None
        if mode or kind:
            build = {"exp": exp, "dict": list(zip(o2, m2)), "kind": kind, "seed": cshuf}
        out.append((a2, lo, lm, build, f))
    return out


def variants_app(pl):
    alts, ballots, twins = pl[:3]
    out = [(list(alts), [list(b) for b in ballots], {a: a for a in alts})]
    for fimg, bperm, aperm, cshuf in twins:
        f = dict(zip(alts, fimg))
        a2 = [f[alts[i]] for i in aperm]
        b2 = [_cshuffle([[f[a] for a in ballots[i]]], cshuf, i)[0] for i in bperm]
        out.append((a2, b2, f))
    return out


def variants_mat(pl):
    nc, rows, twins = pl
    out = [[list(r) for r in rows]]
    for colperm, rowperm in twins:
        out.append([[rows[i][j] for j in colperm] for i in rowperm])
    return out


def variants_eucl(pl):
    alts, profile, mults, twins = pl
    out = [(list(alts), [list(r) for r in profile], list(mults))]
    for fimg, bperm in twins:
        f = dict(zip(alts, fimg))
        out.append((list(alts), [[f[a] for a in profile[i]] for i in bperm], [mults[i] for i in bperm]))
    return out


# =================================================================================================== implementation
def _build_ord(dt, alts, orders, mults, build):
    if build is None:
        return ordinal_instance(list(zip(orders, mults)), data_type=DT[dt], alts=list(alts))
    if build["exp"] is not None:
        from preflibtools.instances import OrdinalInstance
        inst = OrdinalInstance()
        for a in alts:
            inst.alternatives_name[a] = "Alternative " + str(a)
        inst.num_alternatives = len(alts)
        inst.append_order_list([tuple(tuple(c) for c in o) for o in build["exp"]])
    else:
        inst = ordinal_instance(build["dict"], data_type=DT[dt], alts=list(alts))
    kind = build["kind"]
    # the ballot list and the multiplicity dict now get different orders, by in-place operations (same content)
    if kind in (1, 5, 7):
        if kind == 5:
            k0 = next(iter(inst.multiplicity))
            v0 = inst.multiplicity.pop(k0)
            inst.multiplicity[k0] = v0
        inst.orders.reverse()
    elif kind == 2:
        inst.orders.sort()
    elif kind == 3:
        random.Random(build["seed"]).shuffle(inst.orders)
    elif kind == 4:
        inst.multiplicity = dict(reversed(list(inst.multiplicity.items())))
    if kind in (6, 7):
        import numpy as np
        if kind == 7:
            conv = lambda o: tuple(tuple(np.int64(x) for x in c) for c in o)
            inst.multiplicity = {conv(o): k for o, k in inst.multiplicity.items()}
            inst.orders[:] = [conv(o) for o in inst.orders]
            inst.alternatives_name = {np.int64(a): nm for a, nm in inst.alternatives_name.items()}
        for o in list(inst.multiplicity):
            inst.multiplicity[o] = np.int64(inst.multiplicity[o])
    return inst


def _poison(x):
    """destroy a returned object in place: if it aliases internal state of the instance (or of the module) the next
    snapshot / the next call shows it"""
    if isinstance(x, tuple):
        for y in x:
            _poison(y)
    elif isinstance(x, list):
        for y in x:
            _poison(y)
        x.clear()
        x.append(-7)
    elif isinstance(x, dict):
        for y in list(x.values()):
            _poison(y)
        x.clear()
        x[-7] = -7
    elif isinstance(x, set):
        x.clear()
        x.add(-7)


def _view(res):
    """the verdict-level part of a result dict (witnesses stripped): what two calls on one object must agree on"""
    out = {}
    for k, v in res.items():
        if k in ("sp", "ilp", "sc", "tree", "delvot", "delalt", "deldp"):
            out[k] = v[:2]
        elif k == "partbf":
            out[k] = [[x[0], x[1], len(x[2]) if x[0] == 0 else 0] for x in v]
        else:
            out[k] = v
    return out


def _ilp_outer(fn, *a):
    """python-mip models are freed by the cyclic GC; if that happens while cffi parses a type (set_start, first
    call) Model.__del__ re-enters cffi's non-reentrant lock and the process deadlocks.  Collect before, keep the
    collector off during the call.  (environment, not /repo)"""
    import gc
    gc.collect()
    gc.disable()
    try:
        return fn(*a)                   # fn = guarded call (plain or with the history bookkeeping)
    finally:
        gc.enable()
        gc.collect()


def _b(r):
    """guarded bool -> [0, 0/1] | [1, code, ...]"""
    if r[0] != 0:
        return r
    if not isinstance(r[1], bool):
        try:
            import numpy as np
            if isinstance(r[1], np.bool_):
                return [0, int(r[1])]
        except Exception:
            pass
        return [1, 5, proto.text("not a bool: %r" % (r[1],))]
    return [0, int(r[1])]


def _run_ord(dt, alts, orders, mults, build, flags, axes, ks):
    """one variant.  With F_HIST: ONE instance object serves every call, every function is asked twice (second pass after
    all the others have run), semantic snapshot before / after each call (common.snapshot: a query must not change the
    instance), every returned object is destroyed in place right after it has been copied; the two passes must agree"""
    if not (flags & F_HIST):
        return _run_ord_once(dt, alts, orders, mults, build, flags, axes, ks, None)
    shared = {"inst": _build_ord(dt, alts, orders, mults, build), "problems": []}
    r1 = _run_ord_once(dt, alts, orders, mults, build, flags, axes, ks, shared)
    if "harness" in r1:
        return r1
    r2 = _run_ord_once(dt, alts, orders, mults, build, flags, axes, ks, shared)
    if not shared["problems"] and _view(r1) != _view(r2):
        ks_ = [k for k in _view(r1) if _view(r1)[k] != _view(r2).get(k)]
        shared["problems"].append("second round of calls on the same instance object answers differently: %s: %r then %r"
                                  % (ks_[0], _view(r1)[ks_[0]], _view(r2).get(ks_[0])))
    if shared["problems"]:
        r1["hist"] = shared["problems"][0]
    return r1


def _run_ord_once(dt, alts, orders, mults, build, flags, axes, ks, shared):
    from preflibtools.properties.subdomains.ordinal.singlepeaked import singlepeakedness as SPM
    from preflibtools.properties.subdomains.ordinal import singlecrossing as SCm
    from preflibtools.properties.subdomains.ordinal.singlepeaked.single_peaked_tree import is_single_peaked_on_tree
    from preflibtools.properties.subdomains.ordinal.singlepeaked.k_alternative_deletion import k_alternative_deletion
    from preflibtools.properties.subdomains.ordinal.singlepeaked import k_alternative_partition as KP
    from preflibtools.aggregation import singlewinner as W
    from preflibtools.properties import pairwisecomparisons as P

    import copy
    from .common import snapshot, snap_diff

    def mk():
        return shared["inst"] if shared else _build_ord(dt, alts, orders, mults, build)

    def guarded(fn, inst, *a, **kw):              # shadows common.guarded: adds the history bookkeeping
        if not shared:
            return _guarded(fn, inst, *a, **kw)
        before = snapshot(inst)
        r = _guarded(fn, inst, *a, **kw)
        rc = copy.deepcopy(r)
        _poison(r)
        d = snap_diff(before, snapshot(inst))
        if d and not shared["problems"]:
            shared["problems"].append("%s changed the instance it was asked about: %s" % (getattr(fn, "__name__", fn), d))
        return rc

    def _ilp(fn, *a):
        return _ilp_outer(lambda *b: guarded(fn, *b), *a)

    def _win(fn, *a):
        r = guarded(fn, *a)
        if r[0] == 0:
            v = r[1]
            if not isinstance(v, (set, frozenset, list, tuple)):
                return [1, 5, proto.text(("not a collection: %r" % (v,))[:80])]
            return [0, sorted(int(x) for x in set(v))]
        return r

    res = {}
    probe = mk()
    if probe.data_type != DT[dt] or [tuple(tuple(c) for c in o) for o in orders] != list(probe.orders) \
            or [probe.multiplicity[o] for o in probe.orders] != list(mults):
        res["harness"] = "variant not stored as planned: type %s, orders %r" % (probe.data_type, probe.orders)
        return res
    if flags & F_SP:
        r = guarded(SPM.is_single_peaked, mk())
        if r[0] == 0:
            v, axis = r[1]
            r = [0, int(bool(v)), [int(a) for a in axis] if v else []]
        res["sp"] = r
    if flags & F_AXIS:
        res["axis"] = [_b(guarded(SPM.is_single_peaked_axis, mk(), list(ax))) for ax in axes]
    if flags & F_PQ:
        res["pq"] = _b(guarded(SPM.is_single_peaked_pq_tree, mk()))
    if flags & F_ILP:
        r = _ilp(SPM.is_single_peaked_ILP, mk())
        if r[0] == 0:
            v, status, axis = r[1]
            r = [0, int(bool(v)), [int(a) for a in axis] if (v and axis is not None) else [], proto.text(str(status))]
        res["ilp"] = r
    if flags & F_SC:
        r = guarded(SCm.is_single_crossing, mk())
        if r[0] == 0:
            v, seq = r[1]
            r = [0, int(bool(v)), [[int(a) for a in o] for o in seq] if v else []]
        res["sc"] = r
    if flags & F_SCC:
        res["scc"] = _b(guarded(SCm.is_single_crossing_conflict_sets, mk()))
    if flags & F_TREE:
        r = guarded(is_single_peaked_on_tree, mk())
        if r[0] == 0:
            v, tree = r[1]
            r = [0, int(bool(v)), [[int(a), int(b)] for a, b in tree] if v else []]
        res["tree"] = r
    if flags & F_RULES:
        fns = {"plurality": W.plurality_winner, "veto": W.veto_winner, "borda": W.borda_winner,
               "copeland": W.copeland_winner, "approval": W.approval_winner, "sav": W.satisfaction_approval_winner,
               "fallback": W.fallback_voting_winner, "bucklin": W.bucklin_voting_winner}
        rr = {nm: _win(fns[nm], mk()) for nm in RULES9}
        for k in ks:
            rr["kapp%d" % k] = _win(W.k_approval_winner, mk(), k)
        res["rules"] = rr
    if flags & F_TABLES:
        res["pairwise"] = c07._wrap(guarded(P.pairwise_scores, mk()), c07._table)
        res["copeland_t"] = c07._wrap(guarded(P.copeland_scores, mk()), c07._table)
        res["borda_t"] = c07._wrap(guarded(P.borda_scores, mk()), c07._borda)
        res["cond"] = _b(guarded(P.has_condorcet, mk()))
        res["cond_weak"] = _b(guarded(P.has_condorcet, mk(), weak_condorcet=True))
    if flags & F_DELILP:
        r = _ilp(SPM.approx_SP_voter_deletion_ILP, mk())
        if r[0] == 0:
            obj, status, axis, deleted = r[1]
            if axis is None or deleted is None or obj is None:
                r = [1, 5, proto.text("no solution: status %s" % status)]
            else:
                r = [0, c12._objective(obj), [int(a) for a in axis], [int(v) for v in deleted]]
        res["delvot"] = r
        inst = mk()
        names = list(inst.alternatives_name)
        r = _ilp(SPM.approx_SP_alternative_deletion_ILP, inst)
        if r[0] == 0:
            obj, status, axis, deleted = r[1]
            if axis is None or deleted is None or obj is None:
                r = [1, 5, proto.text("no solution: status %s" % status)]
            else:
                r = [0, c12._objective(obj), [int(a) for a in axis], [int(names[int(i)]) for i in deleted]]
        res["delalt"] = r
    if flags & F_DELDP:
        r = guarded(k_alternative_deletion, mk())
        if r[0] == 0:
            axis, removed = r[1]
            r = [0, [len(removed), 1], [int(a) for a in axis], [int(a) for a in removed]]
        res["deldp"] = r
    if flags & F_PARTBF:
        out = []
        for k in range(1, len(alts) + 1):
            r = guarded(KP.k_alternative_partition_brut_force, mk(), k)
            if r[0] == 0:
                if r[1] is None:
                    r = [0, 0, []]
                else:
                    ax = c18._axes(r[1])
                    r = [0, 1, ax] if ax is not None else [1, 5, proto.text("bad partition %r" % (r[1],))]
            out.append(r)
        res["partbf"] = out
    return res


def _run_app(alts, ballots, ncat, hist=0):
    res = {}
    for dom in c05.DOMAINS:
        res[dom] = guarded(c05._run_domain, dom, alts, ballots, ncat)
    if hist:
        # ONE categorical instance serves all eight recognisers, twice (second round in reverse order); its multiplicity
        # dict is rebuilt in another order than the preferences list (odd hist); snapshot around every call; every
        # returned object destroyed in place; each answer must be the verdict obtained on a fresh instance
        import copy
        from .common import snapshot, snap_diff
        from preflibtools.properties.subdomains.dichotomous import interval, singlecrossing, euclidean, partition
        fns = {"ci": interval.is_candidate_interval, "cei": interval.is_candidate_extremal_interval,
               "vi": interval.is_voter_interval, "vei": interval.is_voter_extremal_interval,
               "wsc": singlecrossing.is_weakly_single_crossing, "de": euclidean.is_dichotomous_euclidean,
               "part": partition.is_part, "part2": partition.is_2_part}
        inst = c05._instance(alts, ballots, ncat)
        if hist % 2:
            inst.multiplicity = dict(reversed(list(inst.multiplicity.items())))
        problems = []
        for rnd in (0, 1):
            for dom in (c05.DOMAINS if rnd == 0 else c05.DOMAINS[::-1]):
                before = snapshot(inst)
                r = guarded(fns[dom], inst)
                v = [0, int(bool(r[1][0]))] if (r[0] == 0 and isinstance(r[1], tuple) and len(r[1]) >= 2) else r[:2]
                _poison(r)
                d = snap_diff(before, snapshot(inst))
                if d:
                    problems.append("is_%s changed the instance it was asked about: %s" % (dom, d))
                fresh = res[dom]
                fv = [0, fresh[1][0]] if fresh[0] == 0 else fresh[:2]
                if v != fv:
                    problems.append("is_%s answers %r on an instance object that has been queried before (round %d), %r on a "
                                    "fresh one" % (dom, v, rnd, fv))
        if problems:
            res["hist"] = problems[0]
    return res


def impl(c):
    op, pl = c["op"], c["payload"]
    if op == "c15.ord":
        dt, flags, axes, ks = pl[0], pl[5], pl[6], pl[7]
        out = []
        if flags & F_HIST:
            # two OTHER profiles over the same ids go through the same functions first (module-level / default-argument
            # state must not leak into the pair under test); their answers are not judged
            dflags = flags & ~(F_ILP | F_DELILP | F_HIST)
            for decoy in ([o[::-1] for o in pl[2]], [pl[2][0]]):
                try:
                    dd, dm = _dedupe(decoy, [2] * len(decoy))
                    _run_ord(dt, list(pl[1]), dd, dm, None, dflags, axes, ks)
                except Exception:
                    pass
        for alts, orders, mults, build, f in variants_ord(pl):
            out.append(_run_ord(dt, alts, orders, mults, build, flags, [[f[a] for a in ax] for ax in axes], ks))
        return out
    if op == "c15.app":
        hist = pl[4] if len(pl) > 4 else 0
        return [_run_app(alts, ballots, pl[3], hist + j if hist else 0) for j, (alts, ballots, f) in enumerate(variants_app(pl))]
    if op == "c15.mat":
        return [guarded(c05._run_matrix, pl[0], rows) for rows in variants_mat(pl)]
    if op == "c15.eucl":
        return [c19._call(alts, prof, mults) for alts, prof, mults in variants_eucl(pl)]
    return {"crash": "unknown op " + op}


# =================================================================================================== model side
def _okv(r):
    return isinstance(r, list) and len(r) >= 2 and r[0] == 0


def _flat(orders):
    return [[cl[0] for cl in o] for o in orders]


def _plan(c, r):
    """[(variant index, key, op, payload)]: one request per witness, each on the variant it was returned for"""
    op, pl = c["op"], c["payload"]
    plan = []
    if not isinstance(r, list):
        return plan
    if op == "c15.ord":
        dt = pl[0]
        for j, t in enumerate(pl[4], 1):
            if t[3] == 0 and t[4] == 0 and list(t[0]) != list(pl[1]):
                # the harness' relabelled twin must be Model/Relabel.v's map_profile of the base (ties "twin" to the model)
                plan.append((j, "model-twin", "c15.map_profile", [[[a, b] for a, b in zip(pl[1], t[0])], pl[2]]))
                break
        if c["tags"].get("gen") == "sav-exact-tie":
            plan.append((0, "model-sav", "c06.sav", c06.inst_payload(dt, pl[1], list(zip(pl[2], pl[3])))))
        for j, ((alts, orders, mults, build, f), rv) in enumerate(zip(variants_ord(pl), r)):
            if not isinstance(rv, dict) or "harness" in rv:
                continue
            g = rv.get
            if _okv(g("sp")) and g("sp")[1] == 1 and dt == 0:
                plan.append((j, "sp", "c03.check_axis", [alts, _flat(orders), g("sp")[2]]))
            if _okv(g("ilp")) and g("ilp")[1] == 1:
                plan.append((j, "ilp", "c11.check_axis", [alts, orders, g("ilp")[2]]))
            if _okv(g("sc")) and g("sc")[1] == 1 and dt == 0:
                plan.append((j, "sc", "c04.check", [alts, _flat(orders), g("sc")[2]]))
            if _okv(g("tree")) and g("tree")[1] == 1 and dt == 0:
                plan.append((j, "tree", "c13.check", [alts, _flat(orders), g("tree")[2]]))
            if _okv(g("delvot")):
                x = g("delvot")
                plan.append((j, "delvot", "c12.cert_vot", [alts, orders, x[1][0], x[2], x[3]]))
            for key in ("delalt", "deldp"):
                if _okv(g(key)):
                    x = g(key)
                    plan.append((j, key, "c12.cert_alt", [alts, orders, x[1][0], x[2], x[3]]))
            if isinstance(g("partbf"), list) and dt == 0:
                seen = []
                for x in g("partbf"):
                    if _okv(x) and x[1] == 1 and x[2] not in seen:
                        seen.append(x[2])
                        plan.append((j, "partbf", "c18.check", [alts, _flat(orders), x[2]]))
    elif op == "c15.app":
        for j, ((alts, ballots, f), rv) in enumerate(zip(variants_app(pl), r)):
            if not isinstance(rv, dict):
                continue
            for dom in c05.DOMAINS:
                x = rv.get(dom)
                if _okv(x) and isinstance(x[1], list) and x[1][0] == 1:
                    plan.append((j, dom, "c05.%s_check" % dom, [alts, ballots, x[1][1]]))
    elif op == "c15.mat":
        for j, (rows, rv) in enumerate(zip(variants_mat(pl), r)):
            if _okv(rv) and rv[1][0] == 1:
                plan.append((j, "c1p", "c05.c1p_check", [pl[0], rows, rv[1][1]]))
    elif op == "c15.eucl":
        for j, ((alts, prof, mults), rv) in enumerate(zip(variants_eucl(pl), r)):
            if c19._is_true(rv):
                plan.append((j, "eucl", c19._check_req(alts, prof, rv)[0], c19._check_req(alts, prof, rv)[1]))
    return plan


def oracle_requests(c, r):
    return [(op, pl) for _, _, op, pl in _plan(c, r)]


# =================================================================================================== judge
def _exc(x):
    """an answer that is an exception the model's error codes do not know (code 5) or a malformed value"""
    return isinstance(x, list) and len(x) >= 2 and x[0] == 1 and x[1] == proto.E_OTHER


def _exc_text(x):
    try:
        return proto.untext(x[2])
    except Exception:
        return repr(x)


def _mm(thm, msg):
    return {"kind": "mismatch", "theorem": thm, "reason": msg}


def _same(name, thm, b, t, j, val=lambda x: x[1], what="verdict"):
    """both raise the same documented error, or both answer and val agrees"""
    for x in (b, t):
        if _exc(x) or isinstance(x, dict):
            return {"kind": "exception", "reason": "%s raised: %s" % (name, _exc_text(x))}
    if b[0] != t[0] or (b[0] == 1 and b[1] != t[1]):
        return _mm(thm, "%s: base answers %r, twin %d answers %r" % (name, b[:2], j, t[:2]))
    if b[0] == 0 and val(b) != val(t):
        return _mm(thm, "%s: %s on the base is %r, on twin %d it is %r (same ballots, other labels / storage order)"
                   % (name, what, val(b), j, val(t)))
    return None


def _judge_ord(c, r, wit):
    pl = c["payload"]
    V = variants_ord(pl)
    for j, rv in enumerate(r):
        if not isinstance(rv, dict):
            return {"kind": "exception", "reason": "variant %d: %r" % (j, rv)}
        if "harness" in rv:
            return {"kind": "broken-correspondence", "reason": "variant %d: %s" % (j, rv["harness"])}
        if "hist" in rv:
            return _mm("C15 on histories: a query does not change the instance / its answer does not depend on earlier calls",
                       "variant %d (0 = base): %s" % (j, rv["hist"]))
    base = r[0]
    for j in range(1, len(r)):
        t, f = r[j], V[j][4]
        for key, name, thm in (("sp", "is_single_peaked", "sp_decide_relabel / sp_decide_reorder"),
                               ("pq", "is_single_peaked_pq_tree", "spw_decide_relabel / spw_decide_reorder"),
                               ("ilp", "is_single_peaked_ILP", "spw_decide_relabel / spw_decide_reorder"),
                               ("sc", "is_single_crossing", "sc_decide_relabel / sc_decide_perm"),
                               ("scc", "is_single_crossing_conflict_sets", "sc_conflict_decide_relabel / _perm"),
                               ("tree", "is_single_peaked_on_tree", "spt_decide_relabel / spt_decide_profile_perm"),
                               ("cond", "has_condorcet", "has_condorcet_relabel / tables_regrouping"),
                               ("cond_weak", "has_condorcet(weak)", "has_condorcet_relabel / tables_regrouping")):
            if key in base:
                bad = _same(name, thm, base[key], t[key], j)
                if bad:
                    return bad
        if "axis" in base:
            for i, (x, y) in enumerate(zip(base["axis"], t["axis"])):
                bad = _same("is_single_peaked_axis(axis %d, mapped)" % i, "axis_test_relabel", x, y, j)
                if bad:
                    return bad
        for key, name, thm in (("delvot", "approx_SP_voter_deletion_ILP", "min_vot_del_relabel / _reorder"),
                               ("delalt", "approx_SP_alternative_deletion_ILP", "min_alt_del_relabel / _reorder"),
                               ("deldp", "k_alternative_deletion", "min_alt_del_relabel / _reorder")):
            if key in base:
                bad = _same(name, thm, base[key], t[key], j, what="optimum [value, integral]")
                if bad:
                    return bad
        if "partbf" in base:
            for k, (x, y) in enumerate(zip(base["partbf"], t["partbf"]), 1):
                bad = _same("k_alternative_partition_brut_force(k=%d)" % k, "min_partition_relabel / _profile_perm",
                            x, y, j, val=lambda z: [z[1], len(z[2])], what="[found, number of axes]")
                if bad:
                    return bad
        if "rules" in base:
            for nm in base["rules"]:
                bad = _same(nm + "_winner", nm + "_winner_relabel / " + nm + "_regroup", base["rules"][nm], t["rules"][nm],
                            j, val=lambda z: z[1])
                x, y = base["rules"][nm], t["rules"][nm]
                if _okv(x) and _okv(y):
                    bad = None if sorted(f[a] for a in x[1]) == y[1] else _mm(
                        nm + "_winner_relabel / _regroup",
                        "%s winner: base %r, image under the bijection %r, twin %d answers %r"
                        % (nm, x[1], sorted(f[a] for a in x[1]), j, y[1]))
                if bad:
                    return bad
        for key, name in (("pairwise", "pairwise_scores"), ("copeland_t", "copeland_scores")):
            if key in base:
                bad = _same(name, "pw_relabel / tables_regrouping", base[key], t[key], j, val=lambda z: 0)
                if bad:
                    return bad
                if _okv(base[key]):
                    img = sorted([f[a], f[b], v] for a, b, v in base[key][1])
                    if img != t[key][1]:
                        d = [e for e in img if e not in t[key][1]][:3]
                        return _mm("pw_relabel / tables_regrouping", "%s: twin %d's table is not the image of the "
                                   "base's table; e.g. expected entries %r" % (name, j, d))
        if "borda_t" in base:
            bad = _same("borda_scores", "borda_relabel / borda_regrouping", base["borda_t"], t["borda_t"], j,
                        val=lambda z: 0)
            if bad:
                return bad
            if _okv(base["borda_t"]):
                img = sorted([f[a], v] for a, v in base["borda_t"][1] if v != 0)
                got = sorted([a, v] for a, v in t["borda_t"][1] if v != 0)
                if img != got:
                    return _mm("borda_relabel / borda_regrouping", "borda_scores: twin %d's table %r is not the image "
                               "%r of the base's" % (j, got, img))
    # witnesses
    for (j, key), ok_ in wit:
        if key == "model-sav":
            mine = r[0].get("rules", {}).get("sav")
            if mine is not None and c06._canon(ok_) != mine[:2]:
                return _mm("sav_spec (C06)", "satisfaction_approval_winner on the base answers %r, the exact model %r"
                           % (mine[:2], c06._canon(ok_)))
            continue
        if key == "model-twin":
            t = pl[4][j - 1]
            inv = {i: k for k, i in enumerate(t[1])}
            mine = [V[j][1][inv[i]] for i in range(len(pl[2]))]          # twin's orders back in the base's storage order
            if ok_ != mine:
                return {"kind": "broken-correspondence", "reason": "the harness' relabelled twin differs from "
                        "Model/Relabel.v map_profile: %r vs %r" % (mine, ok_)}
            continue
        if ok_ != 1:
            return _mm("witness validity (%s checker)" % key,
                       "%s: the witness returned on variant %d (0 = base) is rejected by the verified checker on that "
                       "variant: %r" % (key, j, r[j].get(key)))
    if "partbf" in base:
        for j, rv in enumerate(r):
            for k, x in enumerate(rv["partbf"], 1):
                if _okv(x) and x[1] == 1 and len(x[2]) > k:
                    return _mm("partition_check", "k_alternative_partition_brut_force(k=%d) returned %d axes on "
                               "variant %d" % (k, len(x[2]), j))
    return None


def judge(c, r, mres):
    op = c["op"]
    if not isinstance(r, list):
        return {"kind": "exception", "reason": repr(r)}
    plan = _plan(c, r)
    wit = [((j, key), m) for (j, key, _, _), m in zip(plan, mres)]
    if op == "c15.ord":
        return _judge_ord(c, r, wit)
    if op == "c15.app":
        base = r[0]
        for j, rv in enumerate(r):
            if isinstance(rv, dict) and "hist" in rv:
                return _mm("C15 on histories", "variant %d (0 = base): %s" % (j, rv["hist"]))
        for j in range(1, len(r)):
            for dom in c05.DOMAINS:
                bad = _same("is_" + dom, dom + "_decide_relabel / " + dom + "_decide_reorder", base[dom], r[j][dom], j,
                            val=lambda z: z[1][0])
                if bad:
                    return bad
            # is_part / is_2_part: the partition is determined as a SET OF SETS (is_part_relabel, is_part_reorder);
            # the order of the parts and of their members follows the storage order (is_part_list_order_refuted)
            f = variants_app(c["payload"])[j][2]
            for dom in ("part", "part2"):
                x, y = base[dom], r[j][dom]
                if _okv(x) and _okv(y) and x[1][0] == 1 and y[1][0] == 1:
                    img = sorted(sorted(f[a] for a in s_) for s_ in x[1][1])
                    got = sorted(sorted(s_) for s_ in y[1][1])
                    if img != got:
                        return _mm("is_part_relabel / is_part_reorder",
                                   "is_%s: the partition returned on twin %d, %r, is not (as a set of sets) the image "
                                   "%r of the base's partition" % (dom, j, got, img))
        for (j, key), ok_ in wit:
            if ok_ != 1:
                return _mm(key + "_check", "%s: the witness returned on variant %d (0 = base) is rejected by the "
                           "verified checker: %r" % (key, j, r[j][key]))
        return None
    if op == "c15.mat":
        base = r[0]
        for j in range(1, len(r)):
            for i, name in ((0, "solve_consecutive_ones"), (2, "isC1P(list)"), (3, "isC1P(ndarray)")):
                bad = _same(name, "c1p_decide_cols_perm / c1p_decide_rows_perm", base, r[j], j, val=lambda z: z[1][i])
                if bad:
                    return bad
        for (j, key), ok_ in wit:
            if ok_ != 1:
                return _mm("c1p_check", "solve_consecutive_ones: the column order returned on variant %d is rejected "
                           "by the verified checker: %r" % (j, r[j][1][1]))
        return None
    if op == "c15.eucl":
        for j, rv in enumerate(r):
            if isinstance(rv, dict) or rv[0] == 1:
                return {"kind": "exception", "class": "exception",
                        "reason": "is_one_euclidean raised on variant %d: %s" % (j, c19._exc_text(rv)
                                                                                  if isinstance(rv, list) else rv)}
        vs = [rv[1] for rv in r]
        if len(set(vs)) > 1:
            return {"kind": "mismatch", "class": "verdict", "theorem": "Euclidean_perm / eucl_relabel",
                    "reason": "is_one_euclidean answers %r on the base and its twins (same profile, labels permuted / "
                              "ballots stored in another order)" % (vs,)}
        for (j, key), ok_ in wit:
            if ok_ != 1:
                return {"kind": "mismatch", "class": "witness", "theorem": "eucl_check_correct",
                        "reason": "is_one_euclidean: the position map returned on variant %d is rejected by the "
                                  "verified checker c19.check" % j}
        return None
    return {"kind": "broken-correspondence", "reason": "unknown op"}


def classify(c, r, mres, failure):
    if c["op"] != "c15.eucl":
        return "unclassified"
    return {"exception": "KF-C15-eucl-exception", "verdict": "KF-C15-eucl-verdict",
            "witness": "KF-C15-eucl-witness"}.get(failure.get("class"), "unclassified")


# =================================================================================================== evidence
def _twins(c):
    return c["payload"][{"c15.ord": 4, "c15.app": 2, "c15.mat": 2, "c15.eucl": 3}[c["op"]]]


def nontrivial(c, r, m):
    op, pl = c["op"], c["payload"]
    if op == "c15.mat":
        return pl[0] >= 3 and len(pl[1]) >= 2 and any(
            cp != sorted(cp) and rp != sorted(rp) for cp, rp in pl[2])
    if op == "c15.eucl":
        return len(pl[0]) >= 3 and len(pl[1]) >= 2 and any(
            list(f) != list(pl[0]) and bp != sorted(bp) for f, bp in pl[3])
    alts = pl[1] if op == "c15.ord" else pl[0]
    n = len(pl[2]) if op == "c15.ord" else len(pl[1])
    return len(alts) >= 3 and n >= 2 and any(list(t[0]) != list(alts) and t[1] != sorted(t[1]) for t in _twins(c))


def _bk(x):
    return "<=5" if x <= 5 else "<=10" if x <= 10 else "<=20" if x <= 20 else "<=30" if x <= 30 else "<=60" if x <= 60 else ">60"


def _vl(name, x):
    if not isinstance(x, list):
        return "%s=?" % name
    if x[0] == 1:
        return "%s=err%d" % (name, x[1])
    return "%s=%s" % (name, "T" if x[1] == 1 else "F")


def stats(c, r, m):
    op, pl, tags = c["op"], c["payload"], c["tags"]
    out = [op, "%s:gen=%s" % (op, tags.get("gen", "?")), "%s:twins=%d" % (op, len(_twins(c)))]
    if not isinstance(r, list) or not r:
        return out + [op + ":no-result"]
    b = r[0]
    if op == "c15.ord":
        out += ["ord:m" + _bk(len(pl[1])), "ord:n" + _bk(len(pl[2])), "ord:dt=" + DT[pl[0]]]
        if pl[5] & F_HIST:
            out.append("ord:history (one object, asked twice, snapshots, poisoned results, decoys)")
        for t in pl[4]:
            out.append("ord:twin storage kind %d" % (t[4] % N_KINDS if t[4] else 0))
        if len(set(pl[3])) == len(pl[3]) and len(pl[3]) >= 2:
            out.append("ord:pairwise different multiplicities")
        if isinstance(b, dict):
            for key in ("sp", "pq", "ilp", "sc", "scc", "tree", "cond", "cond_weak"):
                if key in b:
                    out.append("ord:" + _vl(key, b[key]))
            for i, x in enumerate(b.get("axis", [])):
                out.append("ord:" + _vl("axis", x))
            for key in ("delvot", "delalt", "deldp"):
                if key in b and _okv(b[key]):
                    out.append("ord:%s opt=%s" % (key, min(b[key][1][0], 3)))
            if "partbf" in b:
                ks = [k for k, x in enumerate(b["partbf"], 1) if _okv(x) and x[1] == 1]
                out.append("ord:partbf opt=%s" % (ks[0] if ks else "none"))
            if "rules" in b:
                for nm, x in b["rules"].items():
                    if nm.startswith("kapp"):
                        nm = "kapp"
                    out.append("ord:%s %s" % (nm, "err%d" % x[1] if x[0] == 1 else ("tie" if len(x[1]) > 1 else "single")))
            if "pairwise" in b:
                out.append("ord:tables " + ("ok" if b["pairwise"][0] == 0 else "err"))
    elif op == "c15.app":
        out += ["app:m" + _bk(len(pl[0])), "app:n" + _bk(len(pl[1]))]
        if len(pl) > 4 and pl[4]:
            out.append("app:history")
        if isinstance(b, dict):
            for dom in c05.DOMAINS:
                x = b[dom]
                out.append("app:%s=%s" % (dom, ("T" if x[1][0] == 1 else "F") if _okv(x) else "err"))
    elif op == "c15.mat":
        out += ["mat:nc" + _bk(pl[0]), "mat:nr" + _bk(len(pl[1]))]
        if _okv(b):
            out.append("mat:c1p=%s" % ("T" if b[1][0] == 1 else "F"))
    elif op == "c15.eucl":
        out += ["eucl:m" + _bk(len(pl[0])), "eucl:n" + _bk(len(pl[1]))]
        vs = [("T" if rv[1] == 1 else "F") if (isinstance(rv, list) and rv[0] == 0) else "exc" for rv in r]
        out.append("eucl:verdicts " + ("all-" + vs[0] if len(set(vs)) == 1 else "MIXED"))
    return out


def describe(c):
    op, pl = c["op"], c["payload"]
    if op == "c15.ord":
        return {"data_type": DT[pl[0]], "alternatives": pl[1], "orders (storage order)": pl[2], "multiplicities": pl[3],
                "twins [new labels of the alternatives, ballot storage order, alternative storage order, "
                "append_order_list seed (0 = direct), tie-class shuffle seed s; s %% %d = storage kind: 0 coupled, 1 list "
                "reversed, 2 sorted, 3 shuffled, 4 dict rebuilt reversed, 5 key popped + re-inserted, 6 numpy multiplicities, "
                "7 numpy ids]" % N_KINDS: pl[4],
                "functions (bit flags; 4096 = history on one object)": pl[5], "axes for is_single_peaked_axis": pl[6], "k (k-approval)": pl[7]}
    if op == "c15.app":
        return {"alternatives": pl[0], "approval ballots": pl[1], "num_categories": pl[3],
                "twins [new labels, ballot order, alternative order, shuffle seed]": pl[2],
                "history seed (0 = none: every call on a fresh instance)": pl[4] if len(pl) > 4 else 0}
    if op == "c15.mat":
        return {"columns": pl[0], "rows": pl[1], "twins [column permutation, row permutation]": pl[2]}
    return {"alternatives": pl[0], "profile": pl[1], "multiplicities": pl[2], "twins [label permutation, ballot order]": pl[3]}


# =================================================================================================== shrinking
def _drop_index(perm, i):
    return [x - 1 if x > i else x for x in perm if x != i]


def shrink(c):
    op, pl, tags = c["op"], c["payload"], c["tags"]
    tw = _twins(c)
    ti = {"c15.ord": 4, "c15.app": 2, "c15.mat": 2, "c15.eucl": 3}[op]

    def with_(i, v, base=pl):
        q = list(base)
        q[i] = v
        return q

    if len(tw) > 1:
        for k in range(len(tw)):
            yield case(op, with_(ti, [tw[k]]), **tags)
    if op == "c15.ord":
        dt, alts, orders, mults, twins, flags, axes, ks = pl
        bits = [b for b in (1 << i for i in range(12)) if flags & b]
        if len(bits) > 1:
            for b in bits:
                yield case(op, with_(5, b), **tags)
        if len(ks) > 1:
            for k in ks:
                yield case(op, with_(7, [k]), **tags)
        if len(axes) > 1:
            for ax in axes:
                yield case(op, with_(6, [ax]), **tags)
        if len(orders) > 1:
            for i in range(len(orders)):
                q = list(pl)
                q[2] = orders[:i] + orders[i + 1:]
                q[3] = mults[:i] + mults[i + 1:]
                q[4] = [[t[0], _drop_index(t[1], i), t[2], t[3], t[4]] for t in twins]
                yield case(op, q, **tags)
        if any(k > 1 for k in mults):
            yield case(op, with_(3, [1] * len(mults)), **tags)
        if len(alts) > 2 and dt in (0, 2):
            for i, a in enumerate(alts):
                q = list(pl)
                q[1] = alts[:i] + alts[i + 1:]
                no = [[[x for x in cl if x != a] for cl in o] for o in orders]
                no = [[cl for cl in o if cl] for o in no]
                if len({proto.enc(o) for o in no}) != len(no):
                    continue
                q[2] = no
                q[4] = [[t[0][:i] + t[0][i + 1:], t[1], _drop_index(t[2], i), t[3], t[4]] for t in twins]
                q[6] = [[x for x in ax if x != a] for ax in axes]
                yield case(op, q, **tags)
        for k, t in enumerate(twins):
            if t[3] or t[4]:
                yield case(op, with_(4, twins[:k] + [[t[0], t[1], t[2], 0, 0]] + twins[k + 1:]), **tags)
            if list(t[0]) != list(alts):
                yield case(op, with_(4, twins[:k] + [[list(alts), t[1], t[2], t[3], t[4]]] + twins[k + 1:]), **tags)
            if t[1] != sorted(t[1]) or t[2] != sorted(t[2]):
                yield case(op, with_(4, twins[:k] + [[t[0], sorted(t[1]), sorted(t[2]), t[3], t[4]]] + twins[k + 1:]),
                           **tags)
    elif op == "c15.app":
        alts, ballots, twins, ncat = pl[:4]
        hist = list(pl[4:5])
        for i in range(len(ballots)):
            if len(ballots) > 1:
                yield case(op, [alts, ballots[:i] + ballots[i + 1:],
                                [[t[0], _drop_index(t[1], i), t[2], t[3]] for t in twins], ncat] + hist, **tags)
        for i, a in enumerate(alts):
            if len(alts) > 1:
                yield case(op, [alts[:i] + alts[i + 1:], [[x for x in b if x != a] for b in ballots],
                                [[t[0][:i] + t[0][i + 1:], t[1], _drop_index(t[2], i), t[3]] for t in twins], ncat] + hist,
                           **tags)
    elif op == "c15.mat":
        nc, rows, twins = pl
        for i in range(len(rows)):
            if len(rows) > 1:
                yield case(op, [nc, rows[:i] + rows[i + 1:], [[t[0], _drop_index(t[1], i)] for t in twins]], **tags)
        for j in range(nc):
            if nc > 1:
                yield case(op, [nc - 1, [r[:j] + r[j + 1:] for r in rows],
                                [[_drop_index(t[0], j), t[1]] for t in twins]], **tags)


# =================================================================================================== generators
def infer_dt(alts, orders):
    strict_ = all(len(cl) == 1 for o in orders for cl in o)
    complete = all(sum(len(cl) for cl in o) == len(alts) for o in orders)
    return 0 if (strict_ and complete) else 1 if strict_ else 2 if complete else 3


def far_labels(rng, m):
    return rng.sample(range(1, 10 ** 6), m)


def small_labels(rng, m, zero=False):
    """non-contiguous ids from a SMALL range (random subset of 1..4m or 1..m*m; with zero: of 0..4m-1 / 0..m*m-1):
    arithmetic encodings of pairs / sets of labels (a*m+b, a+b, a^b ...) collide here, never in 1..10^6"""
    lo = 0 if zero else 1
    hi = max(4 * m, m + 2) if rng.random() < 0.5 else max(m * m, m + 2)
    return rng.sample(range(lo, lo + hi), m)


def twin_labels(rng, m):
    """2/3 far apart (sample of 1..10^6), 1/3 from a small range"""
    return small_labels(rng, m) if rng.random() < 1 / 3 else far_labels(rng, m)


def mk_twins(rng, alts, n, total, api=True, shuffle_classes=True):
    """(i) relabel, (ii) shuffle + rebuild, (iii) both — (i) is dropped at random to save time on big cases"""
    m = len(alts)
    ident_b, ident_a = list(range(n)), list(range(m))

    def shuf():
        bp, ap = rand_perm(rng, ident_b), rand_perm(rng, ident_a)
        mode = rng.randint(1, 10 ** 6) if (api and total <= 400 and rng.random() < 0.7) else 0
        cs = rng.randint(1, 10 ** 6) if shuffle_classes else 0
        return bp, ap, mode, cs

    tw = []
    if rng.random() < 0.6:
        tw.append([twin_labels(rng, m), ident_b, ident_a, 0, 0])
    bp, ap, mode, cs = shuf()
    tw.append([list(alts), bp, ap, mode, cs])
    bp, ap, mode, cs = shuf()
    tw.append([twin_labels(rng, m), bp, ap, mode, cs])
    return tw


def ord_case(rng, alts, orders, mults, flags, axes=(), ks=(), twins=None, **tags):
    orders = [[list(c) for c in o] for o in orders]
    orders, mults = _dedupe_sem(orders, list(mults))
    dt = infer_dt(alts, orders)
    if dt != 0:
        flags &= ~(F_SP | F_SC | F_SCC | F_TREE | F_DELDP | F_PARTBF)
    tw = twins(len(orders)) if twins else mk_twins(rng, alts, len(orders), sum(mults))
    if rng.random() < 0.3:
        flags |= F_HIST
    return case("c15.ord", [dt, list(alts), orders, mults, tw, flags, [list(a) for a in axes], list(ks)],
                m=len(alts), n=len(orders), **tags)


def _dedupe_sem(orders, mults):
    """merge ballots that are equal as ballots (tie classes compared as sets): a twin that shuffles the members
    of a class must not turn two stored ballots into one"""
    seen, out, ms = [], [], []
    for o, k in zip(orders, mults):
        key = [sorted(cl) for cl in o]
        if key in seen:
            ms[seen.index(key)] += k
        else:
            seen.append(key)
            out.append(o)
            ms.append(k)
    return out, ms


def rand_mults(rng, n):
    style = rng.random()
    if style < 0.35:
        return rng.sample(range(1, 3 * n + 3), n)          # pairwise different: a list / dict mix-up changes the profile
    if style < 0.55:
        return [1] * n
    if style < 0.8:
        return [rng.choice([1, 1, 2, 3, 5]) for _ in range(n)]
    c = rng.randint(2, 9)
    return [c] * n


def noise_strict(rng, alts, votes, k):
    votes = [list(v) for v in votes]
    for _ in range(k):
        if votes and rng.random() < 0.6:
            v = list(rng.choice(votes))
            i = rng.randrange(len(v) - 1)
            j = rng.randrange(len(v) - 1) if rng.random() < 0.5 else i + 1
            v[i], v[j] = v[j], v[i]
        else:
            v = rand_perm(rng, alts)
        votes.append(v)
    return c03.distinct(votes)


def pick_size(rng, tier, small=False):
    if small:
        return rng.randint(3, 7), rng.randint(2, 8)
    r = rng.random()
    if r < 0.35:
        return rng.randint(3, 8), rng.randint(2, 12)
    if r < 0.75:
        return rng.randint(8, 18), rng.randint(6, 30)
    return rng.randint(18, 30), rng.randint(20, 60)


def gen_strict(rng, tier, count):
    out = []
    for i in range(count):
        fam = ["sp", "sp", "sc", "sc", "tree", "tree", "rand", "ties"][i % 8]
        m, n = pick_size(rng, tier)
        alts = far_labels(rng, m) if rng.random() < 0.3 else rand_perm(rng, range(1, m + 1))
        axis = rand_perm(rng, alts)
        noise = rng.choice([0, 0, 0, 1, 1, 2, 4])
        flags = F_RULES | F_TABLES | F_AXIS
        if fam == "sp":
            votes = [rng.choice([c03.conitzer, c03.walsh])(rng, axis) for _ in range(n)]
            flags |= F_SP | F_TREE | (F_SC if rng.random() < 0.5 else 0)
        elif fam == "sc":
            votes = c04.swap_walk(rng, alts, n)
            if rng.random() < 0.3 and len(votes) >= 2:
                votes = c04.star(rng, votes, m)
            flags |= F_SC | F_SP | (F_TREE if rng.random() < 0.5 else 0)
        elif fam == "tree":
            edges, adj = c13._rand_tree(rng, alts)
            votes = [c13._grow_vote(rng, alts, adj) for _ in range(n)]
            flags |= F_TREE | F_SP | (F_SC if rng.random() < 0.3 else 0)
        elif fam == "ties":
            kind, prof = c06.tie_profile(rng, 0, alts)
            votes = [[cl[0] for cl in o] for o, _ in prof]
            noise = 0
            flags |= F_SP | F_SC | F_TREE
        else:
            votes = [rand_perm(rng, alts) for _ in range(min(n, 12))]
            flags |= F_SP | F_SC | F_TREE
        votes = noise_strict(rng, alts, c03.distinct(votes), noise)[:60]
        rng.shuffle(votes)
        mults = rand_mults(rng, len(votes))
        if fam == "ties":
            mults = [k for _, k in prof][:len(votes)] + [1] * max(0, len(votes) - len(prof))
        axes = [axis, rand_perm(rng, alts)]
        ks = sorted({1, rng.randint(1, m), m})
        out.append(ord_case(rng, alts, [[[a] for a in v] for v in votes], mults, flags, axes, ks,
                            gen=fam + ("+noise" if noise else "")))
    return out


def gen_small(rng, tier, count, n_ilp, n_opt):
    """small strict / weak complete profiles for the expensive functions: PQ-tree, conflict sets, ILP, deletion
    optimisers, partition brute force"""
    out = []
    for i in range(count):
        weak = i % 3 == 2
        m, n = rng.randint(3, 9), rng.randint(2, 10)
        if i < n_opt:
            m, n = rng.randint(3, 6), rng.randint(2, 6)
        alts = far_labels(rng, m) if rng.random() < 0.3 else rand_perm(rng, range(1, m + 1))
        axis = rand_perm(rng, alts)
        noise = rng.choice([0, 0, 1, 1, 2])
        if weak:
            orders = [c11.planted_weak(rng, axis) for _ in range(n)]
            for _ in range(noise):
                orders.append(rand_weak_order(rng, alts, p_tie=0.4, complete=True))
            flags = F_PQ | F_AXIS | F_RULES | F_TABLES
        else:
            fam = rng.choice(["sp", "sc", "rand"])
            if fam == "sp":
                votes = [c03.conitzer(rng, axis) for _ in range(n)]
            elif fam == "sc":
                votes = c04.swap_walk(rng, alts, n)
            else:
                votes = [rand_perm(rng, alts) for _ in range(n)]
            votes = noise_strict(rng, alts, c03.distinct(votes), noise)
            orders = [[[a] for a in v] for v in votes]
            flags = F_PQ | F_SCC | F_SC | F_SP | F_AXIS | F_DELDP
            if m <= 5:
                flags |= F_PARTBF
        if i < n_ilp:
            flags |= F_ILP
        if i < n_opt:
            flags |= F_DELILP
        rng.shuffle(orders)
        out.append(ord_case(rng, alts, orders, rand_mults(rng, len(orders)), flags, [axis], [1, 2],
                            gen=("small-weak" if weak else "small-strict") + ("+noise" if noise else "")))
    return out


def gen_sc_nearmiss(rng, tier, count, ntw):
    """near-miss NON-single-crossing profiles for the two single-crossing recognisers: the 'two independent swaps'
    obstruction (two disjoint adjacent pairs swapped in all four combinations) continued by a swap walk, or a swap
    walk plus one adjacent-swap neighbour; m = 5..8, 4..8 ballots; MANY relabellings per base to small id ranges
    (0 included: the C04 campaign uses ids 0..m-1 too), so that any arithmetic encoding of pairs of labels collides"""
    out = []
    for i in range(count):
        m = rng.randint(5, 8)
        alts = rand_perm(rng, range(1, m + 1))
        r = rand_perm(rng, alts)
        if i % 4 != 3:
            pi = rng.randrange(0, m - 3)
            qi = rng.randrange(pi + 2, m - 1)
            used = {frozenset((r[pi], r[pi + 1])), frozenset((r[qi], r[qi + 1]))}

            def sw(v, k):
                v = list(v)
                v[k], v[k + 1] = v[k + 1], v[k]
                return v
            votes = [r, sw(r, pi), sw(r, qi), sw(sw(r, pi), qi)]
            cur = list(votes[-1])
            for _ in range(rng.randint(0, 4)):
                cands = [k for k in range(m - 1) if frozenset((cur[k], cur[k + 1])) not in used]
                if not cands:
                    break
                k = rng.choice(cands)
                used.add(frozenset((cur[k], cur[k + 1])))
                cur = sw(cur, k)
                votes.append(list(cur))
            gen = "sc-nearmiss-2swaps"
        else:
            votes = c04.swap_walk(rng, alts, rng.randint(4, 7))
            votes = c04.star(rng, votes, m, k=1) if len(votes) >= 2 else votes
            gen = "sc-nearmiss-star"
        votes = c03.distinct(votes)[:8]
        rng.shuffle(votes)

        def twins(n, m=m, alts=alts):
            tw = []
            for k in range(ntw):
                lab = small_labels(rng, m, zero=True) if k % 4 != 3 else far_labels(rng, m)
                bp = rand_perm(rng, range(n)) if k % 2 else list(range(n))
                tw.append([lab, bp, rand_perm(rng, range(m)) if k % 2 else list(range(m)), 0, 0])
            return tw
        out.append(ord_case(rng, alts, [[[a] for a in v] for v in votes], rand_mults(rng, len(votes)),
                            F_SC | F_SCC, [], [], twins=twins, gen=gen))
    return out


SAV_DEMO = (6, [([1, 2, 3, 4, 5], 3), ([1, 3, 4, 5, 6], 1), ([3], 1), ([4, 6], 2)])   # alternatives 3 and 4 both score 9/5


def _float_order_sensitive(prof):
    """generator-side selection only: summing mult/size as floats in some storage orders gives different sums for the
    exactly tied best alternatives (so a float implementation answers differently on equivalent inputs)"""
    import itertools
    sc, _ = c06.sav_scores(prof)
    best = max(sc.values())
    w = [a for a in sc if sc[a] == best]
    perms = list(itertools.permutations(prof)) if len(prof) <= 5 else None
    seen = set()
    r = random.Random(len(prof) * 7919 + 13)
    for t in range(120 if perms else 60):
        order = perms[t % len(perms)] if perms else r.sample(prof, len(prof))
        fs = {}
        for s_, k in order:
            for a in s_:
                fs[a] = fs.get(a, 0) + k / len(s_)
        seen.add(len({fs[a] for a in w}) == 1)
        if len(seen) == 2:
            return True
    return False in seen


def gen_sav_ties(rng, tier, count):
    """approval profiles with a planted EXACT first-place satisfaction tie between sums of different non-dyadic fractions
    (denominators 3, 5, 6, 7; >= 3 ballots contribute), selected so that float summation would be order-sensitive;
    every case: many storage orders (all permutations for <= 4 ballots, 24 random ones beyond) x relabellings; the
    base's winners are also compared with the exact model (c06.sav)"""
    import itertools
    found = [SAV_DEMO]
    tries = 0
    while len(found) < count and tries < 300000:
        tries += 1
        m = rng.choice([4, 5, 6, 6, 7, 7, 8])
        alts = list(range(1, m + 1))
        prof = []
        for _ in range(rng.randint(3, 7)):
            size = rng.choice([1, 2, 3, 3, 5, 5, 6, 7, 7])
            if size > m:
                continue
            s_ = rng.sample(alts, size)
            if not any(set(s_) == set(t) for t, _ in prof):
                prof.append((s_, rng.randint(1, 4)))
        if len(prof) >= 3 and c06.diff_denominator_tie(prof) and _float_order_sensitive(prof):
            found.append((m, prof))
    out = []
    for idx, (m, prof) in enumerate(found):
        alts = list(range(1, m + 1))
        n = len(prof)
        two = idx % 2 == 1              # complete two-class form (toc) or incomplete one-class form (toi)
        orders = []
        for s_, k in prof:
            rest = [x for x in alts if x not in s_]
            orders.append([list(s_), rest] if (two and rest) else [list(s_)])
        perms = [list(p_) for p_ in itertools.permutations(range(n))] if n <= 4 else \
            [rand_perm(rng, range(n)) for _ in range(24)]

        def twins(n_, perms=perms, alts=alts, m=m):
            tw = []
            for j, bp in enumerate(perms):
                lab = list(alts) if j % 3 else twin_labels(rng, m)
                tw.append([lab, list(bp), rand_perm(rng, range(m)) if j % 2 else list(range(m)), 0, 0])
            return tw
        c = ord_case(rng, alts, orders, [k for _, k in prof], F_RULES, [], [1], twins=twins, gen="sav-exact-tie")
        c["payload"][5] &= ~F_HIST
        out.append(c)
    return out


def gen_scoring(rng, tier, count):
    """tie-heavy profiles of every data type for the nine rules, the tables and has_condorcet"""
    out = []
    for i in range(count):
        dt = [0, 1, 2, 3, 0, 2][i % 6]
        m = rng.randint(2, 8) if rng.random() < 0.7 else rng.randint(8, 25)
        alts = far_labels(rng, m) if rng.random() < 0.3 else rand_perm(rng, range(1, m + 1))
        r = rng.random()
        if r < 0.4:
            kind, prof = c06.tie_profile(rng, dt, alts)
        elif r < 0.6 and dt in (0, 1):
            kind, prof = c14.level_profile(rng, dt, alts)
        elif r < 0.8 and dt in (2, 3):
            kind = "approval"
            prof = [(c06.approval_ballot(rng, dt, alts), rng.randint(1, 9)) for _ in range(rng.randint(1, 8))]
        else:
            kind = "random"
            prof = [(c06.rand_ballot(rng, dt, alts), rng.randint(1, 9)) for _ in range(rng.randint(1, 20))]
        prof = [(o, k) for o, k in prof if o and all(o)]
        if not prof:
            continue
        ks = sorted({1, 2, rng.randint(1, m), m + 1})
        out.append(ord_case(rng, alts, [o for o, _ in prof], [k for _, k in prof], F_RULES | F_TABLES, [], ks,
                            gen="scoring-" + kind))
    return out


def gen_app(rng, tier, count):
    out = []
    for i in range(count):
        big = i % 4 == 3
        alts, ballots, planted = c05._rand_instance(rng, 12 if big else 7, 12 if big else 7, big=big)
        m, n = len(alts), len(ballots)
        ncat = rng.choice([1, 2])
        ident_b, ident_a = list(range(n)), list(range(m))
        tw = []
        if rng.random() < 0.6:
            tw.append([twin_labels(rng, m), ident_b, ident_a, 0])
        tw.append([list(alts), rand_perm(rng, ident_b), rand_perm(rng, ident_a), rng.randint(1, 10 ** 6)])
        tw.append([twin_labels(rng, m), rand_perm(rng, ident_b), rand_perm(rng, ident_a), rng.randint(1, 10 ** 6)])
        out.append(case("c15.app", [alts, ballots, tw, ncat, rng.randint(1, 9) if i % 3 == 0 else 0], m=m, n=n,
                        gen="planted" if planted else "noisy"))
    return out


def gen_mat(rng, tier, count):
    out = []
    for i in range(count):
        if i % 5 == 4:
            nc = rng.randint(4, 10)
            rows = c05._block_matrix(rng, nc)
            gen = "block"
        else:
            nr, nc = rng.randint(1, 12), rng.randint(1, 12)
            rows, hidden = c05._planted_matrix(rng, nr, nc)
            gen = "planted" if hidden is not None else "flipped"
        nr = len(rows)
        if nr == 0:
            continue
        tw = [[rand_perm(rng, range(nc)), list(range(nr))], [list(range(nc)), rand_perm(rng, range(nr))],
              [rand_perm(rng, range(nc)), rand_perm(rng, range(nr))]]
        out.append(case("c15.mat", [nc, rows, tw], gen=gen))
    return out


def gen_eucl(tier, seed=0):
    """planted 1-Euclidean profiles stored by voter position (first and last stored
    ballot = the two extreme voters) with twins whose extremes sit in the middle / reversed / shuffled; SC walks;
    single-peaked + single-crossing but not Euclidean profiles; random profiles; m <= 7, n <= 8"""
    rng = random.Random(EUCL_SEED + 7717 * seed + (0 if tier == "quick" else 1))
    out = []
    count = 72 if tier == "quick" else 300
    for i in range(count):
        m, n = rng.randint(3, 7), rng.randint(2, 8)
        alts = list(range(1, m + 1))
        fam = ["planted", "planted", "planted", "sc", "spsc", "rand"][i % 6]
        if fam == "planted":
            apos, prof = c19.planted(rng, m, n)
            profile = [p for p, _ in prof]
        elif fam == "sc":
            profile = c04.swap_walk(rng, alts, n)
        elif fam == "spsc":
            m, alts = 6, list(range(1, 7))
            profile = [list(r) for r in rng.choice(c19.SPSC_NOT_EUCLIDEAN)]
        else:
            profile = c03.distinct([rand_perm(rng, alts) for _ in range(n)])
            rng.shuffle(profile)
        if len(profile) < 2:
            continue
        n = len(profile)
        mults = [rng.choice([1, 1, 2]) for _ in range(n)]
        so = c19.storage_orders(rng, n, extra=1)
        tw = [[rand_perm(rng, alts), list(range(n))]]
        for o in so[1:3]:
            tw.append([list(alts), list(o)])
        tw.append([rand_perm(rng, alts), list(so[-1])])
        out.append(case("c15.eucl", [alts, profile, mults, tw], gen="eucl-" + fam, m=m, n=n))
    return out


def generate(tier, seed):
    rng = random.Random(15_000 + seed * 7919 + (0 if tier == "quick" else 1))
    q = tier == "quick"
    out = []
    out += gen_strict(rng, tier, 400 if q else 1600)
    out += gen_small(rng, tier, 120 if q else 500, 14 if q else 50, 10 if q else 40)
    out += gen_sc_nearmiss(rng, tier, 120 if q else 600, 16)
    out += gen_scoring(rng, tier, 300 if q else 1500)
    out += gen_sav_ties(rng, tier, 25 if q else 120)
    out += gen_app(rng, tier, 200 if q else 1000)
    out += gen_mat(rng, tier, 200 if q else 1000)
    out += gen_eucl(tier, seed)
    return out
