"""C05 — approval-domain recognisers (CI, CEI, VI, VEI, WSC, DE, PART, 2PART) and the consecutive-ones solver.

Judge = the extracted model: verdicts are compared with the verified reference deciders (c05.X_decide, run only
while the permuted dimension is <= REF_MAX), every witness returned with True goes through the verified checker
(c05.X_check) at every size, and on planted instances the planted witness is itself certified by the verified
checker, which makes "True" the proved verdict at sizes where the reference is not run."""
import itertools
import json
import os
import random
from fractions import Fraction

from .common import case, guarded, snapshot, snap_diff

ID = "C05"
RULE = ("matrices: exhaustive 0/1 matrices (quick <= 3x4 and 4x3, thorough <= 3x5 and 4x4; degenerate 0-row / 0-column "
        "shapes for solve_consecutive_ones), random up to 6x7 (planted intervals under a hidden column permutation "
        "with 0-4 bit flips, duplicated and all-zero rows and columns, uniform), block-structured matrices with <= 8 "
        "columns (nested P/Q nodes, rows cutting through 2-3 blocks); at >= 5 columns, where defects inside the PQ-tree "
        "code show: all 3x5 matrices, every multiset of 4 rows over 5 columns in one arrangement, 'deep' planted "
        "matrices (chains of overlapping intervals, nested and straddling intervals, 0-2 flips) with 5-7 columns "
        "against the reference and with 8-12 columns (planted order certified by c1p_check => True is the proved "
        "verdict; every returned order checked), 'wrap' matrices (7-10 rows, 6-12 columns: chain of overlapping intervals "
        "plus nested intervals sharing an endpoint, 0-1 flips: depth >= 2 single-child wrappers), tall near-miss matrices (7-10 rows, 5-9 columns, 1-3 flips), the same "
        "matrices wrapped as instances for CI / DE (rows = ballots) and VI (rows = alternatives); large planted up to "
        "40x40; matrices with 65-140 rows and 4-7 columns (filler rows, then a Tucker core or random rows, both orders; reference "
        "run) (positive: planted order "
        "certified by c1p_check; negative: an embedded Tucker submatrix certified by c1p_core + c1p_core_refuted_sound); instances: every "
        "recogniser on all ordered profiles of <= 3 ballots over <= 3 alternatives, 4 alternatives with <= 3 ballots "
        "(quick: ballot multisets in one random arrangement; thorough: all ordered profiles), random m, n <= 6 (thorough "
        "7) from planted CI / CEI / VI / VEI / partition / 2-partition / forbidden-cycle / uniform generators with "
        "flips, repeated ballots, empty and full approval sets, unapproved alternatives, arbitrary labels in arbitrary "
        "insertion order, 1 or 2 categories; large planted instances 8 <= m, n <= 40 (witness check + planted "
        "certificate; partition references run at every size); HISTORIES: one CategoricalInstance object, 3-6 calls of "
        "interleaved recognisers with in-place edits of instance.preferences between the calls (ballot replaced, ballots "
        "permuted, alternatives relabelled, cycle / interval profile written in; the number of ballots never changes), "
        "each call judged on the current ballots; alternative ids include 0 and 10**18, 2**63, 2**64+1; reorder_sets called directly on the duplicate-free "
        "families of column sets of such matrices (all families from the exhaustive shapes, ~10 000 structured families (thorough 120 000) "
        "with 3-14 sets, 3 000 large ones up to 40 sets; list and dict-keys input): contract = sets_check / sets_decide; "
        "instance_to_ci_matrix compared through "
        "c1p_decide(matrix) == ci_decide(instance). non-trivial = >= 3 columns (alternatives) and a row (ballot) with "
        ">= 2 ones and >= 1 zero")
EXHAUSTIVE = {
    "quick": "all 0/1 matrices with <= 3 rows and <= 5 columns, and 4x1..4x3; every multiset of 4 rows over 5 columns "
             "(one arrangement); all ordered profiles with <= 3 ballots "
             "over <= 3 alternatives, all ballot multisets of size <= 3 over 4 alternatives, for each of the 8 "
             "recognisers",
    "thorough": "all 0/1 matrices up to 3x6 and 4x4; every multiset of 4 and of 5 rows over 5 columns (one arrangement "
                "each); all ordered profiles with <= 3 ballots over <= 4 alternatives for "
                "each of the 8 recognisers",
}
TRUSTED = [
    "the PQ-tree code of consecutive_ones.py is MIRRORED (Model/PQTree.v); the mirror is proved total (only "
    "ValueError), SOUND (pq_reorder_sound) and COMPLETE (pq_reorder_complete: ValueError only if no arrangement "
    "exists), chained to the mirrored solver, isC1P and the six recognisers (pq_solve_correct, pq_isC1P_correct, "
    "pq_*_complete); what ties the Python code to the mirror is the exact-equality comparison on every contract-test "
    "family; the comparisons with the references sets_decide / c1p_decide remain as an independent cross-check",
    "floats of is_dichotomous_euclidean are converted exactly with fractions.Fraction (positions are halves of small "
    "integers, exact in IEEE double)",
    "numpy array construction / transpose / vstack / argwhere",
    "MIRRORED (Model/PQTree.v): reorder_sets and the whole PQ-tree code; the mirror's result must EQUAL the "
    "implementation's (same ordering, ValueError iff Err ValueErr) on every contract-test family; the order in which "
    "reorder_sets visits the elements (iteration order of the CPython set set().union(*sets)) is a parameter of the "
    "mirror and is read off the same expression by the harness",
    "reorder_sets is additionally called directly on duplicate-free families of ascending index tuples (contract "
    "test: the result is accepted by sets_check, ValueError iff sets_decide says no arrangement exists); if the "
    "helper is not importable these cases are skipped, not failed",
]
ASSUMPTIONS = [
    "instance.num_alternatives == len(instance.alternatives_name); approved alternatives are keys of alternatives_name",
    "isC1P is only called with >= 1 row and >= 1 column (it raises IndexError on a matrix without rows or columns)",
    "2PART is read as 'at most two distinct approval sets': the profile without ballots is a 2-partition (witness "
    "[]); since /repo e589929 is_2_part agrees (corpus/C05/is_2_part_no_ballots.json)",
    "ballots of the two partition domains are also exercised with empty approval sets; the theorems do not need the "
    "non-emptiness hypothesis",
]
TIMEOUT_S = 20.0
COVER_FILES = ["properties/subdomains/consecutive_ones.py",
               "properties/subdomains/dichotomous/interval.py",
               "properties/subdomains/dichotomous/singlecrossing.py",
               "properties/subdomains/dichotomous/euclidean.py",
               "properties/subdomains/dichotomous/partition.py"]
CHUNK = 60
REF_MAX = 8          # reference deciders enumerate permutations of at most this many columns / alternatives / ballots

DOMAINS = ("ci", "cei", "vi", "vei", "wsc", "de", "part", "part2")
CAND = ("ci", "cei", "de")          # permuted dimension = alternatives
VOTER = ("vi", "vei", "wsc")        # permuted dimension = ballots


# ---------------------------------------------------------------------------------------------------------
# generators
def _mcase(rows, nc, **tags):
    return case("c05.matrix", [nc, [list(r) for r in rows]], **tags)


def _family(rows, nc, order=None):
    """the distinct column sets (ascending row-index tuples), first occurrences along order (default 0..nc-1)"""
    fam = []
    for j in (order if order is not None else range(nc)):
        k = [i for i, r in enumerate(rows) if r[j]]
        if k not in fam:
            fam.append(k)
    return fam


def _rcase(rows, nc, hidden=None, spread=None, **tags):
    """contract test of reorder_sets on the duplicate-free family of column sets of a matrix; spread = an increasing
    map of the row indices to sparse integers (makes the iteration order of set().union(*sets) non-monotone)"""
    f = (lambda fam: [[spread[i] for i in k] for k in fam]) if spread else (lambda fam: fam)
    if hidden is not None:
        tags["planted"] = f(_family(rows, nc, hidden))
    if spread:
        tags["spread"] = 1
    return case("c05.reorder", [f(_family(rows, nc))], **tags)


def _spread(rng, nr):
    return sorted(rng.sample(range(0, 300), nr))      # elements are unary nat in the model: keep them small


def _icase(dom, alts, ballots, **tags):
    return case("c05." + dom, [list(alts), [list(b) for b in ballots]], **tags)


def _all_matrices(nr, nc):
    for bits in itertools.product((0, 1), repeat=nr * nc):
        yield [list(bits[i * nc:(i + 1) * nc]) for i in range(nr)]


def _planted_matrix(rng, nr, nc):
    hidden = list(range(nc))
    rng.shuffle(hidden)
    rows = []
    for _ in range(nr):
        row = [0] * nc
        kind = rng.random()
        if kind < 0.1:
            pass
        elif kind < 0.2:
            row = [1] * nc
        else:
            a = rng.randrange(nc)
            b = rng.randrange(a, nc)
            for p in range(a, b + 1):
                row[hidden[p]] = 1
        rows.append(row)
    # duplicated rows / columns, zero columns
    if nr >= 2 and rng.random() < 0.4:
        rows[rng.randrange(nr)] = list(rows[rng.randrange(nr)])
    if nc >= 2 and rng.random() < 0.4:
        a, b = rng.randrange(nc), rng.randrange(nc)
        for r in rows:
            r[a] = r[b]
        if a != b:                       # keep the hidden order valid: the copy sits next to the original
            hidden.remove(a)
            hidden.insert(hidden.index(b) + 1, a)
    if nc >= 1 and rng.random() < 0.2:
        a = rng.randrange(nc)
        for r in rows:
            r[a] = 0
        hidden.remove(a)
        hidden.append(a)
    flips = rng.choice([0, 0, 0, 1, 2, 3, 4])
    for _ in range(flips):
        if nr and nc:
            r, c_ = rng.randrange(nr), rng.randrange(nc)
            rows[r][c_] ^= 1
    return rows, (hidden if flips == 0 else None)


def _block_matrix(rng, nc):
    """columns grouped into blocks (one all-ones row per block, sometimes rows joining neighbouring blocks: nested
    P/Q structure in the PQ-tree), plus one or two rows that cut through two or three blocks"""
    cols = list(range(nc))
    rng.shuffle(cols)
    g = rng.randint(2, max(2, min(4, nc // 2)))
    sizes = [2] * g if 2 * g <= nc else [1] * g
    for _ in range(nc - sum(sizes)):
        sizes[rng.randrange(g)] += 1
    blocks, at = [], 0
    for sz in sizes:
        blocks.append(cols[at:at + sz])
        at += sz
    rows = []
    for b in blocks:
        if len(b) >= 2 and rng.random() < 0.9:
            rows.append(b)
    for i in range(len(blocks) - 1):
        if rng.random() < 0.2:
            rows.append(blocks[i] + blocks[i + 1])
    for _ in range(rng.choice([1, 1, 2])):
        k = rng.randint(2, min(3, len(blocks)))
        chosen = rng.sample(blocks, k) if rng.random() < 0.5 else blocks[:k]
        row = []
        for b in chosen:
            row += rng.sample(b, rng.randint(1, max(1, len(b) - (rng.random() < 0.8))))
        rows.append(row)
    rng.shuffle(rows)
    return [[int(j in r) for j in range(nc)] for r in rows]


def _deep_matrix(rng, nr, nc, flips=None):
    """intervals under a hidden column order forming chains of overlapping intervals (Q-nodes), nested intervals
    (nested P-nodes) and intervals straddling two earlier ones; 0-2 bit flips give near misses"""
    hidden = list(range(nc))
    rng.shuffle(hidden)
    ivs = []
    mode = rng.choice(["chain", "nested", "mixed", "mixed"])
    while len(ivs) < nr:
        kind = mode if mode != "mixed" else rng.choice(["chain", "nested", "rand", "straddle"])
        if kind == "chain" or not ivs:
            s_ = rng.randrange(0, max(1, nc - 2))
            ln = rng.randint(2, max(2, min(4, nc - s_)))
            ivs.append((s_, min(nc - 1, s_ + ln - 1)))
            while len(ivs) < nr and rng.random() < 0.6:
                ps, pe = ivs[-1]
                if pe >= nc - 1:
                    break
                ivs.append((rng.randint(ps + 1, pe), rng.randint(pe + 1, min(nc - 1, pe + 3))))
        elif kind == "nested":
            ps, pe = rng.choice(ivs)
            if pe - ps >= 1:
                s2 = rng.randint(ps, pe)
                ivs.append((s2, rng.randint(s2, pe)))
            else:
                ivs.append((max(0, ps - 1), min(nc - 1, pe + 1)))
        elif kind == "straddle":
            a, b = rng.choice(ivs), rng.choice(ivs)
            lo, hi = min(a[0], b[0]), max(a[1], b[1])
            s2 = rng.randint(lo, hi)
            ivs.append((s2, rng.randint(s2, hi)))
        else:
            s2 = rng.randrange(nc)
            ivs.append((s2, rng.randrange(s2, nc)))
    ivs = ivs[:nr]
    rng.shuffle(ivs)
    rows = [[0] * nc for _ in ivs]
    for r, (s_, e) in zip(rows, ivs):
        for p_ in range(s_, e + 1):
            r[hidden[p_]] = 1
    if flips is None:
        flips = rng.choice([0, 0, 1, 1, 2])
    for _ in range(flips):
        rows[rng.randrange(nr)][rng.randrange(nc)] ^= 1
    return rows, (hidden if flips == 0 else None)


def _wrap_matrix(rng, nr, nc, flips=0):
    """a chain of overlapping intervals (Q-node) with nested intervals SHARING AN ENDPOINT with a chain member
    (single-child wrappers that the grandparent has to merge, reversals), many rows; measured on a seeded change
    of PQ.flatten: ~1e-3 hits per matrix with 9 rows, against ~4e-5 for uniform matrices"""
    hidden = list(range(nc))
    rng.shuffle(hidden)
    s_ = rng.randrange(0, max(1, nc // 3))
    e = min(nc - 1, s_ + rng.randint(2, 4))
    ivs = [(s_, e)]
    while e < nc - 1 and len(ivs) < max(2, nr // 2) and rng.random() < 0.8:
        s2 = rng.randint(s_ + 1, e)
        e2 = min(nc - 1, e + rng.randint(1, 3))
        ivs.append((s2, e2))
        s_, e = s2, e2
    while len(ivs) < nr:
        ps, pe = rng.choice(ivs)
        k = rng.random()
        if pe - ps >= 1 and k < 0.4:
            ivs.append((ps, rng.randint(ps, pe - 1)))
        elif pe - ps >= 1 and k < 0.8:
            ivs.append((rng.randint(ps + 1, pe), pe))
        else:
            a = rng.randint(0, nc - 1)
            ivs.append((a, rng.randint(a, nc - 1)))
    rng.shuffle(ivs)
    rows = [[0] * nc for _ in ivs]
    for r, (a, b) in zip(rows, ivs):
        for p_ in range(a, b + 1):
            r[hidden[p_]] = 1
    for _ in range(flips):
        rows[rng.randrange(nr)][rng.randrange(nc)] ^= 1
    return rows, (hidden if flips == 0 else None)


def _uniform_matrix(rng, nr, nc):
    p = rng.choice([0.3, 0.4, 0.5])
    return [[int(rng.random() < p) for _ in range(nc)] for _ in range(nr)]


# minimal matrices without the consecutive-ones property (Tucker): cycles M_I(k), M_III(1), M_III(2), M_II(2), M_IV, M_V.
# The model re-checks each core (c05.c1p_core), nothing is taken on trust from this table.
def _cores():
    out = []
    for k in (3, 4, 5):
        out.append([[int(j in (i, (i + 1) % k)) for j in range(k)] for i in range(k)])
    out.append([[1, 1, 0, 0], [0, 1, 1, 0], [0, 1, 0, 1]])
    out.append([[1, 1, 0, 0, 0], [0, 1, 1, 0, 0], [0, 0, 1, 1, 0], [0, 1, 1, 0, 1]])
    out.append([[1, 1, 0, 0, 0], [0, 1, 1, 0, 0], [0, 0, 1, 1, 0], [1, 1, 1, 0, 1], [0, 1, 1, 1, 1]])
    out.append([[1, 1, 0, 0, 0, 0], [0, 0, 1, 1, 0, 0], [0, 0, 0, 0, 1, 1], [0, 1, 0, 1, 0, 1]])
    out.append([[1, 1, 0, 0, 0], [0, 0, 1, 1, 0], [1, 1, 1, 1, 0], [1, 0, 0, 1, 1]])
    return out


def _embed_core(rng, rows, nc):
    """overwrite a random submatrix of rows with a forbidden core; returns (row indices, column indices)"""
    core = rng.choice(_cores())
    ridx = rng.sample(range(len(rows)), len(core))
    cols = rng.sample(range(nc), len(core[0]))
    for i, r in zip(ridx, core):
        for j, x in zip(cols, r):
            rows[i][j] = x
    return ridx, cols


_SPECIAL_IDS = [0, 10 ** 18, 2 ** 64 + 1, 2 ** 63, 10 ** 6]


def _labels(rng, m):
    """m distinct alternative ids in arbitrary order; the id 0 (falsy) and huge ids are frequent"""
    ids = rng.sample(range(0, 60), m)
    if m and rng.random() < 0.5 and 0 not in ids:
        ids[rng.randrange(m)] = 0
    for k in range(m):
        if rng.random() < 0.08:
            x = rng.choice(_SPECIAL_IDS)
            if x not in ids:
                ids[k] = x
    return ids


def _subsets(alts):
    for k in range(len(alts) + 1):
        for s in itertools.combinations(alts, k):
            yield list(s)


def _rand_instance(rng, mmax, nmax, big=False):
    """returns (alts, ballots, planted) with planted = {domain: witness} for the domains the plant certifies"""
    m = rng.randint(1 if not big else 8, mmax)
    n = rng.randint(1 if not big else 8, nmax)
    alts = _labels(rng, m)
    kind = rng.choice(["ci", "cei", "vi", "vei", "part", "part2", "uniform", "uniform", "cycle", "cycle", "cycle",
                       "ci", "vi"])
    if kind in ("uniform", "cycle") and not big:
        m, n = max(m, min(4, mmax)), max(n, min(4, nmax))
        alts = _labels(rng, m)
    ballots = []
    planted = {}
    if kind in ("ci", "cei"):
        order = list(alts)
        rng.shuffle(order)
        for _ in range(n):
            x = rng.random()
            if x < 0.1:
                b = []
            elif x < 0.2:
                b = list(order)
            elif kind == "cei":
                k = rng.randint(1, m)
                b = order[:k] if rng.random() < 0.5 else order[m - k:]
            else:
                a = rng.randrange(m)
                e = rng.randrange(a, m)
                b = order[a:e + 1]
            rng.shuffle(b)
            ballots.append(b)
        planted = {"ci": order, "de": order}
        if kind == "cei":
            planted["cei"] = order
    elif kind in ("vi", "vei"):
        border = list(range(n))
        rng.shuffle(border)
        ballots = [[] for _ in range(n)]
        for a in alts:
            x = rng.random()
            if x < 0.1:
                who = []
            elif kind == "vei":
                k = rng.randint(1, n)
                who = border[:k] if rng.random() < 0.5 else border[n - k:]
            else:
                s = rng.randrange(n)
                e = rng.randrange(s, n)
                who = border[s:e + 1]
            for i in who:
                ballots[i].append(a)
        planted = {"vi": border}
        if kind == "vei":
            planted["vei"] = border
            planted["wsc"] = border        # prefixes / suffixes: every difference of two of them is an interval
    elif kind in ("part", "part2"):
        k = 2 if kind == "part2" else rng.randint(1, max(1, min(4, m)))
        pool = list(alts)
        rng.shuffle(pool)
        if rng.random() < (0.5 if kind == "part" else 0.25) and len(pool) > 1:
            pool = pool[: rng.randint(1, len(pool))]       # alternatives approved by nobody
        cuts = sorted(rng.sample(range(1, len(pool)), min(k - 1, len(pool) - 1))) if len(pool) > 1 else []
        parts = [pool[i:j] for i, j in zip([0] + cuts, cuts + [len(pool)])]
        for _ in range(n):
            b = list(rng.choice(parts))
            rng.shuffle(b)
            ballots.append(b)
    elif kind == "cycle":
        # a forbidden configuration ({a,b},{b,c},{a,c} on the candidate side or its transpose) plus random ballots
        p = rng.choice([0.2, 0.5])
        ballots = [[a for a in alts if rng.random() < p] for _ in range(n)]
        if m >= 3 and n >= 3:
            tri = rng.sample(alts, 3)
            rows = rng.sample(range(n), 3)
            if rng.random() < 0.5:
                for i, (x, y) in zip(rows, [(0, 1), (1, 2), (0, 2)]):
                    ballots[i] = [a for a in ballots[i] if a not in tri] + [tri[x], tri[y]]
            else:
                for t, (x, y) in zip(tri, [(0, 1), (1, 2), (0, 2)]):
                    for k_, i in enumerate(rows):
                        ballots[i] = [a for a in ballots[i] if a != t] + ([t] if k_ in (x, y) else [])
    else:
        p = rng.choice([0.3, 0.5, 0.7])
        ballots = [[a for a in alts if rng.random() < p] for _ in range(n)]
    # noise
    if rng.random() < 0.4:
        for _ in range(rng.choice([1, 1, 2, 3])):
            i = rng.randrange(n)
            a = rng.choice(alts)
            if a in ballots[i]:
                ballots[i] = [x for x in ballots[i] if x != a]
            else:
                ballots[i] = ballots[i] + [a]
        planted = {}
    if n >= 2 and rng.random() < 0.3 and not planted:
        i, j = rng.randrange(n), rng.randrange(n)
        ballots[i] = list(ballots[j])
    return alts, ballots, planted


def _rot(k):
    """the eight recognisers, starting at a varying one (keeps any every-n-th sample of the campaign representative)"""
    k %= len(DOMAINS)
    return DOMAINS[k:] + DOMAINS[:k]


def generate(tier, seed):
    rng = random.Random(1000003 * seed + 5)
    quick = tier == "quick"
    rot_rng = random.Random(99)
    out = []
    # ---- (1) matrices -------------------------------------------------------------------------------------
    shapes = [(nr, nc) for nr in range(1, 4) for nc in range(1, 5)] + [(4, 3), (4, 2), (4, 1)]
    if not quick:
        shapes += [(1, 5), (2, 5), (3, 5), (4, 4)]
    for nr, nc in shapes:
        for rows in _all_matrices(nr, nc):
            out.append(_mcase(rows, nc, exh=1))
    for nr, nc in [(0, 0), (0, 3), (3, 0), (0, 1), (1, 0)]:
        out.append(_mcase([[] for _ in range(nr)], nc, exh=1, degenerate=1))
    nrand = 4000 if quick else 40000
    for i in range(nrand):
        nr, nc = rng.randint(1, 6), rng.randint(1, 7)
        if i % 5 in (3, 4):
            nr, nc = rng.randint(3, 6), rng.randint(3, 7)
            p = rng.choice([0.25, 0.4, 0.5, 0.6])
            rows = [[int(rng.random() < p) for _ in range(nc)] for _ in range(nr)]
            if rng.random() < 0.3:
                rows[rng.randrange(nr)] = list(rows[rng.randrange(nr)])
            if rng.random() < 0.3:
                a, b = rng.randrange(nc), rng.randrange(nc)
                for r in rows:
                    r[a] = r[b]
            out.append(_mcase(rows, nc, gen="uniform"))
        else:
            rows, hidden = _planted_matrix(rng, nr, nc)
            out.append(_mcase(rows, nc, gen="planted", **({"planted": hidden} if hidden is not None else {})))
    nblk = 1500 if quick else 15000
    for i in range(nblk):
        nc = rng.randint(4, 7 if quick else 8)
        out.append(_mcase(_block_matrix(rng, nc), nc, gen="blocks"))
    nbig = 60 if quick else 600
    for i in range(nbig):
        nr, nc = rng.randint(8, 40), rng.randint(8, 40)
        rows, hidden = _planted_matrix(rng, nr, nc)
        out.append(_mcase(rows, nc, gen="planted-big", big=1, **({"planted": hidden} if hidden is not None else {})))
    # ---- volume and structure at >= 5 columns (defects inside the PQ-tree code only show there) -------------
    for rows in _all_matrices(3, 5):
        if quick:
            out.append(_mcase(rows, 5, exh=1))                   # (thorough: already in shapes)
    words5 = [list(b) for b in itertools.product((0, 1), repeat=5)]
    for comb in itertools.combinations_with_replacement(range(32), 4):
        rows = [words5[i] for i in comb]
        rng.shuffle(rows)                                        # every multiset of 4 rows, one arrangement
        out.append(_mcase(rows, 5, exh=1, gen="4x5-multisets"))
    if not quick:
        words6 = [list(b) for b in itertools.product((0, 1), repeat=6)]
        for bits in itertools.product(range(64), repeat=3):
            out.append(_mcase([words6[i] for i in bits], 6, exh=1))
        for comb in itertools.combinations_with_replacement(range(32), 5):
            rows = [words5[i] for i in comb]
            rng.shuffle(rows)
            out.append(_mcase(rows, 5, exh=1, gen="5x5-multisets"))
    ndeep = 8000 if quick else 60000
    for i in range(ndeep):                                       # reference runs (<= 7 columns)
        nr, nc = rng.randint(3, 7), rng.randint(5, 7)
        if i % 3 == 2:
            out.append(_mcase(_uniform_matrix(rng, nr, nc), nc, gen="uniform5-7"))
        else:
            rows, hidden = _deep_matrix(rng, nr, nc)
            out.append(_mcase(rows, nc, gen="deep5-7", **({"planted": hidden} if hidden is not None else {})))
    nwide = 12000 if quick else 200000
    for i in range(nwide):                                       # 8-12 columns: witness check + planted certificate
        nr, nc = rng.randint(3, 8), rng.randint(8, 12)
        if i % 4 == 3:
            out.append(_mcase(_uniform_matrix(rng, nr, nc), nc, gen="uniform8-12", big=1))
        else:
            rows, hidden = _deep_matrix(rng, nr, nc, flips=rng.choice([0, 0, 0, 1, 2]))
            out.append(_mcase(rows, nc, gen="deep8-12", big=1, **({"planted": hidden} if hidden is not None else {})))
    nwrap_m = 10000 if quick else 150000
    for i in range(nwrap_m):        # depth >= 2 wrappers: planted certificate / reference + check of every order
        nr, nc = rng.randint(7, 10), rng.randint(6, 12)
        rows, hidden = _wrap_matrix(rng, nr, nc, flips=i % 2)
        tags = {"big": 1} if (nc > 7 or i % 4 > 1) else {}
        out.append(_mcase(rows, nc, gen="wrap", **tags, **({"planted": hidden} if hidden is not None else {})))
    ntall = 12000 if quick else 150000
    for i in range(ntall):          # many rows, near misses: a false True always carries an invalid column order
        nr, nc = rng.randint(7, 10), rng.randint(5, 9)
        if i % 3 == 2:
            rows = [[int(rng.random() < 0.45) for _ in range(nc)] for _ in range(nr)]
        else:
            rows, _ = _deep_matrix(rng, nr, nc, flips=rng.choice([1, 2, 3, 3]))
        tags = {"big": 1} if (i % 4 or nc > 7) else {}        # a quarter of the <= 7-column ones also get the reference
        out.append(_mcase(rows, nc, gen="tall-near-miss", **tags))
    # ---- more than 64 rows with few columns (a column packed into one machine word loses the rows >= 64): filler rows
    #      (all-zero, all-one, repeated interval rows) then a Tucker core or random rows, and the other way round
    ntall64 = 400 if quick else 4000
    for i in range(ntall64):
        nc = rng.randint(4, 7)
        hidden = list(range(nc))
        rng.shuffle(hidden)
        nfill = rng.randint(64, 130)
        kind = rng.choice(["zero", "one", "interval", "mixed"])
        fill = []
        base = [0] * nc
        a_ = rng.randrange(nc)
        for p_ in range(a_, rng.randrange(a_, nc) + 1):
            base[hidden[p_]] = 1
        for _ in range(nfill):
            if kind == "zero":
                fill.append([0] * nc)
            elif kind == "one":
                fill.append([1] * nc)
            elif kind == "interval":
                fill.append(list(base))
            else:
                fill.append(rng.choice([[0] * nc, [1] * nc, list(base)]))
        if i % 3 == 2:
            tail_ = [[int(rng.random() < 0.45) for _ in range(nc)] for _ in range(rng.randint(3, 6))]
        else:
            core = rng.choice([c_ for c_ in _cores() if len(c_[0]) <= nc])
            cols = rng.sample(range(nc), len(core[0]))
            tail_ = []
            for r_ in core:
                row = [0] * nc
                for j_, x_ in zip(cols, r_):
                    row[j_] = x_
                tail_.append(row)
        rows = fill + tail_ if i % 4 else tail_ + fill
        out.append(_mcase(rows, nc, gen="tall>64"))
    ncore = 150 if quick else 1500
    for i in range(ncore):
        nr, nc = rng.randint(6, 40), rng.randint(6, 40)
        rows, _ = _planted_matrix(rng, nr, nc)
        ridx, cols = _embed_core(rng, rows, nc)
        out.append(_mcase(rows, nc, gen="embedded-core", big=1, core=[ridx, cols]))
    # ---- (1b) reorder_sets called directly on duplicate-free families (its contract: Properties/C05.v
    #      reorder_contract / solve_model_correct / isC1P_model_correct) ---------------------------------------
    seen_fam = set()
    for nr, nc in [(3, 3), (3, 4), (4, 3), (3, 5)] + ([] if quick else [(4, 4), (3, 6)]):
        for rows in _all_matrices(nr, nc):
            c_ = _rcase(rows, nc, exh=1, form=len(seen_fam) % 2)
            key = repr(c_["payload"])
            if key not in seen_fam:
                seen_fam.add(key)
                out.append(c_)
    nfam = 8000 if quick else 120000
    for i in range(nfam):
        kind = i % 6
        if kind in (0, 1):
            nr, nc = rng.randint(3, 7), rng.randint(5, 8)
            rows, hidden = _deep_matrix(rng, nr, nc)
        elif kind in (2, 3):
            nr, nc = rng.randint(3, 8), rng.randint(8, 14)
            rows, hidden = _deep_matrix(rng, nr, nc, flips=rng.choice([0, 0, 0, 1, 2]))
        elif kind == 4:
            nr, nc = rng.randint(7, 10), rng.randint(6, 12)
            rows, hidden = _wrap_matrix(rng, nr, nc, flips=rng.choice([0, 0, 1]))
        else:
            nr, nc = rng.randint(3, 8), rng.randint(4, 9)
            rows, hidden = _uniform_matrix(rng, nr, nc), None
        out.append(_rcase(rows, nc, hidden, spread=(_spread(rng, nr) if i % 5 == 0 else None), form=i % 2, gen="fam"))
    nfb = 3000 if quick else 30000
    for i in range(nfb):                       # large families: planted certificate + check of the returned order
        nr, nc = rng.randint(6, 30), rng.randint(10, 40)
        if i % 2:
            rows, hidden = _planted_matrix(rng, nr, nc)
        else:
            rows, hidden = _deep_matrix(rng, nr, nc, flips=rng.choice([0, 0, 0, 1]))
        out.append(_rcase(rows, nc, hidden, form=i % 2, gen="fam-big"))
    # ---- (2) instances: exhaustive small ------------------------------------------------------------------
    label_sets = {0: [], 1: [0], 2: [4, 0], 3: [5, 0, 2 ** 64 + 1], 4: [6, 10 ** 18, 0, 3]}
    for m in range(0, 4):
        alts = label_sets[m]
        subs = list(_subsets(alts))
        for n in range(0, 4):
            for prof in itertools.product(subs, repeat=n):
                for dom in _rot(rot_rng.randrange(8)):
                    out.append(_icase(dom, alts, prof, exh=1, ncat=1 + (len(out) % 2)))
                out.append(_icase("cimat", alts, prof, exh=1, ncat=1 + (len(out) % 2)))
    if True:
        alts = label_sets[4]
        subs = list(_subsets(alts))
        for n in range(1, 4):
            for prof in (itertools.combinations_with_replacement(subs, n) if quick else itertools.product(subs, repeat=n)):
                prof = list(prof)
                rng.shuffle(prof)
                for dom in _rot(rot_rng.randrange(8)):
                    out.append(_icase(dom, alts, prof, exh=1, ncat=1 + (len(out) % 2)))
    # ---- random small (reference runs) --------------------------------------------------------------------
    nri = 1200 if quick else 12000
    mmax = 6 if quick else 7
    for i in range(nri):
        alts, ballots, planted = _rand_instance(rng, mmax, mmax)
        for dom in _rot(rot_rng.randrange(8)):
            tags = {"ncat": 1 + (i % 2)}
            if dom in planted:
                tags["planted"] = planted[dom]
            out.append(_icase(dom, alts, ballots, **tags))
        out.append(_icase("cimat", alts, ballots, ncat=1 + (i % 2)))
    # ---- the deep matrices wrapped as approval instances (rows = ballots for CI / DE, rows = alternatives for VI)
    nwrap = 2500 if quick else 25000
    for i in range(nwrap):
        nr, nc = rng.randint(3, 7), rng.randint(5, 12)
        if i % 5 == 4:
            rows, hidden = _uniform_matrix(rng, nr, nc), None
        elif i % 5 in (2, 3):
            nr = rng.randint(7, 9)
            rows, hidden = _wrap_matrix(rng, nr, nc, flips=rng.choice([0, 0, 1]))
        else:
            rows, hidden = _deep_matrix(rng, nr, nc, flips=rng.choice([0, 0, 1, 2]))
        labels = _labels(rng, nc)
        ballots = [[labels[j] for j in range(nc) if r[j]] for r in rows]
        for b in ballots:
            rng.shuffle(b)
        big = {"big": 1} if nc > 7 else {}
        for dom in ("ci", "de"):
            tags = dict(big, ncat=1 + (i % 2), gen="wrapped")
            if hidden is not None:
                tags["planted"] = [labels[j] for j in hidden]
            out.append(_icase(dom, labels, ballots, **tags))
        # transpose: alternatives = rows, ballots = columns
        alabels = _labels(rng, nr)
        vballots = [[alabels[i_] for i_ in range(nr) if rows[i_][j]] for j in range(nc)]
        tags = dict(big, ncat=1 + (i % 2), gen="wrapped")
        if hidden is not None:
            tags["planted"] = list(hidden)
        out.append(_icase("vi", alabels, vballots, **tags))
    # ---- histories: ONE instance object, recognisers interleaved with in-place edits of instance.preferences
    #      that keep the shape (same number of ballots and alternatives); every call is judged on the CURRENT ballots
    nhist = 2500 if quick else 25000
    for i in range(nhist):
        alts, ballots, _pl = _rand_instance(rng, 6, 6)
        n = len(ballots)
        steps = []
        cur = [list(b) for b in ballots]
        for k in range(rng.randint(3, 6)):
            if k > 0:
                kind = rng.choice(["none", "replace", "replace", "permute", "relabel", "cycle", "interval"])
                if kind == "replace":
                    cur[rng.randrange(n)] = [a for a in alts if rng.random() < 0.5]
                elif kind == "permute":
                    rng.shuffle(cur)
                elif kind == "relabel":
                    sh = list(alts)
                    rng.shuffle(sh)
                    mp = dict(zip(alts, sh))
                    cur = [[mp[a] for a in b] for b in cur]
                elif kind == "cycle" and len(alts) >= 3 and n >= 3:
                    tri = rng.sample(alts, 3)
                    for j, (x, y) in zip(rng.sample(range(n), 3), [(0, 1), (1, 2), (0, 2)]):
                        cur[j] = [tri[x], tri[y]]
                elif kind == "interval":
                    order = list(alts)
                    rng.shuffle(order)
                    cur = []
                    for _ in range(n):
                        a_ = rng.randrange(len(order))
                        cur.append(order[a_: rng.randrange(a_, len(order)) + 1])
            steps.append([DOMAINS.index(rng.choice(DOMAINS)), [list(b) for b in cur]])
        out.append(case("c05.history", [list(alts), steps], ncat=1 + (i % 2), gen="history"))
    # ---- purity / aliasing / lifetime (round-5 lessons): in ONE worker call, first another instance (different size,
    #      overlapping ids, possibly rejected), then ONE object on which the recognisers are called in several orders
    #      and twice; after every call the instance must be unchanged (snapshot), the returned witness is spoiled in
    #      place, and every answer is judged on the ORIGINAL profile.  Variants: numpy.int64 ids, multiplicity keys in
    #      another order than preferences, recompute_cardinality_param() before asking, the same approval set written
    #      by two voters in different member order
    npur = 1200 if quick else 12000
    for i in range(npur):
        alts, ballots, _pl = _rand_instance(rng, 6, 6)
        if len(ballots) >= 1 and rng.random() < 0.6:
            b0 = list(rng.choice(ballots))
            b0.reverse()
            ballots = ballots + [b0]                       # same set, other member order
        ballots = ballots[:6]
        alts2, ballots2, _pl2 = _rand_instance(rng, 6, 6)
        if rng.random() < 0.6 and alts:
            keep = rng.sample(alts, rng.randint(1, len(alts)))          # overlapping ids, other size / content
            alts2 = keep + [a for a in alts2 if a not in alts][: rng.randint(0, 3)]
            ballots2 = [[a for a in alts2 if rng.random() < 0.5] for _ in range(rng.randint(1, 5))]
        calls = [rng.randrange(8) for _ in range(rng.randint(3, 5))]
        calls = calls + [rng.choice(calls)] + [calls[0]]                 # each family member may come twice
        pre_calls = [rng.randrange(8) for _ in range(rng.randint(1, 3))]
        out.append(case("c05.purity", [list(alts), [list(b) for b in ballots], calls, [list(alts2), [list(b) for b in ballots2], pre_calls]],
                        ncat=1 + (i % 2), npids=int(i % 4 == 1 and max(alts + alts2 + [0]) < 2 ** 62), multrev=int(i % 3 == 0), recompute=int(i % 5 == 2), gen="purity"))
    # ---- (3) large planted --------------------------------------------------------------------------------
    nbi = 40 if quick else 400
    for i in range(nbi):
        alts, ballots, planted = _rand_instance(rng, 40, 40, big=True)
        for dom in DOMAINS:
            tags = {"ncat": 1 + (i % 2), "big": 1}
            if dom in planted:
                tags["planted"] = planted[dom]
            out.append(_icase(dom, alts, ballots, **tags))
    return out


# ---------------------------------------------------------------------------------------------------------
# implementation side
def _instance(alts, ballots, ncat, npids=False, multrev=False, recompute=False):
    """npids: identifiers are numpy.int64; multrev: the keys of multiplicity are inserted in the reverse of the order
    of preferences; recompute: recompute_cardinality_param() is called once the instance is built"""
    from preflibtools.instances import CategoricalInstance
    if npids:
        import numpy as np
        alts = [np.int64(a) for a in alts]
        ballots = [[np.int64(a) for a in b] for b in ballots]
    inst = CategoricalInstance()
    for a in alts:
        inst.alternatives_name[a] = "Alternative " + str(a)
    inst.num_alternatives = len(alts)
    inst.num_categories = ncat
    inst.categories_name = {1: "Approved"} if ncat == 1 else {1: "Approved", 2: "Not approved"}
    for b in ballots:
        if ncat == 1:
            pref = (tuple(b),)
        else:
            pref = (tuple(b), tuple(a for a in alts if a not in b))
        inst.preferences.append(pref)
        inst.multiplicity[pref] = inst.multiplicity.get(pref, 0) + 1
    if multrev:
        inst.multiplicity = {k_: inst.multiplicity[k_] for k_ in reversed(list(inst.multiplicity))}
    inst.num_voters = len(ballots)
    inst.num_unique_preferences = len(set(inst.preferences))
    inst.data_type = "cat"
    if recompute:
        inst.recompute_cardinality_param()
    return inst


def _frac(x):
    f = Fraction(x)
    return [f.numerator, f.denominator]


def _is_int(x):
    return (isinstance(x, int) and not isinstance(x, bool)) or (hasattr(x, "__index__") and not isinstance(x, bool))


def _run_matrix(nc, rows):
    import numpy as np
    from preflibtools.properties.subdomains.consecutive_ones import solve_consecutive_ones, isC1P
    nr = len(rows)
    mat = np.array(rows, dtype=int).reshape(nr, nc)
    keep = mat.copy()
    res = solve_consecutive_ones(mat)
    if not (isinstance(res, tuple) and len(res) == 2):
        raise AssertionError("solve_consecutive_ones returned %r" % (res,))
    if not np.array_equal(mat, keep):
        raise AssertionError("solve_consecutive_ones modified the matrix of its caller")
    # the returned order belongs to the caller: spoil it and ask again (same question, same answer expected)
    first = (bool(res[0]), None if res[1] is None else [int(j) if _is_int(j) else -1 for j in res[1]])
    if isinstance(res[1], list):
        res[1].reverse()
        res[1].append(-7)
        del res[1][:1]
    res2 = solve_consecutive_ones(mat)
    second = (bool(res2[0]), None if res2[1] is None else [int(j) if _is_int(j) else -1 for j in res2[1]])
    if first != second:
        raise AssertionError("solve_consecutive_ones answered %r, then %r on the same matrix after the first returned "
                             "order had been modified by the caller" % (first, second))
    res = (res2[0], res2[1])
    v, order = res
    if v:
        if order is None or not all(_is_int(j) for j in order):
            return [1, [-1], -1, -1]            # witness of the wrong shape: rejected by the judge
        order = [int(j) for j in order]
    else:
        order = []
    iv_list = iv_np = -1
    if nr >= 1 and nc >= 1:
        arg = [list(r) for r in rows]
        iv_list = int(bool(isC1P(arg)))
        if arg != [list(r) for r in rows]:
            raise AssertionError("isC1P modified the matrix (list of lists) of its caller")
        if int(bool(isC1P(arg))) != iv_list:
            raise AssertionError("isC1P gave two different answers on the same matrix")
        iv_np = int(bool(isC1P(mat)))
        if not np.array_equal(mat, keep):
            raise AssertionError("isC1P modified the matrix (ndarray) of its caller")
    return [int(bool(v)), order, iv_list, iv_np]


def _pref(alts, b, ncat):
    return (tuple(b),) if ncat == 1 else (tuple(b), tuple(a for a in alts if a not in b))


def _poison(w):
    """spoil a returned witness in place (it belongs to the caller)"""
    try:
        if isinstance(w, list):
            for x in w:
                if isinstance(x, set):
                    x.add(-7)
                elif isinstance(x, list):
                    x.append(-7)
            w.reverse()
            w.append(-7)
        elif isinstance(w, dict):
            for k_ in list(w):
                w[k_] = (-7, -7)
            w[-7] = (-7, -7)
        elif isinstance(w, tuple):
            for x in w:
                _poison(x)
    except Exception:
        pass


def _run_purity(alts, ballots, calls, pre, tags):
    from preflibtools.properties.subdomains.dichotomous import interval, singlecrossing, euclidean, partition
    fns = {"ci": interval.is_candidate_interval, "cei": interval.is_candidate_extremal_interval,
           "vi": interval.is_voter_interval, "vei": interval.is_voter_extremal_interval,
           "wsc": singlecrossing.is_weakly_single_crossing, "de": euclidean.is_dichotomous_euclidean,
           "part": partition.is_part, "part2": partition.is_2_part}
    ncat = tags.get("ncat", 2)
    # (c) another instance first, in the same process
    alts2, ballots2, pre_calls = pre
    other = _instance(alts2, ballots2, ncat)
    for k_ in pre_calls:
        try:
            _poison(fns[DOMAINS[k_]](other)[1])
        except Exception:
            pass
    inst = _instance(alts, ballots, ncat, npids=bool(tags.get("npids")), multrev=bool(tags.get("multrev")),
                     recompute=bool(tags.get("recompute")))
    out = []
    for k_ in calls:
        dom = DOMAINS[k_]
        before = snapshot(inst)
        val, raw = _run_domain(dom, alts, ballots, ncat, inst=inst, want_raw=True)
        diff = snap_diff(before, snapshot(inst))
        if diff:
            raise AssertionError("%s modified the instance it was asked about: %s" % (fns[dom].__name__, diff))
        out.append(val)
        _poison(raw)                               # (b) the witness belongs to the caller
    return out


def _run_history(alts, steps, ncat):
    inst = _instance(alts, steps[0][1], ncat)
    prefs = inst.preferences                     # the same list object is edited in place throughout
    out = []
    for dom_i, ballots in steps:
        assert len(ballots) == len(prefs)
        for k, b in enumerate(ballots):
            newp = _pref(alts, b, ncat)
            if prefs[k] != newp:
                prefs[k] = newp
        inst.multiplicity = {}
        for p_ in prefs:
            inst.multiplicity[p_] = inst.multiplicity.get(p_, 0) + 1
        inst.num_unique_preferences = len(set(prefs))
        assert inst.preferences is prefs
        out.append(_run_domain(DOMAINS[dom_i], alts, ballots, ncat, inst=inst))
    return out


def _run_domain(dom, alts, ballots, ncat, inst=None, want_raw=False):
    if want_raw:
        box = []
        return _run_domain(dom, alts, ballots, ncat, inst=inst, want_raw=box), (box[0] if box else None)
    from preflibtools.properties.subdomains.dichotomous import interval, singlecrossing, euclidean, partition
    if inst is None:
        inst = _instance(alts, ballots, ncat)
    fn = {"ci": interval.is_candidate_interval, "cei": interval.is_candidate_extremal_interval,
          "vi": interval.is_voter_interval, "vei": interval.is_voter_extremal_interval,
          "wsc": singlecrossing.is_weakly_single_crossing, "de": euclidean.is_dichotomous_euclidean,
          "part": partition.is_part, "part2": partition.is_2_part}[dom]
    res = fn(inst)
    if not isinstance(res, tuple) or len(res) < 2:
        raise AssertionError("%s returned %r" % (fn.__name__, res))
    v, w = res[0], res[1]
    if isinstance(want_raw, list):
        want_raw.append(w)
    if not v:
        return [0, []]
    bad = [1, [-1]]
    if dom in ("ci", "cei", "vi", "vei", "wsc"):
        if w is None or not all(_is_int(x) for x in w):
            return bad
        return [1, [int(x) for x in w]]
    if dom == "de":
        try:
            vpr, ap = w
            n = len(ballots)
            if sorted(vpr.keys()) != list(range(n)):
                return bad
            return [1, [[[_frac(vpr[i][0]), _frac(vpr[i][1])] for i in range(n)],
                        [[int(a), _frac(p)] for a, p in ap.items()]]]
        except Exception:
            return bad
    # partitions: list of sets
    if w is None:
        return bad
    return [1, [sorted(int(x) for x in s) for s in w]]


def _run_cimat(alts, ballots, ncat):
    from preflibtools.properties.subdomains.dichotomous.interval import instance_to_ci_matrix
    mat = instance_to_ci_matrix(_instance(alts, ballots, ncat))
    shape = [int(x) for x in mat.shape]
    return [shape, [[int(x) for x in row] for row in mat]]


def _run_reorder(fam, form):
    try:
        from preflibtools.properties.subdomains.consecutive_ones import reorder_sets
    except ImportError:
        return [2]                 # the helper is internal: its absence is not a violation of the property
    sets = [tuple(s_) for s_ in fam]
    arg = list(sets) if form == 0 else dict.fromkeys(sets).keys()      # isC1P passes a list, the solver dict keys
    # the order in which reorder_sets will visit the elements ("for i in set().union(*sets)"): CPython's set
    # iteration order, a parameter of the mirrored algorithm
    elems = [int(x) for x in set().union(*sets)]
    try:
        res = reorder_sets(arg)
    except ValueError:
        if list(arg) != sets:
            raise AssertionError("reorder_sets modified the family of its caller")
        return [0, [], elems]
    if list(arg) != sets:
        raise AssertionError("reorder_sets modified the family of its caller")
    try:
        out = [[int(x) for x in s_] for s_ in res]
    except Exception:
        return [1, [[-1]], elems]
    # the result belongs to the caller: spoil it (unless it IS the argument: families of <= 2 sets are returned as
    # they are), then the same question must get the same answer
    if isinstance(res, list) and res is not arg:
        res.reverse()
        res.append((-7,))
        arg2 = list(sets) if form == 0 else dict.fromkeys(sets).keys()
        res2 = reorder_sets(arg2)
        if [[int(x) for x in s_] for s_ in res2] != out:
            raise AssertionError("reorder_sets gave two different answers on the same family after the first result had "
                                 "been modified by the caller")
    return [1, out, elems]


def impl(c):
    op, pl = c["op"], c["payload"]
    if op == "c05.reorder":
        return guarded(_run_reorder, pl[0], c["tags"].get("form", 0))
    if op == "c05.history":
        return guarded(_run_history, pl[0], pl[1], c["tags"].get("ncat", 2))
    if op == "c05.purity":
        return guarded(_run_purity, pl[0], pl[1], pl[2], pl[3], c["tags"])
    if op == "c05.matrix":
        return guarded(_run_matrix, pl[0], pl[1])
    if op == "c05.cimat":
        return guarded(_run_cimat, pl[0], pl[1], c["tags"].get("ncat", 2))
    return guarded(_run_domain, op[4:], pl[0], pl[1], c["tags"].get("ncat", 2))


# ---------------------------------------------------------------------------------------------------------
# model side
def _plan(c, r):
    """[(label, op, payload)] — the questions put to the extracted model for this case"""
    op, pl, tags = c["op"], c["payload"], c["tags"]
    okres = isinstance(r, list) and len(r) == 2 and r[0] == 0
    plan = []
    if op in ("c05.history", "c05.purity"):
        alts = pl[0]
        steps = pl[1] if op == "c05.history" else [[k_, pl[1]] for k_ in pl[2]]
        for k, (dom_i, ballots) in enumerate(steps):
            dom = DOMAINS[dom_i]
            plan.append((("ref", k), "c05.%s_decide" % dom, [alts, ballots]))
            if okres and k < len(r[1]) and r[1][k][0] == 1:
                plan.append((("witness", k), "c05.%s_check" % dom, [alts, ballots, r[1][k][1]]))
        return plan
    if op == "c05.reorder":
        fam = pl[0]
        if okres and r[1][0] == 2:
            return plan
        if len(fam) <= REF_MAX - 1:
            plan.append(("ref", "c05.sets_decide", [fam]))
        if "planted" in tags:
            plan.append(("planted", "c05.sets_check", [fam, tags["planted"]]))
        if okres:
            # exact agreement with the mirror; by pq_reorder_sets_check (proved) an answer equal to the mirror's is
            # accepted by sets_check, so the separate witness check is only needed when the mirror is not asked
            plan.append(("mirror", "c05.pq_reorder", [r[1][2], fam]))
        return plan
    if op == "c05.matrix":
        nc, rows = pl
        if nc <= REF_MAX and not tags.get("big"):
            plan.append(("ref", "c05.c1p_decide", [nc, rows]))
        if "planted" in tags:
            plan.append(("planted", "c05.c1p_check", [nc, rows, tags["planted"]]))
        if "core" in tags:
            plan.append(("core", "c05.c1p_core", [nc, rows, tags["core"][0], tags["core"][1]]))
        if okres and r[1][0] == 1:
            plan.append(("witness", "c05.c1p_check", [nc, rows, r[1][1]]))
        return plan
    dom = op[4:]
    alts, ballots = pl
    if dom == "cimat":
        plan.append(("ref", "c05.ci_decide", [alts, ballots]))
        if okres and _cimat_shape_ok(r[1], alts, ballots):
            plan.append(("mat", "c05.c1p_decide", [len(alts), r[1][1]]))
        return plan
    dim = len(alts) if dom in CAND else (len(ballots) if dom in VOTER else 0)
    if dom in ("part", "part2") or (dim <= REF_MAX and not tags.get("big")):
        plan.append(("ref", "c05.%s_decide" % dom, [alts, ballots]))     # the partition references are polynomial
    if "planted" in tags:
        if dom == "de":
            plan.append(("planted", "c05.de_construct", [alts, ballots, tags["planted"]]))
        else:
            plan.append(("planted", "c05.%s_check" % dom, [alts, ballots, tags["planted"]]))
    if okres and r[1][0] == 1:
        plan.append(("witness", "c05.%s_check" % dom, [alts, ballots, r[1][1]]))
    return plan


def _cimat_shape_ok(val, alts, ballots):
    shape, rows = val
    return (shape == [len(ballots), len(alts)] and len(rows) == len(ballots)
            and all(len(row) == len(alts) and all(x in (0, 1) for x in row) for row in rows))


def oracle_requests(c, r):
    return [(op, pl) for _, op, pl in _plan(c, r)]


def _how(c):
    return ("in-place edits" if c["op"] == "c05.history"
            else "the earlier calls (instance untouched by the caller, returned witnesses modified by the caller)")


def judge(c, r, mres):
    if not (isinstance(r, list) and len(r) == 2 and r[0] == 0):
        txt = r
        if isinstance(r, list) and len(r) == 3 and r[0] == 1:
            txt = "".join(chr(x) for x in r[2])
        return {"kind": "exception", "reason": "implementation raised: %s" % (txt,)}
    ans = {lb: m for (lb, _, _), m in zip(_plan(c, r), mres)}
    val = r[1]
    if c["op"] in ("c05.history", "c05.purity"):
        steps = c["payload"][1] if c["op"] == "c05.history" else [[k_, c["payload"][1]] for k_ in c["payload"][2]]
        if len(val) != len(steps):
            return {"kind": "broken-correspondence", "reason": "history adapter returned %d results" % len(val)}
        for k, (dom_i, ballots) in enumerate(steps):
            dom = DOMAINS[dom_i]
            if val[k][0] != ans[("ref", k)]:
                return ("call %d (%s) on the same instance object after %s: verdict %s, verified reference "
                        "decider on the current ballots %r says %s"
                        % (k + 1, dom, _how(c), bool(val[k][0]), ballots, bool(ans[("ref", k)])))
            if val[k][0] == 1 and ans.get(("witness", k)) != 1:
                return ("call %d (%s) on the same instance object after %s: witness %r rejected by the "
                        "verified checker for the current ballots %r" % (k + 1, dom, _how(c), val[k][1], ballots))
        return None
    if c["op"] == "c05.cimat":
        if "mat" not in ans:
            return "instance_to_ci_matrix: not a 0/1 matrix of shape (ballots, alternatives): %r" % (val,)
        if ans["mat"] != ans["ref"]:
            return ("instance_to_ci_matrix: consecutive-ones property of the matrix is %s but the instance is %s"
                    "candidate interval" % (bool(ans["mat"]), "" if ans["ref"] else "not "))
        return None
    v = val[0]
    if c["op"] == "c05.reorder" and v == 2:
        return None
    what = {"c05.matrix": "solve_consecutive_ones", "c05.reorder": "reorder_sets"}.get(c["op"], c["op"][4:])
    if "ref" in ans and v != ans["ref"]:
        return "%s verdict %s, verified reference decider says %s" % (what, bool(v), bool(ans["ref"]))
    if "planted" in ans:
        if ans["planted"] != 1:
            return {"kind": "broken-correspondence", "reason": "generator bug: planted witness rejected by the checker"}
        if v != 1:
            return "%s verdict False although the planted witness is accepted by the verified checker" % what
    if "core" in ans:
        if ans["core"] != 1:
            return {"kind": "broken-correspondence", "reason": "generator bug: embedded core not refuted by the model"}
        if v != 0:
            return "%s verdict True although the matrix contains a submatrix refuted by the verified reference" % what
    if "mirror" in ans:
        # the mirrored algorithm (Model/PQTree.v) is deterministic given the element order: exact agreement
        mir = ans["mirror"]
        if v == 1 and mir != [0, val[1]]:
            return {"kind": "mismatch", "theorem": "Model/PQTree.v pq_reorder (mirror)",
                    "reason": "reorder_sets returned %r, the mirrored PQ-tree algorithm %r (element order %r)"
                              % (val[1], mir, val[2])}
        if v == 0 and mir != [1, 3]:
            return {"kind": "mismatch", "theorem": "Model/PQTree.v pq_reorder (mirror)",
                    "reason": "reorder_sets raised ValueError, the mirrored PQ-tree algorithm answers %r (element order %r)"
                              % (mir, val[2])}
    if v == 1 and "mirror" not in ans and ans.get("witness") != 1:
        return "%s returned a witness that the verified checker rejects: %r" % (what, val[1])
    if c["op"] == "c05.matrix":
        for name, iv in (("list", val[2]), ("ndarray", val[3])):
            if iv == -1:
                continue
            if "ref" in ans and iv != ans["ref"]:
                return "isC1P(%s) verdict %s, verified reference decider says %s" % (name, bool(iv), bool(ans["ref"]))
            if ans.get("core") == 1 and iv != 0:
                return "isC1P(%s) True although the matrix contains a submatrix refuted by the verified reference" % name
            if ans.get("planted") == 1 and iv != 1:
                return "isC1P(%s) False although the planted column order is accepted by the verified checker" % name
            if iv != v:
                # solve_consecutive_ones' verdict is certified (witness) or refuted (reference / agreement)
                if v == 1:
                    return "isC1P(%s) False although solve_consecutive_ones' column order passes the verified checker" % name
                if "ref" not in ans:
                    return "isC1P(%s) True, solve_consecutive_ones False on the same matrix (no reference at this size)" % name
    return None


def _rows_of(c):
    if c["op"] == "c05.purity":
        alts, ballots = c["payload"][0], c["payload"][1]
        return len(alts), [[int(a in b) for a in alts] for b in ballots]
    if c["op"] == "c05.history":
        alts, steps = c["payload"]
        return len(alts), [[int(a in b) for a in alts] for b in steps[-1][1]]
    if c["op"] == "c05.reorder":
        fam = c["payload"][0]
        nr = 1 + max([i for k in fam for i in k], default=-1)
        return len(fam), [[int(i in k) for k in fam] for i in range(nr)]
    if c["op"] == "c05.matrix":
        return c["payload"][0], c["payload"][1]
    alts, ballots = c["payload"]
    return len(alts), [[int(a in b) for a in alts] for b in ballots]


def nontrivial(c, r, m):
    nc, rows = _rows_of(c)
    return nc >= 3 and any(sum(row) >= 2 and sum(row) < len(row) for row in rows)


def _distinct_cols(c):
    if c["op"] == "c05.purity":
        alts, ballots = c["payload"][0], c["payload"][1]
        return len({tuple(a in b for b in ballots) for a in alts})
    if c["op"] == "c05.history":
        alts, steps = c["payload"]
        return len({tuple(a in b for b in steps[-1][1]) for a in alts})
    if c["op"] == "c05.reorder":
        return len(c["payload"][0])
    if c["op"] == "c05.matrix":
        nc, rows = c["payload"]
        return len({tuple(r[j] for r in rows) for j in range(nc)})
    alts, ballots = c["payload"]
    if c["op"][4:] in VOTER:
        return len({tuple(sorted(b)) for b in ballots})
    return len({tuple(a in b for b in ballots) for a in alts})


def stats(c, r, m):
    v = r[1][0] if (isinstance(r, list) and len(r) == 2 and r[0] == 0) else "exc"
    tags = c["tags"]
    ref = "ref" if any(lb == "ref" for lb, _, _ in _plan(c, r)) else (
        "planted" if "planted" in tags else ("refuted-core" if "core" in tags else "witness-only"))
    if c["op"] == "c05.purity":
        return ["purity calls=%d" % len(c["payload"][2]),
                "purity npids=%s multrev=%s recompute=%s" % (tags.get("npids", 0), tags.get("multrev", 0), tags.get("recompute", 0))]
    if c["op"] == "c05.history":
        out_ = ["history calls=%d" % len(c["payload"][1])]
        if isinstance(v, list) or v == "exc":
            pass
        if isinstance(r, list) and len(r) == 2 and r[0] == 0:
            prev = None
            for (dom_i, _b), res in zip(c["payload"][1], r[1]):
                out_.append("history %s verdict=%s" % (DOMAINS[dom_i], res[0]))
                if prev is not None and prev != res[0]:
                    out_.append("history verdict changes between consecutive calls")
                prev = res[0]
        return out_
    if c["op"] == "c05.reorder":
        nf = len(c["payload"][0])
        el = r[1][2] if (isinstance(r, list) and len(r) == 2 and r[0] == 0 and len(r[1]) == 3) else []
        return ["reorder_sets verdict=%s" % v, "reorder_sets %s" % ref,
                "reorder_sets element order %s" % ("ascending" if el == sorted(el) else "NOT ascending"),
                "reorder_sets mirror compared (exact)",
                "reorder_sets family size %s" % (nf if nf < 5 else ("5-7" if nf <= 7 else ">=8"))]
    if c["op"] == "c05.matrix":
        nc, rows = c["payload"]
        size = "big" if tags.get("big") else "%dx%d" % (len(rows), nc) if tags.get("exh") else "rand<=6x7"
        return ["matrix %s verdict=%s" % (tags.get("gen") or ("exh" if tags.get("exh") else "?"), v),
                "matrix size %s" % size, "matrix %s" % ref,
                "matrix distinct columns %s verdict=%s" % (">=5" if _distinct_cols(c) >= 5 else "<5", v)]
    dom = c["op"][4:]
    size = "big" if tags.get("big") else ("exh" if tags.get("exh") else "rand")
    if dom == "cimat":
        return ["cimat %s ci=%s" % (size, m[0] if m else "?")]
    return ["%s %s verdict=%s" % (dom, size, v), "%s %s" % (dom, ref),
            "%s distinct columns %s" % (dom, ">=5" if _distinct_cols(c) >= 5 else "<5")]


def describe(c):
    if c["op"] == "c05.purity":
        pl = c["payload"]
        return {"call": "first another instance is built and asked (same process), then ONE CategoricalInstance object is "
                        "asked by the listed recognisers in this order; every returned witness is modified in place by the "
                        "caller; the instance must stay unchanged and every answer is judged on the original profile",
                "alternatives_name keys": pl[0], "approval sets": pl[1], "calls": [DOMAINS[k_] for k_ in pl[2]],
                "instance asked before": {"alternatives": pl[3][0], "approval sets": pl[3][1], "calls": [DOMAINS[k_] for k_ in pl[3][2]]},
                "variants": {k_: c["tags"].get(k_, 0) for k_ in ("ncat", "npids", "multrev", "recompute")}}
    if c["op"] == "c05.history":
        return {"call": "one CategoricalInstance object; before each call instance.preferences is edited in place to "
                        "the listed approval sets (same number of ballots)",
                "alternatives_name keys": c["payload"][0],
                "calls": [[DOMAINS[d], b] for d, b in c["payload"][1]], "categories": c["tags"].get("ncat", 2)}
    if c["op"] == "c05.reorder":
        return {"call": "reorder_sets(%s of tuples)" % ("list" if c["tags"].get("form", 0) == 0 else "dict keys"),
                "sets": c["payload"][0]}
    if c["op"] == "c05.matrix":
        return {"call": "solve_consecutive_ones(np.array(rows)) and isC1P(rows)", "num_cols": c["payload"][0],
                "rows": c["payload"][1]}
    return {"call": c["op"][4:], "alternatives_name keys": c["payload"][0],
            "approval sets (vote[0] of instance.preferences)": c["payload"][1],
            "categories": c["tags"].get("ncat", 2)}


def shrink(c):
    tags = {k: v for k, v in c["tags"].items() if k not in ("planted", "exh", "core")}
    if c["op"] == "c05.purity":
        alts, ballots, calls, pre = c["payload"]
        ptags = c["tags"]
        for k in range(len(calls)):
            if len(calls) > 1:
                yield dict(c, payload=[alts, ballots, calls[:k] + calls[k + 1:], pre], tags=ptags)
        yield dict(c, payload=[alts, ballots, calls, [[], [], []]], tags=ptags)
        for j in range(len(ballots)):
            if len(ballots) > 1:
                yield dict(c, payload=[alts, ballots[:j] + ballots[j + 1:], calls, pre], tags=ptags)
        for a in alts:
            yield dict(c, payload=[[x for x in alts if x != a], [[x for x in b if x != a] for b in ballots], calls, pre], tags=ptags)
        return
    if c["op"] == "c05.history":
        alts, steps = c["payload"]
        for k in range(len(steps)):
            if len(steps) > 1:
                yield dict(c, payload=[alts, steps[:k] + steps[k + 1:]], tags=tags)
        n = len(steps[0][1])
        for j in range(n):
            if n > 1:
                yield dict(c, payload=[alts, [[d, b[:j] + b[j + 1:]] for d, b in steps]], tags=tags)
        for a in alts:
            yield dict(c, payload=[[x for x in alts if x != a],
                                   [[d, [[x for x in bb if x != a] for bb in b]] for d, b in steps]], tags=tags)
        return
    if c["op"] == "c05.reorder":
        fam = c["payload"][0]
        for i in range(len(fam)):
            if len(fam) > 1:
                yield dict(c, payload=[fam[:i] + fam[i + 1:]], tags=tags)
        elems = sorted({x for k in fam for x in k})
        for x in elems:
            new = []
            for k in fam:
                k2 = [y for y in k if y != x]
                if k2 not in new:
                    new.append(k2)
            yield dict(c, payload=[new], tags=tags)
        return
    if c["op"] == "c05.matrix":
        nc, rows = c["payload"]
        for i in range(len(rows)):
            if len(rows) > 1:
                yield dict(c, payload=[nc, rows[:i] + rows[i + 1:]], tags=tags)
        for j in range(nc):
            if nc > 1:
                yield dict(c, payload=[nc - 1, [r[:j] + r[j + 1:] for r in rows]], tags=tags)
        return
    alts, ballots = c["payload"]
    for i in range(len(ballots)):
        if len(ballots) > 1:
            yield dict(c, payload=[alts, ballots[:i] + ballots[i + 1:]], tags=tags)
    for a in alts:
        yield dict(c, payload=[[x for x in alts if x != a], [[x for x in b if x != a] for b in ballots]], tags=tags)
    for i, b in enumerate(ballots):
        for a in b:
            yield dict(c, payload=[alts, ballots[:i] + [[x for x in b if x != a]] + ballots[i + 1:]], tags=tags)


THEOREMS_FOR_OP = {
    "c05.matrix": "c1p_decide_correct, c1p_check_correct", "c05.cimat": "ci_reduction",
    "c05.purity": "X_decide_correct, X_check_correct (every call judged on the original profile; instance unchanged)",
    "c05.history": "X_decide_correct, X_check_correct (each call judged on the current ballots)",
    "c05.reorder": "sets_decide_correct, sets_check_correct (reorder_contract -> solve_model_correct, isC1P_model_correct)",
    "c05.ci": "ci_decide_correct, ci_check_correct", "c05.cei": "cei_decide_correct, cei_check_correct",
    "c05.vi": "vi_decide_correct, vi_check_correct", "c05.vei": "vei_decide_correct, vei_check_correct",
    "c05.wsc": "wsc_decide_correct, wsc_check_correct", "c05.de": "de_decide_correct, de_check_correct, de_iff_ci",
    "c05.part": "part_correct, part_check_correct", "c05.part2": "two_part_correct, part2_check_correct",
}
