(* Model/Scoring.v — mirror model of the scoring rules of preflibtools/aggregation/singlewinner.py
   (plurality, veto, k-approval, Borda, Copeland, approval, satisfaction approval), of the decorator guards
   (properties/decorators.py), of is_approval / is_complete / smallest_ballot (properties/basic.py) and of
   borda_scores / copeland_scores (properties/pairwisecomparisons.py) as far as the winners need them.  (C06)
   Executable definitions only; proofs are in Proofs/Scoring.v.

   Conventions.  An instance is the part of an OrdinalInstance the rules read:
     dt     = instance.data_type                    n_alt = instance.num_alternatives (header field)
     alts   = list(instance.alternatives_name)      n_vot = instance.num_voters       (header field)
     prof   = list(instance.multiplicity.items())   (insertion order)
   instance.orders is list(instance.multiplicity) (the parser / append_* invariant, theorem of C02), so
   "for order in instance.orders: multiplicity[order]" is the same iteration as ".items()".
   A score table (defaultdict(lambda: 0)) is an association list in insertion order; `scores[a] += s` is tbl_add.
   The sequence of dict updates of "for order, mult in items: for a in ...: scores[a] += w" is written as the
   list of events (a, w) in the order the code performs them, folded with tbl_add.
   Not modelled: IndexError on an order without any class / on an empty class (`order[0]`, `x[0]`); such
   orders are excluded by the well-formedness hypotheses. *)
From Coq Require Import List Arith NArith ZArith QArith Qcanon Bool.
From PrefVerif Require Import Lib.Val.
Import ListNotations.
Local Close Scope Qc_scope.
Local Close Scope Q_scope.

Definition order := list (list N).            (* indifference classes, best first *)
Definition profile := list (order * N).       (* multiplicity.items() *)

Inductive dtype := Soc | Soi | Toc | Toi | Cat | DOther.   (* DOther: "wmd", "tog", ... *)

Definition dtype_eqb (a b : dtype) : bool :=
  match a, b with
  | Soc, Soc | Soi, Soi | Toc, Toc | Toi, Toi | Cat, Cat | DOther, DOther => true
  | _, _ => false
  end.
Definition dt_in (d : dtype) (l : list dtype) : bool := existsb (dtype_eqb d) l.

Record inst := { dt : dtype; alts : list N; n_alt : N; n_vot : N; prof : profile }.

(* full_profile(): each order repeated by its multiplicity — used by the specifications only *)
Definition expand (p : profile) : list order :=
  flat_map (fun om => repeat (fst om) (N.to_nat (snd om))) p.

Definition memN (a : N) (l : list N) : bool := existsb (N.eqb a) l.

(* ------------------------------------------------------------------------------------------- *)
(* score tables *)
Section Table.
  Context {S : Type}.
  Variable add : S -> S -> S.
  Variable zero : S.
  Variable leb : S -> S -> bool.       (* the order used by max() (for veto: the reversed order, min()) *)

  (* scores[a] += s   on a defaultdict(lambda: 0) *)
  Fixpoint tbl_add (t : list (N * S)) (a : N) (s : S) : list (N * S) :=
    match t with
    | [] => [(a, add zero s)]
    | (b, x) :: t' => if N.eqb b a then (b, add x s) :: t' else (b, x) :: tbl_add t' a s
    end.

  Definition tbl_adds (t : list (N * S)) (evs : list (N * S)) : list (N * S) :=
    fold_left (fun t e => tbl_add t (fst e) (snd e)) evs t.

  (* max(values) by a left-to-right scan *)
  Definition best_of (x : S) (l : list S) : S :=
    fold_left (fun m y => if leb m y then y else m) l x.

  (* best = max(scores.values())  [ValueError on an empty table];  {a for a in scores if scores[a] == best} *)
  Definition tbl_winners (t : list (N * S)) : result (list N) :=
    match t with
    | [] => Err ValueErr
    | (_, x) :: t' =>
        let b := best_of x (map snd t') in
        Ok (map fst (filter (fun e => leb b (snd e) && leb (snd e) b) t))
    end.
End Table.

Definition geb (x y : N) : bool := N.leb y x.

(* ------------------------------------------------------------------------------------------- *)
(* plurality_winner *)
Definition plur_events (p : profile) : list (N * N) :=
  flat_map (fun om => map (fun a => (a, snd om)) (hd [] (fst om))) p.

Definition plurality_core (p : profile) : result (list N) :=
  tbl_winners N.leb (tbl_adds N.add 0%N [] (plur_events p)).

Definition plurality_winner (i : inst) : result (list N) :=
  if dt_in (dt i) [Soc; Toc; Soi; Toi] then plurality_core (prof i) else Err Incompatible.

(* veto_winner *)
Definition veto_events (p : profile) : list (N * N) :=
  flat_map (fun om => map (fun a => (a, snd om)) (last (fst om) [])) p.

Definition veto_winner (i : inst) : result (list N) :=
  if dt_in (dt i) [Soc; Toc] then
    tbl_winners geb (tbl_adds N.add 0%N (map (fun a => (a, 0%N)) (alts i)) (veto_events (prof i)))
  else Err Incompatible.

(* k_approval_winner:  for x in order[:k]: a = x[0]; scores[a] += mult *)
Definition class_head (c : list N) : list N := match c with a :: _ => [a] | [] => [] end.
Definition heads (k : nat) (o : order) : list N := flat_map class_head (firstn k o).

Definition kapp_events (k : nat) (p : profile) : list (N * N) :=
  flat_map (fun om => map (fun a => (a, snd om)) (heads k (fst om))) p.

Definition k_approval_winner (i : inst) (k : nat) : result (list N) :=
  if dt_in (dt i) [Soc; Soi] then
    tbl_winners N.leb (tbl_adds N.add 0%N [] (kapp_events k (prof i)))
  else Err Incompatible.

(* borda_scores:  i = num_alternatives; for class: i -= len(class); for alt in class: res[alt] += i * mult *)
Fixpoint borda_ev (i : Z) (k : N) (o : order) : list (N * Z) :=
  match o with
  | [] => []
  | c :: r => let i' := (i - Z.of_nat (length c))%Z in
              map (fun a => (a, (i' * Z.of_N k)%Z)) c ++ borda_ev i' k r
  end.

Definition borda_events (m : N) (p : profile) : list (N * Z) :=
  flat_map (fun om => borda_ev (Z.of_N m) (snd om) (fst om)) p.

Definition borda_scores (i : inst) : result (list (N * Z)) :=
  if dt_in (dt i) [Toc; Soc] then Ok (tbl_adds Z.add 0%Z [] (borda_events (n_alt i) (prof i)))
  else Err Incompatible.

Definition borda_winner (i : inst) : result (list N) :=
  if dt_in (dt i) [Soc; Toc] then rbind (borda_scores i) (tbl_winners Z.leb) else Err Incompatible.

(* copeland_scores: nested dict  scores[alt][a]  over alternatives_name *)
Definition ctable := list (N * list (N * Z)).

Definition cop_init (al : list N) : ctable :=
  map (fun a => (a, map (fun b => (b, 0%Z)) (filter (fun b => negb (N.eqb b a)) al))) al.

(* scores[w][b] += d   (KeyError when the entry is absent is not modelled: wf instances only) *)
Definition cop_add (t : ctable) (w b : N) (d : Z) : ctable :=
  map (fun xr => if N.eqb (fst xr) w
                 then (fst xr, map (fun yz => if N.eqb (fst yz) b then (fst yz, (snd yz + d)%Z) else yz) (snd xr))
                 else xr) t.

Fixpoint cop_order (k : Z) (before : list N) (o : order) (t : ctable) : ctable :=
  match o with
  | [] => t
  | c :: r =>
      let t' := fold_left (fun t b =>
                  fold_left (fun t w => cop_add (cop_add t w b k) b w (- k)%Z) before t) c t in
      cop_order k (before ++ c) r t'
  end.

Definition copeland_table (al : list N) (p : profile) : ctable :=
  fold_left (fun t om => cop_order (Z.of_N (snd om)) [] (fst om) t) p (cop_init al).

Definition copeland_scores (i : inst) : result ctable :=
  if dt_in (dt i) [Soc; Toc; Soi; Toi] then Ok (copeland_table (alts i) (prof i)) else Err Incompatible.

(* scores[a] = sum(1 for margin in raw_scores[a].values() if margin > 0) *)
Definition cop_wins (row : list (N * Z)) : N :=
  N.of_nat (length (filter (fun yz => (0 <? snd yz)%Z) row)).

Definition copeland_winner (i : inst) : result (list N) :=
  if dt_in (dt i) [Soc] then
    rbind (copeland_scores i) (fun raw => tbl_winners N.leb (map (fun xr => (fst xr, cop_wins (snd xr))) raw))
  else Err Incompatible.

(* ------------------------------------------------------------------------------------------- *)
(* is_approval (OrdinalInstance branch), is_complete, smallest_ballot *)
Definition ballot_size (o : order) : nat := fold_right (fun c s => length c + s) 0 o.

Definition min_list (x : nat) (l : list nat) : nat := fold_left Nat.min l x.
Definition max_list (x : nat) (l : list nat) : nat := fold_left Nat.max l x.

Definition is_complete (i : inst) : result bool :=
  if dt_in (dt i) [Toc; Soc; Toi; Soi; Cat] then
    match map (fun om => ballot_size (fst om)) (prof i) with
    | [] => Err ValueErr                        (* min([]) *)
    | x :: l => Ok (N.eqb (N.of_nat (min_list x l)) (n_alt i))
    end
  else Err Incompatible.

Definition is_approval (i : inst) : result bool :=
  if dt_in (dt i) [Toc; Soc; Toi; Soi; Cat] then
    match map (fun om => length (fst om)) (prof i) with
    | [] => Err ValueErr                        (* max([]) *)
    | x :: l => let m := max_list x l in
                if m =? 1 then Ok true
                else if m =? 2 then is_complete i
                else Ok false
    end
  else Err Incompatible.

(* @requires_approval *)
Definition requires_approval {T} (i : inst) (f : inst -> result T) : result T :=
  rbind (is_approval i) (fun b => if b then f i else Err Incompatible).

Definition approval_winner (i : inst) : result (list N) := requires_approval i plurality_winner.

(* satisfaction_approval_winner:  scores[a] += Fraction(mult, len(order[0]))  — exact, normalised rationals *)
Definition sav_weight (k : N) (c : list N) : Qc := Q2Qc (Z.of_N k # Pos.of_nat (length c))%Q.

Definition sav_events (p : profile) : list (N * Qc) :=
  flat_map (fun om => map (fun a => (a, sav_weight (snd om) (hd [] (fst om)))) (hd [] (fst om))) p.

Definition qc_leb (x y : Qc) : bool := Qle_bool x y.

Definition sav_core (p : profile) : result (list N) :=
  tbl_winners qc_leb (tbl_adds Qcplus (Q2Qc 0%Q) [] (sav_events p)).

Definition sav_winner (i : inst) : result (list N) := requires_approval i (fun i => sav_core (prof i)).

(* the SAV score table itself (numerator, denominator), for replay files only *)
Definition sav_table (p : profile) : list (N * (Z * positive)) :=
  map (fun e => (fst e, (Qnum (this (snd e)), Qden (this (snd e)))))
      (tbl_adds Qcplus (Q2Qc 0%Q) [] (sav_events p)).
