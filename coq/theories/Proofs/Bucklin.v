(* Proofs/Bucklin.v — the level loop of Model/Bucklin.v: fuel, loop invariant, majority-threshold rule (C14). *)
From Coq Require Import List Arith NArith ZArith Bool Lia Permutation.
From PrefVerif Require Import Lib.Val Model.Scoring Model.Bucklin Proofs.ScoreTable Proofs.Scoring.
Import ListNotations.

Notation totalN := (total N.add 0%N).
Notation lookupN := (lookup (S:=N) 0%N).

(* =========================================================================================== *)
(* fuel: num_alternatives is always enough, for every instance *)
Lemma level_loop_fuel : forall fuel p q m pos st,
  m <= pos + fuel -> exists t, level_loop fuel p q m pos st = Ok t.
Proof.
  induction fuel as [|f IH]; intros p q m pos st H; simpl.
  - assert (E : (pos <? m) = false) by (apply Nat.ltb_ge; lia). rewrite E, andb_false_r. eexists; reflexivity.
  - destruct ((snd st <? q)%Z && (pos <? m)); [|eexists; reflexivity]. apply IH. lia.
Qed.

Lemma level_core_fuel : forall i, level_core i <> Err OutOfFuel.
Proof.
  intros i. unfold level_core.
  destruct (level_loop_fuel (N.to_nat (n_alt i)) (prof i) (quota_of i) (N.to_nat (n_alt i)) 0 ([], (-1)%Z)) as [t Ht];
    [lia|].
  rewrite Ht. simpl. unfold tbl_winners. destruct t as [|[k x] t']; discriminate.
Qed.

Theorem fallback_fuel : forall i, fallback_winner i <> Err OutOfFuel.
Proof. intros i. unfold fallback_winner. destruct (dt_in (dt i) [Soc; Soi]); [apply level_core_fuel|discriminate]. Qed.

Theorem bucklin_fuel : forall i, bucklin_winner i <> Err OutOfFuel.
Proof. intros i. unfold bucklin_winner. destruct (dt_in (dt i) [Soc]); [apply level_core_fuel|discriminate]. Qed.

Theorem fallback_guard : forall i, dt_in (dt i) [Soc; Soi] = false -> fallback_winner i = Err Incompatible.
Proof. intros i H. unfold fallback_winner. rewrite H. reflexivity. Qed.

Theorem bucklin_guard : forall i, dt_in (dt i) [Soc] = false -> bucklin_winner i = Err Incompatible.
Proof. intros i H. unfold bucklin_winner. rewrite H. reflexivity. Qed.

(* =========================================================================================== *)
(* one round = a sequence of table updates; current_max_value = the largest table entry *)
Definition ev_at (pos : nat) (o : order) (k : N) : list (N * N) :=
  match nth_error o pos with Some (a :: _) => [(a, k)] | _ => [] end.
Definition round_events (pos : nat) (p : profile) : list (N * N) :=
  flat_map (fun om => ev_at pos (fst om) (snd om)) p.

Fixpoint tmax (t : list (N * N)) : Z :=
  match t with [] => (-1)%Z | e :: r => Z.max (Z.of_N (snd e)) (tmax r) end.

Lemma tbl_adds_app : forall (t : list (N * N)) l1 l2,
  tbl_adds N.add 0%N t (l1 ++ l2) = tbl_adds N.add 0%N (tbl_adds N.add 0%N t l1) l2.
Proof. intros. unfold tbl_adds. apply fold_left_app. Qed.

Lemma tbl_get_lookup : forall t a, tbl_get t a = lookupN t a.
Proof. reflexivity. Qed.

Lemma tmax_tbl_add : forall t a k,
  tmax (tbl_add N.add 0%N t a k) = Z.max (tmax t) (Z.of_N (lookupN (tbl_add N.add 0%N t a k) a)).
Proof.
  induction t as [|[b x] r IH]; intros a k.
  - simpl tbl_add. rewrite lookup_cons, N.eqb_refl. simpl. lia.
  - simpl tbl_add. destruct (N.eqb_spec b a) as [E|E].
    + subst b. rewrite lookup_cons, N.eqb_refl. simpl tmax. lia.
    + rewrite lookup_cons. destruct (N.eqb_spec b a); [congruence|]. simpl tmax. rewrite IH. lia.
Qed.

Lemma round_step_inv : forall pos st om,
  snd st = tmax (fst st) ->
  fst (round_step pos st om) = tbl_adds N.add 0%N (fst st) (ev_at pos (fst om) (snd om)) /\
  snd (round_step pos st om) = tmax (fst (round_step pos st om)).
Proof.
  intros pos st om H. unfold round_step, ev_at. destruct (nth_error (fst om) pos) as [[|a c]|]; simpl; try (split; [reflexivity|exact H]).
  split; [reflexivity|]. rewrite tbl_get_lookup, tmax_tbl_add, H. reflexivity.
Qed.

Lemma round_inv : forall pos p st,
  snd st = tmax (fst st) ->
  fst (round pos p st) = tbl_adds N.add 0%N (fst st) (round_events pos p) /\
  snd (round pos p st) = tmax (fst (round pos p st)).
Proof.
  intros pos p. induction p as [|om p IH]; intros st H.
  - split; [reflexivity|exact H].
  - unfold round in *. simpl fold_left. destruct (round_step_inv pos st om H) as [A B].
    destruct (IH _ B) as [C D]. split; [|exact D].
    rewrite C, A. unfold round_events. simpl flat_map. rewrite tbl_adds_app. reflexivity.
Qed.

(* the table after r rounds *)
Definition events_upto (p : profile) (r : nat) : list (N * N) := flat_map (fun j => round_events j p) (seq 0 r).
Definition table_at (p : profile) (r : nat) : list (N * N) := tbl_adds N.add 0%N [] (events_upto p r).

Lemma events_upto_S : forall p r, events_upto p (S r) = events_upto p r ++ round_events r p.
Proof. intros. unfold events_upto. rewrite seq_S, flat_map_app. simpl. rewrite app_nil_r. reflexivity. Qed.

Lemma table_at_S : forall p r st, fst st = table_at p r -> snd st = tmax (fst st) ->
  fst (round r p st) = table_at p (S r) /\ snd (round r p st) = tmax (table_at p (S r)).
Proof.
  intros p r st H1 H2. destruct (round_inv r p st H2) as [A B]. assert (E : fst (round r p st) = table_at p (S r)).
  { rewrite A, H1. unfold table_at. rewrite events_upto_S, tbl_adds_app. reflexivity. }
  split; [exact E|rewrite B, E; reflexivity].
Qed.

Definition stop (p : profile) (q : Z) (m r : nat) : Prop := (q <= tmax (table_at p r))%Z \/ m <= r.

Lemma level_loop_result : forall fuel p q m pos st,
  fst st = table_at p pos -> snd st = tmax (fst st) -> m <= pos + fuel ->
  exists R, pos <= R /\ stop p q m R /\ (forall r, pos <= r < R -> ~ stop p q m r) /\
            level_loop fuel p q m pos st = Ok (table_at p R).
Proof.
  induction fuel as [|f IH]; intros p q m pos st H1 H2 Hf.
  - exists pos. simpl. assert (E : (pos <? m) = false) by (apply Nat.ltb_ge; lia). rewrite E, andb_false_r.
    repeat split; [lia|right; lia|intros; lia|rewrite H1; reflexivity].
  - simpl. destruct ((snd st <? q)%Z && (pos <? m)) eqn:C.
    + apply andb_prop in C. destruct C as [C1 C2]. apply Z.ltb_lt in C1. apply Nat.ltb_lt in C2.
      destruct (table_at_S p pos st H1 H2) as [A B].
      destruct (IH p q m (S pos) (round pos p st) A (eq_trans B (f_equal tmax (eq_sym A)))) as [R [R1 [R2 [R3 R4]]]]; [lia|].
      exists R. repeat split; [lia|exact R2| |exact R4].
      intros r Hr. destruct (Nat.eq_dec r pos) as [->|Ne]; [|apply R3; lia].
      unfold stop. rewrite <- H1, <- H2. lia.
    + exists pos. repeat split; [lia| |intros; lia|rewrite H1; reflexivity].
      apply andb_false_iff in C. destruct C as [C|C].
      * left. apply Z.ltb_ge in C. rewrite <- H1, <- H2. exact C.
      * right. apply Nat.ltb_ge in C. exact C.
Qed.

(* =========================================================================================== *)
(* what the table holds after r rounds: top-r counts on the expanded profile *)
Definition at_pos (r : nat) (a : N) (o : order) : bool :=
  match nth_error o r with Some (x :: _) => N.eqb x a | _ => false end.

Lemma total_round : forall r p a, totalN a (round_events r p) = voters (at_pos r a) (expand p).
Proof.
  intros r p a. induction p as [|om p IH]; [reflexivity|].
  unfold round_events in *. simpl flat_map. rewrite total_app by (intros; lia).
  rewrite expand_cons, voters_app, voters_repeat, IH. f_equal.
  unfold ev_at, at_pos. destruct (nth_error (fst om) r) as [[|x c]|]; simpl; try reflexivity.
  destruct (N.eqb x a); lia.
Qed.

Lemma voters_or_disj : forall (h f g : order -> bool) P,
  (forall o, In o P -> h o = f o || g o) -> (forall o, In o P -> f o = true -> g o = true -> False) ->
  voters h P = (voters f P + voters g P)%N.
Proof.
  intros h f g P. induction P as [|o P IH]; intros H1 H2; [reflexivity|].
  change (o :: P) with ([o] ++ P). rewrite !voters_app.
  rewrite IH; [|intros o' Ho'; apply H1; right; exact Ho'|intros o' Ho'; apply (H2 o'); right; exact Ho'].
  assert (A := H1 o (or_introl eq_refl)). assert (B := H2 o (or_introl eq_refl)).
  unfold voters. simpl filter. rewrite A. destruct (f o) eqn:Ef, (g o) eqn:Eg; simpl orb; cbv iota; simpl length; try lia.

Qed.

Lemma nth_concat_strict : forall o r, strictb o = true ->
  nth_error (concat o) r = match nth_error o r with Some (x :: _) => Some x | _ => None end.
Proof.
  induction o as [|c o IH]; intros r H.
  - destruct r; reflexivity.
  - simpl in H. apply andb_prop in H. destruct H as [Hc Ho].
    destruct c as [|x [|y c']]; simpl in Hc; try discriminate.
    destruct r as [|r]; [reflexivity|]. simpl. apply IH. exact Ho.
Qed.

Lemma memN_cons : forall a x l, memN a (x :: l) = N.eqb a x || memN a l.
Proof. reflexivity. Qed.

Lemma firstn_S_mem : forall (l : list N) r a, NoDup l ->
  memN a (firstn (S r) l) = memN a (firstn r l) || (match nth_error l r with Some x => N.eqb x a | None => false end)
  /\ (memN a (firstn r l) = true -> (match nth_error l r with Some x => N.eqb x a | None => false end) = true -> False).
Proof.
  induction l as [|x l IH]; intros r a Hn.
  - destruct r; simpl; split; try reflexivity; intros; discriminate.
  - inversion Hn as [|? ? Hx Hl]; subst. destruct r as [|r].
    + simpl. unfold memN. simpl. rewrite (N.eqb_sym a x). split; [destruct (N.eqb x a); reflexivity|intros; discriminate].
    + destruct (IH r a Hl) as [A B]. change (firstn (S (S r)) (x :: l)) with (x :: firstn (S r) l).
      change (firstn (S r) (x :: l)) with (x :: firstn r l). change (nth_error (x :: l) (S r)) with (nth_error l r).
      rewrite !memN_cons. rewrite A. split; [rewrite orb_assoc; reflexivity|].
      intros H1 H2. apply orb_prop in H1. destruct H1 as [H1|H1]; [|apply B; assumption].
      apply N.eqb_eq in H1. subst a. destruct (nth_error l r) as [y|] eqn:E; [|discriminate].
      apply N.eqb_eq in H2. subst y. apply Hx. eapply nth_error_In. exact E.
Qed.

Lemma In_expand : forall p o, In o (expand p) -> exists om, In om p /\ fst om = o.
Proof.
  intros p o H. unfold expand in H. apply in_flat_map in H. destruct H as [om [H1 H2]].
  apply repeat_spec in H2. exists om. split; [exact H1|symmetry; exact H2].
Qed.

Definition strict_nodup (p : profile) : Prop :=
  forall om, In om p -> strictb (fst om) = true /\ NoDup (concat (fst om)).

Lemma total_upto : forall p r a, strict_nodup p ->
  totalN a (events_upto p r) = count_topk r (expand p) a.
Proof.
  intros p r a Hs. induction r as [|r IH].
  - unfold events_upto, count_topk, voters. simpl. rewrite filter_none; [reflexivity|]. intros; reflexivity.
  - rewrite events_upto_S, total_app by (intros; lia). rewrite IH, total_round. symmetry.
    unfold count_topk. apply voters_or_disj.
    + intros o Ho. destruct (In_expand p o Ho) as [om [H1 H2]]. subst o. destruct (Hs om H1) as [S1 S2].
      destruct (firstn_S_mem (concat (fst om)) r a S2) as [A _]. rewrite A. f_equal.
      rewrite (nth_concat_strict _ r S1). unfold at_pos. destruct (nth_error (fst om) r) as [[|x c]|]; reflexivity.
    + intros o Ho F G. destruct (In_expand p o Ho) as [om [H1 H2]]. subst o. destruct (Hs om H1) as [S1 S2].
      destruct (firstn_S_mem (concat (fst om)) r a S2) as [_ B]. apply B; [exact F|].
      rewrite (nth_concat_strict _ r S1). unfold at_pos in G. destruct (nth_error (fst om) r) as [[|x c]|]; try discriminate. exact G.
Qed.

(* keys and positivity of positive-weight event lists *)
Lemma keys_pos : forall (evs : list (N * N)) b, (forall e, In e evs -> (1 <= snd e)%N) ->
  (In b (map fst evs) <-> (0 < totalN b evs)%N).
Proof.
  induction evs as [|e r IH]; intros b H; simpl; [split; [intros []|lia]|].
  assert (Hr : forall e', In e' r -> (1 <= snd e')%N) by (intros; apply H; right; assumption).
  specialize (IH b Hr). assert (He := H e (or_introl eq_refl)).
  destruct (N.eqb_spec (fst e) b) as [E|E].
  - split; [intros _; lia|intros _; left; exact E].
  - rewrite <- IH. split; [intros [A|A]; [congruence|exact A]|intro A; right; exact A].
Qed.

Theorem pos_events_max : forall (evs : list (N * N)) (sc : N -> N) U,
  evs <> [] -> (forall e, In e evs -> (1 <= snd e)%N) -> (forall b, totalN b evs = sc b) ->
  (forall b, In b (map fst evs) -> In b U) ->
  exists w, tbl_winners N.leb (tbl_adds N.add 0%N [] evs) = Ok w /\ forall a, In a w <-> is_max sc U a.
Proof.
  intros evs sc U Hne Hpos Hsc HU.
  destruct (table_winners N.add 0%N N.leb N.add_assoc N.add_comm N.add_0_l Nleb_refl Nleb_trans Nleb_total
              [] evs (NoDup_nil _) (or_intror Hne)) as [w [Hw Hs]].
  exists w. split; [exact Hw|]. intros a. rewrite Hs, <- maximal_is_max.
  assert (Hsc' : forall b, N.add (lookupN [] b) (totalN b evs) = sc b).
  { intros b. rewrite lookup_nil, N.add_0_l. apply Hsc. }
  rewrite (maximal_ext N.leb _ sc _ (fun x => In x (map fst evs)) a Hsc') by (intros b; simpl; intuition).
  apply (maximal_superset 0%N N.leb Nleb_total sc).
  - intros b. apply In_decN.
  - destruct evs as [|e r]; [congruence|]. exists (fst e). left. reflexivity.
  - exact HU.
  - intros b Hb. apply (keys_pos evs b Hpos) in Hb. rewrite Hsc in Hb. apply N.leb_gt. exact Hb.
  - intros b Hb. rewrite (keys_pos evs b Hpos), Hsc in Hb. lia.
Qed.

(* tmax against a threshold *)
Lemma tmax_ge : forall t q, (0 <= q)%Z ->
  ((q <= tmax t)%Z <-> exists e, In e t /\ (q <= Z.of_N (snd e))%Z).
Proof.
  induction t as [|e r IH]; intros q Hq; simpl.
  - split; [lia|intros [? [[] _]]].
  - split.
    + intro H. destruct (Z_le_gt_dec q (Z.of_N (snd e))) as [L|G].
      * exists e. split; [left; reflexivity|exact L].
      * assert (H' : (q <= tmax r)%Z) by lia. apply IH in H'; [|exact Hq]. destruct H' as [e' [A B]].
        exists e'. split; [right; exact A|exact B].
    + intros [e' [[A|A] B]]; [subst; lia|]. assert (H' : (q <= tmax r)%Z) by (apply IH; [exact Hq|exists e'; split; assumption]). lia.
Qed.

(* =========================================================================================== *)
(* the majority-threshold rule *)
Definition quotaN (i : inst) : N := (n_vot i / 2 + 1)%N.
Definition reaches (P : list order) (q : N) (k : nat) : Prop := exists a, (q <= count_topk k P a)%N.
Definition count_listed (P : list order) (a : N) : N := voters (fun o => memN a (concat o)) P.
Definition wf_strict (i : inst) : Prop := all_orders strictb i = true.

Lemma wf_strict_nodup : forall i, wf_inst i -> wf_strict i -> strict_nodup (prof i).
Proof.
  intros i W S om Hom. unfold wf_strict, all_orders in S. rewrite forallb_forall in S.
  split; [apply S; exact Hom|]. destruct (wi_ord i W om Hom) as [Wo _]. apply (wo_nodup _ _ Wo).
Qed.

Lemma ev_in : forall p r e, In e (events_upto p r) ->
  exists om j c, In om p /\ j < r /\ nth_error (fst om) j = Some (fst e :: c) /\ snd e = snd om.
Proof.
  intros p r e H. unfold events_upto in H. apply in_flat_map in H. destruct H as [j [Hj H]].
  apply in_seq in Hj. unfold round_events in H. apply in_flat_map in H. destruct H as [om [Hom H]].
  unfold ev_at in H. destruct (nth_error (fst om) j) as [[|x c]|] eqn:E; try (destruct H; fail).
  destruct H as [H|[]]. subst e. exists om, j, c. repeat split; [exact Hom|lia|exact E].
Qed.

Lemma lookup_pos_in : forall (t : list (N * N)) a, lookupN t a <> 0%N ->
  exists e, In e t /\ fst e = a /\ snd e = lookupN t a.
Proof.
  intros t a H. unfold lookup in *. destruct (find (fun e => N.eqb (fst e) a) t) as [e|] eqn:F; [|congruence].
  apply find_some in F. destruct F as [F1 F2]. apply N.eqb_eq in F2. exists e. repeat split; assumption.
Qed.

Lemma table_at_lookup : forall p r a, strict_nodup p -> lookupN (table_at p r) a = count_topk r (expand p) a.
Proof.
  intros p r a Hs. unfold table_at.
  rewrite (lookup_tbl_adds N.add 0%N N.add_assoc N.add_comm N.add_0_l), lookup_nil, N.add_0_l.
  apply total_upto. exact Hs.
Qed.

Lemma stop_iff : forall p q m r, strict_nodup p -> (1 <= q)%N ->
  (stop p (Z.of_N q) m r <-> reaches (expand p) q r \/ m <= r).
Proof.
  intros p q m r Hs Hq. unfold stop, reaches. rewrite tmax_ge by lia.
  assert (Hn : NoDup (map fst (table_at p r))) by (apply nodup_tbl_adds; constructor).
  split; (intros [H|H]; [left|right; exact H]).
  - destruct H as [e [He Hle]]. exists (fst e). rewrite <- table_at_lookup by exact Hs.
    rewrite (lookup_In 0%N _ e Hn He). lia.
  - destruct H as [a Ha]. rewrite <- table_at_lookup in Ha by exact Hs.
    destruct (lookup_pos_in (table_at p r) a) as [e [E1 [E2 E3]]]; [lia|].
    exists e. split; [exact E1|rewrite E3; lia].
Qed.

Lemma count_topk_0 : forall P a, count_topk 0 P a = 0%N.
Proof. intros. unfold count_topk, voters. simpl. rewrite filter_none; [reflexivity|intros; reflexivity]. Qed.

Theorem level_core_spec : forall i, wf_inst i -> wf_strict i ->
  exists w R, level_core i = Ok w /\ 1 <= R <= length (alts i) /\
    (reaches (expand (prof i)) (quotaN i) R \/ R = length (alts i)) /\
    (forall j, 1 <= j < R -> ~ reaches (expand (prof i)) (quotaN i) j) /\
    forall a, In a w <-> is_max (count_topk R (expand (prof i))) (alts i) a.
Proof.
  intros i W S. set (p := prof i). set (m := length (alts i)). set (q := quotaN i).
  assert (Hs : strict_nodup p) by (apply wf_strict_nodup; assumption).
  assert (Hm : N.to_nat (n_alt i) = m) by (rewrite (wi_nalt i W); apply Nat2N.id).
  assert (Hm1 : 1 <= m).
  { assert (A := wf_alts_ne i W). unfold m. destruct (alts i); [congruence|simpl; lia]. }
  assert (Hq : (1 <= q)%N) by (unfold q, quotaN; generalize (n_vot i / 2)%N; intros; lia).
  unfold level_core. rewrite Hm. change (quota_of i) with (Z.of_N q). fold p.
  destruct (level_loop_result m p (Z.of_N q) m 0 ([], (-1)%Z)) as [R [R1 [R2 [R3 R4]]]];
    [reflexivity|reflexivity|lia|].
  rewrite R4. simpl rbind.
  assert (St : forall r, stop p (Z.of_N q) m r <-> reaches (expand p) q r \/ m <= r)
    by (intro r; apply stop_iff; assumption).
  assert (N0 : ~ stop p (Z.of_N q) m 0).
  { rewrite St. intros [[a Ha]|H]; [rewrite count_topk_0 in Ha|]; lia. }
  assert (HR1 : 1 <= R).
  { destruct R; [exfalso; apply N0; exact R2|lia]. }
  assert (HRm : R <= m).
  { destruct (le_lt_dec R m) as [L|G]; [exact L|]. exfalso. apply (R3 m); [lia|]. apply St. right. lia. }
  (* winners of the final table *)
  assert (Hne : events_upto p R <> []).
  { destruct R as [|R']; [lia|]. unfold events_upto. simpl seq. simpl flat_map.
    destruct p as [|om p'] eqn:Ep; [exfalso; apply (wi_ne i W); exact Ep|].
    destruct (wi_ord i W om) as [Wo _]; [fold p; rewrite Ep; left; reflexivity|].
    unfold round_events. simpl flat_map. unfold ev_at at 1.
    destruct (fst om) as [|c o'] eqn:Eo; [exfalso; apply (wo_ne _ _ Wo); reflexivity|].
    assert (Hc : c <> []).
    { assert (F := wo_cls _ _ Wo). inversion F; assumption. }
    destruct c as [|x c']; [congruence|]. simpl. discriminate. }
  destruct (pos_events_max (events_upto p R) (count_topk R (expand p)) (alts i) Hne) as [w [Hw Hs']].
  - intros e He. destruct (ev_in p R e He) as [om [j [c [A [_ [_ D]]]]]]. rewrite D. apply (wi_ord i W om A).
  - intros b. apply total_upto. exact Hs.
  - intros b Hb. apply in_map_iff in Hb. destruct Hb as [e [E He]]. subst b.
    destruct (ev_in p R e He) as [om [j [c [A [_ [B _]]]]]]. destruct (wi_ord i W om A) as [Wo _].
    apply (wo_incl _ _ Wo). apply in_concat. exists (fst e :: c). split; [eapply nth_error_In; exact B|left; reflexivity].
  - exists w, R. split; [exact Hw|]. split; [lia|]. split; [|split; [|exact Hs']].
    + apply St in R2. destruct R2 as [H|H]; [left; exact H|right; fold m; lia].
    + intros j Hj Hr. apply (R3 j); [lia|]. apply St. left. exact Hr.
Qed.

Lemma voters_ext_in : forall f g P, (forall o, In o P -> f o = g o) -> voters f P = voters g P.
Proof. intros f g P H. unfold voters. rewrite (filter_ext_in' f g P H). reflexivity. Qed.

Lemma voters_all : forall f P, (forall o, In o P -> f o = true) -> voters f P = N.of_nat (length P).
Proof. intros f P H. unfold voters. rewrite filter_all by exact H. reflexivity. Qed.

Lemma length_expand : forall p, N.of_nat (length (expand p)) = sum_mult p.
Proof.
  induction p as [|om p IH]; [reflexivity|]. rewrite expand_cons, app_length, repeat_length. simpl sum_mult.
  rewrite <- IH. lia.
Qed.

Lemma topk_full : forall i a, wf_inst i ->
  count_topk (length (alts i)) (expand (prof i)) a = count_listed (expand (prof i)) a.
Proof.
  intros i a W. unfold count_topk, count_listed. apply voters_ext_in. intros o Ho.
  destruct (In_expand _ _ Ho) as [om [H1 H2]]. subst o. destruct (wi_ord i W om H1) as [Wo _].
  rewrite firstn_all2; [reflexivity|]. apply NoDup_incl_length; [apply (wo_nodup _ _ Wo)|apply (wo_incl _ _ Wo)].
Qed.

(* fallback voting on strict, possibly truncated ballots (soc or soi) *)
Theorem fallback_spec : forall i, wf_inst i -> wf_strict i -> dt_in (dt i) [Soc; Soi] = true ->
  exists w, fallback_winner i = Ok w /\
    (forall k, 1 <= k <= length (alts i) -> reaches (expand (prof i)) (quotaN i) k ->
               (forall j, 1 <= j < k -> ~ reaches (expand (prof i)) (quotaN i) j) ->
               forall a, In a w <-> is_max (count_topk k (expand (prof i))) (alts i) a) /\
    ((forall k, 1 <= k <= length (alts i) -> ~ reaches (expand (prof i)) (quotaN i) k) ->
               forall a, In a w <-> is_max (count_listed (expand (prof i))) (alts i) a).
Proof.
  intros i W S D. unfold fallback_winner. rewrite D.
  destruct (level_core_spec i W S) as [w [R [E [HR [Hr [Hleast Hw]]]]]].
  exists w. split; [exact E|]. split.
  - intros k Hk Kr Kleast. assert (k = R).
    { destruct (lt_eq_lt_dec k R) as [[L|Eq]|G]; [|exact Eq|].
      - exfalso. apply (Hleast k); [lia|exact Kr].
      - exfalso. destruct Hr as [Hr|Hr]; [apply (Kleast R); [lia|exact Hr]|lia]. }
    subst k. exact Hw.
  - intros Hnone. destruct Hr as [Hr|Hr]; [exfalso; apply (Hnone R); [lia|exact Hr]|].
    intros a. rewrite Hw, Hr. apply is_max_ext; [|intros; reflexivity]. intros b. apply topk_full. exact W.
Qed.

(* Bucklin voting on complete strict orders (soc): some depth always reaches the quota *)
Theorem bucklin_spec : forall i, wf_inst i -> wf_strict i -> wf_complete i -> dt_in (dt i) [Soc] = true ->
  exists w k, bucklin_winner i = Ok w /\ 1 <= k <= length (alts i) /\
    reaches (expand (prof i)) (quotaN i) k /\
    (forall j, 1 <= j < k -> ~ reaches (expand (prof i)) (quotaN i) j) /\
    forall a, In a w <-> is_max (count_topk k (expand (prof i))) (alts i) a.
Proof.
  intros i W S C D. unfold bucklin_winner. rewrite D.
  destruct (level_core_spec i W S) as [w [R [E [HR [Hr [Hleast Hw]]]]]].
  exists w, R. split; [exact E|]. split; [exact HR|]. split; [|split; [exact Hleast|exact Hw]].
  destruct Hr as [Hr|Hr]; [exact Hr|]. rewrite Hr.
  assert (A := wf_alts_ne i W). destruct (alts i) as [|x al] eqn:Ea; [congruence|]. exists x.
  rewrite <- Ea. rewrite topk_full by exact W. unfold count_listed.
  rewrite voters_all.
  - rewrite length_expand. unfold quotaN. rewrite (wi_nvot i W).
    assert (P1 : (1 <= sum_mult (prof i))%N).
    { destruct (prof i) as [|om p] eqn:Ep; [exfalso; apply (wi_ne i W); exact Ep|].
      destruct (wi_ord i W om) as [_ K]; [rewrite Ep; left; reflexivity|]. simpl. lia. }
    assert (Hd : (sum_mult (prof i) / 2 < sum_mult (prof i))%N) by (apply N.div_lt; lia).
    revert Hd. generalize (sum_mult (prof i) / 2)%N. intros d Hd. lia.
  - intros o Ho. destruct (In_expand _ _ Ho) as [om [H1 H2]]. subst o. destruct (wi_ord i W om H1) as [Wo _].
    unfold wf_complete, all_orders in C. rewrite forallb_forall in C. specialize (C om H1).
    assert (P := complete_perm _ _ (wi_alts i W) (wo_nodup _ _ Wo) (wo_incl _ _ Wo) C).
    apply memN_In. eapply Permutation_in; [apply Permutation_sym; exact P|]. rewrite Ea. left. reflexivity.
Qed.

(* regrouping: the winner set depends on the expanded profile only *)
Lemma reaches_perm : forall P Q q k, Permutation P Q -> (reaches P q k <-> reaches Q q k).
Proof.
  intros P Q q k H. unfold reaches. split; intros [a Ha]; exists a.
  - unfold count_topk in *. rewrite <- (voters_perm _ P Q H). exact Ha.
  - unfold count_topk in *. rewrite (voters_perm _ P Q H). exact Ha.
Qed.

Lemma level_core_regroup : forall i i', wf_inst i -> wf_inst i' -> wf_strict i -> wf_strict i' ->
  alts i = alts i' -> Permutation (expand (prof i)) (expand (prof i')) ->
  exists w w', level_core i = Ok w /\ level_core i' = Ok w' /\ forall a, In a w <-> In a w'.
Proof.
  intros i i' W W' S S' HA HP.
  destruct (level_core_spec i W S) as [w [R [E [HR [Hr [Hl Hw]]]]]].
  destruct (level_core_spec i' W' S') as [w' [R' [E' [HR' [Hr' [Hl' Hw']]]]]].
  exists w, w'. split; [exact E|split; [exact E'|]].
  assert (Q : quotaN i = quotaN i').
  { unfold quotaN. rewrite (wi_nvot i W), (wi_nvot i' W'), <- !length_expand, (Permutation_length HP). reflexivity. }
  rewrite <- HA, <- Q in *.
  assert (RP : forall k, reaches (expand (prof i)) (quotaN i) k <-> reaches (expand (prof i')) (quotaN i) k)
    by (intro k; apply reaches_perm; exact HP).
  assert (R = R').
  { destruct (lt_eq_lt_dec R R') as [[L|Eq]|G]; [|exact Eq|].
    - exfalso. destruct Hr as [Hr|Hr]; [apply (Hl' R); [lia|apply RP; exact Hr]|lia].
    - exfalso. destruct Hr' as [Hr'|Hr']; [apply (Hl R'); [lia|apply RP; exact Hr']|lia]. }
  subst R'. intros a. rewrite Hw, Hw'. apply is_max_ext; [|intros; reflexivity].
  intros b. apply voters_perm. exact HP.
Qed.

Theorem fallback_regroup : forall i i', wf_inst i -> wf_inst i' -> wf_strict i -> wf_strict i' ->
  dt_in (dt i) [Soc; Soi] = true -> dt_in (dt i') [Soc; Soi] = true ->
  alts i = alts i' -> Permutation (expand (prof i)) (expand (prof i')) ->
  exists w w', fallback_winner i = Ok w /\ fallback_winner i' = Ok w' /\ forall a, In a w <-> In a w'.
Proof.
  intros i i' W W' S S' D D' HA HP. unfold fallback_winner. rewrite D, D'. apply level_core_regroup; assumption.
Qed.

Theorem bucklin_regroup : forall i i', wf_inst i -> wf_inst i' -> wf_strict i -> wf_strict i' ->
  dt_in (dt i) [Soc] = true -> dt_in (dt i') [Soc] = true ->
  alts i = alts i' -> Permutation (expand (prof i)) (expand (prof i')) ->
  exists w w', bucklin_winner i = Ok w /\ bucklin_winner i' = Ok w' /\ forall a, In a w <-> In a w'.
Proof.
  intros i i' W W' S S' D D' HA HP. unfold bucklin_winner. rewrite D, D'. apply level_core_regroup; assumption.
Qed.
