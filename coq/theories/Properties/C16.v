(* Properties/C16.v — parsing with autocorrect=True yields a normal form and conserves voters.
   Statements only; every proof is `exact <lemma of Proofs/Autocorrect.v>`.

   Models.  OrdIO.ord_parse au header_only m0 lines / CatIO.cat_parse au header_only m0 lines are the mirror
   models of PrefLibInstance.parse_lines + OrdinalInstance.parse / CategoricalInstance.parse on a fresh
   instance whose inherited fields are m0 (the entry points set file_name and data_type); `lines` is the list
   the entry point hands over (file.readlines() / str.splitlines()).  Model/Autocorrect.v describes the
   content of a file independently of the parsers' loops:
     body_lines lines           the lines read as ballots (from the first line that does not start with "#")
     ord_ballots / cat_ballots  (multiplicity, ballot) of every ballot line, each line read on its own
     msum eqb bs o              sum of the multiplicities of the lines of bs whose ballot is o
     total bs                   sum of all multiplicities;   distinct eqb l   first occurrences of l
     merged eqb bs              [(o, msum bs o) | o <- distinct (map snd bs)]
     raw_names prefix lines     the (id, name) entries listed by the header, in file order
     suffixed name k            name ++ "__" ++ str(k)
   Hypotheses, all explicit: the content parses without error (… = Ok i); the instance is fresh
   (alt_names m0 = []); for first occurrences the ids listed by the header are pairwise distinct
   (ids_distinct); clean content is `ord_clean` / `cat_clean`. *)
From Coq Require Import List NArith Bool String.
From PrefVerif Require Import Lib.Val Lib.Dec Lib.PyStr Model.Meta Model.Autocorrect Proofs.Autocorrect.
From PrefVerif Require Model.OrdIO Model.CatIO.
Import ListNotations.

(* ================================================================================================ *)
(* ac_merge: no ballot twice, multiplicity = sum over the lines, counts recomputed                  *)
(* ================================================================================================ *)
Theorem ac_merge_ord : forall (m0 : meta) (lines : list text) (i : OrdIO.oinst),
  OrdIO.ord_parse true false m0 lines = Ok i ->
  let bs := ord_ballots lines in
  NoDup (OrdIO.o_orders i) /\
  OrdIO.o_orders i = distinct OrdIO.order_eqb (map snd bs) /\
  (forall o, In o (OrdIO.o_orders i) <-> In o (map snd bs)) /\
  keys (OrdIO.o_mult i) = OrdIO.o_orders i /\
  OrdIO.o_mult i = merged OrdIO.order_eqb bs /\
  (forall o, OrdIO.mult_of i o = ord_lines_mult lines o) /\
  num_voters (OrdIO.o_meta i) = total bs /\
  OrdIO.o_num_unique i = N.of_nat (List.length (distinct OrdIO.order_eqb (map snd bs))) /\
  num_alternatives (OrdIO.o_meta i) = N.of_nat (List.length (alt_names (OrdIO.o_meta i))).
Proof. exact Proofs.Autocorrect.ac_merge_ord. Qed.
Print Assumptions ac_merge_ord.

Theorem ac_merge_cat : forall (m0 : meta) (lines : list text) (i : CatIO.cinst),
  CatIO.cat_parse true false m0 lines = Ok i ->
  let bs := cat_ballots lines in
  NoDup (CatIO.c_prefs i) /\
  CatIO.c_prefs i = distinct CatIO.ballot_eqb (map snd bs) /\
  (forall b, In b (CatIO.c_prefs i) <-> In b (map snd bs)) /\
  keys (CatIO.c_mult i) = CatIO.c_prefs i /\
  CatIO.c_mult i = merged CatIO.ballot_eqb bs /\
  (forall b, CatIO.mult_of (CatIO.c_mult i) b = cat_lines_mult lines b) /\
  num_voters (CatIO.c_meta i) = total bs /\
  CatIO.c_num_unique i = N.of_nat (List.length (distinct CatIO.ballot_eqb (map snd bs))) /\
  num_alternatives (CatIO.c_meta i) = N.of_nat (List.length (alt_names (CatIO.c_meta i))).
Proof. exact Proofs.Autocorrect.ac_merge_cat. Qed.
Print Assumptions ac_merge_cat.

(* what `distinct` and `msum` mean *)
Theorem distinct_spec : forall (l : list (list (list N))) ,
  NoDup (distinct OrdIO.order_eqb l) /\ (forall x, In x (distinct OrdIO.order_eqb l) <-> In x l) /\
  (NoDup l -> distinct OrdIO.order_eqb l = l).
Proof.
  exact (fun l => conj (distinct_NoDup _ order_eqb_eq l)
                       (conj (distinct_In _ order_eqb_eq l) (distinct_id _ order_eqb_eq l))).
Qed.
Print Assumptions distinct_spec.

(* the table of the independent description is the parser's table (the judge of the correspondence) *)
Theorem ord_expected_agrees : forall m0 lines i, OrdIO.ord_parse true false m0 lines = Ok i ->
  ord_expected lines = Ok (OrdIO.o_mult i, num_voters (OrdIO.o_meta i), OrdIO.o_num_unique i).
Proof. exact Proofs.Autocorrect.ord_expected_agrees. Qed.
Print Assumptions ord_expected_agrees.

Theorem cat_expected_agrees : forall m0 lines i, CatIO.cat_parse true false m0 lines = Ok i ->
  cat_expected lines = Ok (CatIO.c_mult i, num_voters (CatIO.c_meta i), CatIO.c_num_unique i).
Proof. exact Proofs.Autocorrect.cat_expected_agrees. Qed.
Print Assumptions cat_expected_agrees.

(* ================================================================================================ *)
(* ac_names_distinct  (no hypothesis on the ids: a repeated id overwrites, and the new name is       *)
(* never one of the current values; the suffix search never runs out of fuel: the parse is Ok)      *)
(* ================================================================================================ *)
Theorem ac_names_distinct_ord : forall m0 lines i, alt_names m0 = [] ->
  OrdIO.ord_parse true false m0 lines = Ok i -> NoDup (values (alt_names (OrdIO.o_meta i))).
Proof. exact Proofs.Autocorrect.ac_names_distinct_ord. Qed.
Print Assumptions ac_names_distinct_ord.

Theorem ac_names_distinct_cat : forall m0 lines i, alt_names m0 = [] ->
  CatIO.cat_parse true false m0 lines = Ok i ->
  NoDup (values (alt_names (CatIO.c_meta i))) /\ NoDup (values (CatIO.c_cat_names i)).
Proof. exact Proofs.Autocorrect.ac_names_distinct_cat. Qed.
Print Assumptions ac_names_distinct_cat.

(* the suffix search itself: never OutOfFuel, result free (re-exported from Proofs/Meta.v) *)
Theorem ac_suffix_search_total : forall au name vals resv, exists t, corrected_name au name vals resv = Ok t.
Proof. exact Proofs.Meta.corrected_name_ok. Qed.
Print Assumptions ac_suffix_search_total.

(* ================================================================================================ *)
(* ac_first_occurrence: with pairwise distinct ids the final dict lists the same ids in the same     *)
(* order; the first entry carrying a raw name keeps it, a later one gets  name ++ "__" ++ str(j),   *)
(* j >= 1, which is none of the names listed by a name line anywhere in the file (reserved_of)      *)
(* ================================================================================================ *)
Theorem ac_first_occurrence_ord : forall m0 lines i, alt_names m0 = [] ->
  ids_distinct alt_name_prefix lines = true ->
  OrdIO.ord_parse true false m0 lines = Ok i ->
  let raws := raw_names alt_name_prefix lines in
  let finals := alt_names (OrdIO.o_meta i) in
  map fst finals = map fst raws /\
  forall pre a r post, raws = pre ++ (a, r) :: post ->
    (~ In r (map snd pre) -> assoc_get N.eqb a finals = Some r) /\
    (In r (map snd pre) -> exists j, (1 <= j)%N /\ ~ In (suffixed r j) (reserved_of alt_name_prefix lines) /\
                            assoc_get N.eqb a finals = Some (suffixed r j)).
Proof. exact Proofs.Autocorrect.ac_first_occurrence_ord. Qed.
Print Assumptions ac_first_occurrence_ord.

Theorem ac_first_occurrence_cat : forall m0 lines i, alt_names m0 = [] ->
  CatIO.cat_parse true false m0 lines = Ok i ->
  (ids_distinct alt_name_prefix lines = true ->
   let raws := raw_names alt_name_prefix lines in
   let finals := alt_names (CatIO.c_meta i) in
   map fst finals = map fst raws /\
   forall pre a r post, raws = pre ++ (a, r) :: post ->
     (~ In r (map snd pre) -> assoc_get N.eqb a finals = Some r) /\
     (In r (map snd pre) -> exists j, (1 <= j)%N /\ ~ In (suffixed r j) (reserved_of alt_name_prefix lines) /\
                            assoc_get N.eqb a finals = Some (suffixed r j))) /\
  (ids_distinct cat_name_prefix lines = true ->
   let raws := raw_names cat_name_prefix lines in
   let finals := CatIO.c_cat_names i in
   map fst finals = map fst raws /\
   forall pre a r post, raws = pre ++ (a, r) :: post ->
     (~ In r (map snd pre) -> assoc_get N.eqb a finals = Some r) /\
     (In r (map snd pre) -> exists j, (1 <= j)%N /\ ~ In (suffixed r j) (reserved_of cat_name_prefix lines) /\
                            assoc_get N.eqb a finals = Some (suffixed r j))).
Proof. exact Proofs.Autocorrect.ac_first_occurrence_cat. Qed.
Print Assumptions ac_first_occurrence_cat.

(* every name listed by the header is among the reserved names, so a generated name is never a raw name *)
Theorem raw_names_reserved : forall prefix lines r,
  In r (map snd (raw_names prefix lines)) -> In r (reserved_of prefix lines).
Proof. exact Proofs.Autocorrect.raws_reserved. Qed.
Print Assumptions raw_names_reserved.

(* the hypothesis on the ids cannot be dropped: a header that lists the SAME id twice with the same name
   renames that alternative (the dict entry is overwritten by X__1), so no entry keeps the raw name X *)
Theorem ac_first_occurrence_dup_id_refuted :
  exists m0 lines i, alt_names m0 = [] /\ OrdIO.ord_parse true false m0 lines = Ok i /\
    alt_names (OrdIO.o_meta i) = [(1%N, lit "X__1")] /\
    ~ (let raws := raw_names alt_name_prefix lines in
       let finals := alt_names (OrdIO.o_meta i) in
       map fst finals = map fst raws /\
       forall pre a r post, raws = pre ++ (a, r) :: post ->
         (~ In r (map snd pre) -> assoc_get N.eqb a finals = Some r) /\
         (In r (map snd pre) -> exists j, (1 <= j)%N /\ ~ In (suffixed r j) (reserved_of alt_name_prefix lines) /\
                            assoc_get N.eqb a finals = Some (suffixed r j))).
Proof. exact Proofs.Autocorrect.ac_first_occurrence_dup_id_refuted. Qed.
Print Assumptions ac_first_occurrence_dup_id_refuted.

(* residual of fix c799e63: the names of the file are reserved by PrefLibInstance.parse_lines; the header loop of
   OrdinalInstance.parse run on its own (reserved_names empty, i.e. a caller that invokes
   instance.parse(lines, autocorrect=True) directly instead of parse_lines / parse_file / parse_str) still
   renames the first alternative carrying the name X__1.  The entry points are covered by the theorems above. *)
Theorem ac_direct_parse_refuted :
  exists lines m nu rest,
    OrdIO.header_loop true (meta0 (lit "soc"), 0%N) lines = Ok ((m, nu), rest) /\
    raw_names alt_name_prefix lines = [(1, lit "X"); (2, lit "X"); (3, lit "X__1")]%N /\
    alt_names m = [(1, lit "X"); (2, lit "X__1"); (3, lit "X__1__1")]%N.
Proof. exact Proofs.Autocorrect.ac_direct_parse_refuted. Qed.
Print Assumptions ac_direct_parse_refuted.

(* ================================================================================================ *)
(* ac_clean_noop: on clean content (no raw name listed twice, no ballot on two lines, header counts   *)
(* equal to the recomputed ones) both flags give the same result - instance or error - up to the      *)
(* bookkeeping field `reserved` (reserved_names), which only autocorrect=True fills                   *)
(* ================================================================================================ *)
Theorem ac_clean_noop_ord : forall m0 lines, alt_names m0 = [] -> ord_clean m0 lines = true ->
  rmap forget_reserved_o (OrdIO.ord_parse true false m0 lines)
  = rmap forget_reserved_o (OrdIO.ord_parse false false m0 lines).
Proof. exact Proofs.Autocorrect.ac_clean_noop_ord. Qed.
Print Assumptions ac_clean_noop_ord.

Theorem ac_clean_noop_cat : forall m0 lines, alt_names m0 = [] -> cat_clean m0 lines = true ->
  rmap forget_reserved_c (CatIO.cat_parse true false m0 lines)
  = rmap forget_reserved_c (CatIO.cat_parse false false m0 lines).
Proof. exact Proofs.Autocorrect.ac_clean_noop_cat. Qed.
Print Assumptions ac_clean_noop_cat.

(* ================================================================================================ *)
(* the checks of sanity.py that autocorrect is meant to satisfy, on the autocorrected instance:      *)
(* sanity.orders / sanity.categories: len(ballots) = len(multiplicity); num_voters = sum(multiplicity *)
(* .values()); unique count = len(ballots); len(set(ballots)) = len(ballots);  sanity.metadata:       *)
(* num_alternatives = len(alternatives_name); len(set(names)) = num_alternatives                      *)
(* ================================================================================================ *)
Theorem ac_sanity_ord : forall m0 lines i, alt_names m0 = [] -> OrdIO.ord_parse true false m0 lines = Ok i ->
  List.length (OrdIO.o_orders i) = List.length (OrdIO.o_mult i) /\
  num_voters (OrdIO.o_meta i) = sum_N (values (OrdIO.o_mult i)) /\
  OrdIO.o_num_unique i = N.of_nat (List.length (OrdIO.o_orders i)) /\
  NoDup (OrdIO.o_orders i) /\
  num_alternatives (OrdIO.o_meta i) = N.of_nat (List.length (alt_names (OrdIO.o_meta i))) /\
  NoDup (values (alt_names (OrdIO.o_meta i))).
Proof. exact Proofs.Autocorrect.ac_sanity_ord. Qed.
Print Assumptions ac_sanity_ord.

Theorem ac_sanity_cat : forall m0 lines i, alt_names m0 = [] -> CatIO.cat_parse true false m0 lines = Ok i ->
  List.length (CatIO.c_prefs i) = List.length (CatIO.c_mult i) /\
  num_voters (CatIO.c_meta i) = sum_N (values (CatIO.c_mult i)) /\
  CatIO.c_num_unique i = N.of_nat (List.length (CatIO.c_prefs i)) /\
  NoDup (CatIO.c_prefs i) /\
  num_alternatives (CatIO.c_meta i) = N.of_nat (List.length (alt_names (CatIO.c_meta i))) /\
  NoDup (values (alt_names (CatIO.c_meta i))) /\
  NoDup (values (CatIO.c_cat_names i)).
Proof. exact Proofs.Autocorrect.ac_sanity_cat. Qed.
Print Assumptions ac_sanity_cat.

(* ================================================================================================ *)
(* non-vacuity                                                                                      *)
(* ================================================================================================ *)
Definition dirty_ord : list text :=
  [lit "# NUMBER VOTERS: 99"; lit "# NUMBER UNIQUE ORDERS: 7";
   lit "# ALTERNATIVE NAME 1: X"; lit "# ALTERNATIVE NAME 2: X";
   lit "# ALTERNATIVE NAME 3: X__1"; lit "# ALTERNATIVE NAME 4: X__1";
   lit "2: 1,2"; lit "3: 1, 2"; lit "1: 2,1"].

Example dirty_ord_parses :
  rmap (fun i => (alt_names (OrdIO.o_meta i), OrdIO.o_orders i, OrdIO.o_mult i, num_voters (OrdIO.o_meta i),
                  OrdIO.o_num_unique i, num_alternatives (OrdIO.o_meta i)))
       (OrdIO.ord_parse true false (meta0 (lit "soc")) dirty_ord)
  = Ok ([(1, lit "X"); (2, lit "X__2"); (3, lit "X__1"); (4, lit "X__1__1")]%N,
        [[[1]; [2]]; [[2]; [1]]]%N, [([[1]; [2]], 5); ([[2]; [1]], 1)]%N, 6%N, 2%N, 4%N).
Proof. vm_compute. reflexivity. Qed.

Example dirty_ord_hypotheses :
  alt_names (meta0 (lit "soc")) = [] /\ ids_distinct alt_name_prefix dirty_ord = true /\
  ord_clean (meta0 (lit "soc")) dirty_ord = false /\
  map fst (ord_ballots dirty_ord) = [2; 3; 1]%N.
Proof. vm_compute. repeat split. Qed.

Definition dirty_cat : list text :=
  [lit "# NUMBER VOTERS: 1"; lit "# NUMBER CATEGORIES: 4";
   lit "# CATEGORY NAME 1: X"; lit "# CATEGORY NAME 2: X"; lit "# CATEGORY NAME 3: X__1"; lit "# CATEGORY NAME 4: X__1";
   lit "# ALTERNATIVE NAME 1: X"; lit "# ALTERNATIVE NAME 2: X"; lit "# ALTERNATIVE NAME 3: X__1";
   lit "2: 1, {2, 3}, {}, {}"; lit "5:1,{2,3},{},{}"; lit "1: {}, {}, {}, {1, 2, 3}"].

Example dirty_cat_parses :
  rmap (fun i => (alt_names (CatIO.c_meta i), CatIO.c_cat_names i, CatIO.c_mult i, num_voters (CatIO.c_meta i),
                  CatIO.c_num_unique i, num_alternatives (CatIO.c_meta i)))
       (CatIO.cat_parse true false (meta0 (lit "cat")) dirty_cat)
  = Ok ([(1, lit "X"); (2, lit "X__2"); (3, lit "X__1")]%N,
        [(1, lit "X"); (2, lit "X__2"); (3, lit "X__1"); (4, lit "X__1__1")]%N,
        [([[1]; [2; 3]; []; []], 7); ([[]; []; []; [1; 2; 3]], 1)]%N, 8%N, 2%N, 3%N).
Proof. vm_compute. reflexivity. Qed.

Example dirty_cat_hypotheses :
  ids_distinct alt_name_prefix dirty_cat = true /\ ids_distinct cat_name_prefix dirty_cat = true /\
  cat_clean (meta0 (lit "cat")) dirty_cat = false.
Proof. vm_compute. repeat split. Qed.

Definition clean_ord : list text :=
  [lit "# TITLE: t"; lit "# NUMBER ALTERNATIVES: 3"; lit "# NUMBER VOTERS: 7"; lit "# NUMBER UNIQUE ORDERS: 2";
   lit "# ALTERNATIVE NAME 1: X"; lit "# ALTERNATIVE NAME 2: X__1"; lit "# ALTERNATIVE NAME 3: ";
   lit "5: 1,{2,3}"; lit "2: 3,2,1"].

Example clean_ord_is_clean :
  ord_clean (meta0 (lit "toc")) clean_ord = true /\
  is_ok (OrdIO.ord_parse true false (meta0 (lit "toc")) clean_ord) = true /\
  List.length (ord_ballots clean_ord) = 2.
Proof. vm_compute. repeat split. Qed.

Definition clean_cat : list text :=
  [lit "# NUMBER ALTERNATIVES: 2"; lit "# NUMBER VOTERS: 4"; lit "# NUMBER UNIQUE PREFERENCES: 2";
   lit "# NUMBER CATEGORIES: 2"; lit "# CATEGORY NAME 1: X"; lit "# CATEGORY NAME 2: X__1";
   lit "# ALTERNATIVE NAME 1: X"; lit "# ALTERNATIVE NAME 2: Y";
   lit "3: 1, 2"; lit "1: {1, 2}, {}"].

Example clean_cat_is_clean :
  cat_clean (meta0 (lit "cat")) clean_cat = true /\
  is_ok (CatIO.cat_parse true false (meta0 (lit "cat")) clean_cat) = true /\
  List.length (cat_ballots clean_cat) = 2.
Proof. vm_compute. repeat split. Qed.
